"""C08, booking part: bookingpb.ModelServer's ListBookings / PullBookings with a booking_intersects period.

spec/Booking.tla is model-checked (fold of every stream = the filtered list, the property text's delivery table as
an action property, boundary lemmas about Intersects), then prints programs of RPC-level steps; harness 'bookingx'
runs them on the real ModelServer with fake PullBookings streams and logs one line per step; spec/BookingTrace.tla
evaluates the C08 clauses on every line.  Called from c08.py.
"""
import collections

import vf

T, NIDS, MAXSUBS = 3, 3, 3


def consts(**kw):
    c = {"T": T, "NIds": NIDS, "MaxSubs": MAXSUBS, "NCases": 0, "MaxSteps": 0, "Scope": 1}
    c.update(kw)
    return c


def run(ctx):
    thorough = ctx.tier == "thorough"
    # 1. MC: store x subscribers; times 0..2 hold every boundary relation of two periods (touching at either end,
    #    empty, inverted, open on either / both sides)
    mcs = [dict(T=2, NIds=1, MaxSubs=1, Scope=1)]
    if thorough:
        mcs = [dict(T=2, NIds=1, MaxSubs=1, Scope=2), dict(T=1, NIds=1, MaxSubs=2, Scope=2),
               dict(T=1, NIds=2, MaxSubs=1, Scope=1), dict(T=2, NIds=2, MaxSubs=1, Scope=1)]
    for m in mcs:
        ctx.mc("Booking", "BookingMC.cfg", consts=consts(**m), workers=vf.NCPU, deadlock=False, timeout=2400)
    # 2. Gen (one worker: the programs are then a function of the seed)
    gen = ctx.tlc("Booking", "BookingGen.cfg",
                  consts=consts(NCases=4000 if thorough else 600, MaxSteps=12 if thorough else 10,
                                Scope=2 if thorough else 1),
                  workers=1, deadlock=False, timeout=2400)
    cases = gen.cases()
    if len(cases) < 300:
        raise vf.Inconclusive("Booking Gen produced only %d programs\n%s" % (len(cases), gen.out[-2000:]))
    for n, c in enumerate(cases):
        c["n"] = n + 1
    maxsubs = max([MAXSUBS] + [sum(1 for s in c["steps"] if s["op"] == "open") for c in cases])
    cpath = ctx.write_ndjson("booking-cases.ndjson", cases)
    # 3. the real ModelServer
    opath = ctx.path("booking-obs.ndjson")
    ctx.run_harness(["-cases", cpath, "-out", opath], cmd="bookingx", timeout=2400)
    obs = ctx.read_ndjson(opath)
    want = sum(len(c["steps"]) for c in cases)
    if len(obs) != want and not (obs and len(obs) < want and sum(1 for o in obs if o["timeout"]) >= 8):
        # (the harness stops running programs once streams failed to settle 8 times: the lines it wrote are judged)
        raise vf.Inconclusive("bookingx logged %d steps, the programs have %d" % (len(obs), want))
    # 4. Trace: the C08 clauses, evaluated by TLC on every step
    tr = ctx.tlc("BookingTrace", "BookingTrace.cfg", consts=consts(MaxSubs=maxsubs), workers=1,
                 files={"obs.ndjson": opath}, timeout=3000)
    if not any(l.startswith('"CHECKED %d"' % len(obs)) for l in tr.out.splitlines()):
        raise vf.Inconclusive("booking trace check did not cover all %d steps:\n%s" % (len(obs), tr.out[-3000:]))
    ctx.count(len(obs))
    ctx.cov["traces_validated_against_impl"] += len(obs)
    harness_trouble = []
    for b in tr.cases("BAD "):
        o = obs[b["line"] - 1]
        for fail in b["fails"]:
            clause, sid = fail["f"], fail["sid"]
            if clause.startswith("HARNESS:"):
                harness_trouble.append((clause, o["case"], o["step"]))
                continue
            name = clause[4:]
            rpc, cls, wit = blame(o, name, sid)
            ctx.violation("C08/booking/%s/%s/%s" % (rpc, name, cls),
                          "program %d step %d (%s): clause '%s' false on what bookingpb.ModelServer did" %
                          (o["case"] + 1, o["step"], o["call"]["op"], name), wit)
    if harness_trouble and not ctx.violations:
        raise vf.Inconclusive("bookingx could not observe %d steps reliably: %s" % (len(harness_trouble), harness_trouble[:5]))
    # coverage
    shapes = collections.Counter()
    deliveries = collections.Counter()
    for o in obs:
        for s in o["streams"]:
            if s["opened"]:
                deliveries["seed" if not s["uo"] else "updates_only"] += 1
            elif o["call"]["op"] in WRITES and o["ret"] == "OK":
                kind = s["recv"][0]["type"] if s["recv"] else "nothing"
                deliveries[kind] += 1
                b = [v for v in o["after"] if v["id"] == o["call"]["id"]]
                key = (period_class(req_of(s), None), kind, relation(b[0], req_of(s)) if b else "absent")
                shapes[key] += 1
                if s["rh"]:
                    ctx.distinct(("booking", req_of(s), [v for v in o["before"] if v["id"] == o["call"]["id"]], b, s["uo"], s["rm"]))
        if o["call"]["op"] == "list":
            ctx.distinct(("booking-list", o["call"]["rh"], o["call"]["rs"], o["call"]["re"], o["call"]["rm"], o["after"]))
    uns = tr.cases("UNSETTLED ")
    ctx.cov["booking"] = {
        "programs": len(cases), "steps": len(obs),
        "stream_observations": sum(len(o["streams"]) for o in obs),
        "deliveries": dict(deliveries),
        "write_x_stream_by_(request shape, delivered, booking vs request)": len(shapes),
        "boundary_write_x_stream": sum(v for k, v in shapes.items() if k[2] in ("ends-at-request-start", "starts-at-request-end", "empty", "inverted")),
        "degenerate_pairs_not_judged": uns[0] if uns else {},
    }
    ctx.cov["notes"].append(
        "booking part: for an empty [t,t) or inverted booked/requested period pkg/time.PeriodsIntersect answers "
        "'intersects' when it lies strictly inside the other period although its doc comment ('a non-empty period "
        "enclosed by both') says otherwise; membership of such pairs is taken from the server's own ListBookings and "
        "only the List/Pull agreement is judged (%s)" % (uns[0] if uns else "none seen"))
    for o in obs[3:5] + obs[len(obs) // 2: len(obs) // 2 + 1]:
        ctx.sample({"booking_step": o})
    ctx.assumptions.append("booking part: bookingpb.Model offers no delete, so REMOVE is only exercised as 'stops matching'; "
                           "PullBookings is the model's lossy Pull (no backpressure option at the RPC): every step waits until "
                           "each open stream has settled, so no two changes are ever merged")


WRITES = ("create", "update", "checkin", "checkout")
LIST_CLAUSES = ("list-order", "list-has-unknown-booking", "list-misses-intersecting-booking",
                "list-has-non-intersecting-booking", "list-values", "list-error")


def req_of(s):
    return {"has": s["rh"], "s": s["rs"], "e": s["re"]}


def period_class(p, _):
    if not p["has"]:
        return "none"
    s, e = p["s"], p["e"]
    if s < 0 and e < 0:
        return "all-time"
    if s < 0:
        return "open-start"
    if e < 0:
        return "open-end"
    if s == e:
        return "empty"
    if s > e:
        return "inverted"
    return "closed"


def relation(v, q):
    """how a booking's booked period lies relative to the request period (input class of a signature)"""
    b = {"has": v["has"], "s": v["s"], "e": v["e"]}
    pc = period_class(b, None)
    if pc in ("none", "empty", "inverted"):
        return {"none": "no-booked-period"}.get(pc, pc)
    if not q["has"]:
        return pc
    if b["e"] >= 0 and b["e"] == q["s"]:
        return "ends-at-request-start"
    if b["s"] >= 0 and b["s"] == q["e"]:
        return "starts-at-request-end"
    return pc


def blame(o, name, sid):
    """(rpc, input class, witness) of a failed clause: sid 0 is the step's own call, otherwise the open stream"""
    is_list = name in LIST_CLAUSES
    if sid == 0:
        c = o["call"]
        q = {"has": c["rh"], "s": c["rs"], "e": c["re"]}
        if c["op"] == "list":
            return "ListBookings", "request=" + period_class(q, None), {"step": strip(o, []), "request": q}
        return {"open": "PullBookings"}.get(c["op"], c["op"]), "any", {"step": strip(o, [])}
    s = [x for x in o["streams"] if x["sid"] == sid][0]
    q = req_of(s)
    cls = "request=" + period_class(q, None)
    if name in ("start-matching-is-ADD", "stop-matching-is-REMOVE", "matching-update-is-UPDATE",
                "excluded-change-delivered"):
        cid = o["call"]["id"]
        new = [v for v in o["after"] if v["id"] == cid]
        old = [v for v in o["before"] if v["id"] == cid]
        cls += "/booked=%s->%s" % (relation(old[0], q) if old else "absent", relation(new[0], q) if new else "absent")
    elif is_list:
        rel = sorted(set(relation(v, q) for v in o["after"]
                         if relation(v, q) in ("ends-at-request-start", "starts-at-request-end", "no-booked-period")))
        if rel:
            cls += "/holds=" + "+".join(rel)
    return ("ListBookings" if is_list else "PullBookings", cls,
            {"step": strip(o, [s]), "request": q, "updates_only": s["uo"], "read_mask": s["rm"]})


def strip(o, streams):
    w = dict(o)
    w["streams"] = streams
    return w
booking_part = run
