SPECIFICATION Spec
INVARIANT NoPanic
