package main

import (
	"context"
	"encoding/json"
	"math"
	"sync"
	"time"

	"google.golang.org/protobuf/types/known/timestamppb"

	"github.com/smart-core-os/sc-api/go/traits"
	"github.com/smart-core-os/sc-golang/pkg/resource"
	"github.com/smart-core-os/sc-golang/pkg/trait/meterpb"
	"github.com/smart-core-os/sc-golang/verifharness/hx"
)

// ---- abstract time shared by Meter.tla and Publication.tla: whole ticks of a scripted clock ----

var tickEpoch = time.Unix(1_700_000_000, 0)

// tickClock is the scripted resource.Clock of the models whose rules mention time.  It only moves when the
// harness advances it.  arm() makes it STEPPED: the next caller of Now() takes its instant and is then held
// inside Now() until released, which lets the harness interpose another operation exactly at "the call has
// read the clock but not yet committed" (a goroutine descheduled right after reading the clock).
type tickClock struct {
	mu      sync.Mutex
	now     int
	armed   bool
	held    chan int      // receives the instant the held caller took
	release chan struct{} // closed to let the held caller go on
}

func (c *tickClock) Now() time.Time {
	c.mu.Lock()
	t := c.now
	if !c.armed {
		c.mu.Unlock()
		return concTick(t)
	}
	c.armed = false
	held, release := c.held, c.release
	c.mu.Unlock()
	held <- t
	<-release
	return concTick(t)
}
func (c *tickClock) advance(dt int) int {
	c.mu.Lock()
	defer c.mu.Unlock()
	c.now += dt
	return c.now
}
func (c *tickClock) current() int { return c.advance(0) }

// arm: the next Now() is held.  held yields the instant it took; release lets it continue.
func (c *tickClock) arm() (held <-chan int, release func()) {
	c.mu.Lock()
	defer c.mu.Unlock()
	c.armed = true
	c.held = make(chan int, 1)
	c.release = make(chan struct{})
	rel := c.release
	return c.held, func() { close(rel) }
}
func (c *tickClock) disarm() {
	c.mu.Lock()
	defer c.mu.Unlock()
	c.armed = false
}

// during runs outer in its own goroutine with the clock armed.  If outer reads the clock it is held there,
// between (given the instant it took) runs on another goroutine, then outer is released and awaited: at >= 0.
// If outer finishes without reading the clock, between is not run: at = -1.
// ok = false: outer was holding a lock between needs when it read the clock (between did not finish while
// outer was held); outer is released, both are awaited, and the caller should not judge this step.
func (c *tickClock) during(outer func(), between func(at int)) (at int, ok bool) {
	held, release := c.arm()
	done := make(chan struct{})
	go func() {
		defer close(done)
		outer()
	}()
	wait := func(ch <-chan struct{}, what string) {
		select {
		case <-ch:
		case <-time.After(30 * time.Second):
			hx.Fatal("stepped clock: %s did not finish", what)
		}
	}
	select {
	case at = <-held:
		bdone := make(chan struct{})
		go func() {
			defer close(bdone)
			between(at)
		}()
		select {
		case <-bdone:
			ok = true
		case <-time.After(3 * time.Second):
		}
		release()
		wait(bdone, "the interposed call")
		wait(done, "the held call")
		return at, ok
	case <-done:
		c.disarm()
		return -1, true
	case <-time.After(30 * time.Second):
		hx.Fatal("stepped clock: the call neither read the clock nor finished")
	}
	return -1, false
}
func concTick(t int) time.Time { return tickEpoch.Add(time.Duration(t) * time.Second) }

type optTime struct {
	Has bool `json:"has"`
	V   int  `json:"v"`
}

func optTimeOf(ts *timestamppb.Timestamp) optTime {
	if ts == nil {
		return optTime{}
	}
	d := ts.AsTime().Sub(tickEpoch)
	if d%time.Second != 0 || d < -1000*time.Second || d > 100000*time.Second {
		return optTime{Has: true, V: -7777} // not a time of the scripted clock
	}
	return optTime{Has: true, V: int(d / time.Second)}
}
func concOptTime(o optTime) *timestamppb.Timestamp {
	if !o.Has {
		return nil
	}
	return timestamppb.New(concTick(o.V))
}

// ---- Meter.tla --------------------------------------------------------------

type absReading struct {
	Usage int     `json:"usage"`
	Start optTime `json:"start"`
	End   optTime `json:"end"`
}

func absReadingOf(r *traits.MeterReading) absReading {
	u := float64(r.GetUsage())
	usage := -7777
	if u == math.Trunc(u) && math.Abs(u) < 1e6 {
		usage = int(u)
	}
	return absReading{Usage: usage, Start: optTimeOf(r.GetStartTime()), End: optTimeOf(r.GetEndTime())}
}

type meterOp struct {
	Op    string `json:"op"` // Record | Reset | RecordDuring
	Dt    int    `json:"dt"`
	V     int    `json:"v"`
	Inner string `json:"inner"` // RecordDuring: what the other client does while the recorder is held: Reset | Record | None
	V2    int    `json:"v2"`
	Dt2   int    `json:"dt2"`
}
type meterOpt struct {
	Kind string     `json:"kind"` // clock | init
	Init absReading `json:"init"`
}
type meterWalk struct {
	N   int `json:"n"`
	Cfg struct {
		Opts    []meterOpt `json:"opts"`
		HasInit bool       `json:"hasInit"`
		Init    absReading `json:"init"`
	} `json:"cfg"`
	Ops []meterOp `json:"ops"`
}
type meterObs struct {
	Model   string     `json:"model"`
	Walk    int        `json:"walk"`
	Step    int        `json:"step"`
	Op      string     `json:"op"`
	HasInit bool       `json:"hasInit"`
	Now     int        `json:"now"`
	V       int        `json:"v"`
	Conc    bool       `json:"conc"`  // the call was held at its clock read; pre = the reading when it was released, now = its instant
	Inner   string     `json:"inner"` // what was interposed while it was held
	Pre     absReading `json:"pre"`
	Post    absReading `json:"post"`
	Ret     absReading `json:"ret"`
	Opts    []meterOpt `json:"opts"` // New: the option sequence
	Seed    absReading `json:"seed"` // New: the seed value of PullMeterReadings
	Err     string     `json:"err"`
	Panic   string     `json:"panic"`
}

func init() { register("meter", runMeter) }

func meterRead(m *meterpb.Model) absReading {
	r, _ := m.GetMeterReading()
	return absReadingOf(r)
}

func runMeter(raw json.RawMessage, out *hx.Out) {
	w := decode[meterWalk](raw)
	clk := &tickClock{now: 10}
	var m *meterpb.Model
	o := meterObs{Model: "meter", Walk: w.N, Op: "New", HasInit: w.Cfg.HasInit, Now: 10, Pre: w.Cfg.Init, Err: "OK", Inner: "None", Opts: w.Cfg.Opts}
	o.Panic = hx.Catch(func() {
		var opts []resource.Option
		for _, co := range w.Cfg.Opts {
			switch co.Kind {
			case "clock":
				opts = append(opts, resource.WithClock(clk))
			case "init":
				opts = append(opts, resource.WithInitialValue(&traits.MeterReading{Usage: float32(co.Init.Usage),
					StartTime: concOptTime(co.Init.Start), EndTime: concOptTime(co.Init.End)}))
			default:
				hx.Fatal("meter: unknown option kind %q", co.Kind)
			}
		}
		m = meterpb.NewModel(opts...)
		o.Post = meterRead(m)
		seed, _ := pullSeed(func(ctx context.Context) <-chan meterpb.PullMeterReadingChange { return m.PullMeterReadings(ctx) }, 1)
		o.Seed = absReading{Usage: -7777}
		if len(seed) == 1 {
			o.Seed = absReadingOf(seed[0].Value)
		}
	})
	o.Ret = o.Post
	out.Write(o)
	if m == nil {
		return
	}
	// one atomic call = one line
	call := func(step int, op string, dt, v int) meterObs {
		o := meterObs{Model: "meter", Walk: w.N, Step: step, Op: op, HasInit: w.Cfg.HasInit, V: v, Err: "OK", Inner: "None", Opts: []meterOpt{}}
		o.Now = clk.advance(dt)
		o.Pre = meterRead(m)
		o.Panic = hx.Catch(func() {
			var res *traits.MeterReading
			var err error
			switch op {
			case "Record":
				res, err = m.RecordReading(float32(v))
			case "Reset":
				res, err = m.Reset()
			default:
				hx.Fatal("meter: unknown op %q", op)
			}
			o.Err = hx.Code(err)
			if res != nil {
				o.Ret = absReadingOf(res)
			}
		})
		o.Post = meterRead(m)
		return o
	}
	for i, op := range w.Ops {
		if op.Op != "RecordDuring" {
			out.Write(call(i+1, op.Op, op.Dt, op.V))
			continue
		}
		// RecordReading held at its clock read, another client's call in between
		o := meterObs{Model: "meter", Walk: w.N, Step: i + 1, Op: "Record", HasInit: w.Cfg.HasInit, V: op.V, Err: "OK", Inner: op.Inner, Opts: []meterOpt{}}
		clk.advance(op.Dt)
		o.Pre = meterRead(m)
		var inner []meterObs
		at, ok := clk.during(func() {
			o.Panic = hx.Catch(func() {
				res, err := m.RecordReading(float32(op.V))
				o.Err = hx.Code(err)
				if res != nil {
					o.Ret = absReadingOf(res)
				}
			})
		}, func(at int) {
			if op.Inner != "None" {
				inner = append(inner, call(i+1, op.Inner, op.Dt2, op.V2))
			}
			o.Pre = meterRead(m)
		})
		if !ok {
			continue // read the clock under a lock the other call needs: order unknown, step not judged
		}
		for _, l := range inner {
			out.Write(l)
		}
		o.Conc, o.Now = at >= 0, at
		if at < 0 { // finished without reading the clock: an ordinary line, judged against the clock as it stands
			o.Now, o.Inner = clk.current(), "None"
		}
		o.Post = meterRead(m)
		out.Write(o)
		if at < 0 && op.Inner != "None" {
			out.Write(call(i+1, op.Inner, op.Dt2, op.V2))
		}
	}
}
