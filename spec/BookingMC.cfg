INIT MCInit
NEXT MCNext
INVARIANTS FoldEqualsList Boundaries ListSorted
PROPERTY TextProp
