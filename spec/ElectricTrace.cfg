INIT TraceInit
NEXT TraceNext
INVARIANT TraceChecked
CONSTANTS
  Ids = {}
  Titles = {0, 1, 2}
  MaxNow = 0
  Dev = {}
