---------------------------- MODULE ConcMC ----------------------------
(* Model-checking / generation instances of ResourceConc.tla.  The cfg files *)
(* substitute the constants by the definitions below.                        *)
EXTENDS ResourceConc, Json

Call(op, id, v, e, chk, xa, cia, inc, am) ==
  [op |-> op, id |-> id, v |-> v, e |-> e, chk |-> chk, xa |-> xa, cia |-> cia, inc |-> inc, am |-> am]
Set(id, v)     == Call("upd", id, v, NoExp, FALSE, FALSE, FALSE, FALSE, FALSE)
Cas(id, e, v)  == Call("upd", id, v, e, FALSE, FALSE, FALSE, FALSE, FALSE)
Inc(id, d)     == Call("upd", id, d, NoExp, FALSE, FALSE, FALSE, TRUE, FALSE)
IncUp(id, d)   == Call("upd", id, d, NoExp, FALSE, FALSE, TRUE, TRUE, FALSE)
Add(id, v)     == Call("upd", id, v, NoExp, FALSE, TRUE, TRUE, FALSE, FALSE)
Upsert(id, v)  == Call("upd", id, v, NoExp, FALSE, FALSE, TRUE, FALSE, FALSE)
Chk(id, v)     == Call("upd", id, v, NoExp, TRUE, FALSE, FALSE, FALSE, FALSE)
Del(id)        == Call("del", id, 0, NoExp, FALSE, FALSE, FALSE, FALSE, FALSE)
DelExp(id, e)  == Call("del", id, 0, e, FALSE, FALSE, FALSE, FALSE, FALSE)
DelAm(id)      == Call("del", id, 0, NoExp, FALSE, FALSE, FALSE, FALSE, TRUE)

\* a Value: one id, always present
ValPrograms == { Set(1, 1), Set(1, 2), Cas(1, 0, 2), Cas(1, 1, 3), Inc(1, 1), Inc(1, 2), Chk(1, 3) }
ValStores == { [i \in {1} |-> 0], [i \in {1} |-> 1] }
\* a Value that was given no initial value: nothing is stored until the first Set, which always "creates"
\* (expected-value options are left out: against nothing they fail, which the creating path here does not say)
ChkUp(id, v)   == Call("upd", id, v, NoExp, TRUE, FALSE, TRUE, FALSE, FALSE)
Val0Programs == { Upsert(1, 1), Upsert(1, 2), IncUp(1, 1), IncUp(1, 2), ChkUp(1, 3) }
\* a Collection
CollPrograms == { Set(1, 1), Cas(1, 1, 2), Inc(1, 1), IncUp(1, 2), Add(1, 1), Add(1, 2), Upsert(1, 3), Chk(1, 2),
                  Del(1), DelExp(1, 1), DelAm(1) }
CollStores == { [i \in {1} |-> Absent], [i \in {1} |-> 1] }
Coll2Programs == CollPrograms \cup { Add(2, 1), Del(2), Inc(2, 1), Upsert(2, 2) }
Coll2Stores == { [i \in {1, 2} |-> Absent], [i \in {1, 2} |-> IF i = 1 THEN 1 ELSE Absent], [i \in {1, 2} |-> 1] }

\* fewer programs when subscribers multiply the interleavings
SubValPrograms == { Set(1, 1), Set(1, 2), Inc(1, 1), Cas(1, 0, 3) }
SubCollPrograms == { Set(1, 1), Add(1, 2), Upsert(1, 3), IncUp(1, 1), Del(1) }
\* one deleting writer and a subscription opening around it
DelPrograms == { Del(1), DelAm(1) }
PresentStore == { [i \in {1} |-> 1] }
\* with an equivalence configured: writes of the value already there, an item removed and added again as it was
EquivCollPrograms == { Set(1, 1), Upsert(1, 1), Add(1, 1), Upsert(1, 2), Del(1) }
EquivValPrograms == { Set(1, 1), Set(1, 2), Cas(1, 1, 1) }
\* the smallest setting in which a change can be both in a subscriber's snapshot and delivered to it
AttackLossyPrograms == { IncUp(1, 1), Add(1, 2), Del(1) }
AbsentStore == { [i \in {1} |-> Absent] }
KindsUo == { [uo |-> TRUE, lossy |-> FALSE, masked |-> FALSE, inc |-> FALSE, pid |-> FALSE], [uo |-> FALSE, lossy |-> FALSE, masked |-> FALSE, inc |-> FALSE, pid |-> FALSE] }
GcPrograms == { Set(1, 1), IncUp(1, 1), Upsert(1, 2) }
KindLossySeed == { [uo |-> FALSE, lossy |-> TRUE, masked |-> FALSE, inc |-> FALSE, pid |-> FALSE] }
\* two subscribers of which one has a read mask (what it is handed is a projection made for it alone)
KindsMask == { [uo |-> FALSE, lossy |-> FALSE, masked |-> TRUE, inc |-> FALSE, pid |-> FALSE], [uo |-> FALSE, lossy |-> FALSE, masked |-> FALSE, inc |-> FALSE, pid |-> FALSE],
               [uo |-> TRUE, lossy |-> FALSE, masked |-> TRUE, inc |-> FALSE, pid |-> FALSE] }
\* two subscribers of which one may carry an include predicate ("the value is odd")
KindsInc == { [uo |-> FALSE, lossy |-> FALSE, masked |-> FALSE, inc |-> TRUE, pid |-> FALSE], [uo |-> FALSE, lossy |-> FALSE, masked |-> FALSE, inc |-> FALSE, pid |-> FALSE],
              [uo |-> TRUE, lossy |-> FALSE, masked |-> FALSE, inc |-> TRUE, pid |-> FALSE] }
IncStores == { [i \in {1} |-> Absent], [i \in {1} |-> 1], [i \in {1} |-> 2] }
IncPrograms == { Set(1, 1), Set(1, 2), Upsert(1, 3), IncUp(1, 1), Del(1) }
\* single-item subscriptions (Collection.PullID) on the one-id collection, with programs that never remove the
\* item: there they are the plain subscription of the model (the harness opens them with PullID)
KindsPid == { [uo |-> FALSE, lossy |-> FALSE, masked |-> FALSE, inc |-> FALSE, pid |-> TRUE],
              [uo |-> TRUE, lossy |-> FALSE, masked |-> FALSE, inc |-> FALSE, pid |-> TRUE] }
Kinds == { [uo |-> FALSE, lossy |-> FALSE, masked |-> FALSE, inc |-> FALSE, pid |-> FALSE], [uo |-> TRUE, lossy |-> FALSE, masked |-> FALSE, inc |-> FALSE, pid |-> FALSE] }
KindsLossy == { [uo |-> FALSE, lossy |-> TRUE, masked |-> FALSE, inc |-> FALSE, pid |-> FALSE], [uo |-> TRUE, lossy |-> TRUE, masked |-> FALSE, inc |-> FALSE, pid |-> FALSE], [uo |-> FALSE, lossy |-> FALSE, masked |-> FALSE, inc |-> FALSE, pid |-> FALSE] }

W1 == {1}  W2 == {1, 2}  W3 == {1, 2, 3}
S0 == {}   S1 == {1}     S2 == {1, 2}
I1 == {1}  I2 == {1, 2}

Bounded == \A i \in Ids : store[i].v <= MaxV

\* Gen: at the end of a behaviour print the programs and the schedule that was taken
Terminal == AllDone /\ \A s \in Subs : Drained(s) \/ spc[s] = "cancelled"
\* initial contents, recovered from the histories (first commit on an id shows what was there)
Init0(i) == LET ks == { k \in 1..Len(commitLog) : commitLog[k].id = i } IN
            IF ks = {} THEN store[i].v ELSE commitLog[CHOOSE k \in ks : \A j \in ks : k <= j].pre
NW == Cardinality(Writers)  NS == Cardinality(Subs)  NI == Cardinality(Ids)
EmitSched == Terminal =>
  PrintT("CASE " \o ToJson([init  |-> [i \in 1..NI |-> Init0(i)],
                            progs |-> [w \in 1..NW |-> prog[w]],
                            kinds |-> [s \in 1..NS |-> kind[s]],
                            cancelled |-> [s \in 1..NS |-> spc[s] = "cancelled"],
                            sched |-> sched,
                            \* what the specification expects of this schedule
                            expect |-> [final |-> [i \in 1..NI |-> store[i].v],
                                        errs  |-> [w \in 1..NW |-> loc[w].err],
                                        views |-> [s \in 1..NS |-> [i \in 1..NI |-> view[s][i]]],
                                        converged |-> Converged, commitValid |-> CommitValid, noMissed |-> NoCommitMissed,
                                        editScript |-> EditScript]]))
=============================================================================
