"""C20: trait models keep derived state consistent with their rules.

One specification family per model (spec/<M>.tla pure step functions, <M>MC.tla state machine with
invariants, <M>Gen.tla random walks with random configurations, <M>Trace.tla per-line conformance).
TLC model-checks every <M>MC, prints the walks, the harness command `models` runs them on the real
pkg/trait/*pb models logging the abstract state before and after every call, and TLC evaluates the
<M>Trace clauses on every logged line.  Whichever model families exist in spec/ are run
(C20_MODELS=a,b restricts the set for debugging)."""
import os
from concurrent.futures import ThreadPoolExecutor

import vf

# (model name used in walks/signatures, TLA+ module stem)
MODELS = [("parent", "Parent"), ("vending", "Vending"), ("fanspeed", "FanSpeed"), ("mode", "ModeTrait"),
          ("enterleave", "EnterLeave"), ("meter", "Meter"), ("publication", "Publication")]

# constants of the MC modules per tier (modules without an entry take none)
MC_CONSTS = {
    "Vending": {"quick": {"MaxQ": 3}, "thorough": {"MaxQ": 5}},
    "FanSpeed": {"quick": {"MaxPct": 4}, "thorough": {"MaxPct": 6}},
    "EnterLeave": {"quick": {"MaxTotal": 3}, "thorough": {"MaxTotal": 5}},
    "Meter": {"quick": {"MaxTime": 4}, "thorough": {"MaxTime": 6}},
    "Publication": {"quick": {"MaxTime": 2}, "thorough": {"MaxTime": 4}},
}


def _have(stem):
    return all(os.path.exists(os.path.join(vf.SPEC, stem + suffix))
               for suffix in (".tla", "MC.tla", "MC.cfg", "Gen.tla", "Trace.tla"))


def _parallel(jobs):
    """jobs: list of (key, thunk) -> dict key -> result; the first exception is re-raised."""
    with ThreadPoolExecutor(max_workers=max(1, min(len(jobs), vf.NCPU // 2))) as ex:
        futs = [(k, ex.submit(f)) for k, f in jobs]
        return {k: f.result() for k, f in futs}


def run(ctx):
    thorough = ctx.tier == "thorough"
    only = [m for m in os.environ.get("C20_MODELS", "").split(",") if m]
    models = [(m, stem) for m, stem in MODELS if _have(stem) and (not only or m in only)]
    if not models:
        raise vf.Inconclusive("no C20 model specification found in spec/")
    missing = [m for m, stem in MODELS if not _have(stem)]
    if missing:
        ctx.cov["notes"].append({"models_without_specification": missing})
    nwalks = 15000 if thorough else 300
    maxops = 50 if thorough else 30

    # 1. model-check every specification (a failure here is a model problem: inconclusive)
    def mc(stem):
        return lambda: ctx.tlc(stem + "MC", stem + "MC.cfg", workers=4 if thorough else 2, timeout=1500,
                               consts=MC_CONSTS.get(stem, {}).get(ctx.tier))
    want_conc = any(m == "meter" for m, _ in models) and os.path.exists(os.path.join(vf.SPEC, "MeterConcMC.tla"))
    conc_jobs = [("conc:" + tf, (lambda tf=tf: ctx.tlc("MeterConcMC", "MeterConcMC.cfg", workers=4, timeout=1500,
                                                        consts={"MaxTime": 4 if thorough else 3, "TakeFirst": tf})))
                 for tf in ("FALSE", "TRUE")] if want_conc else []
    mc_results = _parallel([(stem, mc(stem)) for _, stem in models] + conc_jobs)
    conc = {k[5:]: mc_results.pop(k) for k in list(mc_results) if k.startswith("conc:")}
    for stem, res in mc_results.items():
        ctx.cov["states"] += res.distinct
        ctx.cov["transitions"] += res.states
        if res.violated or res.deadlock or not res.ok:
            raise vf.Inconclusive("model check of %sMC failed: %s deadlock=%s\n%s" %
                                  (stem, res.violated, res.deadlock, res.out[-3000:]))

    # 1b. the concurrent meter design: the code's order (read, take the instant, commit-or-abort) keeps start <= end;
    #     the hoisted-clock order must be refuted by TLC, otherwise the model has lost its teeth
    if want_conc:
        good, bad = conc["FALSE"], conc["TRUE"]
        ctx.cov["states"] += good.distinct
        ctx.cov["transitions"] += good.states
        if good.violated or good.deadlock or not good.ok:
            raise vf.Inconclusive("model check of MeterConcMC (TakeFirst=FALSE) failed: %s\n%s" % (good.violated, good.out[-3000:]))
        if "StartNotAfterEnd" not in bad.violated:
            raise vf.Inconclusive("MeterConcMC with TakeFirst=TRUE should violate StartNotAfterEnd:\n%s" % bad.out[-2000:])
        ctx.cov["notes"].append({"MeterConcMC": "read-then-instant design keeps start<=end (%d states); instant-then-read "
                                                "design refuted by TLC (Reset between instant and commit)" % good.distinct})

    # 2. walks
    def gen(stem):
        return lambda: ctx.tlc(stem + "Gen", "TraitGen.cfg", workers=1, timeout=1500,
                               consts={"NCases": nwalks, "MaxOps": maxops})
    walks = []
    per_model_walks = {}
    for stem, res in _parallel([(stem, gen(stem)) for _, stem in models]).items():
        ws = res.cases()
        if len(ws) < min(50, nwalks):
            raise vf.Inconclusive("%sGen produced only %d walks\n%s" % (stem, len(ws), res.out[-2000:]))
        per_model_walks[stem] = len(ws)
        walks += ws
    cpath = ctx.write_ndjson("walks.ndjson", walks)

    # 3. the real models
    outdir = ctx.path("obs")
    os.makedirs(outdir, exist_ok=True)
    p = ctx.run_harness(["-cases", cpath, "-outdir", outdir], timeout=3000, check=False, cmd="models")
    if p.crash:
        cur = p.crash.get("current") or {}
        ctx.violation("C20/%s/process/crash" % cur.get("model", "unknown"),
                      "the harness process died while running a walk: %s" % p.crash["message"], p.crash)
        return
    if p.returncode != 0:
        raise vf.Inconclusive("harness models failed rc=%d:\n%s" % (p.returncode, p.stdout[-4000:]))

    # 4. every logged line against the step functions
    for m, stem in models:
        if not os.path.exists(os.path.join(outdir, m + ".ndjson")):
            raise vf.Inconclusive("harness wrote no observations for model %s" % m)

    def trace(m, stem):
        return lambda: ctx.tlc(stem + "Trace", "TraitTrace.cfg", workers=1, timeout=3000,
                               files={"obs.ndjson": os.path.join(outdir, m + ".ndjson")})
    traces = _parallel([(m, trace(m, stem)) for m, stem in models])
    per_model = {}
    for m, stem in models:
        tr, lines = traces[m], ctx.read_ndjson(os.path.join(outdir, m + ".ndjson"))   # one model at a time (memory)
        if not any(l.startswith('"CHECKED %d"' % len(lines)) for l in tr.out.splitlines()):
            raise vf.Inconclusive("trace check of %s did not cover all %d observations:\n%s" %
                                  (m, len(lines), tr.out[-3000:]))
        ctx.count(len(lines))
        ctx.cov["traces_validated_against_impl"] += per_model_walks[stem]
        bad = tr.cases("BAD ")
        per_model[m] = {"walks": per_model_walks[stem], "steps": len(lines), "bad_lines": len(bad)}
        for b in bad:
            o = lines[b["line"] - 1]
            for clause in b["fails"]:
                if clause.startswith("spec-"):   # the specification does not fit the code base: not a verdict
                    raise vf.Inconclusive("model %s: %s (%s)" % (m, clause, {k: o[k] for k in ("op", "units") if k in o}))
                detail = o.get("panic") or o.get("rpanic") or ""
                ctx.violation("C20/%s/%s/%s" % (m, o["op"], clause),
                              "walk %d step %d of model %s: clause '%s' false on what the real code did%s" %
                              (o["walk"], o["step"], m, clause, (" (panic: %s)" % detail) if detail else ""), o)
        for o in lines:
            if o.get("post") != o.get("pre") or o.get("err", "OK") != "OK" or o.get("panic"):
                ctx.distinct({k: v for k, v in o.items() if k not in ("walk", "step")})
        for o in lines[:1] + lines[len(lines) // 2: len(lines) // 2 + 1]:
            ctx.sample(o, limit=2 * len(models))
    ctx.cov["per_model"] = per_model
    ctx.cov["steps_validated"] = sum(v["steps"] for v in per_model.values())
    ctx.cov["rule"] = ("per model, TLC prints %d walks of 10..%d operations from <M>Gen.tla with a random configuration "
                       "given as a sequence of constructor options in a random order and grouping "
                       "(initial children; initial stock with any subset of used/remaining, unit pairs; preset lists; "
                       "mode lists; initial totals; initial reading; initial publications); every operation is one "
                       "line checked on its own pre-state against the step function; non-trivial = the call changed "
                       "the state, failed or panicked; distinct = distinct (model, call, arguments, state before)"
                       % (nwalks, maxops))


MANIFEST = {
    'engine': "spec/{Parent,Vending,FanSpeed,ModeTrait,EnterLeave,Meter,Publication}.tla with their MC/Gen/Trace "
              "modules (TLC) + harness 'models'",
    'technique': 'one small executable TLA+ specification per trait model; TLC model-checks each state machine, '
                 'prints random walks with random configurations, the harness runs them on the real models and '
                 'TLC validates every logged step (state before, call, result, state after) against the step '
                 'function',
    'text': 'Each model is a few step functions over an abstract state: parent = map child -> set of traits '
            '(union/difference, stored as the sorted duplicate-free list); vending = integer quantities in '
            'thousandths of their own unit with exact LITER/CUBIC_METER conversion (dispense: used += q, remaining '
            '= max(0, remaining - q) each in its own unit, cross-category conversion is an error and changes '
            'nothing, options populate the collection they name); fan speed = preset table with precedence '
            'changed preset > changed index > changed percentage; mode = relative steps modulo the value count; '
            'enter/leave = two counters; meter = usage with start <= end (plus a concurrent model: RecordReading split '
            'at "takes its instant" / "commits" with another client\'s Reset in between); publication = version as an injective '
            'function of the content, publish time, receipt and the acknowledge protocol. TLC checks the '
            'invariants of every state machine exhaustively over small constants, prints hundreds (quick) to '
            'thousands (thorough) of walks of 10-50 operations per model, and after the harness has run them on '
            'the real code evaluates the specification clauses on every logged line; recovered panics are '
            'violations. Meter and publication run under a stepped harness clock that holds a call right after it has '
            'read the clock and interposes another client\'s call before it commits (the overtaken call must be refused '
            'without effect or leave consistent state); the vending unit alphabet is the whole enum (UNIT_UNSPECIFIED, '
            'NO_UNIT included) with an all-pairs Convert sweep. Every configuration is a generated sequence of '
            'constructor options (both orders, each alone, additive options split and interleaved with a plain resource '
            'option); the specification folds it into the initial state independently of the order and the first read of '
            'the constructed model (getter and Pull seed) is compared with that. '
            'Conformance on the generated walks plus bounded model checking of the design; not a '
            'proof.',
    'note': 'Trusted base: TLC 1.8.0 evaluating the TLA+ predicates; the Go abstraction functions in '
            'harness/cmd/models (message <-> abstract record, times as clock ticks, amounts scaled to integer '
            'thousandths, version strings numbered by first occurrence next to the content tuple they were read '
            'with). Only exactly representable amounts are generated (IEEE rounding, CUP conversions are out of '
            'scope); fan-speed states with an empty preset, mode values not named by a relative update and the '
            'return code of a repeated acknowledge with allow_acknowledged are deliberately not asserted.'}
