INIT Init
NEXT Next
INVARIANT HandedOutStable
CONSTANTS
  StoreIn = FALSE
  InPlace = TRUE
  ReadEdits = FALSE
  FirstWriteKeeps = FALSE
  HookEditsOld = FALSE
  LendsOld = FALSE
  MergeFiltersSrc = FALSE
  InitKinds = {"absent", "present"}
  NCases = 0
  MinOps = 1
  MaxOps = 1
  MaxLive = 200
