INIT Init
NEXT Next
INVARIANT TypeOK
INVARIANT HandedOutStable
INVARIANT StoreIsolated
INVARIANT Bounded
PROPERTY ReadOnlyFrame
CONSTANTS
  StoreIn = FALSE
  InPlace = FALSE
  ReadEdits = FALSE
  NCases = 0
  MinOps = 1
  MaxOps = 1
  MaxLive = 200
