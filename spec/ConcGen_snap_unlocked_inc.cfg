SPECIFICATION Spec
CONSTANTS
  Writers <- W2
  Subs <- S1
  Ids <- I1
  MaxV = 6
  Programs <- IncPrograms
  SubKinds <- KindsInc
  InitStores <- IncStores
  PublishAfterUnlock = FALSE
  CreatedRevalidated = TRUE
  DeleteHoldsLock = TRUE
  SnapHoldsLock = FALSE
  DeleteRechecks = TRUE
  Equiv = "none"
  SubSer = FALSE
  MayCancel = FALSE
  SnapAtCommit = TRUE
  CollectLive = TRUE
INVARIANT EmitSched
CHECK_DEADLOCK FALSE
