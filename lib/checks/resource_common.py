"""C01 / C04 / C08 share spec/Resource.tla: TLC generates programs, the harness runs them on the
real Value/Collection, TLC checks every logged step against the specification's step functions."""
import vf


def run(ctx, prop, focus, ncases, maxcalls):
    thorough = ctx.tier == "thorough"
    ctx.mc("ResourceMC", "ResourceMC.cfg", consts={"MaxItems": 3 if thorough else 2, "MaxI": 3},
           workers=vf.NCPU, timeout=3000)
    gen = ctx.tlc("ResourceGen", "ResourceGen.cfg",
                  consts={"NCases": ncases, "MaxCalls": maxcalls, "Focus": '"%s"' % focus}, workers=4, timeout=1800)
    progs = gen.cases()
    if len(progs) < min(50, ncases):
        raise vf.Inconclusive("Gen produced only %d programs\n%s" % (len(progs), gen.out[-2000:]))
    cpath = ctx.write_ndjson("progs.ndjson", progs)
    obs_path = ctx.path("obs.ndjson")
    ctx.run_harness(["resource", "-cases", cpath, "-out", obs_path], timeout=3000)
    obs = ctx.read_ndjson(obs_path)
    tr = ctx.tlc("ResourceTrace", "ResourceTrace.cfg", workers=1, files={"obs.ndjson": obs_path}, timeout=3000)
    if not any(l.startswith('"CHECKED %d"' % len(obs)) for l in tr.out.splitlines()):
        raise vf.Inconclusive("trace check did not cover all %d observations:\n%s" % (len(obs), tr.out[-3000:]))
    ctx.count(len(obs))
    ctx.cov["traces_validated_against_impl"] += len(progs)
    ctx.cov["steps_validated"] = ctx.cov.get("steps_validated", 0) + len(obs)
    other = {}
    for b in tr.cases("BAD "):
        o = obs[b["line"] - 1]
        for clause in b["fails"]:
            p, _, name = clause.partition(":")
            if p != prop:
                other[clause] = other.get(clause, 0) + 1
                continue
            sig = "%s/%s/%s/%s" % (prop, o["res"], o["op"], name)
            ctx.violation(sig, "step %d of program %d: clause '%s' false on what the real code did" %
                          (o["step"], o["prog"], name), o)
    if other:
        ctx.cov["notes"].append({"clauses_of_other_properties_failing_here": other})
    for o in obs:
        if o["op"] == "Subscribe":
            nontrivial = any(o["deliv"])
        elif o["op"] in ("Get", "List", "VGet"):
            nontrivial = o["ret"]["has"] or bool(o["list"])
        else:
            nontrivial = o["err"] != "OK" or o["post"] != o["pre"] or o["vpost"] != o["vpre"]
        if nontrivial:
            ctx.distinct((o["res"], o["op"], o["icpt"], o["pre"], o["vpre"], o["id"], o["msg"], o["o"], o["mask"],
                          o["subs"], o["equiv"]))
    for o in obs[:1] + obs[len(obs) // 3: len(obs) // 3 + 2] + obs[-1:]:
        ctx.sample(o)
    return obs
