SPECIFICATION Spec
CONSTRAINT Bounded
INVARIANTS TotalsAreCounters NeverNegative
PROPERTY OneDirection
