----------------------------- MODULE RaceTrace -----------------------------
(***************************************************************************)
(* Trace use for C11.  The verdict on the code comes from the Go race      *)
(* detector, not from here; this module guards against VACUOUS workloads.  *)
(* One line of obs.ndjson = one program as harness/cmd/racex ran it:        *)
(*   procs    the operation kinds of every process                          *)
(*   planned  per process: iterations * number of operations                *)
(*   done     per process: operations that ran to their end                 *)
(*   problem  non-empty when the program could not be run to the end        *)
(* A program counts only if every process completed all of its operations   *)
(* in every iteration and, by the table of RaceOps.tla, two different       *)
(* processes then had operations on one shared object, one of them writing  *)
(* (the processes are released together and never synchronised by the       *)
(* harness).  A line failing this makes the check INCONCLUSIVE, never a     *)
(* violation and never a pass.                                              *)
(***************************************************************************)
EXTENDS RaceOps, TLC, Json

VARIABLE c
Obs == ndJsonDeserialize("obs.ndjson")

If(b, name) == IF b THEN {} ELSE {name}
Fails(t) ==
  If(t.problem = "", "program-not-run-to-the-end")
  \cup If(\A p \in 1..Len(t.procs) : \A j \in 1..Len(t.procs[p]) : t.procs[p][j] \in Kinds, "unknown-operation-kind")
  \cup If(Len(t.done) = Len(t.procs) /\ \A p \in 1..Len(t.procs) : t.done[p] = t.planned[p] /\ t.planned[p] = t.iters * Len(t.procs[p]),
          "operations-not-completed")
  \cup If(Len(t.procs) >= 2 /\ t.iters >= 1, "fewer-than-two-processes")
  \cup If((\A p \in 1..Len(t.procs) : \A j \in 1..Len(t.procs[p]) : t.procs[p][j] \in Kinds) => ConflictPair(t.procs),
          "no-concurrent-conflicting-pair-on-one-object")

BadLines == { k \in 1..Len(Obs) : Fails(Obs[k]) # {} }
TraceInit == c = 0
TraceNext == UNCHANGED c
EmitBad == \A k \in BadLines : PrintT("BAD " \o ToJson([line |-> k, fails |-> Fails(Obs[k])]))
\* which access disciplines of RaceModel.tla the programs exercised
EmitCov == PrintT("COVER " \o ToJson(UNION { DisciplinesAll(Obs[k].procs) : k \in { j \in 1..Len(Obs) : Fails(Obs[j]) = {} } }))
TraceChecked == EmitBad /\ EmitCov /\ PrintT("CHECKED " \o ToString(Len(Obs)))
=============================================================================
