package main

import (
	"context"
	"errors"
	"fmt"
	"io"
	"math/rand"
	"strconv"
	"time"

	"google.golang.org/grpc"
	"google.golang.org/grpc/metadata"
	"google.golang.org/grpc/status"
	"google.golang.org/protobuf/proto"

	"github.com/smart-core-os/sc-golang/verifharness/hx"
)

const stepTimeout = 4 * time.Second

var errCause = errors.New("user navigated away")

// altered is what every sender writes into its message as soon as SendMsg has returned
// (Altered in Wrap.tla): over a connection the peer still receives what was sent.
const altered = 95

// clientMD is what the client does with metadata a stream hands it: note it down, then use
// the map as its own (overwrite, add).  Nothing of that may show in a later read, nothing
// the handler did to its own maps may show here.
func clientMD(t *Transcript, md metadata.MD) MD {
	a := absMD(md)
	for _, v := range append(append([]int{}, a.A...), a.B...) {
		switch v {
		case 98, 99:
			noteAlias(t, "handler-write-seen-in-client-metadata")
		case 96, 97:
			noteAlias(t, "client-write-seen-in-later-metadata-read")
		}
	}
	scribbleMD(md, "97", "96")
	return a
}

func noteAlias(t *Transcript, what string) {
	for _, a := range t.Alias {
		if a == what {
			return
		}
	}
	t.Alias = append(t.Alias, what)
}

// timedOut waits for d and then reports whether ready still has nothing to offer: after a
// stall of the whole process both the timer and the awaited event are due, and the event wins.
func expired(d time.Duration) <-chan time.Time { return time.After(d) }

type Term struct {
	Has  bool   `json:"has"`
	Code string `json:"code"`
	Msg  string `json:"msg"`
}

type SH struct {
	I   int  `json:"i"`
	Err bool `json:"err"`
}

type SR struct {
	I int `json:"i"`
	V int `json:"v"` // >0 message, 0 EOF, -1 error
}

// Transcript is what one transport let the two sides observe for one script.
type Transcript struct {
	Msgs     []int    `json:"msgs"`  // response messages the client received, in order
	Term     Term     `json:"term"`  // the terminal outcome the client observed (if it looked)
	Hdrs     []MD     `json:"hdrs"`  // result of every client header read, in order
	Trls     []MD     `json:"trls"`  // result of every client trailer read, in order
	Srecv    []SR     `json:"srecv"` // result of every server receive
	Shdr     []SH     `json:"shdr"`  // whether each SetHeader of the handler reported an error
	Reqmd    int      `json:"reqmd"` // x-req as seen by the handler (-1: handler never ran)
	Alias    []string `json:"alias"` // copy-semantics failures
	Hang     []int    `json:"hang"`  // steps whose op did not complete in time (-1: handler never returned)
	Leak     int      `json:"leak"`  // pkg/wrap goroutines left after the call
	LeakDump string   `json:"leakdump,omitempty"`
	Skip     bool     `json:"skip"` // the deadline kept firing before its step: nothing to compare
	Ops      []string `json:"ops"`  // per-op log for humans
}

func emptyTranscript() Transcript {
	return Transcript{Msgs: []int{}, Hdrs: []MD{}, Trls: []MD{}, Srecv: []SR{}, Shdr: []SH{}, Alias: []string{}, Hang: []int{}, Ops: []string{}, Reqmd: -1}
}

// outcome names an error the way Wrap.tla does: io.EOF is the OK end of a stream, context
// errors and the corresponding status codes are one class each (their text is not compared).
func outcome(err error) Term {
	if err == nil || err == io.EOF {
		return Term{Has: true, Code: "OK"}
	}
	return failure(err)
}

// failure is outcome for calls that have no business returning io.EOF (Invoke, opening a stream).
func failure(err error) Term {
	if err == nil {
		return Term{Has: true, Code: "OK"}
	}
	if err == io.EOF {
		return Term{Has: true, Code: "EOF"}
	}
	code := hx.Code(err)
	msg := ""
	if code != "Canceled" && code != "DeadlineExceeded" {
		msg = status.Convert(err).Message()
	}
	return Term{Has: true, Code: code, Msg: msg}
}

type cres struct {
	op   string
	err  error
	got  proto.Message // received message (recv / invoke)
	hdr  metadata.MD // as handed out by the stream / call option
	trl  metadata.MD
	hang bool
}

func runScript(e *env, tr string, conn grpc.ClientConnInterface, c Case, rng *rand.Rand) Transcript {
	timeout := 25 * time.Millisecond
	hungBefore := false
	for attempt := 0; ; attempt++ {
		t, early := runOnce(e, tr, conn, c, rng, timeout, attempt)
		if !early && len(t.Hang) > 0 && !hungBefore {
			// run it again: only an op that hangs twice is reported (a stalled machine looks the same once)
			hungBefore = true
			if tr == "w" {
				waitNoWrapGoroutines(time.Second)
				drainLeak()
			}
			continue
		}
		if !early {
			return t
		}
		if attempt == 3 {
			t.Skip = true
			return t
		}
		timeout *= 4
		if tr == "w" {
			waitNoWrapGoroutines(time.Second)
		}
	}
}

func runOnce(e *env, tr string, conn grpc.ClientConnInterface, c Case, rng *rand.Rand, timeout time.Duration, attempt int) (t Transcript, early bool) {
	t = emptyTranscript()
	id := fmt.Sprintf("%s-%d-%d", tr, c.N, attempt)
	cl := newCall(id, c.Shape)
	e.srv.register(cl)
	defer e.srv.unregister(cl)

	base := context.Background()
	switch c.Mdk {
	case 0:
		base = metadata.NewOutgoingContext(base, metadata.Pairs("x-call", id, "x-req", strconv.Itoa(c.Req)))
	case 2: // the caller is a handler handing its own context on: that metadata is not the call's
		base = metadata.NewIncomingContext(base, metadata.Pairs("x-call", outerCallID, "x-req", strconv.Itoa(outerReq)))
	}
	if c.Mdk != 0 {
		e.srv.mu.Lock()
		e.srv.current = cl
		e.srv.mu.Unlock()
		defer func() {
			e.srv.mu.Lock()
			e.srv.current = nil
			e.srv.mu.Unlock()
		}()
	}
	var ctx context.Context
	var cancel context.CancelFunc
	// x = 1 on the cancel / deadline step: the caller's context carries a cause of its own
	// (WithCancelCause / WithTimeoutCause); a connection reports the class, never the cause
	withCause := false
	for _, st := range c.Steps {
		if (st.C == "cancel" || st.C == "deadline") && st.X == 1 {
			withCause = true
		}
	}
	endCall := func() {} // the script's cancel step
	switch {
	case c.Dl && withCause:
		ctx, cancel = context.WithTimeoutCause(base, timeout, errCause)
		endCall = cancel
	case c.Dl:
		ctx, cancel = context.WithTimeout(base, timeout)
		endCall = cancel
	case withCause:
		var cc context.CancelCauseFunc
		ctx, cc = context.WithCancelCause(base)
		cancel = func() { cc(nil) }
		endCall = func() { cc(errCause) }
	default:
		ctx, cancel = context.WithCancel(base)
		endCall = cancel
	}
	defer cancel()

	var (
		stream   grpc.ClientStream
		pend     chan cres // the client's pending blocking op (recv / header / invoke)
		csent    []proto.Message
		crecvd   []proto.Message
		implicit = c.Shape == "unary" || c.Shape == "sstream" || c.Shape == "ustream" // first server recv is done by generated code
		aborted  bool
	)
	logf := func(i int, side, op, format string, a ...any) {
		t.Ops = append(t.Ops, fmt.Sprintf("%d:%s:%s=", i, side, op)+fmt.Sprintf(format, a...))
	}
	setTerm := func(err error) {
		if !t.Term.Has {
			t.Term = outcome(err)
		}
	}
	setFailure := func(err error) {
		if !t.Term.Has {
			t.Term = failure(err)
		}
	}
	record := func(i int, r cres) {
		if r.hang {
			t.Hang = append(t.Hang, i)
			logf(i, "c", r.op, "HANG")
			return
		}
		switch r.op {
		case "open":
			if r.err != nil {
				setFailure(r.err)
			}
			logf(i, "c", r.op, "%v", r.err)
		case "send":
			logf(i, "c", r.op, "%v", r.err)
		case "recv":
			if r.err == nil {
				v := valOf(r.got)
				if v == altered {
					noteAlias(&t, "sender-write-after-send-seen-by-receiver")
				}
				t.Msgs = append(t.Msgs, v)
				crecvd = append(crecvd, r.got)
				logf(i, "c", r.op, "msg %d", v)
				if singleResponse(c.Shape) {
					setTerm(nil)
				}
			} else {
				setTerm(r.err)
				logf(i, "c", r.op, "%v", r.err)
			}
			if singleResponse(c.Shape) {
				t.Trls = append(t.Trls, clientMD(&t, r.trl))
			}
		case "header":
			h := clientMD(&t, r.hdr)
			t.Hdrs = append(t.Hdrs, h)
			logf(i, "c", r.op, "%v err=%v", h, r.err)
		case "invoke":
			if r.err == nil {
				v := valOf(r.got)
				t.Msgs = append(t.Msgs, v)
				crecvd = append(crecvd, r.got)
			}
			setFailure(r.err)
			h, tl := clientMD(&t, r.hdr), clientMD(&t, r.trl)
			t.Hdrs = append(t.Hdrs, h)
			t.Trls = append(t.Trls, tl)
			logf(i, "c", r.op, "%v hdr=%v trl=%v", r.err, h, tl)
		}
	}
	await := func(i int, ch chan cres, op string) {
		select {
		case r := <-ch:
			record(i, r)
		case <-expired(stepTimeout):
			select {
			case r := <-ch:
				record(i, r)
			default:
				record(i, cres{op: op, hang: true})
				aborted = true
			}
		}
	}

	for k, st := range c.Steps {
		i := k + 1
		if aborted {
			break
		}
		if st.C == "deadline" && ctx.Err() != nil {
			early = true
			break
		}
		// ---- server half of the step
		sWait := false
		dispatch := func() {
			switch {
			case st.S == "-":
			case st.S == "recv" && implicit:
				implicit = false
				sWait = true // the generated handler receives the request; serve() reports it
			default:
				cl.cmd <- scmd{i: i, st: st}
				sWait = true
			}
		}
		// ---- client half of the step
		var inStep chan cres // a blocking client op that has to finish within this step
		client := func() {
			switch st.C {
			case "-":
			case "open":
				if c.Shape == "sstream" {
					// what the generated client does: NewStream, SendMsg, CloseSend
					inStep = make(chan cres, 1)
					req := mkReq(c.Shape, st.V)
					csent = append(csent, req)
					ch := inStep
					go func() {
						s, err := conn.NewStream(ctx, streamDesc(c.Shape), methodName(c.Shape))
						if err == nil {
							stream = s
							err = s.SendMsg(req)
							scribble(req, altered) // the client reuses its request once the send has returned
							if err == nil {
								err = s.CloseSend()
							}
						}
						ch <- cres{op: "open", err: err}
					}()
				} else {
					s, err := conn.NewStream(ctx, streamDesc(c.Shape), methodName(c.Shape))
					if err == nil {
						stream = s
					}
					record(i, cres{op: "open", err: err})
				}
			case "invoke":
				pend = make(chan cres, 1)
				req := mkReq(c.Shape, st.V)
				csent = append(csent, req)
				ch := pend
				go func() {
					reply := newRespEmpty(c.Shape)
					var h, tl metadata.MD
					err := conn.Invoke(ctx, methodName(c.Shape), req, reply, grpc.Header(&h), grpc.Trailer(&tl))
					ch <- cres{op: "invoke", err: err, got: reply, hdr: h, trl: tl}
				}()
			case "send":
				if stream == nil {
					logf(i, "c", "send", "nostream")
					break
				}
				inStep = make(chan cres, 1)
				req := mkReq(c.Shape, st.V)
				csent = append(csent, req)
				ch, s := inStep, stream
				go func() {
					err := s.SendMsg(req)
					scribble(req, altered) // the client reuses its message once the send has returned
					ch <- cres{op: "send", err: err}
				}()
			case "close":
				if stream == nil {
					logf(i, "c", "close", "nostream")
					break
				}
				logf(i, "c", "close", "%v", stream.CloseSend())
			case "recv":
				if stream == nil {
					logf(i, "c", "recv", "nostream")
					if singleResponse(c.Shape) {
						t.Trls = append(t.Trls, absMD(nil))
					}
					break
				}
				pend = make(chan cres, 1)
				ch, s := pend, stream
				single := singleResponse(c.Shape)
				go func() {
					m := newRespEmpty(c.Shape)
					err := s.RecvMsg(m)
					r := cres{op: "recv", err: err, got: m}
					if single {
						// a client-streaming client reads the trailer as soon as CloseAndRecv returns
						r.trl = s.Trailer()
					}
					ch <- r
				}()
			case "header":
				if stream == nil {
					t.Hdrs = append(t.Hdrs, absMD(nil))
					logf(i, "c", "header", "nostream")
					break
				}
				pend = make(chan cres, 1)
				ch, s := pend, stream
				go func() {
					md, err := s.Header()
					ch <- cres{op: "header", err: err, hdr: md}
				}()
			case "trailer":
				if stream == nil {
					t.Trls = append(t.Trls, absMD(nil))
					logf(i, "c", "trailer", "nostream")
					break
				}
				md := clientMD(&t, stream.Trailer())
				t.Trls = append(t.Trls, md)
				logf(i, "c", "trailer", "%v", md)
			case "cancel":
				endCall()
			case "deadline":
				select {
				case <-ctx.Done():
				case <-expired(stepTimeout):
					if ctx.Err() == nil {
						t.Hang = append(t.Hang, i)
						logf(i, "c", "deadline", "HANG")
						aborted = true
					}
				}
			default:
				hx.Fatal("unknown client op %q", st.C)
			}
		}

		serverFirst := rng.Intn(2) == 0 || st.C == "cancel" || st.C == "deadline"
		if serverFirst {
			dispatch()
			if st.S != "-" && rng.Intn(3) == 0 {
				time.Sleep(time.Duration(rng.Intn(150)) * time.Microsecond) // let it block
			}
			client()
		} else {
			client()
			if st.C != "-" && rng.Intn(3) == 0 {
				time.Sleep(time.Duration(rng.Intn(150)) * time.Microsecond)
			}
			dispatch()
		}

		// ---- completion of the step
		if sWait {
			var r sres
			got := true
			select {
			case r = <-cl.done:
			case <-expired(stepTimeout):
				select {
				case r = <-cl.done:
				default:
					got = false
				}
			}
			if got {
				r.I = i
				logf(i, "s", r.Op, "%s %d %s", r.Kind, r.V, r.Code)
				if r.Op == "recv" {
					v := -1
					switch r.Kind {
					case "msg":
						v = r.V
						if v == altered {
							noteAlias(&t, "sender-write-after-send-seen-by-receiver")
						}
					case "eof":
						v = 0
					}
					t.Srecv = append(t.Srecv, SR{I: i, V: v})
				}
				if r.Op == "sethdr" {
					t.Shdr = append(t.Shdr, SH{I: i, Err: r.Kind == "err"})
				}
				if r.Kind == "hang" {
					t.Hang = append(t.Hang, i)
					aborted = true
				}
			} else {
				t.Hang = append(t.Hang, i)
				logf(i, "s", st.S, "HANG")
				aborted = true
			}
		}
		if inStep != nil {
			await(i, inStep, st.C)
		}
		if st.J && pend != nil {
			await(i, pend, "pending")
			if !aborted {
				pend = nil
			}
		}
	}

	// ---- both halves must be gone before the next script
	select {
	case <-cl.exited:
	default:
		close(cl.abort)
	}
	cancel()
	endTimeout := stepTimeout
	if aborted {
		endTimeout = time.Second // something already hung: do not spend more time on this script than needed
	}
	if pend != nil {
		select {
		case r := <-pend:
			if !early && !aborted {
				logf(0, "c", r.op, "left pending by the script: %v", r.err)
			}
		case <-expired(endTimeout):
			select {
			case <-pend:
			default:
				t.Hang = append(t.Hang, 0)
				logf(0, "c", "pending", "HANG")
			}
		}
	}
	select {
	case <-cl.entered:
		select {
		case <-cl.exited:
		case <-expired(endTimeout):
			select {
			case <-cl.exited:
			default:
				t.Hang = append(t.Hang, -1)
				logf(0, "s", "handler", "never returned")
			}
		}
	default:
	}
	cl.mu.Lock()
	t.Reqmd = cl.reqmd
	srecvd, ssent := cl.srecvd, cl.ssent
	cl.mu.Unlock()
	if early {
		return t, true
	}

	// ---- copy semantics: nothing one side holds may change when the other side writes to
	// its own objects (checked when the call is over: writing to a message right after
	// SendMsg is not allowed by gRPC either)
	t.Alias = append(t.Alias, aliasCheck("client-write-seen-by-server", append(append([]proto.Message{}, csent...), crecvd...), append(append([]proto.Message{}, srecvd...), ssent...), 98)...)
	t.Alias = append(t.Alias, aliasCheck("server-write-seen-by-client", append(append([]proto.Message{}, srecvd...), ssent...), append(append([]proto.Message{}, csent...), crecvd...), 97)...)
	return t, false
}

func aliasCheck(what string, writers, readers []proto.Message, marker int) []string {
	before := make([]int, len(readers))
	for k, m := range readers {
		before[k] = valOf(m)
	}
	for _, m := range writers {
		scribble(m, marker)
	}
	var res []string
	for k, m := range readers {
		if v := valOf(m); v != before[k] {
			res = append(res, fmt.Sprintf("%s:%s", what, m.ProtoReflect().Descriptor().Name()))
		}
	}
	return res
}
