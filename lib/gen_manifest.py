"""Regenerates /verif/MANIFEST.json from lib/manifest_table.py."""
import json
import os
import subprocess

import vf
import glob
import importlib

from manifest_table import NOT_APPLICABLE, ENGINES, NOTES


def main():
    hooks = []
    p = subprocess.run(["git", "-C", vf.REPO, "log", "--format=%h %s"], stdout=subprocess.PIPE, text=True)
    for line in p.stdout.splitlines():
        h, _, subj = line.partition(" ")
        if subj.startswith("verif:") or subj.startswith("hook:"):
            hooks.append(h)
    checks = []
    CHECKS = {}
    enabled = set(open(os.path.join(vf.VERIF, "lib", "enabled.txt")).read().split())
    for f in sorted(glob.glob(os.path.join(vf.VERIF, "lib", "checks", "c[0-9][0-9].py"))):
        pid = os.path.basename(f)[:-3].upper()
        if pid not in enabled:
            continue
        mod = importlib.import_module("checks." + pid.lower())
        if hasattr(mod, "MANIFEST"):
            CHECKS[pid] = mod.MANIFEST
    for pid in sorted(CHECKS):
        c = CHECKS[pid]
        checks.append({
            "property_id": pid,
            "quick_cmd": "./bin/verif check %s --tier quick" % pid,
            "thorough_cmd": "./bin/verif check %s --tier thorough" % pid,
            "evidence_file": "evidence/%s.json" % pid,
            "replay_cmd_template": "./bin/verif replay {path}",
            "engine": c["engine"],
            "level_claimed": {"category": c.get("level", "model_checking"), "text": c["text"],
                              "design_ref": c.get("design_ref", "DESIGN.md section 3, " + pid)},
            "level_note": c["note"],
            "technique": c["technique"],
        })
    claimed = {c["property_id"] for c in checks}
    na = [x for x in NOT_APPLICABLE if x["property_id"] not in claimed]
    all_ids = [json.loads(l)["id"] for l in open(os.path.join(vf.VERIF, "properties.jsonl"))]
    for pid in all_ids:
        if pid not in claimed and pid not in {x["property_id"] for x in na}:
            na.append({"property_id": pid, "reason": "no check built for this property yet (time); not claimed"})
    m = {
        "version": 1,
        "setup_cmd": "./bin/verif setup",
        "hooks": {
            "guard": "verif",
            "enable": "go build -tags verif (the harness module replaces github.com/smart-core-os/sc-golang with /repo's working tree)",
            "baseline_off_cmd": "cd /repo && go test -mod=mod -json -vet=off -count=1 -timeout 25m ./...",
            "source_commits": hooks,
            "add_only": True,
        },
        "engines": ENGINES,
        "checks": checks,
        "notes": NOTES,
        "not_applicable": sorted(na, key=lambda x: x["property_id"]),
    }
    with open(os.path.join(vf.VERIF, "MANIFEST.json"), "w") as f:
        json.dump(m, f, indent=1)
        f.write("\n")
    print("MANIFEST.json: %d checks, %d not_applicable" % (len(checks), len(na)))
    return 0
