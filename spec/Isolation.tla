---------------------------- MODULE Isolation ----------------------------
(***************************************************************************)
(* C07: messages are isolated - no aliasing between callers and stored     *)
(* state.                                                                  *)
(*                                                                         *)
(* The object under test (resource.Value, resource.Collection, a trait     *)
(* model) is seen as a heap of message objects ("cells").  One cell is the *)
(* stored state.  A message crosses the API boundary when it is the        *)
(* argument of a write (direction "in"), or the result of a read or write, *)
(* the value / new value / old value of a change event, or a list element  *)
(* (direction "out").  When it crosses, its content is frozen.  The        *)
(* property is about what happens to cells AFTER they crossed:             *)
(*   HandedOutStable  a cell handed out keeps its frozen content whatever  *)
(*                    is called later (unless the caller scribbled on it   *)
(*                    himself),                                            *)
(*   StoreIsolated    the caller overwriting a message he handed in, after *)
(*                    the write returned, does not change the stored state,*)
(*   ReadOnlyFrame    Get / List / Pull (and its seed) / Describe leave    *)
(*                    the stored state exactly as it was.                  *)
(* Aliasing as such is NOT forbidden: a read may hand out the stored cell  *)
(* itself as long as no later operation writes into it (writes replace the *)
(* stored cell by a fresh one).  A write may edit the caller's argument    *)
(* during the call (masks filter it): nothing is said about "in" cells     *)
(* except that the store does not depend on them afterwards.               *)
(*                                                                         *)
(* Three uses:                                                             *)
(*  MC    IsolationMC.cfg: the reference design (clone on write, replace   *)
(*        the stored cell) satisfies the three statements on every         *)
(*        behaviour over a small heap, from every construction of        *)
(*        InitKinds; IsolationNeg*.cfg: each design deviation found in     *)
(*        real code (keep the caller's cell - always, or only on the first *)
(*        write to an object that holds nothing; write in place; a read    *)
(*        that edits what it hands out; a write hook that edits the old    *)
(*        value) is caught by the matching statement, so none is vacuous.  *)
(*        IsolationFirstWritePresent.cfg: FirstWriteKeeps is unreachable   *)
(*        when only "present" constructions are tried - which is why the   *)
(*        walks carry the construction.                                    *)
(*  Gen   IsolationGen.cfg: operation walks for a generic object with k    *)
(*        operations: per step an operation index, an argument seed, the   *)
(*        delay after which the caller scribbles on the arguments of that  *)
(*        step, or a pure recheck.  The harness binds the indices to the   *)
(*        real operations of every target.                                 *)
(*  Trace IsolationTrace.tla evaluates the Obs* forms below on every line  *)
(*        the harness logged.                                              *)
(***************************************************************************)
EXTENDS Integers, Sequences, FiniteSets, TLC, Json

CONSTANTS NCells,     \* MC: number of heap cells
          NVals,      \* MC: message contents are 0..NVals-1
          StoreIn,    \* deviation: the write keeps the caller's cell as the stored one
          InPlace,    \* deviation: the write edits the stored cell instead of replacing it
          ReadEdits,  \* deviation: a read edits the cell it hands out (the stored one)
          FirstWriteKeeps, \* deviation: like StoreIn, but only when nothing is stored yet (no message to merge into)
          HookEditsOld,    \* deviation: a hook of the write (interceptor, callback handed the old value) writes into
                           \* the old stored cell; the committed state and the result are nevertheless right
          LendsOld,        \* deviation: the write leaves the caller's cell sharing memory with the old stored cell
                           \* (a pointer, slice or map of the old message is assigned into the caller's message);
                           \* the committed state is a proper copy
          MergeFiltersSrc, \* deviation: a masked write (update mask and/or writable fields) applies its masks to the
                           \* written message in place; harmless for a fresh message, but the written message may be
                           \* one obtained earlier from a read, a write result or an event (of this or another resource)
          InitKinds,  \* configurations the object may be constructed in: "absent" (a Value without initial value,
                      \* an empty Collection: nothing stored yet) and/or "present" (initial value / records)
          NCases,     \* Gen: number of walks
          MinOps, MaxOps,  \* Gen: walk length
          MaxLive     \* bound on live handles (harness forgets the oldest)

VARIABLES heap,       \* cell -> content now
          used,       \* allocated cells
          stored,     \* the cell that is the state of the object under test
          model,      \* ghost: the content the store is specified to have
          dir,        \* cell -> "none" | "in" | "out" | "both": how it crossed the boundary
          frozen,     \* cell -> content at the moment it crossed
          scribbled,  \* cells the caller overwrote himself
          lent,       \* pairs <<a, o>>: cell a (the caller's) shares memory with cell o (writing through a shows in o)
          last,       \* kind of the last action
          c           \* Gen only: the walk being printed

vars == <<heap, used, stored, model, dir, frozen, scribbled, lent, last, c>>

Cells   == 1..NCells
Nil     == 0           \* "no stored cell": heap[Nil] is the constant Absent
Absent  == -3
Vals    == 0..(NVals - 1)
Garbage == -1          \* what a scribble leaves in every field
Edited  == -2          \* what a read that edits its result leaves
Filtered == -4         \* what is left of a message that a mask was applied to in place

----------------------------------------------------------------------------
(* Crossing the boundary                                                   *)
Join(d, e) == IF d = "none" \/ d = e THEN e ELSE "both"
\* cells hs cross in direction e with the contents they have in heap h; a cell that was already handed
\* out keeps the content frozen the first time (handing it out again does not excuse a change)
CrossAll(dr, fr, h, hs, e) ==
  [dir2 |-> [x \in Cells |-> IF x \in hs THEN Join(dr[x], e) ELSE dr[x]],
   frz  |-> [x \in Cells |-> IF x \in hs /\ dr[x] \in {"none", "in"} THEN h[x] ELSE fr[x]]]

Free == Cells \ used

(* The object is constructed in one of the configurations of InitKinds: the  *)
(* first write to an object that holds nothing yet takes a different path in *)
(* real code (there is no old message to clone and merge into).              *)
Init ==
  /\ heap = [x \in 0..NCells |-> IF x = Nil THEN Absent ELSE 0]
  /\ \E k \in InitKinds :
       /\ stored = (IF k = "absent" THEN Nil ELSE 1)
       /\ used = (IF k = "absent" THEN {} ELSE {1})
       /\ model = (IF k = "absent" THEN Absent ELSE 0)
  /\ dir = [x \in Cells |-> "none"]
  /\ frozen = [x \in Cells |-> 0]
  /\ scribbled = {}
  /\ lent = {}
  /\ last = "init"
  /\ c = 0

(* A write of content v.  The caller builds the argument cell a (in), the   *)
(* object computes the new state, the result and the event's new and old   *)
(* values are handed out.                                                  *)
Write(v) ==
  /\ last' = "write" /\ c' = c /\ scribbled' = scribbled
  /\ model' = v
  /\ \E a \in Free :
       IF StoreIn \/ (FirstWriteKeeps /\ stored = Nil) THEN
         \* the caller's cell becomes the stored cell
         LET h1 == [heap EXCEPT ![a] = v]
             x1 == CrossAll(dir, frozen, h1, {a}, "in")
             x2 == CrossAll(x1.dir2, x1.frz, h1, {a, stored}, "out")
         IN /\ heap' = h1 /\ used' = used \cup {a} /\ stored' = a
            /\ dir' = x2.dir2 /\ frozen' = x2.frz
       ELSE IF InPlace /\ stored # Nil THEN
         \* the stored cell is overwritten where it is
         LET h1 == [heap EXCEPT ![a] = v, ![stored] = v]
             x1 == CrossAll(dir, frozen, h1, {a}, "in")
             x2 == CrossAll(x1.dir2, x1.frz, h1, {stored}, "out")
         IN /\ heap' = h1 /\ used' = used \cup {a} /\ stored' = stored
            /\ dir' = x2.dir2 /\ frozen' = x2.frz
       ELSE
         \* reference design: new cell n = clone(old) (a fresh message if nothing is stored) merged with a; the
         \* stored cell is replaced.  With HookEditsOld a hook also writes the new content into the old cell.
         \E n \in Free \ {a} :
           LET h0 == [heap EXCEPT ![a] = v, ![n] = v]
               h1 == IF HookEditsOld /\ stored # Nil THEN [h0 EXCEPT ![stored] = v] ELSE h0
               x1 == CrossAll(dir, frozen, h1, {a}, "in")
               x2 == CrossAll(x1.dir2, x1.frz, h1, {n, stored}, "out")
           IN /\ heap' = h1 /\ used' = used \cup {a, n} /\ stored' = n
              /\ dir' = x2.dir2 /\ frozen' = x2.frz

  \* (the caller's cell of this write is the new cell that crossed "in")
  /\ lent' = IF LendsOld /\ stored # Nil
             THEN lent \cup { <<x, stored>> : x \in { y \in used' \ used : dir'[y] \in {"in", "both"} } }
             ELSE lent

(* The source of the written message.  Write(v) above writes a FRESH message *)
(* the caller built.  WriteFrom(s, masked) writes a message s the caller     *)
(* holds because the object handed it out earlier (read result, write        *)
(* result, event value - possibly the stored cell itself), optionally with   *)
(* an update mask and/or writable fields.  The caller does not own s: it is  *)
(* not an "in" cell and is never scribbled on.  The reference design merges  *)
(* a copy of s; with MergeFiltersSrc the masks cut s down where it is.       *)
Held == { x \in used : dir[x] \in {"out", "both"} /\ x \notin scribbled }
WriteFrom(s, masked) ==
  /\ s \in Held
  /\ last' = "write" /\ c' = c /\ scribbled' = scribbled /\ lent' = lent
  /\ \E n \in Free :
       LET cut == masked /\ MergeFiltersSrc
           v  == IF cut THEN Filtered ELSE heap[s]
           h1 == [heap EXCEPT ![n] = v, ![s] = v]
           x  == CrossAll(dir, frozen, h1, {n, stored}, "out")
       IN /\ heap' = h1 /\ used' = used \cup {n} /\ stored' = n /\ model' = v
          /\ dir' = x.dir2 /\ frozen' = x.frz

(* The same held message handed to a write on ANOTHER resource (a Value fed   *)
(* from a Collection's item, the active mode set from the modes collection):  *)
(* this object is not written at all - its stored state and everything it    *)
(* handed out stay as they were.                                              *)
WriteOther(s, masked) ==
  /\ s \in Held
  /\ last' = "other"
  /\ heap' = IF masked /\ MergeFiltersSrc THEN [heap EXCEPT ![s] = Filtered] ELSE heap
  /\ UNCHANGED <<used, stored, model, dir, frozen, scribbled, lent, c>>

(* A read-only operation (Get, List, Pull with its seed, Describe) hands    *)
(* out the stored cell itself (no mask) or a copy (mask).                   *)
Read ==
  /\ last' = "read" /\ c' = c /\ scribbled' = scribbled /\ model' = model /\ stored' = stored /\ lent' = lent
  /\ \/ LET h1 == IF ReadEdits /\ stored # Nil THEN [heap EXCEPT ![stored] = Edited] ELSE heap
            x  == CrossAll(dir, frozen, h1, {stored}, "out")
        IN heap' = h1 /\ used' = used /\ dir' = x.dir2 /\ frozen' = x.frz
     \/ \E n \in Free :
        stored # Nil /\
        LET h1 == [heap EXCEPT ![n] = heap[stored]]
            x  == CrossAll(dir, frozen, h1, {n}, "out")
        IN heap' = h1 /\ used' = used \cup {n} /\ dir' = x.dir2 /\ frozen' = x.frz

(* The caller overwrites a message he handed to a write, IN PLACE: he writes  *)
(* through every pointer, slice, map and nested message reachable from it    *)
(* (recycling a request message), so whatever shares memory with it shows    *)
(* the scribble too.  Only the cell a itself becomes "scribbled" (exempt):   *)
(* another cell that changes with it is a handed-out message that changed.   *)
CallerScribble(a) ==
  /\ a \in used /\ dir[a] \in {"in", "both"} /\ a \notin scribbled
  /\ heap' = [x \in 0..NCells |-> IF x = a \/ <<a, x>> \in lent THEN Garbage ELSE heap[x]]
  /\ scribbled' = scribbled \cup {a}
  /\ last' = "scribble"
  /\ UNCHANGED <<used, stored, model, dir, frozen, lent, c>>

(* The caller drops a handle (the harness keeps at most MaxLive).           *)
Forget(a) ==
  /\ a \in used /\ a # stored
  /\ used' = used \ {a}
  /\ dir' = [dir EXCEPT ![a] = "none"]
  /\ scribbled' = scribbled \ {a}
  /\ heap' = [heap EXCEPT ![a] = 0] /\ frozen' = [frozen EXCEPT ![a] = 0]
  /\ lent' = { p \in lent : p[1] # a /\ p[2] # a }
  /\ last' = "forget"
  /\ UNCHANGED <<stored, model, c>>

(* Recheck: nothing is called, every live handle is compared again.         *)
Recheck == last' = "recheck" /\ UNCHANGED <<heap, used, stored, model, dir, frozen, scribbled, lent, c>>

Op == (\E v \in Vals : Write(v)) \/ Read
      \/ (\E s \in Cells, masked \in BOOLEAN : WriteFrom(s, masked) \/ WriteOther(s, masked))
Next == Op \/ (\E a \in Cells : CallerScribble(a) \/ Forget(a)) \/ Recheck
Spec == Init /\ [][Next]_vars

----------------------------------------------------------------------------
(* The property                                                            *)
TypeOK ==
  /\ stored \in used \cup {Nil} /\ used \subseteq Cells /\ heap[Nil] = Absent
  /\ \A x \in Cells : dir[x] \in {"none", "in", "out", "both"}
  /\ scribbled \subseteq used

HandedOutStable ==
  \A x \in used : (dir[x] \in {"out", "both"} /\ x \notin scribbled) => heap[x] = frozen[x]

StoreIsolated == heap[stored] = model

ReadOnlyFrame ==
  [][last' \in {"read", "recheck", "forget", "other"} => (model' = model /\ heap'[stored'] = heap[stored])]_vars

\* the bound on live handles is respected by construction of the heap
Bounded == Cardinality(used) <= NCells

----------------------------------------------------------------------------
(* Observation-level forms, evaluated by IsolationTrace on one logged step  *)
(* t of the real code.  t.changed = the handed-out handles (not scribbled   *)
(* by the caller) whose content digest now differs from the frozen one;     *)
(* t.pre / t.post = digest of the full read-back before / after the step.   *)
(* On a "scribble" line the handles that ARE the overwritten messages (the   *)
(* same objects) are exempt, as `scribbled` cells are above; every other     *)
(* handle that changed with the in-place scribble is in t.changed.           *)
ObsHandedOutStable(t) == \A k \in 1..Len(t.changed) : t.changed[k].now = t.changed[k].was
ObsReadOnlyFrame(t)   == (t.kind = "call" /\ t.ro) => t.post = t.pre
ObsStoreIsolated(t)   == t.kind = "scribble" => t.post = t.pre

----------------------------------------------------------------------------
(* Gen: walks for a generic object with k operations.  op is an index the   *)
(* harness reduces modulo the number of operations it bound for the target; *)
(* arg seeds the random arguments; delay = after how many further steps the *)
(* caller scribbles on the messages he handed in at this step (0 = as soon  *)
(* as the call returned); a "recheck" step calls nothing.                   *)
R(S) == RandomElement(S)
Pick(z, seq) == seq[RandomElement(1..Len(seq))]
Step(z) ==
  LET k == Pick(z, <<"call", "call", "call", "call", "call", "call", "call", "call", "call", "recheck">>)
  \* src: the written message is fresh, or (where the operation is a plain write) the pick-th message the caller
  \* holds from an earlier read, result or event; masked writes are chosen by the harness from arg
  IN [kind |-> k, op |-> R(0..9999), arg |-> R(0..999999),
      delay |-> Pick(z, <<0, 0, 0, 0, 1, 1, 2, 5>>),
      src |-> Pick(z, <<"fresh", "fresh", "fresh", "held", "held">>), pick |-> R(0..999)]
\* init = the configuration the object is constructed in (one of InitKinds)
Walk(k) == [n |-> k, init |-> R(InitKinds), steps |-> [j \in 1..R(MinOps..MaxOps) |-> Step(k)]]

GenInit ==
  /\ heap = [x \in 0..NCells |-> 0] /\ used = {1} /\ stored = 1 /\ model = 0
  /\ dir = [x \in Cells |-> "none"] /\ frozen = [x \in Cells |-> 0] /\ scribbled = {} /\ lent = {} /\ last = "init"
  /\ c \in { Walk(k) : k \in 1..NCases }
GenNext == UNCHANGED vars
EmitCase == PrintT("CASE " \o ToJson(c))
=============================================================================
