SPECIFICATION Spec
CONSTANTS
  Writers <- W2
  Subs <- S1
  Ids <- I1
  MaxV = 6
  Programs <- SubValPrograms
  SubKinds <- KindsLossy
  InitStores <- ValStores
  PublishAfterUnlock = FALSE
  CreatedRevalidated = TRUE
  DeleteHoldsLock = TRUE
  SnapHoldsLock = TRUE
  DeleteRechecks = TRUE
  Equiv = "none"
  SubSer = FALSE
  MayCancel = FALSE
  SnapAtCommit = TRUE
  CollectLive = TRUE
INVARIANT EmitSched
CHECK_DEADLOCK FALSE
