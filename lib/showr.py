import json,sys
E={'i':0,'s':0,'o':-1,'n':{'p':False,'a':0,'cp':False,'ci':0},'f':{'p':False,'c':0,'d':0},'r':[],'rm':[],'m':{'k1':0,'k2':0},'u':{'k':0,'ui':0,'una':0},'x':[]}
pp=lambda m: 'nil' if m['nil'] else [ '.'.join(p) for p in m['paths']]
sh=lambda m: {k:v for k,v in m.items() if v!=E.get(k)}
so=lambda o: sh(o['v']) if o['has'] else None
def st(items): return [(i['id'],sh(i['body']),i['ct']) for i in items]
for f in sys.argv[1:]:
    d=json.load(open(f)); w=d['witness']
    print(d['signature'],'| prog',w['prog'],'step',w['step'],'icpt',w['icpt'],'equiv',w['equiv'],'now',w['now'])
    o=w['o']
    print('  call',w['op'],repr(w['id']),sh(w['msg']),'M',pp(o['M']),'R',pp(o['R']),'ev',so(o['ev']),{k:o[k] for k in ('chk','xa','cia','am','gen','first','ib','ia','wt')}, 'mask',pp(w['mask']))
    if w['res']=='coll':
        print('  pre ',st(w['pre'])); print('  post',st(w['post']))
    else:
        print('  vpre',w['vpre']['has'],sh(w['vpre']['v']),w['vpre']['ct'],' vpost',w['vpost']['has'],sh(w['vpost']['v']),w['vpost']['ct'])
    print('  err',w['err'],'ret',so(w['ret']),'idcb',w['idcb'],'ccb',w['ccb'],'panic',w['panic'][:80], 'found',w['found'],'list',[sh(x) for x in w['list']])
    for k,s in enumerate(w['subs']):
        print('  sub',k,'uo',s['updatesOnly'],'mask',pp(s['mask']),'inc',None if s['inc']['nil'] else s['inc']['t'], 'held', so(w['held'][k]) if w['held'] else '')
        for e in w['deliv'][k]: print('     ->',e['id'],e['type'],'old',so(e['old']),'new',so(e['new']),e['ct'],e['seed'],e['lastSeed'])
