SPECIFICATION Spec
INVARIANT ContractHolds
