---------------------------- MODULE FanSpeedGen ----------------------------
(***************************************************************************)
(* Gen use of FanSpeed.tla: random preset tables (1..5 distinct names,    *)
(* percentages in any order, sometimes repeated) or the default table, a  *)
(* consistent initial fan speed, then 10..MaxOps update requests.         *)
(* A request either starts from a zero message ("zero": what a client     *)
(* that sets one field sends) or from the current fan speed ("current":   *)
(* read-modify-write; "preset": only the current preset is echoed, the    *)
(* way a relative step that keeps the preset selected has to be sent) and *)
(* overrides the fields named by set*; the harness                        *)
(* logs the message it actually sent.                                     *)
(***************************************************************************)
EXTENDS FanSpeed, TLC, Json

CONSTANTS NCases, MaxOps
VARIABLE c

R(S) == RandomElement(S)
Flip(z, pct) == RandomElement(1..100) <= pct
Pick(z, seq) == seq[RandomElement(1..Len(seq))]

NamePool == <<"off", "low", "med", "high", "full", "eco", "boost">>
Pcts == { 5 * k : k \in 0..20 }
RandPresets(z) ==
  LET keep == <<Flip(z, 50), Flip(z, 50), Flip(z, 50), Flip(z, 50), Flip(z, 50), Flip(z, 50), Flip(z, 50)>>
      idx == SelectSeq(<<1, 2, 3, 4, 5, 6, 7>>, LAMBDA j : keep[j])
      idx2 == IF idx = <<>> THEN <<3>> ELSE SubSeq(idx, 1, IF Len(idx) > 5 THEN 5 ELSE Len(idx))
      few == {0, 25, 50, 100}
      dup == Flip(z, 30)        \* few distinct percentages: repeated ones likely
      ps == [j \in 1..Len(idx2) |-> [name |-> NamePool[idx2[j]], pct |-> IF dup THEN R(few) ELSE R(Pcts)]]
  IN SelectSeq(ps, LAMBDA x : TRUE)     \* forces one evaluation

Req(z, ps) ==
  LET names == { ps[k].name : k \in 1..Len(ps) }
      rel == Flip(z, 35)
      base == IF rel THEN Pick(z, <<"zero", "preset", "preset">>) ELSE Pick(z, <<"zero", "current", "current">>)
      what == Pick(z, <<"preset", "preset", "index", "index", "pct", "pct", "preset+index", "preset+pct", "index+pct", "all", "none">>)
  IN [op |-> "Update", base |-> base, relative |-> rel,
      setPreset |-> what \in {"preset", "preset+index", "preset+pct", "all"},
      setIndex |-> what \in {"index", "preset+index", "index+pct", "all"},
      setPct |-> what \in {"pct", "preset+pct", "index+pct", "all"},
      preset |-> IF Flip(z, 8) THEN "bogus" ELSE IF Flip(z, 10) THEN "" ELSE R(names),
      index |-> IF rel THEN R(-3..3) ELSE R(-1..(Len(ps) + 1)),
      pct |-> IF rel THEN 5 * R(-6..6) ELSE IF Flip(z, 50) THEN ps[R(1..Len(ps))].pct ELSE R(Pcts)]

Prog(k) ==
  LET custom == Flip(k, 70)
      ps == IF custom THEN RandPresets(k) ELSE DefaultPresets
      hasInit == custom \/ Flip(k, 50)
  IN [model |-> "fanspeed", n |-> k,
      cfg |-> [custom |-> custom, presets |-> ps, hasInit |-> hasInit,
               init |-> IF hasInit THEN Triple(ps, R(1..Len(ps))) ELSE DefaultInit],
      ops |-> [j \in 1..R(10..MaxOps) |-> Req(k, ps)]]

GenInit == c \in { Prog(k) : k \in 1..NCases }
GenNext == UNCHANGED c
EmitCase == PrintT("CASE " \o ToJson(c))
=============================================================================
