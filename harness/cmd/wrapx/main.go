// Command wrapx runs Wrap.tla call scripts against the real code for property C13.
//
// Every script (a sequence of joint client/server steps printed by spec/WrapGen) is executed
// twice against ONE scriptable TestApiServer: through wrap.ServerToClient (the code under
// test) and through a real grpc.Server on bufconn (the reference).  Both transcripts are
// written, next to the echoed script, as one JSON line; spec/WrapTrace.tla decides.
//
//	wrapx -cases scripts.ndjson -out obs.ndjson
package main

import (
	"context"
	"fmt"
	"net"
	"os"
	"time"

	"google.golang.org/grpc"
	"google.golang.org/grpc/credentials/insecure"
	"google.golang.org/grpc/test/bufconn"

	"github.com/smart-core-os/sc-golang/internal/testproto"
	"github.com/smart-core-os/sc-golang/pkg/wrap"
	"github.com/smart-core-os/sc-golang/verifharness/hx"
)

// Step is one joint step of a call script (see spec/Wrap.tla for the meaning).
type Step struct {
	C    string `json:"c"`    // client op: - open invoke send close recv header trailer cancel deadline
	S    string `json:"s"`    // server op: - recv sethdr sendhdr send settrl return wait
	V    int    `json:"v"`    // message value (send/open/invoke: request; send/return: response; return: status message)
	Md   int    `json:"md"`   // metadata token for sethdr/sendhdr/settrl
	Code string `json:"code"` // status returned by the server
	J    bool   `json:"j"`    // the client's pending blocking op completes in this step
	X    int    `json:"x"`    // variant selector (e.g. metadata through the context helpers)
}

// Case is one line printed by WrapGen.
type Case struct {
	N     int    `json:"n"`
	Kind  string `json:"kind"`  // call | probe
	Shape string `json:"shape"` // unary sstream cstream bidi ustream
	Dl    bool   `json:"dl"`    // the client context carries a deadline
	Req   int    `json:"req"`   // value of the x-req request metadata
	Mdk   int    `json:"mdk"`   // caller's context: 0 outgoing metadata, 1 no metadata, 2 incoming metadata only
	Steps []Step `json:"steps"`
	// probes
	Via    string `json:"via"`    // invoke | stream
	Method string `json:"method"` // Unary ServerStream ClientStream BidiStream Nope
	Svc    string `json:"svc"`    // ok | other
	CS     bool   `json:"cs"`
	SS     bool   `json:"ss"`
}

type Obs struct {
	Case
	W Transcript `json:"w"`
	G Transcript `json:"g"`
}

type env struct {
	srv      *scriptServer
	wrapConn grpc.ClientConnInterface
	grpcConn *grpc.ClientConn
	stop     func()
}

func setup() *env {
	srv := newScriptServer()
	e := &env{srv: srv}
	e.wrapConn = wrap.ServerToClient(testproto.TestApi_ServiceDesc, srv)

	lis := bufconn.Listen(1 << 20)
	gs := grpc.NewServer()
	testproto.RegisterTestApiServer(gs, srv)
	go func() { _ = gs.Serve(lis) }()
	cc, err := grpc.NewClient("passthrough:///bufnet",
		grpc.WithContextDialer(func(ctx context.Context, _ string) (net.Conn, error) { return lis.DialContext(ctx) }),
		grpc.WithTransportCredentials(insecure.NewCredentials()))
	if err != nil {
		hx.Fatal("grpc.NewClient: %v", err)
	}
	e.grpcConn = cc
	e.stop = func() {
		cc.Close()
		gs.Stop()
	}
	return e
}

func main() {
	cases := hx.ReadCases[Case](hx.Arg("-cases", "scripts.ndjson"))
	out := hx.NewOut(hx.Arg("-out", "obs.ndjson"))
	defer out.Close()
	e := setup()
	defer e.stop()
	rng := hx.Rand(13)
	only := hx.Arg("-transport", "both")

	// warm the connection up so the first script does not pay for the HTTP/2 handshake
	warm := Case{N: 0, Kind: "probe", Via: "invoke", Method: "Nope", Svc: "ok"}
	runProbe(e.grpcConn, warm)

	base := wrapGoroutines()
	if base != 0 {
		hx.Fatal("pkg/wrap goroutines before any call: %d", base)
	}
	start := time.Now()
	hung := 0
	for _, c := range cases {
		hx.Current(map[string]any{"n": c.N, "kind": c.Kind, "shape": c.Shape})
		o := Obs{Case: c}
		switch c.Kind {
		case "probe":
			o.W = runProbe(e.wrapConn, c)
			o.W.Leak = waitNoWrapGoroutines(2 * time.Second)
			o.G = runProbe(e.grpcConn, c)
		default:
			if only != "grpc" {
				o.W = runScript(e, "w", e.wrapConn, c, rng)
				o.W.Leak = waitNoWrapGoroutines(2 * time.Second)
				if o.W.Leak > 0 {
					o.W.LeakDump = wrapGoroutineDump()
					// one leaked goroutine is reported once, not against every later script
					if !drainLeak() {
						out.Write(o)
						out.Close()
						fmt.Fprintf(os.Stderr, "wrapx: pkg/wrap goroutines pile up (script %d); stopping\n", c.N)
						os.Exit(0)
					}
				}
			}
			if only != "wrap" {
				o.G = runScript(e, "g", e.grpcConn, c, rng)
			}
		}
		out.Write(o)
		if len(o.W.Hang) > 0 || len(o.G.Hang) > 0 {
			// every hang costs seconds: a handful is evidence enough
			if hung++; hung >= 3 {
				out.Close()
				fmt.Fprintf(os.Stderr, "wrapx: %d scripts with ops that never completed (last: %d); stopping\n", hung, c.N)
				os.Exit(0)
			}
		}
	}
	fmt.Fprintf(os.Stderr, "wrapx: %d cases in %v\n", len(cases), time.Since(start).Round(time.Millisecond))
}
