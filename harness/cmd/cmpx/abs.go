package main

import (
	"fmt"
	"math"
	"math/big"
	"time"

	"github.com/smart-core-os/sc-api/go/traits"
	"github.com/smart-core-os/sc-api/go/types"
	"google.golang.org/protobuf/encoding/protowire"
	"google.golang.org/protobuf/proto"
	"google.golang.org/protobuf/types/known/durationpb"
	"google.golang.org/protobuf/types/known/timestamppb"

	"github.com/smart-core-os/sc-golang/internal/testproto"
	"github.com/smart-core-os/sc-golang/pkg/cmp"
	"github.com/smart-core-os/sc-golang/verifharness/hx"
)

// ---- abstract messages of spec/Cmp.tla --------------------------------------

// Flt: k = "fin" is the dyadic rational v/8, "nz" is -0.0, "nan"/"pinf"/"ninf".
type Flt struct {
	K string `json:"k"`
	V int    `json:"v"`
}
type OptF struct {
	Has bool `json:"has"`
	V   Flt  `json:"v"`
}

// OptI is an optional timestamp or duration in abstract units.
type OptI struct {
	Has bool `json:"has"`
	T   int  `json:"t"`
	E   int  `json:"e"` // anchor: 0 = the ordinary range, others = extreme anchors (see farTime / farDur)
}
type WK struct {
	P  bool  `json:"p"`
	Ts OptI  `json:"ts"`
	Du OptI  `json:"du"`
	Uk []int `json:"uk"` // unknown fields carried by the nested message itself (layout, see unknown)
}
type NN struct {
	P  bool  `json:"p"`
	A  int   `json:"a"`
	Fl Flt   `json:"fl"`
	Ts OptI  `json:"ts"`
	Uk []int `json:"uk"` // unknown fields of .corecursive
}
type U struct {
	K   int `json:"k"`
	Ui  int `json:"ui"`
	Una int `json:"una"`
}
type Ch struct {
	Nm int   `json:"nm"`
	Ct OptI  `json:"ct"`
	On int   `json:"on"`
	Uk []int `json:"uk"` // unknown fields of the Change message
}
type Msg struct {
	Ty string `json:"ty"`
	I  int    `json:"i"`
	S  int    `json:"s"`
	Fl Flt    `json:"fl"`
	Db Flt    `json:"db"`
	Of OptF   `json:"of"`
	Rd []Flt  `json:"rd"`
	Mf struct {
		K1 OptF `json:"k1"`
		K2 OptF `json:"k2"`
	} `json:"mf"`
	Wk  WK    `json:"wk"`
	Rw  []WK  `json:"rw"`
	Mw  WK    `json:"mw"`
	Nn  NN    `json:"nn"`
	U   U     `json:"u"`
	Unk []int `json:"unk"`
	Ch  []Ch  `json:"ch"`
	Act OptI  `json:"act"`
}

// Cm is one value comparer: float(fraction a/8, margin b/8), time(a units),
// dur(a units), durp(a/4).
type Cm struct {
	K string `json:"k"`
	A int    `json:"a"`
	B int    `json:"b"`
}

// Term is a single comparer (op "one") or ValueAnd / ValueOr over several.
type Term struct {
	Op string `json:"op"`
	Cs []Cm   `json:"cs"`
}

// Cfg: one cmp.Equal(ms[0]...) (mop "one"), or cmp.And / cmp.Or over cmp.Equal(ms[j]...).
type Cfg struct {
	Mop string   `json:"mop"`
	Ms  [][]Term `json:"ms"`
}

// ---- the numeric embedding ---------------------------------------------------

// scale maps abstract time units to nanoseconds; base instants make unit steps
// cross second boundaries and the epoch.  Every spec comparison is scale and
// translation invariant.
type embed struct {
	unit  time.Duration
	base  time.Time
	dbase time.Duration
}

func newEmbed(sc, tb int) embed {
	units := []time.Duration{time.Nanosecond, time.Millisecond, time.Second, time.Hour}
	bases := []time.Time{time.Unix(1_700_000_000, 0), time.Unix(1_700_000_000, 999_999_990), time.Unix(0, 0), time.Unix(-1, 999_999_998)}
	dbases := []time.Duration{0, 999_999_995, 0, -999_999_997}
	return embed{unit: units[sc%len(units)], base: bases[tb%len(bases)], dbase: dbases[tb%len(dbases)]}
}

// Extreme anchors.  Timestamps: -1 time.Time{} (0001-01-01), -2 / 2 the least / greatest instant
// UnixNano can express (1677-09-21 / 2262-04-11), 1 the start of year 9999.  Durations: t = 12 on
// anchor 1 is math.MaxInt64 ns, t = -12 on anchor -1 is math.MinInt64 ns.
const maxOffset = 12 // |t| of every generated value
const maxTol = 13    // greatest generated tolerance, in units

func farTime(a int) time.Time {
	switch a {
	case -1:
		return time.Time{}
	case -2:
		return time.Unix(0, math.MinInt64)
	case 2:
		return time.Unix(0, math.MaxInt64)
	case 1:
		return time.Date(9999, 1, 1, 0, 0, 0, 0, time.UTC)
	}
	panic("bad time anchor")
}

func (e embed) farDur(a int) time.Duration {
	switch a {
	case 1:
		return time.Duration(math.MaxInt64) - maxOffset*e.unit
	case -1:
		return time.Duration(math.MinInt64) + maxOffset*e.unit
	}
	panic("bad duration anchor")
}

func (e embed) instant(o OptI) time.Time {
	if o.E != 0 {
		return farTime(o.E).Add(time.Duration(o.T) * e.unit)
	}
	return e.base.Add(time.Duration(o.T) * e.unit)
}

func (e embed) span(o OptI) time.Duration {
	if o.E != 0 {
		return e.farDur(o.E) + time.Duration(o.T)*e.unit
	}
	return e.dbase + time.Duration(o.T)*e.unit
}

func (e embed) ts(o OptI) *timestamppb.Timestamp {
	if !o.Has {
		return nil
	}
	return timestamppb.New(e.instant(o))
}

func (e embed) du(o OptI) *durationpb.Duration {
	if !o.Has {
		return nil
	}
	return durationpb.New(e.span(o))
}

// checkAnchors establishes, with exact big-integer arithmetic, what spec/Cmp.tla trusts: under every
// unit and base, values on two different anchors are farther apart than the greatest tolerance plus
// all offsets (so "different anchor => not within tolerance" is exact), nothing overflows int64 when
// a value is built, and timestamps / durations survive the round trip through their protobuf form.
func checkAnchors() {
	ns := func(t time.Time) *big.Int { // exact nanoseconds since the Unix epoch
		v := new(big.Int).Mul(big.NewInt(t.Unix()), big.NewInt(1e9))
		return v.Add(v, big.NewInt(int64(t.Nanosecond())))
	}
	for sc := 0; sc < 4; sc++ {
		for tb := 0; tb < 4; tb++ {
			e := newEmbed(sc, tb)
			slack := new(big.Int).Mul(big.NewInt(maxTol+2*maxOffset+1), big.NewInt(int64(e.unit)))
			slack.Add(slack, big.NewInt(4e9))
			times := []*big.Int{ns(e.base), ns(farTime(-1)), ns(farTime(-2)), ns(farTime(1)), ns(farTime(2))}
			durs := []*big.Int{big.NewInt(int64(e.dbase))}
			for _, a := range []int{1, -1} {
				// built without overflow: anchor +- maxOffset units stays inside int64
				v := big.NewInt(int64(e.farDur(a)))
				lo := new(big.Int).Sub(v, new(big.Int).Mul(big.NewInt(maxOffset), big.NewInt(int64(e.unit))))
				hi := new(big.Int).Add(v, new(big.Int).Mul(big.NewInt(maxOffset), big.NewInt(int64(e.unit))))
				if a == 1 && hi.Cmp(big.NewInt(math.MaxInt64)) != 0 || a == -1 && lo.Cmp(big.NewInt(math.MinInt64)) != 0 {
					hx.Fatal("duration anchor %d does not end at the int64 limit", a)
				}
				durs = append(durs, v)
			}
			for _, set := range [][]*big.Int{times, durs} {
				for i := range set {
					for j := range set {
						if i == j {
							continue
						}
						d := new(big.Int).Sub(set[i], set[j])
						if d.Abs(d).Cmp(slack) <= 0 {
							hx.Fatal("anchors %d and %d are too close for unit %v", i, j, e.unit)
						}
					}
				}
			}
			for _, a := range []int{-2, -1, 0, 1, 2} {
				for _, t := range []int{-maxOffset, 0, maxOffset} {
					o := OptI{Has: true, T: t, E: a}
					if got := e.ts(o).AsTime(); !got.Equal(e.instant(o)) {
						hx.Fatal("timestamp %v does not survive its protobuf form", o)
					}
					if a == 2 || a == -2 {
						continue // durations have the anchors -1, 0, 1 only
					}
					if got := e.du(o).AsDuration(); got != e.span(o) {
						hx.Fatal("duration %v does not survive its protobuf form", o)
					}
				}
			}
		}
	}
}

func f64(f Flt) float64 {
	switch f.K {
	case "fin":
		return float64(f.V) / 8
	case "nz":
		return math.Copysign(0, -1)
	case "nan":
		return math.NaN()
	case "pinf":
		return math.Inf(1)
	case "ninf":
		return math.Inf(-1)
	case "pbig": // the greatest finite magnitude (of a double; f32 gives the float one)
		return math.MaxFloat64
	case "nbig":
		return -math.MaxFloat64
	}
	panic("bad float kind " + f.K)
}

// f32 is the value for a float (32 bit) field.
func f32(f Flt) float32 {
	switch f.K {
	case "pbig":
		return math.MaxFloat32
	case "nbig":
		return -math.MaxFloat32
	}
	return float32(f64(f))
}

func str(k int) string {
	if k == 0 {
		return ""
	}
	return fmt.Sprintf("s%d", k)
}

func (e embed) wk(w WK) *testproto.WellKnown {
	m := &testproto.WellKnown{DefaultTimestamp: e.ts(w.Ts), DefaultDuration: e.du(w.Du)}
	setUnknown(m, w.Uk)
	return m
}

// setUnknown gives a (nested) message the unknown fields of the layout.
func setUnknown(m proto.Message, layout []int) {
	if len(layout) > 0 {
		m.ProtoReflect().SetUnknown(unknown(layout))
	}
}

// unknown encodes a layout: entry 10*n + v is the varint v under field number 1000 + n, in wire order.
func unknown(layout []int) []byte {
	var raw []byte
	for _, e := range layout {
		raw = protowire.AppendTag(raw, protowire.Number(1000+e/10), protowire.VarintType)
		raw = protowire.AppendVarint(raw, uint64(e%10))
	}
	return raw
}

// conc builds the concrete message an abstract one stands for (a fresh one on every call).
func (e embed) conc(a Msg) proto.Message {
	var m proto.Message
	switch a.Ty {
	case "nil":
		return nil
	case "Tnil":
		return (*testproto.TestAllTypes)(nil)
	case "F":
		m = &testproto.ForeignMessage{C: int32(a.I)}
	case "P":
		p := &traits.PullOnOffResponse{}
		for _, c := range a.Ch {
			ch := &traits.PullOnOffResponse_Change{Name: str(c.Nm), ChangeTime: e.ts(c.Ct)}
			switch c.On {
			case 1:
				ch.OnOff = &traits.OnOff{State: traits.OnOff_ON}
			case 2:
				ch.OnOff = &traits.OnOff{State: traits.OnOff_OFF}
			}
			setUnknown(ch, c.Uk)
			p.Changes = append(p.Changes, ch)
		}
		m = p
	case "A":
		m = &types.AudioLevelChange{Name: str(a.S), ChangeTime: e.ts(a.Act)}
	case "S":
		s := &traits.ElectricMode_Segment{Magnitude: f32((a.Fl))}
		if a.Of.Has {
			s.Shape = &traits.ElectricMode_Segment_Fixed{Fixed: f32((a.Of.V))}
		}
		m = s
	case "T":
		t := &testproto.TestAllTypes{}
		t.DefaultInt32 = int32(a.I)
		t.DefaultString = str(a.S)
		t.DefaultFloat = f32((a.Fl))
		t.DefaultDouble = f64(a.Db)
		if a.Of.Has {
			v := f32((a.Of.V))
			t.OptionalFloat = &v
		}
		for _, v := range a.Rd {
			t.RepeatedDouble = append(t.RepeatedDouble, f64(v))
		}
		if a.Mf.K1.Has || a.Mf.K2.Has {
			t.MapInt32Float = map[int32]float32{}
			if a.Mf.K1.Has {
				t.MapInt32Float[1] = f32((a.Mf.K1.V))
			}
			if a.Mf.K2.Has {
				t.MapInt32Float[2] = f32((a.Mf.K2.V))
			}
		}
		if a.Wk.P {
			t.DefaultWellKnown = e.wk(a.Wk)
		}
		for _, w := range a.Rw {
			t.RepeatedWellKnown = append(t.RepeatedWellKnown, e.wk(w))
		}
		if a.Mw.P {
			t.MapStringWellKnown = map[string]*testproto.WellKnown{"k": e.wk(a.Mw)}
		}
		if a.Nn.P {
			inner := &testproto.TestAllTypes{DefaultFloat: f32((a.Nn.Fl))}
			if a.Nn.Ts.Has {
				inner.DefaultWellKnown = &testproto.WellKnown{DefaultTimestamp: e.ts(a.Nn.Ts)}
			}
			setUnknown(inner, a.Nn.Uk)
			t.DefaultNestedMessage = &testproto.TestAllTypes_NestedMessage{A: int32(a.Nn.A), Corecursive: inner}
		}
		switch a.U.K {
		case 1:
			t.OneofDefault = &testproto.TestAllTypes_OneofDefaultInt32{OneofDefaultInt32: int32(a.U.Ui)}
		case 2:
			t.OneofDefault = &testproto.TestAllTypes_OneofDefaultNestedMessage{
				OneofDefaultNestedMessage: &testproto.TestAllTypes_NestedMessage{A: int32(a.U.Una)}}
		}
		m = t
	default:
		panic("bad message type " + a.Ty)
	}
	if raw := unknown(a.Unk); len(raw) > 0 {
		m.ProtoReflect().SetUnknown(raw)
	}
	return m
}

// ---- comparers ---------------------------------------------------------------

func (e embed) value(c Cm) cmp.Value {
	switch c.K {
	case "float":
		return cmp.FloatValueApprox(float64(c.A)/8, float64(c.B)/8)
	case "time":
		return cmp.TimeValueWithin(time.Duration(c.A) * e.unit)
	case "dur":
		return cmp.DurationValueWithin(time.Duration(c.A) * e.unit)
	case "durp":
		return cmp.DurationValueWithinP(float32(c.A) / 4)
	}
	panic("bad comparer kind " + c.K)
}

func (e embed) term(t Term) cmp.Value {
	vs := make([]cmp.Value, 0, len(t.Cs))
	for _, c := range t.Cs {
		vs = append(vs, e.value(c))
	}
	switch t.Op {
	case "one":
		return vs[0]
	case "and":
		return cmp.ValueAnd(vs...)
	case "or":
		return cmp.ValueOr(vs...)
	}
	panic("bad term op " + t.Op)
}

// equal is cmp.Equal over the terms.
func (e embed) equal(terms []Term) cmp.Message {
	vs := make([]cmp.Value, 0, len(terms))
	for _, t := range terms {
		vs = append(vs, e.term(t))
	}
	return cmp.Equal(vs...)
}

// message builds the configured message comparer and its components.
func (e embed) message(c Cfg) (whole cmp.Message, parts []cmp.Message) {
	for _, terms := range c.Ms {
		parts = append(parts, e.equal(terms))
	}
	switch c.Mop {
	case "one":
		return parts[0], parts
	case "and":
		return cmp.And(parts...), parts
	case "or":
		return cmp.Or(parts...), parts
	}
	panic("bad message op " + c.Mop)
}
