------------------------------ MODULE StackGen ------------------------------
(***************************************************************************)
(* Gen use for C14: random client histories printed as CASE lines.  A      *)
(* history is a sequence of                                                *)
(*   Update(value index, update mask)   Get(read mask)                     *)
(*   OpenPull(updates-only, name, read mask)   CloseStream(which)          *)
(*   Other(delete | create): for servers whose triple addresses one record  *)
(*   of a collection, another record of that collection is deleted/created  *)
(*   (a no-op for the other servers)                                        *)
(*   PullOnce(read mask): a Pull with a read mask, first message only        *)
(*   RaceOpen(value): open+cancel a stream, then Update(value) with a new    *)
(*   Pull opened between its commit and its publication                      *)
(*   TimedUpdate(value) . Update(value') . Wait: an Update carrying a short   *)
(*   duration (where the resource has one), superseded at once, then a delay *)
(*   Update . Nudge . Nudge . Get at the end of a quarter of the histories:   *)
(*   changes below any configured tolerance                                  *)
(* with 1..6 updates and 0..2 streams open at any time.  Values and masks  *)
(* are indices: the harness maps a value index to one of the 3-4 far-apart *)
(* well-formed values of the server's resource type (1-4, 7, 8; 5, 6: a    *)
(* value the server's business rules are expected to refuse, where the     *)
(* table has one), and a mask selector k to the top-level field number     *)
(* k mod n of that type (90: a path naming no field - update masks only;   *)
(* 20..59: one sub-field of a message-typed field - read masks).  About a  *)
(* quarter of the updates repeat the previous value with no mask           *)
(* ("identical" change).  The verdict is not taken here: StackTrace.tla    *)
(* checks what the real servers answered against Stack!Fails.              *)
(***************************************************************************)
EXTENDS Integers, Sequences, TLC, Json

CONSTANTS NCases, MaxOps
VARIABLE c

R(S) == RandomElement(S)
Flip(z, pct) == RandomElement(1..100) <= pct

NilM == [nil |-> TRUE, sel |-> <<>>]
\* 20..59: a sub-field selection (20 + 8*child + field): "field.child" where that field is a message
ReadMask(z) ==
  IF Flip(z, 25) THEN NilM
  ELSE [nil |-> FALSE, sel |-> R({ <<>>, <<R(0..7)>>, <<R(0..7)>>, <<R(0..7), R(0..7)>>, <<R(0..7), R(0..7), R(0..7)>>,
                                   <<R(20..59)>>, <<R(20..59)>>, <<R(20..59), R(20..59)>>, <<R(0..7), R(20..59)>>,
                                   \* 100..179: a field together with one of its sub-fields (>= 140: sub-field first); the
                                   \* same path twice where the field is not a message
                                   <<R(100..179)>>, <<R(100..179)>>, <<R(0..7), R(100..179)>>, <<R(100..179), R(20..59)>>,
                                   <<R(0..7), R(0..7), R(0..7), R(0..7)>> })]
UpdateMask(z) ==
  IF Flip(z, 45) THEN NilM
  ELSE [nil |-> FALSE, sel |-> R({ <<>>, <<R(0..7)>>, <<R(0..7)>>, <<R(0..7), R(0..7)>>, <<R(0..7), R(0..7), R(0..7)>>,
                                   <<90>>, <<R(0..7), 90>> })]

\* read mask of a Pull that stays open: none, one or two whole fields (two streams then often have disjoint
\* masks), nothing, sub-fields
PullMask(z) ==
  LET d == R(1..100) IN
  IF d <= 35 THEN NilM
  ELSE IF d <= 70 THEN [nil |-> FALSE, sel |-> <<R(0..7)>>]
  ELSE IF d <= 80 THEN [nil |-> FALSE, sel |-> <<R(0..7), R(0..7)>>]
  ELSE IF d <= 85 THEN [nil |-> FALSE, sel |-> <<>>]
  ELSE [nil |-> FALSE, sel |-> R({ <<R(20..59)>>, <<R(100..179)>>, <<R(0..7), R(20..59)>> })]

Blank == [op |-> "Get", uo |-> FALSE, name |-> 0, val |-> 0, mask |-> NilM, which |-> 0]

RECURSIVE Build(_, _, _, _, _, _)
\* z: salt, left: ops still to emit, open: streams open, upd: updates so far, last: previous value index
Build(z, left, open, upd, last, acc) ==
  IF left = 0
    THEN LET a1 == IF upd = 0 THEN Append(acc, [Blank EXCEPT !.op = "Update", !.val = R(1..4), !.name = R(0..1)]) ELSE acc IN
         \* a quarter of the histories END with: an Update, then twice the current value with one number moved by
         \* 0.004 (below any configured tolerance), then a Get.  Only at the end: afterwards the register is within
         \* tolerance of other values, and "large or identical changes" would no longer hold for later steps.
         IF Flip(z, 25)
           THEN a1 \o << [Blank EXCEPT !.op = "Update", !.val = R({1, 2, 3, 4, 7, 8}), !.name = R(0..1)],
                          [Blank EXCEPT !.op = "Nudge", !.name = R(0..1)], [Blank EXCEPT !.op = "Nudge", !.name = R(0..1)],
                          [Blank EXCEPT !.name = R(0..1), !.mask = ReadMask(z)] >>
           ELSE a1
    ELSE
      LET d == R(1..100)
          kind == IF d <= 38 THEN "Update" ELSE IF d <= 53 THEN "Get" ELSE IF d <= 71 THEN "OpenPull"
                  ELSE IF d <= 79 THEN "CloseStream" ELSE IF d <= 87 THEN "Other" ELSE IF d <= 93 THEN "PullOnce"
                  ELSE IF d <= 97 THEN "RaceOpen" ELSE "Timed"
          k2 == IF kind \in {"OpenPull", "RaceOpen"} /\ open >= 2 THEN "Update"
                ELSE IF kind = "CloseStream" /\ open = 0 THEN "OpenPull"
                ELSE kind
          k3 == IF k2 = "Update" /\ upd >= 6 THEN "Get" ELSE k2
      IN
      CASE k3 = "Update" ->
             LET same == last > 0 /\ Flip(z, 25)
                 v == IF same THEN last ELSE R({1, 2, 3, 4, 7, 8, 1, 2, 3, 4, 7, 8, 5, 6})
                 o == [Blank EXCEPT !.op = "Update", !.val = v, !.name = R(0..1),
                                    !.mask = IF same THEN NilM ELSE UpdateMask(z)]
             IN Build(z, left - 1, open, upd + 1, v, Append(acc, o))
        [] k3 = "Get" ->
             Build(z, left - 1, open, upd, last, Append(acc, [Blank EXCEPT !.name = R(0..1), !.mask = ReadMask(z)]))
        [] k3 = "OpenPull" ->
             Build(z, left - 1, open + 1, upd, last,
                   Append(acc, [Blank EXCEPT !.op = "OpenPull", !.uo = Flip(z, 50), !.name = R(0..1), !.mask = PullMask(z)]))
        [] k3 = "PullOnce" ->   \* a Pull with a read mask of which only the first message is read
             Build(z, left - 1, open, upd, last, Append(acc, [Blank EXCEPT !.op = "PullOnce", !.name = R(0..1), !.mask = ReadMask(z)]))
        [] k3 = "RaceOpen" ->   \* a stream is opened and cancelled, then a new Pull opens while an Update is between
                                \* its commit and its publication; the new stream stays open
             LET v == R(1..4) IN
             Build(z, left - 1, open + 1, upd + 1, v, Append(acc, [Blank EXCEPT !.op = "RaceOpen", !.val = v, !.name = R(0..1)]))
        [] k3 = "Timed" ->      \* an Update carrying a short duration, at once a plain Update, then time passes
             LET v1 == R(1..4)
                 v2 == R({1, 2, 3, 4} \ {v1}) IN
             Build(z, left - 1, open, upd + 2, v2,
                   acc \o << [Blank EXCEPT !.op = "TimedUpdate", !.val = v1, !.name = R(0..1)],
                              [Blank EXCEPT !.op = "Update", !.val = v2, !.name = R(0..1)],
                              [Blank EXCEPT !.op = "Wait"] >>)
        [] k3 = "Other" ->   \* which = 0: delete the other record, 1: (re)create it
             Build(z, left - 1, open, upd, last, Append(acc, [Blank EXCEPT !.op = "Other", !.which = R({0, 0, 1})]))
        [] OTHER ->
             Build(z, left - 1, open - 1, upd, last, Append(acc, [Blank EXCEPT !.op = "CloseStream", !.which = R(0..1)]))

Hist(k) == [n |-> k, ops |-> Build(k, R(3..MaxOps), 0, 0, 0, <<>>)]

GenInit == c \in { Hist(k) : k \in 1..NCases }
GenNext == UNCHANGED c
EmitCase == PrintT("CASE " \o ToJson(c))
=============================================================================
