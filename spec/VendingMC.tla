---------------------------- MODULE VendingMC ----------------------------
(***************************************************************************)
(* MC use of Vending.tla: one stock record in every configuration (used / *)
(* remaining present or not, units LITER, CUBIC_METER, KILOGRAM), every   *)
(* dispense quantity up to MaxQ eighths of a cubic metre.  History        *)
(* variables restate the property in closed form, in millilitres:         *)
(* used = used0 + total dispensed, remaining = max(0, remaining0 - total),*)
(* units never change, a failed dispense changes nothing.                 *)
(***************************************************************************)
EXTENDS Vending, TLC

CONSTANT MaxQ
VARIABLES st, s0, total, last
vars == <<st, s0, total, last>>

MCUnits == {"LITER", "CUBIC_METER", "KILOGRAM"}
\* k eighths of a cubic metre (or 125 k kilograms) in thousandths of unit u
Amount(u, k) == CASE u = "LITER" -> 125000 * k [] u = "CUBIC_METER" -> 125 * k [] OTHER -> 125000 * k
OptQs == {NoQ} \cup { Q(u, Amount(u, k)) : u \in MCUnits, k \in 0..MaxQ }
Qs == { [unit |-> u, m |-> Amount(u, k)] : u \in MCUnits, k \in 0..MaxQ }
\* millilitres (or grams)
Base(q) == IF q.unit = "CUBIC_METER" THEN q.m * 1000 ELSE q.m

Init == /\ \E u \in OptQs, r \in OptQs :
             st = [inv |-> <<[name |-> "water", used |-> u, remaining |-> r]>>, cons |-> <<>>]
        /\ s0 = Stock(st, "water") /\ total = 0
        /\ last = [err |-> "OK", pre |-> st]
Next == \E q \in Qs, n \in {"water", "milk"} :
          LET r == Dispense(st, n, q) IN
          /\ st' = r.post
          /\ total' = IF r.err = "OK" THEN total + Base(q) ELSE total
          /\ last' = [err |-> r.err, pre |-> st]
          /\ UNCHANGED s0
Spec == Init /\ [][Next]_vars
Bounded == total <= 2 * MaxQ * 125000
ViewNoHist == <<st, s0, total>>

Cur == Stock(st, "water")
UnitsKept == Cur.used.has = s0.used.has /\ Cur.remaining.has = s0.remaining.has
             /\ Cur.used.unit = s0.used.unit /\ Cur.remaining.unit = s0.remaining.unit
UsedIsSum == Cur.used.has => Base(Cur.used) = Base(s0.used) + total
RemainingIsFlooredDifference == Cur.remaining.has => Base(Cur.remaining) = Max(0, Base(s0.remaining) - total)
FailureIsNoop == last.err # "OK" => st = last.pre
\* a dispense fails exactly when the quantity's category differs from a present quantity's
OnlyCategoryErrors == last.err \in {"OK", "NotFound", "ConversionError"}
=============================================================================
