---------------------------- MODULE MeterMC ----------------------------
(***************************************************************************)
(* MC use of Meter.tla: a clock that ticks, every initial reading whose   *)
(* supplied times are ordered and not in the future.                      *)
(***************************************************************************)
EXTENDS Meter, TLC

CONSTANT MaxTime
VARIABLES st, now, start0
vars == <<st, now, start0>>

Inits == { r \in [usage : 0..2, start : {None} \cup {Some(t) : t \in 0..1}, end : {None} \cup {Some(t) : t \in 0..1}] :
             /\ (r.end.has => r.start.has)             \* an end without a start would put "now" after it
             /\ (r.start.has /\ r.end.has => r.start.v <= r.end.v) }
Init == now = 1 /\ \E r \in Inits : st = New(r, now) /\ start0 = st.start
Tick == now < MaxTime /\ now' = now + 1 /\ UNCHANGED <<st, start0>>
DoRecord == \E v \in 0..2 : st' = Record(st, now, v) /\ UNCHANGED <<now, start0>>
DoReset == st' = Reset(st, now) /\ start0' = Some(now) /\ UNCHANGED now
Next == Tick \/ DoRecord \/ DoReset
Spec == Init /\ [][Next]_vars

StartNotAfterEnd == Ordered(st)
\* the start only ever moves by a Reset
StartKept == st.start = start0
EndNotInFuture == st.end.v <= now
=============================================================================
