// Command cmpx replays the cases generated from spec/Cmp.tla (property C16)
// against the real pkg/cmp comparers and against pkg/resource configured with a
// tolerance equivalence, and records what the code did, one JSON line per case.
//
//	cmpx run -cases cases.ndjson -out obs.ndjson
//
// A case with k = "cmp" is a pair of abstract messages plus a comparer
// configuration (cmpcases.go); k = "stream" is a write history over a Value or a
// Collection with subscribers (stream.go).  abs.go is the abstraction function
// between the flat message records of Cmp.tla and concrete protobuf messages.
package main

import (
	"encoding/json"
	"fmt"
	"os"

	"github.com/smart-core-os/sc-golang/pkg/resource"
	"github.com/smart-core-os/sc-golang/verifharness/hx"
)

func main() {
	if len(os.Args) < 2 || os.Args[1] != "run" {
		fmt.Fprintln(os.Stderr, "usage: cmpx run [-cases f] [-out f]")
		os.Exit(3)
	}
	checkAnchors()
	resource.VerifHook = thePump.hook
	lines := hx.ReadCases[json.RawMessage](hx.Arg("-cases", "cases.ndjson"))
	out := hx.NewOut(hx.Arg("-out", "obs.ndjson"))
	defer out.Close()
	for _, raw := range lines {
		var head struct {
			K string `json:"k"`
			N int    `json:"n"`
		}
		if err := json.Unmarshal(raw, &head); err != nil {
			hx.Fatal("bad case: %v", err)
		}
		// the observation echoes the case verbatim and adds the results
		obs := map[string]json.RawMessage{}
		if err := json.Unmarshal(raw, &obs); err != nil {
			hx.Fatal("bad case: %v", err)
		}
		hx.Current(map[string]any{"k": head.K, "n": head.N})
		var res map[string]any
		switch head.K {
		case "cmp":
			var c cmpCase
			if err := json.Unmarshal(raw, &c); err != nil {
				hx.Fatal("bad cmp case: %v", err)
			}
			res = runCmp(c)
		case "stream":
			var c streamCase
			if err := json.Unmarshal(raw, &c); err != nil {
				hx.Fatal("bad stream case: %v", err)
			}
			res = runStream(c)
		default:
			hx.Fatal("unknown case kind %q", head.K)
		}
		for k, v := range res {
			b, err := json.Marshal(v)
			if err != nil {
				hx.Fatal("marshal %s: %v", k, err)
			}
			obs[k] = b
		}
		out.Write(obs)
	}
}
