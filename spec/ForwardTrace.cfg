INIT TraceInit
NEXT TraceNext
INVARIANT TraceChecked
CONSTANTS
  NCases = 0
  MaxK = 0
