SPECIFICATION Spec
\* StepClauses = ActiveNeverDeleted /\ ClearSelectsNormal /\ StartStampedOnSwitch /\ DeleteAbsent /\ RefusedIsNoop
INVARIANTS TypeOK AtMostOneNormal ActiveExistsOnceChanged StepClauses
