------------------------------ MODULE WrapMC ------------------------------
(***************************************************************************)
(* MC use of Wrap.tla: every well-matched script of at most MaxSteps joint *)
(* steps over a small alphabet, for the five call shapes.  TLC checks on   *)
(* the specification itself that                                           *)
(*   - the messages the client has are a prefix of what the server sent,   *)
(*     an OK end of a multi-message stream means it has all of them,        *)
(*   - the terminal outcome is unique: once observed neither it nor the     *)
(*     message list changes; a server outcome is the returned status, a     *)
(*     context outcome only exists after the context ended,                 *)
(*   - every header read is the metadata set before the headers were        *)
(*     flushed (or nothing, once the client's context ended), headers never *)
(*     change once flushed; asserted trailer reads are the final trailer;   *)
(*     a handler that carries on after it has seen a cancellation changes   *)
(*     nothing the client can observe,                                      *)
(*   - the server receives exactly the client's messages, in order,         *)
(*   - the grammar has no dead end: a script can always be finished.        *)
(* WrapMC_handover.cfg sets the deviation HandsOverSendersMessage: TLC must  *)
(* refute it (MsgsPrefix / ServerGotClientMsgs fail: the receiver got what   *)
(* the sender wrote into its message after the send had returned).           *)
(***************************************************************************)
EXTENDS Wrap

CONSTANTS MaxSteps, MaxMsgs
VARIABLES st, n, prev
vars == <<st, n, prev>>

D(k) == [vals |-> {k}, mds |-> {1, 2}, codes |-> {"OK", "NotFound"}, xs |-> {0}, causes |-> {0, 1},
         maxc |-> MaxMsgs, maxs |-> MaxMsgs, dl |-> TRUE]

Init == st \in { New(sh, 7) : sh \in Shapes } /\ n = 0 /\ prev = st
Next == /\ n < MaxSteps
        /\ \E e \in Legal(st, D(n + 1)) : st' \in Step(st, WithJ(st, e), n + 1)
        /\ n' = n + 1 /\ prev' = st
Spec == Init /\ [][Next]_vars

IsPrefix(p, s) == Len(p) <= Len(s) /\ SubSeq(s, 1, Len(p)) = p
Range(s) == { s[k] : k \in 1..Len(s) }

TypeOK == /\ st.pend \in {"-", "recv", "header", "invoke"}
          /\ st.cx \in {"no", "Canceled", "DeadlineExceeded"}
          /\ st.src \in {"-", "server", "ctx"}
          /\ st.term.has = (st.src # "-")
MsgsPrefix == IF Single(st.shape) THEN st.msgs \in {<<>>, <<st.resp>>} ELSE IsPrefix(st.msgs, st.ssent)
OkMeansAll == (st.term.has /\ st.src = "server" /\ st.term.code = "OK" /\ Multi(st.shape)) => st.msgs = st.ssent
TerminalUnique == prev.term.has => (st.term = prev.term /\ st.src = prev.src /\ st.msgs = prev.msgs)
TermSource == /\ st.src = "server" => (st.ret /\ st.term = StatusSeen(st.rcode, st.rv) /\ (st.cx # "no" => st.retAtCx))
              /\ st.src = "ctx" => (st.cx # "no" /\ st.term = Term(st.cx, ""))     \* whatever the cause
HeaderReads == \A h \in Range(st.hdrs) : IF st.cx = "no" THEN st.hsent /\ h = st.hvis ELSE h \in {st.hvis, NoMD} \cup st.hlate
\* once the handler has seen a cancellation nothing it does changes what the client can observe
QuietAfterSeenCancel == prev.sawCx => /\ HdrOpts(st) \subseteq HdrOpts(prev) /\ Len(st.inflight) <= Len(prev.inflight)
                                      /\ st.hvis = prev.hvis /\ st.hsent = prev.hsent /\ st.hlate = prev.hlate /\ st.hs = prev.hs
                                      /\ st.retAtCx = prev.retAtCx
HeaderFrozen == prev.hsent => (st.hsent /\ st.hvis = prev.hvis)
TrailerReads == \A t \in Range(st.trls) : IF st.src = "server" THEN t = st.tr ELSE t = AnyMD
ServerGotClientMsgs == LET got == SelectSeq(st.srecv, LAMBDA r : r.v > 0) IN
                       [k \in 1..Len(got) |-> got[k].v] = SubSeq(st.creq, 1, Len(got))
PendingIsBlocked == /\ st.pend = "recv" => (~st.ret /\ st.cx = "no")
                    /\ st.pend = "header" => (~st.hsent /\ st.cx = "no")
                    /\ st.pend = "invoke" => (~st.ret /\ st.cx = "no")
NoDeadEnd == CanStop(st) \/ Legal(st, D(1)) # {}
=============================================================================
