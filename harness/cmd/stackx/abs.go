package main

import (
	"fmt"
	"sync"

	"google.golang.org/protobuf/proto"
	"google.golang.org/protobuf/reflect/protoreflect"
)

// Abstraction of a resource message for the specification: one small integer per top-level field of the
// message type, 0 = field not populated, otherwise the number of that field's value in a registry of the
// distinct values seen so far (deterministic wire encoding of the field alone).  Two messages are proto.Equal
// iff their vectors are equal (unknown fields and NaN aside, neither is generated); projecting a message
// through a read mask of top-level paths is zeroing the other positions, which Stack.tla does itself.

type registry struct {
	mu sync.Mutex
	m  map[string]int
}

var reg = &registry{m: map[string]int{}}

func (r *registry) id(key string) int {
	r.mu.Lock()
	defer r.mu.Unlock()
	if v, ok := r.m[key]; ok {
		return v
	}
	v := len(r.m) + 1
	r.m[key] = v
	return v
}

func zeros(n int) []int { return make([]int, n) }

func absMsg(md protoreflect.MessageDescriptor, m proto.Message) []int {
	n := md.Fields().Len()
	res := zeros(n)
	if m == nil {
		return res
	}
	r := m.ProtoReflect()
	if !r.IsValid() {
		return res
	}
	if r.Descriptor().FullName() != md.FullName() {
		panic(fmt.Sprintf("absMsg: got %s want %s", r.Descriptor().FullName(), md.FullName()))
	}
	for i := 0; i < n; i++ {
		fd := r.Descriptor().Fields().Get(i)
		if !r.Has(fd) {
			continue
		}
		one := r.New()
		one.Set(fd, r.Get(fd))
		b, err := proto.MarshalOptions{Deterministic: true}.Marshal(one.Interface())
		if err != nil {
			panic(err)
		}
		res[i] = reg.id(string(md.FullName()) + "#" + string(fd.Name()) + "#" + string(b))
	}
	return res
}

// absSubField is the harness' own projection of one top-level field onto some of its sub-fields: the number of
// (field i of m with, in the message or in every message of the list it holds, only the fields named in keep),
// 0 if m does not populate the field.  Written with protoreflect only, independent of pkg/masks.
func absSubField(md protoreflect.MessageDescriptor, m proto.Message, i int, keep map[string]bool) int {
	if m == nil || !m.ProtoReflect().IsValid() {
		return 0
	}
	r := m.ProtoReflect()
	fd := r.Descriptor().Fields().Get(i)
	if !r.Has(fd) {
		return 0
	}
	restrict := func(src protoreflect.Message) protoreflect.Message {
		c := proto.Clone(src.Interface()).ProtoReflect()
		c.Range(func(f protoreflect.FieldDescriptor, _ protoreflect.Value) bool {
			if !keep[string(f.Name())] {
				c.Clear(f)
			}
			return true
		})
		return c
	}
	one := r.New()
	if fd.IsList() {
		src, dst := r.Get(fd).List(), one.Mutable(fd).List()
		for k := 0; k < src.Len(); k++ {
			dst.Append(protoreflect.ValueOfMessage(restrict(src.Get(k).Message())))
		}
	} else {
		one.Set(fd, protoreflect.ValueOfMessage(restrict(r.Get(fd).Message())))
	}
	b, err := proto.MarshalOptions{Deterministic: true}.Marshal(one.Interface())
	if err != nil {
		panic(err)
	}
	return reg.id(string(md.FullName()) + "#" + string(fd.Name()) + "#" + string(b))
}

func sameVec(a, b []int) bool {
	if len(a) != len(b) {
		return false
	}
	for i := range a {
		if a[i] != b[i] {
			return false
		}
	}
	return true
}
