INIT Init
NEXT Next
INVARIANT HandedOutStable
CONSTANTS
  StoreIn = FALSE
  InPlace = TRUE
  ReadEdits = FALSE
  NCases = 0
  MinOps = 1
  MaxOps = 1
  MaxLive = 200
