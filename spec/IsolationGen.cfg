INIT GenInit
NEXT GenNext
INVARIANT EmitCase
CONSTANTS
  NCells = 1
  NVals = 1
  StoreIn = FALSE
  InPlace = FALSE
  ReadEdits = FALSE
  FirstWriteKeeps = FALSE
  HookEditsOld = FALSE
  LendsOld = FALSE
  MergeFiltersSrc = FALSE
  InitKinds = {"absent", "present"}
  MaxLive = 200
