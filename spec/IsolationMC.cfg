INIT Init
NEXT Next
INVARIANT TypeOK
INVARIANT HandedOutStable
INVARIANT StoreIsolated
INVARIANT Bounded
PROPERTY ReadOnlyFrame
CONSTANTS
  StoreIn = FALSE
  InPlace = FALSE
  ReadEdits = FALSE
  FirstWriteKeeps = FALSE
  HookEditsOld = FALSE
  LendsOld = FALSE
  InitKinds = {"absent", "present"}
  NCases = 0
  MinOps = 1
  MaxOps = 1
  MaxLive = 200
