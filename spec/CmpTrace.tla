---------------------------- MODULE CmpTrace ----------------------------
(***************************************************************************)
(* C16, the verdict: the property clauses evaluated on what the real code  *)
(* returned.  Each line of obs.ndjson echoes one case of Cmp.tla's Gen and *)
(* adds the results (harness/cmd/cmpx):                                    *)
(*  k = "cmp":    got  = configured comparer on (x,y) and (y,x)            *)
(*                parts= each cmp.Equal(ms[j]...) on its own, both orders  *)
(*                self = comparer on (x, copy of x), (y, copy of y)        *)
(*                pe   = proto.Equal both orders; mut = an argument was    *)
(*                       written to; panic                                 *)
(*  k = "stream": dl[s][k] = what subscriber s was handed for write k      *)
(*                [n events, same = it is exactly that write, type],       *)
(*                seedok[s], werr[k], panic                                *)
(* Fails(t) = the set of clauses line t falsifies ("clause|class").        *)
(***************************************************************************)
EXTENDS Cmp

Obs == ndJsonDeserialize("obs.ndjson")

----------------------------------------------------------------------------
(* Comparer cases                                                          *)

\* what the property settles for one cmp.Equal(terms...) on (x, y):
\* NOT settled (not asserted): a float tolerance on NaN, on an infinity against itself and on +Inf
\* against -Inf under a fraction > 0 (Cmp.tla PairJudged; an infinity against a real number or, with
\* fraction 0, against the opposite infinity IS judged: not within any tolerance); change_time present on
\* one side only; a time tolerance vs. differing (ignored) change_times; DurationValueWithinP's
\* acceptance (see Cmp.tla)
FrPos(terms) == \E j \in 1..Len(terms) : \E i \in 1..Len(terms[j].cs) : terms[j].cs[i].k = "float" /\ terms[j].cs[i].a > 0
FinOK(terms, x, y) == ~HasFloat(terms) \/ \A p \in FloatPairs(x, y) : PairJudged(FrPos(terms), p[1], p[2])
Settled(terms, x, y) ==
  /\ FinOK(terms, x, y) /\ "durp" \notin Kinds(terms)
  /\ ~CTOneSided(x, y) /\ ~("time" \in Kinds(terms) /\ CTDiff(x, y))

\* one component against the reference, with the deviation classified
KindStr(terms) ==
  LET K == Kinds(terms)  has(k) == IF k \in K THEN k \o "." ELSE "" IN
  IF K = {} THEN "default" ELSE has("float") \o has("time") \o has("dur") \o has("durp")
PartFails(terms, x, y, got) ==
  LET ks == "|" \o KindStr(terms) IN
  IF ~Settled(terms, x, y) \/ got = EqualM(terms, x, y) THEN {}
  ELSE IF terms = <<>> THEN
         {IF CTDiff(x, y) THEN "default-comparer-wrong|change-time-exception" \o ks ELSE "default-comparer-wrong|vs-spec" \o ks}
  ELSE IF got = EqualMZ(terms, x, y, FALSE) THEN {"tolerance-not-exact|unset-zero-scalar-not-compared-by-tolerance" \o ks}
  ELSE IF got /\ ~DefaultEqual(Erase(x, Kinds(terms)), Erase(y, Kinds(terms))) THEN {"comparer-affects-other-kind|accepted" \o ks}
  ELSE IF ~got /\ DefaultEqual(x, y) THEN {"tolerance-not-exact|rejects-equal-messages" \o ks}
  ELSE {IF got THEN "tolerance-not-exact|accepts-beyond-tolerance" \o ks ELSE "tolerance-not-exact|rejects-within-tolerance" \o ks}

CmpFails(t) ==
  LET x == t.x  y == t.y  cfg == t.cfg
      plain == cfg.mop = "one" /\ cfg.ms[1] = <<>>          \* cmp.Equal(): the default comparer
      finx == "float" \notin CfgKinds(cfg) \/ AllFinite(x)
      finy == "float" \notin CfgKinds(cfg) \/ AllFinite(y)
  IN
  IF t.panic # "" THEN {"panic|"} ELSE
  (IF t.mut THEN {"argument-mutated|"} ELSE {})
  \* default comparer = protobuf equality, unless change_times of Change messages differ
  \cup (IF plain /\ ~CTDiff(x, y) /\ (t.got.xy # t.pe.xy \/ t.got.yx # t.pe.yx)
          THEN {"default-comparer-wrong|vs-proto-equal"} ELSE {})
  \* (the model's own reading of protobuf equality must agree with proto.Equal: a MODEL line is a
  \*  defect of this specification or of the abstraction function, never a verdict on the code)
  \cup (IF ~CTDiff(x, y) /\ (t.pe.xy # DefaultEqual(x, y) \/ t.pe.yx # DefaultEqual(y, x)) THEN {"MODEL|proto-equal-differs-from-spec"} ELSE {})
  \* reflexive, symmetric (finite values under a float tolerance)
  \cup (IF (finx /\ ~t.self.x) \/ (finy /\ ~t.self.y) THEN {"not-reflexive|"} ELSE {})
  \cup (IF (\A j \in 1..Len(cfg.ms) : FinOK(cfg.ms[j], x, y)) /\ t.got.xy # t.got.yx THEN {"not-symmetric|"} ELSE {})
  \* every component cmp.Equal(...) accepts exactly what the reference accepts
  \cup UNION { PartFails(cfg.ms[j], x, y, t.parts[j].xy) \cup PartFails(cfg.ms[j], y, x, t.parts[j].yx) : j \in 1..Len(cfg.ms) }
  \* And / Or = conjunction / disjunction of what the components really returned
  \cup (IF \/ t.got.xy # Combine(cfg.mop, [j \in 1..Len(cfg.ms) |-> t.parts[j].xy])
           \/ t.got.yx # Combine(cfg.mop, [j \in 1..Len(cfg.ms) |-> t.parts[j].yx])
          THEN {"and-or-not-conjunction-disjunction|" \o cfg.mop} ELSE {})

----------------------------------------------------------------------------
(* Stream cases: "a resource configured with an equivalence never delivers *)
(* a change whose value is equivalent to the one the subscriber already    *)
(* holds for it, and never suppresses a non-equivalent one".               *)
None == [has |-> FALSE, v |-> Empty("T")]
\* what the resource stores under id after the first k writes
StoredAt(t, k, id) ==
  LET J == { j \in 1..k : t.writes[j].id = id } IN
  IF J = {} THEN (IF t.res = "val" THEN t.init ELSE None)
  ELSE LET j == MaxOf(J) IN IF t.writes[j].op = "del" THEN None ELSE [has |-> TRUE, v |-> t.writes[j].v]
\* what subscriber s holds for id just before write k: the last thing it was really handed,
\* else its seed.  An updates-only subscriber that has not been handed anything yet holds
\* nothing this check knows of (known = FALSE): nothing is asserted for it until then.
\* (everything a subscriber is handed has gone through its read mask: Proj)
SubMask(t, s) == [nil |-> t.subs[s].mask.nil, fs |-> t.subs[s].mask.fs]
Held(t, s, k, id) ==
  LET at == t.subs[s].at
      D  == { j \in (at + 1)..(k - 1) : t.writes[j].id = id /\ t.dl[s][j].n > 0 } IN
  IF D # {} THEN LET j == MaxOf(D) IN [known |-> TRUE, has |-> t.writes[j].op # "del", v |-> Proj(t.writes[j].v, SubMask(t, s))]
  ELSE IF t.subs[s].uo THEN [known |-> FALSE, has |-> FALSE, v |-> Empty("T")]
  ELSE LET st == StoredAt(t, at, id) IN [known |-> TRUE, has |-> st.has, v |-> Proj(st.v, SubMask(t, s))]

StepFails(t, s, k) ==
  LET w == t.writes[k]  d == t.dl[s][k]
      h  == Held(t, s, k, w.id)
      raw == StoredAt(t, k - 1, w.id)
      st == [has |-> raw.has, v |-> Proj(raw.v, SubMask(t, s))]      \* previously stored value as this subscriber sees it
      nv == Proj(w.v, SubMask(t, s))                                 \* the written value as this subscriber sees it
      put == w.op # "del"
      event == put \/ st.has                       \* deleting an absent item publishes nothing
      equiv == h.has /\ put /\ EqualM(t.terms, h.v, nv)
      \* named deviations, to classify a failure
      silent == d.n = 0
      dA == silent = (h.has /\ put /\ EqualMZ(t.terms, h.v, nv, FALSE))       \* held value, unset zero scalars skipped
      dB == silent = (st.has /\ put /\ EqualM(t.terms, st.v, nv))            \* previously stored value instead of held
      dC == silent = (st.has /\ put /\ EqualMZ(t.terms, st.v, nv, FALSE))    \* both
      dD == silent = (raw.has /\ put /\ EqualM(t.terms, raw.v, nv))          \* a value that has not gone through the read mask
      same == t.res = "val" \/ (h.has = st.has /\ h.v = st.v)                \* held = stored: B and C say nothing
      class == IF same THEN (IF dA THEN "unset-zero-scalar-not-compared-by-tolerance"
                             ELSE IF dD THEN "compared-with-unfiltered-value" ELSE "other")
               ELSE IF dA /\ ~dB THEN "unset-zero-scalar-not-compared-by-tolerance"
               ELSE IF dB /\ ~dA THEN "compared-with-stored-value-not-held-value"
               ELSE IF dA /\ dB THEN "unset-zero-scalar-or-compared-with-stored-value"
               ELSE IF dC THEN "compared-with-stored-value-and-unset-zero-scalar"
               ELSE IF dD THEN "compared-with-unfiltered-value"
               ELSE "other"
  IN
  IF k <= t.subs[s].at THEN {}
  ELSE IF ~event THEN (IF d.n # 0 THEN {"delivery-without-a-change|"} ELSE {})
  ELSE IF ~h.known THEN {}
  ELSE IF d.n > 1 THEN {"duplicate-delivery|"}
  ELSE IF ~put THEN (IF h.has /\ d.n = 0 THEN {"removal-suppressed|"} ELSE {})     \* (nothing held: not asserted)
  ELSE IF equiv /\ d.n > 0 THEN {"equivalent-value-delivered|" \o class}
  ELSE IF ~equiv /\ d.n = 0 THEN {"non-equivalent-value-suppressed|" \o class}
  ELSE IF d.n = 1 /\ ~d.same THEN {"wrong-value-delivered|"}
  ELSE {}

StreamFails(t) ==
  IF t.panic # "" THEN {"panic|"} ELSE
  (IF \E k \in 1..Len(t.werr) : t.werr[k] # "OK" THEN {"write-failed|"} ELSE {})
  \cup (IF \E s \in 1..Len(t.seedok) : ~t.seedok[s] THEN {"seed-not-the-stored-state|"} ELSE {})
  \cup UNION { StepFails(t, s, k) : s \in 1..Len(t.subs), k \in 1..Len(t.writes) }

----------------------------------------------------------------------------
Fails(t) == IF t.k = "cmp" THEN CmpFails(t) ELSE StreamFails(t)
BadLines == { k \in 1..Len(Obs) : Fails(Obs[k]) # {} }
TraceInit == c = 0
TraceNext == UNCHANGED c
EmitBad == \A k \in BadLines : PrintT("BAD " \o ToJson([line |-> k, fails |-> Fails(Obs[k])]))
TraceChecked == EmitBad /\ PrintT("CHECKED " \o ToString(Len(Obs)))
=============================================================================
