package main

import (
	"fmt"
	"os"
	"reflect"
	"runtime"
	"sort"
	"sync"
	"sync/atomic"
	"time"

	"github.com/smart-core-os/sc-golang/pkg/router"
	"github.com/smart-core-os/sc-golang/verifharness/hx"
)

// ---------------------------------------------------------------- cases printed by spec/Router.tla (RouterGen.cfg)

type rop struct {
	Op string `json:"op"`
	N  string `json:"n"`
}

type rcfg struct {
	HasFb  bool     `json:"hasfb"`
	Fb     []nc     `json:"fb"`
	HasFac bool     `json:"hasfac"`
	FacOK  []string `json:"facok"`
	HasCb  bool     `json:"hascb"`
}

type rstep struct {
	P     int    `json:"p"`
	Act   string `json:"act"`
	Fresh int    `json:"fresh"`
}

type rcase struct {
	ID    int            `json:"id"`
	Mode  string         `json:"mode"`
	Cfg   rcfg           `json:"cfg"`
	Init  map[string]int `json:"init"`
	Progs [][]rop        `json:"progs"`
	Sched []rstep        `json:"sched"`
}

type chg struct {
	N    string `json:"n"`
	Old  int    `json:"old"`
	New  int    `json:"new"`
	Auto bool   `json:"auto"`
}

type rret struct {
	Done bool   `json:"done"`
	C    int    `json:"c"`
	Code string `json:"code"`
	B    bool   `json:"b"`
}

// robs is one step of one process on the real router.
type robs struct {
	Kind   string         `json:"kind"` // "reg"
	Case   int            `json:"case"`
	Mode   string         `json:"mode"`
	Bind   string         `json:"bind"` // "raw" = router.NewRouter, else the generated router used through its typed accessors
	K      int            `json:"k"`
	P      int            `json:"p"`
	Act    string         `json:"act"` // the step the schedule expected here (informational)
	Cfg    rcfg           `json:"cfg"`
	Op     rop            `json:"op"`
	Stage  string         `json:"stage"` // where the process was: idle | fb | fac | ins | cb
	Made   int            `json:"made"`
	Pend   chg            `json:"pend"`
	Fresh  int            `json:"fresh"`
	Pre    map[string]int `json:"pre"`
	Post   map[string]int `json:"post"`
	Stage2 string         `json:"stage2"` // where it is now (idle = the operation returned)
	GN     string         `json:"gn"`     // the name the fallback / factory was asked for
	Pend2  chg            `json:"pend2"`  // the change handed to the callback it is now in
	Ret    rret           `json:"ret"`
	Chg    []chg          `json:"chg"` // changes the callback reported during this step
	Panic  string         `json:"panic"`
}

// ---------------------------------------------------------------- the two bindings of the registry API

type regAPI interface {
	Add(n string, c any) any
	Remove(n string) any
	Has(n string) bool
	Get(n string) (any, error)
}

type clientObj struct{ id int }

// typedAPI uses a generated router through its Add<Client> / Remove<Client> / Get<Client> accessors.
type typedAPI struct {
	r                routerT
	add, remove, get reflect.Value
}

func newTypedAPI(e entry, r routerT) *typedAPI {
	v := reflect.ValueOf(r)
	t := &typedAPI{r: r, add: v.MethodByName("Add" + e.Client), remove: v.MethodByName("Remove" + e.Client), get: v.MethodByName("Get" + e.Client)}
	if !t.add.IsValid() || !t.remove.IsValid() || !t.get.IsValid() {
		hx.Fatal("%s.%s lacks a typed accessor Add/Remove/Get%s", e.Pkg, e.Ctor, e.Client)
	}
	return t
}

func ifaceOrNil(v reflect.Value) any {
	if v.Kind() == reflect.Interface && v.IsNil() {
		return nil
	}
	return v.Interface()
}

func (t *typedAPI) Add(n string, c any) any {
	return ifaceOrNil(t.add.Call([]reflect.Value{reflect.ValueOf(n), reflect.ValueOf(c)})[0])
}
func (t *typedAPI) Remove(n string) any {
	return ifaceOrNil(t.remove.Call([]reflect.Value{reflect.ValueOf(n)})[0])
}
func (t *typedAPI) Has(n string) bool { return t.r.Has(n) }
func (t *typedAPI) Get(n string) (any, error) {
	out := t.get.Call([]reflect.Value{reflect.ValueOf(n)})
	var err error
	if !out[1].IsNil() {
		err = out[1].Interface().(error)
	}
	return ifaceOrNil(out[0]), err
}

// ---------------------------------------------------------------- forced schedules

type arrival struct {
	p     int
	stage string // fb | fac | ins | cb | idle (returned)
	gn    string
	ch    chg
	ret   rret
	panic string
}

type startMsg struct {
	op    rop
	fresh int
}

type rproc struct {
	id     int
	prog   []rop
	idx    int
	stage  string
	made   int
	pend   chg
	start  chan startMsg
	resume chan int // carries `fresh`
}

type regWorld struct {
	c      *rcase
	bind   string
	api    regAPI
	mk     func(id int) any
	ids    sync.Map // client -> id
	cur    *rproc
	setup  bool
	events chan arrival
	log    []chg
	names  []string
}

func (w *regWorld) client(id int) any {
	c := w.mk(id)
	w.ids.Store(c, id)
	return c
}

func (w *regWorld) idOf(c any) int {
	if c == nil {
		return 0
	}
	if v, ok := w.ids.Load(c); ok {
		return v.(int)
	}
	return -1
}

func (w *regWorld) change(c router.Change) chg {
	return chg{N: c.Name, Old: w.idOf(c.Old), New: w.idOf(c.New), Auto: c.Auto}
}

func (w *regWorld) readBack() map[string]int {
	res := map[string]int{}
	for _, n := range w.names {
		res[n] = 0
		if w.api.Has(n) {
			c, err := w.api.Get(n)
			if err != nil {
				res[n] = -1 // Has and Get disagree
			} else {
				res[n] = w.idOf(c)
			}
		}
	}
	return res
}

func newRegWorld(c *rcase, bindIdx int) *regWorld {
	w := &regWorld{c: c, events: make(chan arrival), names: []string{"a", "b"}}
	// gates: the goroutine that is running is the one the scheduler released last
	fallback := func(n string) (any, error) {
		p := w.cur
		w.events <- arrival{p: p.id, stage: "fb", gn: n}
		<-p.resume
		for _, x := range c.Cfg.Fb {
			if x.N == n {
				return w.client(x.C), nil
			}
		}
		return nil, nil
	}
	factory := func(n string) (any, error) {
		p := w.cur
		w.events <- arrival{p: p.id, stage: "fac", gn: n}
		fresh := <-p.resume
		ok := false
		for _, x := range c.Cfg.FacOK {
			ok = ok || x == n
		}
		if !ok {
			return nil, fmt.Errorf("factory refuses %q", n)
		}
		cl := w.client(fresh)
		w.events <- arrival{p: p.id, stage: "ins", gn: n}
		<-p.resume
		return cl, nil
	}
	onChange := func(ch router.Change) {
		if w.setup {
			return
		}
		p := w.cur
		x := w.change(ch)
		w.events <- arrival{p: p.id, stage: "cb", ch: x}
		<-p.resume
		w.log = append(w.log, x)
	}
	var opts []router.Option
	if c.Cfg.HasFb {
		opts = append(opts, router.WithFallback(fallback))
	}
	if c.Cfg.HasCb {
		opts = append(opts, router.WithOnChange(onChange))
	}
	if bindIdx < 0 {
		w.bind = "raw"
		w.mk = func(id int) any { return &clientObj{id: id} }
		if c.Cfg.HasFac {
			opts = append(opts, router.WithFactory(factory))
		}
		w.api = router.NewRouter(opts...)
	} else {
		e := routers[bindIdx]
		w.bind = e.Pkg + "." + e.Ctor
		w.mk = func(id int) any { return e.NewClient(&fakeConn{w: &world{}, id: id}) }
		if c.Cfg.HasFac {
			opts = append(opts, e.TypedFactory(factory))
		}
		w.api = newTypedAPI(e, e.New(opts...))
	}
	w.setup = true
	keys := make([]string, 0, len(c.Init))
	for n := range c.Init {
		keys = append(keys, n)
	}
	sort.Strings(keys)
	for _, n := range keys {
		if c.Init[n] != 0 {
			w.api.Add(n, w.client(c.Init[n]))
		}
	}
	w.setup = false
	return w
}

func (w *regWorld) runProc(p *rproc) {
	for m := range p.start {
		var ret rret
		pm := hx.Catch(func() {
			switch m.op.Op {
			case "Get":
				c, err := w.api.Get(m.op.N)
				ret = rret{Done: true, C: w.idOf(c), Code: hx.Code(err)}
			case "Add":
				old := w.api.Add(m.op.N, w.client(m.fresh))
				ret = rret{Done: true, C: w.idOf(old), Code: "OK"}
			case "Remove":
				old := w.api.Remove(m.op.N)
				ret = rret{Done: true, C: w.idOf(old), Code: "OK"}
			case "Has":
				ret = rret{Done: true, Code: "OK", B: w.api.Has(m.op.N)}
			}
		})
		if pm != "" {
			ret = rret{Done: true, Code: "PANIC"}
		}
		w.events <- arrival{p: p.id, stage: "idle", ret: ret, panic: pm}
	}
}

func (w *regWorld) wait(p *rproc) arrival {
	select {
	case a := <-w.events:
		if a.p != p.id {
			hx.Fatal("case %d: released process %d but process %d arrived", w.c.ID, p.id, a.p)
		}
		return a
	case <-time.After(20 * time.Second):
		hx.Fatal("case %d: process %d did not reach a gate or return within 20s (a callback under the router's lock?)", w.c.ID, p.id)
	}
	panic("unreachable")
}

func runRegCase(c *rcase, bindIdx int, out *hx.Out) {
	w := newRegWorld(c, bindIdx)
	hx.Current(map[string]any{"case": c, "bind": w.bind})
	procs := map[int]*rproc{}
	for i, prog := range c.Progs {
		p := &rproc{id: i + 1, prog: prog, stage: "idle", start: make(chan startMsg), resume: make(chan int)}
		procs[p.id] = p
		go w.runProc(p)
	}
	k := 0
	stepOf := func(p *rproc, st rstep) {
		if p.idx >= len(p.prog) {
			return // the process has finished its program already (the real code took fewer steps)
		}
		k++
		if st.Fresh == 0 {
			// the schedule creates no client here; should the real code ask for one all the same
			// (it has diverged) give it an identity of its own
			st.Fresh = 900 + k
		}
		o := &robs{Kind: "reg", Case: c.ID, Mode: c.Mode, Bind: w.bind, K: k, P: p.id, Act: st.Act, Cfg: c.Cfg,
			Op: p.prog[p.idx], Stage: p.stage, Made: p.made, Pend: p.pend, Fresh: st.Fresh, Chg: []chg{}}
		o.Pre = w.readBack()
		nlog := len(w.log)
		w.cur = p
		if p.stage == "idle" {
			p.start <- startMsg{op: p.prog[p.idx], fresh: st.Fresh}
		} else {
			p.resume <- st.Fresh
		}
		a := w.wait(p)
		o.Post = w.readBack()
		o.Stage2, o.GN, o.Pend2, o.Ret, o.Panic = a.stage, a.gn, a.ch, a.ret, a.panic
		o.Chg = append(o.Chg, w.log[nlog:]...)
		// what the harness knows about the process from here on
		switch a.stage {
		case "ins":
			p.made = st.Fresh
		case "cb":
			p.pend = a.ch
			if o.Op.Op != "Get" {
				p.made = a.ch.Old
			}
		case "idle":
			p.made, p.pend = 0, chg{}
			p.idx++
		}
		p.stage = a.stage
		out.Write(o)
	}
	for _, st := range c.Sched {
		p := procs[st.P]
		if p == nil {
			hx.Fatal("case %d: no process %d", c.ID, st.P)
		}
		stepOf(p, st)
	}
	// drain: processes the schedule left somewhere (only when the real code took more steps)
	for again := true; again; {
		again = false
		for i := 1; i <= len(procs); i++ {
			p := procs[i]
			if p.idx < len(p.prog) {
				again = true
				stepOf(p, rstep{P: p.id, Act: "drain"})
			}
		}
	}
	for _, p := range procs {
		close(p.start)
	}
}

func cmdRegistry() {
	cases := hx.ReadCases[rcase](hx.Arg("-cases", "cases.ndjson"))
	out := hx.NewOut(hx.Arg("-out", "obs.ndjson"))
	defer out.Close()
	for i := range cases {
		c := &cases[i]
		runRegCase(c, -1, out)
		// and the same history through the typed accessors of a generated router (all of them in turn)
		runRegCase(c, i%len(routers), out)
	}
	fmt.Fprintln(os.Stderr, "routerx registry: observations:", out.N)
}

// ---------------------------------------------------------------- free-running concurrent first Gets

type stressObs struct {
	Kind     string   `json:"kind"` // "stress"
	Iter     int      `json:"iter"`
	Barrier  bool     `json:"barrier"` // the factory holds every goroutine until all have missed the registry
	N        int      `json:"n"`
	Got      []int    `json:"got"` // what each Get returned (0 = error)
	Codes    []string `json:"codes"`
	FacCalls int      `json:"faccalls"`
	After    int      `json:"after"` // Get afterwards
	Has      bool     `json:"has"`
	Chg      []chg    `json:"chg"`
}

func cmdStress() {
	out := hx.NewOut(hx.Arg("-out", "obs.ndjson"))
	defer out.Close()
	iters := hx.ArgInt("-iters", 2000)
	rng := hx.Rand(77)
	for it := 0; it < iters; it++ {
		n := 2 + rng.Intn(7)
		barrier := it%2 == 0
		var mu sync.Mutex
		next := 10
		calls := 0
		var log []router.Change
		arrived := make(chan struct{}, n)
		release := make(chan struct{})
		ids := sync.Map{}
		r := router.NewRouter(router.WithFactory(func(name string) (any, error) {
			mu.Lock()
			calls++
			next++
			c := &clientObj{id: next}
			mu.Unlock()
			ids.Store(c, c.id)
			if barrier {
				arrived <- struct{}{}
				<-release
			}
			return c, nil
		}), router.WithOnChange(func(c router.Change) {
			mu.Lock()
			log = append(log, c)
			mu.Unlock()
		}))
		if barrier {
			// every goroutine misses the registry (nobody can commit before the factory returns), so all n arrive
			go func() {
				for i := 0; i < n; i++ {
					<-arrived
				}
				close(release)
			}()
		}
		got := make([]int, n)
		codes := make([]string, n)
		var wg sync.WaitGroup
		startGun := make(chan struct{})
		for g := 0; g < n; g++ {
			wg.Add(1)
			go func(g int) {
				defer wg.Done()
				<-startGun
				c, err := r.Get("dev/new")
				codes[g] = hx.Code(err)
				if co, ok := c.(*clientObj); ok && co != nil {
					got[g] = co.id
				}
			}(g)
		}
		close(startGun)
		wg.Wait()
		o := &stressObs{Kind: "stress", Iter: it, Barrier: barrier, N: n, Got: got, Codes: codes, FacCalls: calls, Chg: []chg{}}
		o.Has = r.Has("dev/new")
		if c, err := r.Get("dev/new"); err == nil {
			if co, ok := c.(*clientObj); ok {
				o.After = co.id
			}
		}
		idOf := func(c any) int {
			if c == nil {
				return 0
			}
			if v, ok := ids.Load(c); ok {
				return v.(int)
			}
			return -1
		}
		for _, c := range log {
			o.Chg = append(o.Chg, chg{N: c.Name, Old: idOf(c.Old), New: idOf(c.New), Auto: c.Auto})
		}
		out.Write(o)
	}
	fmt.Fprintln(os.Stderr, "routerx stress: iterations:", iters)
}

// ---------------------------------------------------------------- free-running overlapping Removes of a present name

type rmStressObs struct {
	Kind  string `json:"kind"` // "rmstress"
	N     int    `json:"n"`
	C     int    `json:"c"`     // the client registered under the name
	Got   []int  `json:"got"`   // what each Remove returned, sorted (0 = nil)
	Has   bool   `json:"has"`   // Has afterwards
	Chg   []chg  `json:"chg"`   // the changes reported, in the order of the reports
	Count int    `json:"count"` // rounds that looked exactly like this
}

// cmdRmStress: n goroutines Remove the same present name at once.  Rounds are abstracted (the client is
// always called 11) and equal outcomes are logged once with their count.
func cmdRmStress() {
	out := hx.NewOut(hx.Arg("-out", "obs.ndjson"))
	defer out.Close()
	iters := hx.ArgInt("-iters", 100000)
	rng := hx.Rand(78)
	seen := map[string]*rmStressObs{}
	var order []string
	for it := 0; it < iters; it++ {
		n := 2 + rng.Intn(5)
		var mu sync.Mutex
		var log []router.Change
		r := router.NewRouter(router.WithOnChange(func(c router.Change) {
			mu.Lock()
			log = append(log, c)
			mu.Unlock()
		}))
		cl := &clientObj{id: 11}
		r.Add("dev/x", cl)
		log = nil
		got := make([]int, n)
		var wg sync.WaitGroup
		// the removers leave together from a spinning barrier (a closed channel wakes them one after another,
		// which on a busy machine spreads them too far apart to overlap inside Remove)
		var ready, gun atomic.Int32
		for g := 0; g < n; g++ {
			wg.Add(1)
			go func(g int) {
				defer wg.Done()
				ready.Add(1)
				for spins := 0; gun.Load() == 0; spins++ {
					if spins%1024 == 1023 {
						runtime.Gosched()
					}
				}
				if c := r.Remove("dev/x"); c != nil {
					if co, ok := c.(*clientObj); ok {
						got[g] = co.id
					} else {
						got[g] = -1
					}
				}
			}(g)
		}
		for ready.Load() < int32(n) {
			runtime.Gosched()
		}
		gun.Store(1)
		wg.Wait()
		sort.Ints(got)
		o := &rmStressObs{Kind: "rmstress", N: n, C: 11, Got: got, Has: r.Has("dev/x"), Chg: []chg{}, Count: 1}
		idOf := func(c any) int {
			if c == nil {
				return 0
			}
			if co, ok := c.(*clientObj); ok {
				return co.id
			}
			return -1
		}
		for _, c := range log {
			o.Chg = append(o.Chg, chg{N: c.Name, Old: idOf(c.Old), New: idOf(c.New), Auto: c.Auto})
		}
		key := fmt.Sprint(o.N, o.Got, o.Has, o.Chg)
		if prev, ok := seen[key]; ok {
			prev.Count++
		} else {
			seen[key] = o
			order = append(order, key)
		}
	}
	for _, k := range order {
		out.Write(seen[k])
	}
	fmt.Fprintln(os.Stderr, "routerx rmstress: rounds:", iters, "distinct outcomes:", len(order))
}
