\* Two instances built from package-level default options that hold ONE random source (electricpb, as the code had
\* it before 9c6d9aa): each instance generates ids under its own lock, TLC finds the race on pkg.rng
SPECIFICATION Spec
CONSTANTS
  N = 2
  Family = "dflt"
  RngGuard = "ownmutex"
  StreamGuard = "mutex"
  OldMutated = FALSE
  DefaultShared = "rng"
  Mutant = "none"
INVARIANTS TypeOK NoRace
CHECK_DEADLOCK FALSE
