package main

import (
	"context"
	"encoding/json"
	"fmt"
	"reflect"
	"sort"
	"strings"

	"google.golang.org/protobuf/types/known/fieldmaskpb"

	"github.com/smart-core-os/sc-api/go/traits"
	"github.com/smart-core-os/sc-golang/pkg/resource"
	"github.com/smart-core-os/sc-golang/pkg/trait/publicationpb"
	"github.com/smart-core-os/sc-golang/verifharness/hx"
)

// ---- Publication.tla ---------------------------------------------------------

type absAud struct {
	Has     bool    `json:"has"`
	Name    string  `json:"name"`
	Receipt string  `json:"receipt"`
	Reason  string  `json:"reason"`
	RTime   optTime `json:"rtime"`
}
type absPub struct {
	ID   string  `json:"id"`
	Body string  `json:"body"`
	MT   string  `json:"mt"`
	Aud  absAud  `json:"aud"`
	Pt   optTime `json:"pt"`
	Vid  int     `json:"vid"` // version string, numbered by first appearance (0 = "", -k = configured "init-<k>")
	Cid  int     `json:"cid"` // content tuple (id, body, media type, audience name), numbered likewise
}
type optPub struct {
	Has bool   `json:"has"`
	V   absPub `json:"v"`
}

var noAud = absAud{Receipt: "RECEIPT_UNSPECIFIED"}

// versionIDs / contentIDs number what the model is seen to hold, in order of first appearance.  Both
// are extended by the same observation (pubOf), so "version = injective function of content" holds
// on everything observed exactly when the two numbers agree on every record.
var versionIDs = map[string]int{}
var contentIDs = map[string]int{}

func numbered(m map[string]int, k string) int {
	if v, ok := m[k]; ok {
		return v
	}
	m[k] = len(m) + 1
	return m[k]
}

func lookupVid(version string) int {
	var k int
	if version == "" {
		return 0
	}
	if n, _ := fmt.Sscanf(version, "init-%d", &k); n == 1 {
		return -k
	}
	if v, ok := versionIDs[version]; ok {
		return v
	}
	return -99 // a version the model never held
}

func pubOf(p *traits.Publication) absPub {
	a := absPub{ID: p.GetId(), Body: string(p.GetBody()), MT: p.GetMediaType(), Aud: noAud, Pt: optTimeOf(p.GetPublishTime())}
	if au := p.GetAudience(); au != nil {
		a.Aud = absAud{Has: true, Name: au.GetName(), Receipt: au.GetReceipt().String(), Reason: au.GetReceiptRejectedReason(),
			RTime: optTimeOf(au.GetReceiptTime())}
	}
	v := p.GetVersion()
	switch {
	case v == "":
	case strings.HasPrefix(v, "init-"):
		a.Vid = lookupVid(v)
		a.Cid = a.Vid
	default:
		a.Vid = numbered(versionIDs, v)
		a.Cid = numbered(contentIDs, strings.Join([]string{a.ID, a.Body, a.MT, a.Aud.Name}, "\x00"))
	}
	return a
}
func optPubOf(p *traits.Publication) optPub {
	if p == nil {
		return optPub{V: absPub{Aud: noAud}}
	}
	return optPub{Has: true, V: pubOf(p)}
}

type wAud struct {
	Has  bool   `json:"has"`
	Name string `json:"name"`
}

func concPub(id, body, mt string, aud wAud) *traits.Publication {
	p := &traits.Publication{Id: id, MediaType: mt}
	if body != "" {
		p.Body = []byte(body)
	}
	if aud.Has {
		p.Audience = &traits.Publication_Audience{Name: aud.Name}
	}
	return p
}

type pubInit struct {
	ID   string `json:"id"`
	Body string `json:"body"`
	MT   string `json:"mt"`
	Aud  absAud `json:"aud"`
	Ver  struct {
		F int `json:"f"`
	} `json:"ver"`
	Pt optTime `json:"pt"`
}
type pubOp struct {
	Op           string `json:"op"`
	Dt           int    `json:"dt"`
	ID           string `json:"id"`
	Body         string `json:"body"`
	MT           string `json:"mt"`
	Aud          wAud   `json:"aud"`
	Mask         string `json:"mask"`
	Ver          string `json:"ver"`
	Receipt      string `json:"receipt"`
	Reason       string `json:"reason"`
	Allow        bool   `json:"allow"`
	AllowMissing bool   `json:"allowMissing"`
}
type pubStep struct {
	A    pubOp `json:"a"`
	Conc bool  `json:"conc"` // hold a at its clock read and run b in between
	B    pubOp `json:"b"`
}
type pubCfgOpt struct {
	Kind string    `json:"kind"` // pubs | clock
	Pubs []pubInit `json:"pubs"`
	Via  string    `json:"via"` // pubs: WithInitialPublication ("model") or WithPublicationOption(resource.WithInitialRecord) ("resource")
}
type pubObsOpt struct { // the same, with the records as the harness abstracts publications
	Kind string   `json:"kind"`
	Pubs []absPub `json:"pubs"`
	Via  string   `json:"via"`
}
type pubWalk struct {
	N   int `json:"n"`
	Cfg struct {
		Opts []pubCfgOpt `json:"opts"`
	} `json:"cfg"`
	Ops []pubStep `json:"ops"`
}
type pubObs struct {
	Model        string   `json:"model"`
	Walk         int      `json:"walk"`
	Step         int      `json:"step"`
	Op           string   `json:"op"`
	Now          int      `json:"now"`
	ID           string   `json:"id"`
	Body         string   `json:"body"`
	MT           string   `json:"mt"`
	Aud          wAud     `json:"aud"`
	Mask         string   `json:"mask"`
	Rvid         int      `json:"rvid"`
	Conc         bool     `json:"conc"`      // held at its clock read; pre = the publications when released, now = its instant
	Overtaken    bool     `json:"overtaken"` // ... and they differ from what the call started from
	Receipt      string   `json:"receipt"`
	Reason       string   `json:"reason"`
	Allow        bool     `json:"allow"`
	AllowMissing bool     `json:"allowMissing"`
	Pre          []absPub `json:"pre"`
	Post         []absPub `json:"post"`
	Opts         []pubObsOpt `json:"opts"` // New: the option sequence
	Seed         []absPub `json:"seed"` // New: the publications of the PullPublications seed, in id order
	Ret          optPub   `json:"ret"`
	Err          string   `json:"err"`
	Panic        string   `json:"panic"`
}

func init() { register("publication", runPublication) }

func pubState(m *publicationpb.Model) []absPub {
	res := []absPub{}
	for _, p := range m.ListPublications() {
		res = append(res, pubOf(p))
	}
	return res
}

func runPublication(raw json.RawMessage, out *hx.Out) {
	w := decode[pubWalk](raw)
	clk := &tickClock{now: 10}
	var m *publicationpb.Model
	o := pubObs{Model: "publication", Walk: w.N, Op: "New", Now: 10, Mask: "none", Pre: []absPub{}, Post: []absPub{},
		Ret: optPubOf(nil), Err: "OK"}
	o.Opts, o.Seed = []pubObsOpt{}, []absPub{}
	var opts []resource.Option
	for _, co := range w.Cfg.Opts {
		oo := pubObsOpt{Kind: co.Kind, Via: co.Via, Pubs: []absPub{}}
		switch co.Kind {
		case "pubs":
			var ps []*traits.Publication
			for _, ip := range co.Pubs {
				p := concPub(ip.ID, ip.Body, ip.MT, wAud{Has: ip.Aud.Has, Name: ip.Aud.Name})
				p.Version = fmt.Sprintf("init-%d", ip.Ver.F)
				p.PublishTime = concOptTime(ip.Pt)
				if ip.Aud.Has {
					p.Audience.Receipt = traits.Publication_Audience_Receipt(traits.Publication_Audience_Receipt_value[ip.Aud.Receipt])
					p.Audience.ReceiptRejectedReason = ip.Aud.Reason
					p.Audience.ReceiptTime = concOptTime(ip.Aud.RTime)
				}
				ps = append(ps, p)
				oo.Pubs = append(oo.Pubs, pubOf(p))
			}
			if co.Via == "resource" {
				for _, p := range ps {
					opts = append(opts, publicationpb.WithPublicationOption(resource.WithInitialRecord(p.Id, p)))
				}
			} else {
				opts = append(opts, publicationpb.WithInitialPublication(ps...))
			}
		case "clock":
			opts = append(opts, resource.WithClock(clk))
		default:
			hx.Fatal("publication: unknown option kind %q", co.Kind)
		}
		o.Opts = append(o.Opts, oo)
	}
	o.Panic = hx.Catch(func() {
		m = publicationpb.NewModel(opts...)
		o.Post = pubState(m)
		seed, _ := pullSeed(func(ctx context.Context) <-chan publicationpb.PublicationsChange { return m.PullPublications(ctx) }, len(o.Post))
		for _, ch := range seed {
			o.Seed = append(o.Seed, pubOf(ch.NewValue))
		}
		sort.Slice(o.Seed, func(i, j int) bool { return o.Seed[i].ID < o.Seed[j].ID })
	})
	out.Write(o)
	if m == nil {
		return
	}
	srv := publicationpb.NewModelServer(m)
	ctx := context.Background()
	// prepare: advance the clock, read the state, resolve the version the request carries
	prepare := func(step int, op pubOp) (pubObs, string) {
		o := pubObs{Model: "publication", Walk: w.N, Step: step, Op: op.Op, ID: op.ID, Body: op.Body, MT: op.MT, Aud: op.Aud,
			Mask: op.Mask, Receipt: op.Receipt, Reason: op.Reason, Allow: op.Allow, AllowMissing: op.AllowMissing,
			Ret: optPubOf(nil), Err: "OK", Opts: []pubObsOpt{}, Seed: []absPub{}}
		o.Now = clk.advance(op.Dt)
		o.Pre = pubState(m)
		version := ""
		switch op.Ver {
		case "current":
			version = "no-such-publication"
			if p, ok := m.GetPublication(op.ID); ok {
				version = p.GetVersion()
			}
		case "stale":
			version = "0123456789abcdef0123456789abcdef"
		}
		o.Rvid = lookupVid(version)
		return o, version
	}
	exec := func(op pubOp, version string, o *pubObs) {
		o.Panic = hx.Catch(func() {
			var res *traits.Publication
			var err error
			switch op.Op {
			case "Create":
				res, err = srv.CreatePublication(ctx, &traits.CreatePublicationRequest{Publication: concPub(op.ID, op.Body, op.MT, op.Aud)})
			case "Update":
				req := &traits.UpdatePublicationRequest{Publication: concPub(op.ID, op.Body, op.MT, op.Aud), Version: version}
				switch op.Mask {
				case "none":
				case "body":
					req.UpdateMask = &fieldmaskpb.FieldMask{Paths: []string{"body"}}
				case "body+media_type":
					req.UpdateMask = &fieldmaskpb.FieldMask{Paths: []string{"body", "media_type"}}
				case "audience.name":
					req.UpdateMask = &fieldmaskpb.FieldMask{Paths: []string{"audience.name"}}
				default:
					hx.Fatal("publication: unknown mask %q", op.Mask)
				}
				res, err = srv.UpdatePublication(ctx, req)
			case "Ack":
				res, err = srv.AcknowledgePublication(ctx, &traits.AcknowledgePublicationRequest{Id: op.ID, Version: version,
					Receipt:               traits.Publication_Audience_Receipt(traits.Publication_Audience_Receipt_value[op.Receipt]),
					ReceiptRejectedReason: op.Reason, AllowAcknowledged: op.Allow})
			case "Delete":
				res, err = srv.DeletePublication(ctx, &traits.DeletePublicationRequest{Id: op.ID, Version: version, AllowMissing: op.AllowMissing})
			default:
				hx.Fatal("publication: unknown op %q", op.Op)
			}
			o.Err = hx.Code(err)
			if err == nil {
				o.Ret = optPubOf(res)
			}
		})
	}
	call := func(step int, op pubOp) pubObs {
		o, version := prepare(step, op)
		exec(op, version, &o)
		o.Post = pubState(m)
		return o
	}
	for i, st := range w.Ops {
		if !st.Conc || st.A.Op == "Delete" { // (Delete reads the clock while it holds the collection's lock)
			out.Write(call(i+1, st.A))
			continue
		}
		o, version := prepare(i+1, st.A)
		started := o.Pre
		var inner []pubObs
		at, ok := clk.during(func() { exec(st.A, version, &o) }, func(at int) {
			inner = append(inner, call(i+1, st.B))
			o.Pre = pubState(m)
		})
		if !ok {
			continue // read the clock under a lock the other call needs: order unknown, step not judged
		}
		for _, l := range inner {
			out.Write(l)
		}
		if at >= 0 {
			o.Conc, o.Now = true, at
			o.Overtaken = !reflect.DeepEqual(started, o.Pre)
		} else {
			o.Now = clk.current()
		}
		o.Post = pubState(m)
		out.Write(o)
		if at < 0 { // finished without reading the clock: the other call simply comes next
			out.Write(call(i+1, st.B))
		}
	}
}
