---------------------------- MODULE VendingTrace ----------------------------
(***************************************************************************)
(* Trace use of Vending.tla.  One line = one call on the real             *)
(* vendingpb.Model (or unitpb.Convert): inventory and consumables before  *)
(* (ListInventory / ListConsumables), the call, its result, both lists    *)
(* afterwards.  "New" = construction: pre is what the options said, post  *)
(* what the model then lists.  rpanic = a panic while listing.            *)
(***************************************************************************)
EXTENDS Vending, TLC, Json

VARIABLE c
Obs == ndJsonDeserialize("obs.ndjson")
If(b, name) == IF b THEN {} ELSE {name}

DispenseFails(t) ==
  LET r == Dispense(t.pre, t.name, t.q) IN
  IF r.err = "ConversionError"
  THEN If(t.err # "OK", "conversion-error-reported") \cup If(t.post = t.pre, "failed-dispense-changed-stock")
  ELSE IF r.err = "NotFound" THEN If(t.err = "NotFound", "err") \cup If(t.post = t.pre, "failed-dispense-changed-stock")
  ELSE IF ~DispenseExact(t.pre, t.name, t.q) THEN {}     \* CUP <-> l/m3: rounding is out of scope
  ELSE LET want == Stock(r.post, t.name)
           got == IF HasStock(t.post, t.name) THEN Stock(t.post, t.name) ELSE NoStock.v
       IN If(t.err = "OK", "err")
          \cup If(got.used = want.used, "used")
          \cup If(got.remaining.has = want.remaining.has /\ got.remaining.unit = want.remaining.unit, "remaining-unit")
          \cup If(got.remaining.m = want.remaining.m, "remaining-amount")
          \cup If(DelStock(t.post, t.name) = DelStock(r.post, t.name), "other-records-changed")
          \cup If(t.err # "OK" \/ t.ret = SomeStock(got), "returned-stock")

ConvertFails(t) ==
  LET r == Convert(t.q.m, t.q.unit, t.unit2) IN
  If(t.post = t.pre, "other-records-changed")
  \cup (IF ~r.ok THEN If(t.err # "OK", "conversion-error-reported")
        ELSE If(t.err = "OK", "err")
             \cup If(t.err # "OK" \/ t.finite, "converted-amount-finite")
             \cup If(t.err # "OK" \/ t.back = t.q.m, "round-trip")
             \cup If(t.err # "OK" \/ ~Exact(t.q.unit, t.unit2) \/ t.fwd = r.m, "converted-amount"))

Fails(t) ==
  IF t.panic # "" THEN {"panic"}
  ELSE IF t.op = "New" THEN
         \* not about the code: the specification's unit alphabet must be the enum (python turns "spec-" clauses
         \* into an inconclusive run)
         If({ t.units[k] : k \in 1..Len(t.units) } = Units, "spec-unit-alphabet-is-not-the-enum")
         \cup If(t.rpanic = "", "configured-model-unreadable")
         \* first read (ListConsumables / ListInventory = post, the PullConsumables / PullInventory seeds = seed)
         \* against the option sequence folded by ConfState
         \cup If(t.post.cons = ConfState(t.opts).cons, "consumables-where-configured")
         \cup If(t.rpanic # "" \/ t.post.inv = ConfState(t.opts).inv, "stock-where-configured")
         \cup If(t.rpanic # "" \/ t.seed = t.post, "pull-seed-is-first-read")
  ELSE IF t.rpanic # "" THEN {"state-unreadable"}
  ELSE CASE t.op = "Dispense" -> DispenseFails(t)
         [] t.op = "Convert" -> ConvertFails(t)
         [] t.op = "CreateStock" -> LET r == CreateStock(t.pre, t.stock) IN If(t.err = r.err, "err") \cup If(t.post = r.post, "post")
         [] t.op = "DeleteStock" -> LET r == DeleteStock(t.pre, t.name) IN If(t.err = r.err, "err") \cup If(t.post = r.post, "post")

BadLines == { k \in 1..Len(Obs) : Fails(Obs[k]) # {} }
TraceInit == c = 0
TraceNext == UNCHANGED c
EmitBad == \A k \in BadLines : PrintT("BAD " \o ToJson([line |-> k, fails |-> Fails(Obs[k])]))
TraceChecked == EmitBad /\ PrintT("CHECKED " \o ToString(Len(Obs)))
=============================================================================
