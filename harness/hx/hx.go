// Package hx holds the plumbing shared by all harness subcommands: ndjson I/O,
// error-code naming, panic capture, seeded randomness.
package hx

import (
	"bufio"
	"context"
	"encoding/json"
	"errors"
	"fmt"
	"math/rand"
	"os"
	"runtime/debug"
	"strconv"
	"strings"
	"sync"

	"google.golang.org/grpc/codes"
	"google.golang.org/grpc/status"
)

// ReadCases reads one JSON value per line into out (a pointer to a slice).
func ReadCases[T any](path string) []T {
	f, err := os.Open(path)
	if err != nil {
		Fatal("open cases: %v", err)
	}
	defer f.Close()
	var res []T
	sc := bufio.NewScanner(f)
	sc.Buffer(make([]byte, 1<<20), 1<<28)
	for sc.Scan() {
		line := strings.TrimSpace(sc.Text())
		if line == "" {
			continue
		}
		var v T
		if err := json.Unmarshal([]byte(line), &v); err != nil {
			Fatal("bad case line %q: %v", line, err)
		}
		res = append(res, v)
	}
	return res
}

// Out is an ndjson writer safe for concurrent use.
type Out struct {
	mu sync.Mutex
	w  *bufio.Writer
	f  *os.File
	N  int
}

func NewOut(path string) *Out {
	f, err := os.Create(path)
	if err != nil {
		Fatal("create out: %v", err)
	}
	return &Out{w: bufio.NewWriterSize(f, 1<<20), f: f}
}

func (o *Out) Write(v any) {
	b, err := json.Marshal(v)
	if err != nil {
		Fatal("marshal: %v", err)
	}
	o.mu.Lock()
	o.w.Write(b)
	o.w.WriteByte('\n')
	o.N++
	o.mu.Unlock()
}

func (o *Out) Close() {
	o.mu.Lock()
	defer o.mu.Unlock()
	o.w.Flush()
	o.f.Close()
}

func Fatal(format string, a ...any) {
	fmt.Fprintf(os.Stderr, "harness: "+format+"\n", a...)
	os.Exit(3)
}

// Code names an error the way the specifications do.
func Code(err error) string {
	if err == nil {
		return "OK"
	}
	if errors.Is(err, context.Canceled) {
		return "Canceled"
	}
	if errors.Is(err, context.DeadlineExceeded) {
		return "DeadlineExceeded"
	}
	if s, ok := status.FromError(err); ok {
		return s.Code().String()
	}
	return codes.Unknown.String()
}

// Catch runs f and returns a description of the panic it raised, or "".
func Catch(f func()) (panicked string) {
	defer func() {
		if r := recover(); r != nil {
			st := string(debug.Stack())
			// keep the first repo frame for attribution
			where := ""
			for _, l := range strings.Split(st, "\n") {
				if strings.Contains(l, "sc-golang/pkg") || strings.Contains(l, "sc-golang/internal") {
					where = strings.TrimSpace(l)
					break
				}
			}
			panicked = fmt.Sprintf("%v @ %s", r, where)
		}
	}()
	f()
	return ""
}

func Seed() int64 {
	s, err := strconv.ParseInt(os.Getenv("VERIF_SEED"), 10, 64)
	if err != nil {
		return 1
	}
	return s
}

func Rand(salt int64) *rand.Rand { return rand.New(rand.NewSource(Seed()*1000003 + salt)) }

func Thorough() bool { return os.Getenv("VERIF_TIER") == "thorough" }

// Arg returns the value following flag name in os.Args, or def.
func Arg(name, def string) string {
	for i, a := range os.Args {
		if a == name && i+1 < len(os.Args) {
			return os.Args[i+1]
		}
	}
	return def
}

func ArgInt(name string, def int) int {
	v, err := strconv.Atoi(Arg(name, ""))
	if err != nil {
		return def
	}
	return v
}

// Current announces the case about to be executed.  If the process is then
// killed by a panic in a goroutine the harness cannot recover (or by a Go
// runtime fatal error such as a concurrent map write), the driver attributes
// the crash to this case.
func Current(v any) {
	path := os.Getenv("VERIF_CURRENT")
	if path == "" {
		return
	}
	b, err := json.Marshal(v)
	if err != nil {
		return
	}
	_ = os.WriteFile(path, b, 0o644)
}
