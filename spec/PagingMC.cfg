INIT MCInit
NEXT MCNext
INVARIANTS NeverPanics Terminates PageSizes TotalSize NoDuplicate InOrder Complete ErrorsExactly OnlyLastEmpty ListingSorted WriteLaws
