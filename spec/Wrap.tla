------------------------------- MODULE Wrap -------------------------------
(***************************************************************************)
(* C13: what a gRPC client observes during ONE call, as a function of the *)
(* joint script of the two sides.                                         *)
(*                                                                         *)
(* A script is a sequence of joint steps [c, s, v, md, code, j, x]:       *)
(*   c  client op   - open invoke send close recv header trailer cancel   *)
(*                  deadline                                               *)
(*   s  server op   - recv sethdr sendhdr send settrl return wait          *)
(*   v  message value / status text, md metadata token, code status code  *)
(*   x  variant that must not matter: on cancel / deadline, 1 = the caller's *)
(*      context carries a cause of its own (WithCancelCause,                *)
(*      WithTimeoutCause): a connection reports the class of the end, never *)
(*      the cause; on sethdr / sendhdr / settrl, bit 0 = through the        *)
(*      context helpers (grpc.SetHeader(ctx, ..)), bit 1 = the handler      *)
(*      recycles the metadata.MD object of its previous metadata op.  The   *)
(*      Every sender likewise keeps using its MESSAGE object: it alters it  *)
(*      as soon as the send has returned, before the peer may look at what  *)
(*      it received (Delivered / HandsOverSendersMessage below).  The       *)
(*      handler always keeps writing to the MD objects it has handed over,  *)
(*      the client to the ones it was handed: metadata is copied across the *)
(*      boundary like messages are, so none of that shows anywhere.         *)
(*   j  the client's blocking op (recv, header, invoke) completes in this  *)
(*      step; a blocking op with j = FALSE stays pending over the next     *)
(*      steps (the client is blocked while the server carries on)          *)
(* Ops of one step start together and are a rendezvous: a send always      *)
(* meets a receiver that is ready (well-matched scripts: neither side      *)
(* relies on transport buffering), Legal(st, D) is the grammar.            *)
(*                                                                         *)
(* Step(st, e, i) is the set of possible successor states; the state       *)
(* carries the transcript (messages, terminal outcome, header and trailer  *)
(* reads, what the server received).  It transcribes grpc-go (Appendix B   *)
(* of DESIGN.md); it is a set only where grpc-go itself is timing          *)
(* dependent: the end of the client's context racing the server's status   *)
(* (also a status returned after the context ended by a handler that had   *)
(* not yet seen that end), a message sent while the context ends, headers  *)
(* in flight.                                                              *)
(* What is NOT asserted (AnyMD / not recorded):                            *)
(*   - trailer metadata of a call the client ended itself (cancel or       *)
(*     deadline): gRPC only defines trailers as part of the server status  *)
(*   - anything the SERVER observes after the client's context ended (what  *)
(*     its late SetHeader/SendHeader/Send return); what the CLIENT sees of   *)
(*     a handler that carries on after the end of the context is asserted:   *)
(*     nothing, once the handler has seen a cancellation                     *)
(*     (grpc-go reports Canceled to a blocked Recv, the text of C13 only   *)
(*     speaks about what the client observes)                              *)
(*   - the request metadata when the handler may not have started          *)
(***************************************************************************)
EXTENDS Integers, Sequences, FiniteSets, TLC

\* Deviation (refuted in MC, WrapMC_handover.cfg): a send hands the sender's own message object
\* over and the receiver reads it when its receive completes.  Every sender goes on using its
\* message once the send has returned (it writes Altered into it before the peer gets to look),
\* so with the deviation the receiver gets the altered message.  Over a connection a message
\* is what it was when the send returned: FALSE for the specification proper.
CONSTANT HandsOverSendersMessage

\* Deviation (refuted in MC, WrapMC_latesethdr.cfg): SetHeader after the headers have gone out
\* (explicit SendHeader, first message, single response) still joins its metadata into what
\* the client reads with Header().  A server refuses such a SetHeader and its metadata never
\* reaches the client: FALSE for the specification proper.
CONSTANT LateSetHeaderJoins
Altered == 95
Delivered(v) == IF HandsOverSendersMessage THEN Altered ELSE v

NoMD == [a |-> <<>>, b |-> <<>>]
AnyMD == [a |-> <<-1>>, b |-> <<-1>>]          \* "not asserted"
AddMD(md, tok) == IF tok % 2 = 1 THEN [md EXCEPT !.a = Append(@, tok)] ELSE [md EXCEPT !.b = Append(@, tok)]
MDMatch(e, g) == e = AnyMD \/ e = g

NoTerm == [has |-> FALSE, code |-> "", msg |-> ""]
Term(code, msg) == [has |-> TRUE, code |-> code, msg |-> msg]
ErrText(v) == "err" \o ToString(v)
\* what a client sees of the status a handler returned (real gRPC: a plain error is Unknown
\* with its text, a bare context error becomes the matching status; the text of
\* Canceled / DeadlineExceeded is not compared)
StatusSeen(code, v) ==
  CASE code = "OK" -> Term("OK", "")
    [] code = "Raw" -> Term("Unknown", ErrText(v))
    [] code \in {"CtxCanceled", "Canceled"} -> Term("Canceled", "")
    [] code \in {"CtxDeadline", "DeadlineExceeded"} -> Term("DeadlineExceeded", "")
    [] OTHER -> Term(code, ErrText(v))

Shapes == {"unary", "sstream", "cstream", "bidi", "ustream"}   \* ustream: the unary method through NewStream
Single(shape) == shape \in {"cstream", "ustream"}     \* one response, RecvMsg reports the status with it
Multi(shape) == shape \in {"sstream", "bidi"}

NoStep == [c |-> "-", s |-> "-", v |-> 0, md |-> 0, code |-> "", j |-> FALSE, x |-> 0]
S(c, s) == [NoStep EXCEPT !.c = c, !.s = s]

New(shape, req) ==
  [shape |-> shape, req |-> req, opened |-> FALSE, ent |-> FALSE, cclosed |-> FALSE, seof |-> FALSE, csent |-> 0,
   hs |-> NoMD, hsent |-> FALSE, hvis |-> NoMD, hknown |-> FALSE, tr |-> NoMD,
   resp |-> 0, ssent |-> <<>>, inflight |-> <<>>, creq |-> <<>>,
   ret |-> FALSE, rcode |-> "", rv |-> 0,
   cx |-> "no", retAtCx |-> FALSE, entAtCx |-> FALSE, sawCx |-> FALSE, waited |-> FALSE, hlate |-> {}, sfl |-> FALSE, hcx |-> 0, cause |-> FALSE,
   pend |-> "-", term |-> NoTerm, src |-> "-", mdk |-> 0,
   msgs |-> <<>>, hdrs |-> <<>>, trls |-> <<>>, srecv |-> <<>>, shdr |-> <<>>]

----------------------------------------------------------------------------
(* Semantics                                                               *)

\* headers go out once: with SendHeader, the first message or the status
\* (sfl: the handler has had its headers written, SetHeader / SendHeader are errors from then on)
Flush(st) == IF st.hsent THEN [st EXCEPT !.sfl = TRUE] ELSE [st EXCEPT !.hsent = TRUE, !.hvis = st.hs, !.sfl = TRUE]

CtxTerm(st) == Term(st.cx, "")
\* header metadata a client can still see once its context has ended: what it already
\* knew, else whatever made it across in time
HdrOpts(st) == IF st.hknown THEN {st.hvis}
               ELSE (IF st.hsent THEN {st.hvis, NoMD} ELSE {NoMD}) \cup st.hlate

ServerTerminal(st) ==
  LET t == StatusSeen(st.rcode, st.rv) IN
  IF Single(st.shape)
  THEN [st EXCEPT !.pend = "-", !.term = t, !.src = "server", !.hknown = TRUE,
                  !.msgs = IF t.code = "OK" /\ st.resp > 0 THEN Append(@, st.resp) ELSE @,
                  !.trls = Append(@, st.tr)]        \* such clients read the trailer right away
  ELSE [st EXCEPT !.pend = "-", !.term = t, !.src = "server", !.hknown = TRUE]

CtxTerminal(st) ==
  [st EXCEPT !.pend = "-", !.term = CtxTerm(st), !.src = "ctx",
             !.trls = IF Single(st.shape) THEN Append(@, AnyMD) ELSE @]

\* the client's context ends while an op is pending
EndPending(st) ==
  CASE st.pend = "recv" -> { CtxTerminal(st) }
    [] st.pend = "header" -> { [st EXCEPT !.pend = "-", !.hdrs = Append(@, h)] : h \in HdrOpts(st) }
    [] st.pend = "invoke" -> { [st EXCEPT !.pend = "-", !.term = CtxTerm(st), !.src = "ctx",
                                          !.hdrs = Append(@, h), !.trls = Append(@, AnyMD)] : h \in HdrOpts(st) }
    [] OTHER -> {st}

\* a receive issued after the context ended
RecvAfterCx(st) ==
  (IF st.inflight # <<>> THEN { [st EXCEPT !.msgs = Append(@, Head(st.inflight)), !.inflight = Tail(@), !.hknown = TRUE] } ELSE {})
  \cup (IF st.retAtCx /\ st.inflight = <<>> THEN { ServerTerminal(st) } ELSE {})     \* (the status comes after the messages)
  \cup { CtxTerminal(st) }

ClientStart(st, e) ==
  IF st.cx = "no" THEN
    CASE e.c = "-" -> {st}
      [] e.c = "open" -> { [st EXCEPT !.opened = TRUE, !.ent = st.shape \in {"cstream", "bidi"},
                                      !.creq = IF st.shape = "sstream" THEN Append(@, e.v) ELSE @] }
      [] e.c = "invoke" -> { [st EXCEPT !.opened = TRUE, !.pend = "invoke", !.creq = Append(@, e.v)] }
      [] e.c = "send" -> { [st EXCEPT !.csent = @ + 1, !.creq = Append(@, e.v)] }
      [] e.c = "close" -> { [st EXCEPT !.cclosed = TRUE] }
      [] e.c = "recv" -> { [st EXCEPT !.pend = "recv"] }
      [] e.c = "header" -> { [st EXCEPT !.pend = "header"] }
      [] e.c = "trailer" -> { [st EXCEPT !.trls = Append(@, IF st.src = "server" THEN st.tr ELSE AnyMD)] }
      [] e.c \in {"cancel", "deadline"} ->
           \* (a deadline also expires on the server, which then ends the call itself and may
           \*  flush the header metadata set so far together with its DeadlineExceeded status)
           LET b == IF e.c = "deadline" /\ st.ent THEN Flush(st) ELSE st IN
           \* (e.x = 1: the context has a cause; CtxTerm does not look at it)
           EndPending([b EXCEPT !.cx = IF e.c = "cancel" THEN "Canceled" ELSE "DeadlineExceeded", !.cause = (e.x = 1),
                                !.retAtCx = st.ret /\ ~st.term.has, !.entAtCx = st.ent])
  ELSE
    CASE e.c = "-" -> {st}
      [] e.c = "open" -> { [st EXCEPT !.opened = TRUE] }      \* refused here or at the first read: same transcript
      [] e.c = "invoke" -> { [st EXCEPT !.opened = TRUE, !.term = CtxTerm(st), !.src = "ctx",
                                        !.hdrs = Append(@, NoMD), !.trls = Append(@, AnyMD)] }
      [] e.c = "recv" -> RecvAfterCx(st)
      [] e.c = "header" -> { [st EXCEPT !.hdrs = Append(@, h), !.hcx = 1] : h \in HdrOpts(st) }
      [] e.c = "trailer" -> { [st EXCEPT !.trls = Append(@, IF st.src = "server" THEN st.tr ELSE AnyMD)] }
      [] OTHER -> {st}

ServerOp(st, e, i) ==
  IF st.cx = "no" THEN
    CASE e.s = "-" -> st
      [] e.s = "recv" ->
           IF e.c \in {"open", "invoke", "send"}
           THEN [st EXCEPT !.srecv = Append(@, [i |-> i, v |-> IF e.c = "invoke" THEN e.v ELSE Delivered(e.v)]), !.ent = TRUE]
                \* (Invoke returns when the call is over: its request cannot be reused during the call)
           ELSE [st EXCEPT !.srecv = Append(@, [i |-> i, v |-> 0]), !.seof = TRUE]     \* after the half-close
      \* SetHeader is an error once the headers have gone out, and then changes nothing
      [] e.s = "sethdr" ->
           IF ~st.hsent THEN [st EXCEPT !.hs = AddMD(@, e.md), !.shdr = Append(@, [i |-> i, err |-> FALSE])]
           ELSE IF LateSetHeaderJoins THEN [st EXCEPT !.hvis = AddMD(@, e.md), !.shdr = Append(@, [i |-> i, err |-> FALSE])]
           ELSE [st EXCEPT !.shdr = Append(@, [i |-> i, err |-> TRUE])]
      [] e.s = "sendhdr" -> Flush([st EXCEPT !.hs = AddMD(@, e.md)])
      [] e.s = "settrl" -> [st EXCEPT !.tr = AddMD(@, e.md)]
      [] e.s = "send" ->
           LET f == [Flush(st) EXCEPT !.ssent = Append(@, e.v)] IN
           IF Single(st.shape) THEN [f EXCEPT !.resp = Delivered(e.v)]
           ELSE [f EXCEPT !.msgs = Append(@, Delivered(e.v)), !.pend = "-", !.hknown = TRUE]
      [] e.s = "return" ->
           LET f == [Flush(st) EXCEPT !.ret = TRUE, !.rcode = e.code, !.rv = e.v] IN
           IF st.shape \in {"unary", "ustream"} /\ e.code = "OK" THEN [f EXCEPT !.resp = e.v, !.ssent = Append(@, e.v)] ELSE f
      [] OTHER -> st
  ELSE
    \* the client is gone: the only thing that can still reach it is what was sent while
    \* its context ended
    CASE e.c \in {"cancel", "deadline"} /\ e.s = "send" -> [Flush(st) EXCEPT !.inflight = Append(@, Delivered(e.v)), !.ssent = Append(@, e.v)]
      [] e.c \in {"cancel", "deadline"} /\ e.s # "wait" -> st
      \* seeing the context end on the server proves that the client side has processed a
      \* cancellation (that is what resets the stream); a deadline also fires on the server's own timer
      [] e.s = "wait" -> [st EXCEPT !.sawCx = (st.cx = "Canceled"), !.waited = TRUE]
      \* A handler that carries on after it has seen its context end (it never looks at the
      \* errors).  After a cancellation nothing of that reaches the client any more: the stream
      \* was reset before the handler saw it.  After a deadline the two ends expire on their own
      \* timers, so what the handler flushes may still arrive: any header flush may be the one
      \* the client sees (hlate), a message may be read (inflight).
      [] e.s \in {"sendhdr", "send"} /\ st.sawCx -> [st EXCEPT !.sfl = TRUE]
      [] e.s \in {"sethdr", "settrl"} /\ st.sawCx -> st
      [] e.s = "sethdr" -> [st EXCEPT !.hs = AddMD(@, e.md)]
      [] e.s = "sendhdr" -> LET h == AddMD(st.hs, e.md) IN [st EXCEPT !.hs = h, !.hlate = @ \cup {h}, !.sfl = TRUE]
      [] e.s = "settrl" -> [st EXCEPT !.tr = AddMD(@, e.md)]
      [] e.s = "send" ->
           LET f == [st EXCEPT !.hlate = @ \cup {st.hs}, !.ssent = Append(@, e.v), !.sfl = TRUE] IN
           IF Single(st.shape) THEN [f EXCEPT !.resp = Delivered(e.v)] ELSE [f EXCEPT !.inflight = Append(@, Delivered(e.v))]
      \* a handler that returns without having seen the end of the context may still get its
      \* status through before the client side has processed the cancellation
      [] e.s = "return" ->
           IF st.sawCx THEN [st EXCEPT !.ret = TRUE, !.rcode = e.code, !.rv = e.v]
           ELSE LET f == [Flush(st) EXCEPT !.ret = TRUE, !.rcode = e.code, !.rv = e.v, !.retAtCx = ~st.term.has] IN
                IF st.shape \in {"unary", "ustream"} /\ e.code = "OK" THEN [f EXCEPT !.resp = e.v, !.ssent = Append(@, e.v)] ELSE f
      [] OTHER -> st

\* a pending op completes as soon as what it waits for is there
Complete(st) ==
  IF st.cx # "no" THEN st
  ELSE CASE st.pend = "recv" /\ st.ret -> ServerTerminal(st)
         [] st.pend = "header" /\ st.hsent -> [st EXCEPT !.pend = "-", !.hdrs = Append(@, st.hvis), !.hknown = TRUE]
         [] st.pend = "invoke" /\ st.ret ->
              LET t == StatusSeen(st.rcode, st.rv) IN
              [st EXCEPT !.pend = "-", !.term = t, !.src = "server", !.hknown = TRUE,
                         !.msgs = IF t.code = "OK" THEN Append(@, st.resp) ELSE @,
                         !.hdrs = Append(@, st.hvis), !.trls = Append(@, st.tr)]
         [] OTHER -> st

Step(st, e, i) == { Complete(ServerOp(a, e, i)) : a \in ClientStart(st, e) }

\* j: a blocking client op was pending or started, and none is pending afterwards
JOf(st, e) == (st.pend # "-" \/ e.c \in {"recv", "header", "invoke"}) /\ \A n \in Step(st, e, 0) : n.pend = "-"

RECURSIVE RunFrom(_, _, _)
RunFrom(states, steps, i) ==
  IF i > Len(steps) THEN states
  ELSE RunFrom(UNION { Step(st, steps[i], i) : st \in states }, steps, i + 1)
\* mdk, the metadata of the caller's context: 0 outgoing metadata (x-req = req), 1 none at all,
\* 2 only INCOMING metadata (the caller is itself a handler passing its context on): a server
\* sees the caller's outgoing metadata and nothing else
Run(shape, req, mdk, steps) == RunFrom({[New(shape, req) EXCEPT !.mdk = mdk]}, steps, 1)

\* the transcript of a final state; reqmd is asserted when the handler certainly started
Transcript(st) ==
  [msgs |-> st.msgs, term |-> st.term, hdrs |-> st.hdrs, trls |-> st.trls, srecv |-> st.srecv, shdr |-> st.shdr,
   reqmd |-> IF st.ent /\ (st.cx = "no" \/ st.entAtCx) THEN (IF st.mdk = 0 THEN st.req ELSE 0) ELSE -2]

----------------------------------------------------------------------------
(* Grammar of well-matched scripts.  D = [vals, mds, codes, xs, causes, maxc, maxs, dl] *)

Legal(st, D) ==
  LET shape == st.shape
      live == st.opened /\ st.cx = "no"
      srun == st.ent /\ ~st.ret
      free == st.pend = "-"
      V(e) == { [e EXCEPT !.v = v] : v \in D.vals }
      M(e) == { [e EXCEPT !.md = m, !.x = x] : m \in D.mds, x \in D.xs }
      R(e) == { [f EXCEPT !.code = c] : c \in D.codes, f \in V(e) }
      streamy == shape # "unary"
      started == shape = "ustream" => st.csent = 1
      Ends == {"cancel"} \cup (IF D.dl THEN {"deadline"} ELSE {})
      K(E) == { [e EXCEPT !.x = k] : e \in E, k \in D.causes }      \* with and without a cause
  IN
  \* ---- opening the call (possibly with a context that is already cancelled)
  (IF ~st.opened THEN
     (IF st.cx = "no" THEN K({S("cancel", "-")}) ELSE {})
     \cup (CASE shape = "unary" -> IF st.cx = "no" THEN V(S("invoke", "recv")) ELSE {S("invoke", "-")}
             [] shape = "sstream" -> IF st.cx = "no" THEN V(S("open", "recv")) ELSE V(S("open", "-"))
             [] OTHER -> {S("open", "-")})
   ELSE {})
  \cup
  \* ---- the handler on its own (the client may be blocked in recv / header / invoke)
  (IF live /\ srun THEN
     M(S("-", "sethdr"))          \* at any point, also after the headers have gone out
     \cup (IF ~st.hsent THEN M(S("-", "sendhdr")) ELSE {})
     \cup M(S("-", "settrl"))
     \cup R(S("-", "return"))
     \cup (IF Multi(shape) /\ st.pend = "recv" /\ Len(st.ssent) < D.maxs THEN V(S("-", "send")) ELSE {})
     \cup (IF shape = "cstream" /\ st.pend = "recv" /\ st.resp = 0 THEN V(S("-", "send")) ELSE {})
     \cup (IF shape \in {"cstream", "bidi"} /\ st.cclosed /\ ~st.seof THEN {S("-", "recv")} ELSE {})
   ELSE {})
  \cup
  \* ---- rendezvous and client ops while the call is live
  (IF live THEN
     (IF shape \in {"cstream", "bidi"} /\ srun /\ ~st.cclosed /\ st.pend \in {"-", "recv"} /\ st.csent < D.maxc
        THEN V(S("send", "recv")) ELSE {})
     \cup (IF shape = "ustream" /\ st.csent = 0 /\ free THEN V(S("send", "recv")) ELSE {})
     \cup (IF shape \in {"cstream", "bidi"} /\ ~st.cclosed /\ st.pend \in {"-", "recv"}
             THEN {S("close", "-")} \cup (IF srun THEN {S("close", "recv")} ELSE {}) ELSE {})
     \cup (IF shape = "ustream" /\ st.csent = 1 /\ ~st.cclosed /\ st.pend \in {"-", "recv"} THEN {S("close", "-")} ELSE {})
     \cup (IF Multi(shape) /\ srun /\ free /\ ~st.term.has /\ Len(st.ssent) < D.maxs THEN V(S("recv", "send")) ELSE {})
     \cup (IF shape = "cstream" /\ srun /\ free /\ ~st.term.has /\ st.resp = 0 THEN V(S("recv", "send")) ELSE {})
     \cup (IF streamy /\ free /\ started /\ ~st.term.has
             THEN {S("recv", "-")} \cup (IF srun THEN R(S("recv", "return")) ELSE {}) ELSE {})
     \cup (IF streamy /\ free /\ started
             THEN {S("header", "-")}
                  \cup (IF srun THEN R(S("header", "return")) ELSE {})
                  \cup (IF srun /\ ~st.hsent THEN M(S("header", "sendhdr")) ELSE {})
             ELSE {})
     \cup (IF streamy /\ free /\ st.term.has THEN {S("trailer", "-")} ELSE {})
     \* the end of the client's context, alone or while the handler is in an op of its own
     \cup (IF ~st.term.has /\ started THEN
             K({ S(c, "-") : c \in Ends }
               \cup (IF srun THEN { S(c, "wait") : c \in Ends } ELSE {})
               \cup (IF srun /\ free /\ shape \in {"cstream", "bidi"} /\ ~st.seof THEN { S(c, "recv") : c \in Ends } ELSE {})
               \cup (IF srun /\ free /\ Multi(shape) THEN UNION { V(S(c, "send")) : c \in Ends } ELSE {}))
           ELSE {})
   ELSE {})
  \cup
  \* ---- after the client's context ended
  (IF st.opened /\ st.cx # "no" THEN
     (IF srun THEN {S("-", "wait")} \cup R(S("-", "return")) ELSE {})
     \* the handler goes on regardless, once it has certainly seen the end of its context
     \* (so that nothing here depends on what is still in flight)
     \cup (IF srun /\ st.waited /\ streamy THEN
             \* (no SendHeader once the handler has had its headers written, and after a deadline,
             \*  where it is uncertain whether they were, no SetHeader either: not generated)
             (IF ~st.sfl THEN M(S("-", "sethdr")) \cup M(S("-", "sendhdr")) ELSE {}) \cup M(S("-", "settrl"))
             \cup (IF st.sawCx THEN M(S("-", "sethdr")) ELSE {})     \* (after a seen cancellation: never visible)
             \cup (IF (Multi(shape) \/ (shape = "cstream" /\ st.resp = 0)) /\ Len(st.ssent) < D.maxs THEN V(S("-", "send")) ELSE {})
           ELSE {})
     \cup (IF streamy /\ ~st.term.has THEN {S("recv", "-")} ELSE {})
     \cup (IF streamy /\ st.hcx = 0 THEN {S("header", "-")} ELSE {})
     \cup (IF streamy /\ st.term.has THEN {S("trailer", "-")} ELSE {})
   ELSE {})

\* a script may stop here: nothing pending, the handler (if it ran) has returned, and a call
\* opened on a dead context has been read once (that is where the wrapper reports it)
CanStop(st) ==
  /\ st.opened /\ st.pend = "-"
  /\ st.ent => st.ret
  /\ (st.cx # "no" /\ ~st.entAtCx /\ st.shape # "unary") => st.term.has

WithJ(st, e) == [e EXCEPT !.j = JOf(st, e)]
=============================================================================
