------------------------------ MODULE RaceGen ------------------------------
(***************************************************************************)
(* C11 workloads: TLC draws concurrent programs from the alphabet of        *)
(* RaceOps.tla.  A program = MinProcs..MaxProcs processes, each a list of   *)
(* 1..MaxOps operation kinds of one family (the family decides which shared *)
(* objects the world of the program has, so that the processes meet on the  *)
(* same object).  Process 1 starts with a writing operation; a program is   *)
(* emitted only if RaceOps!ConflictPair holds for it, i.e. two different    *)
(* processes have operations on one object and one of them writes.          *)
(* harness/cmd/racex runs every program free-running under the race         *)
(* detector.  -seed makes the draw reproducible.                            *)
(***************************************************************************)
EXTENDS RaceOps, TLC, Json

CONSTANTS NCases, MinProcs, MaxProcs, MaxOps
VARIABLE c

NF == Len(Families)
\* (the parameter z only defeats TLC's caching of constant-level definitions)
RandOps(f, z) == [j \in 1..RandomElement(1..MaxOps) |-> RandomElement(FamilyKinds(f))]
GenProg(k) ==
  LET f == Families[(k % NF) + 1]
      n == RandomElement(MinProcs..MaxProcs)
  IN [n |-> k, family |-> f,
      procs |-> [p \in 1..n |-> IF p = 1 THEN << RandomElement(FamilyWriters(f)) >> \o RandOps(f, k + p) ELSE RandOps(f, k + p)]]

GenInit == c \in { GenProg(k) : k \in 1..NCases }
GenNext == UNCHANGED c
EmitCase == IF ConflictPair(c.procs) THEN PrintT("CASE " \o ToJson(c)) ELSE PrintT("SKIP " \o ToString(c.n))
=============================================================================
