import random

import vf
from checks import conc_common


def stress_cases(ctx, res, n):
    rnd = random.Random(ctx.seed * 17 + (1 if res == "val" else 2))

    def call(op="upd", id=1, v=1, e=-2, chk=False, xa=False, cia=False, inc=False, am=False):
        return {"op": op, "id": id, "v": v, "e": e, "chk": chk, "xa": xa, "cia": cia, "inc": inc, "am": am}
    pool_val = [call(v=1), call(v=2), call(v=3), call(v=1, inc=True), call(v=4, e=1)]
    pool_coll = [call(v=1, cia=True), call(v=2, cia=True), call(v=3, xa=True, cia=True), call(v=1, inc=True, cia=True),
                 call(op="del"), call(op="del", am=True), call(v=2, id=2, cia=True), call(op="del", id=2, am=True)]
    cases = []
    for _ in range(n):
        nw = rnd.choice([1, 2, 3, 3])
        pool = pool_val if res == "val" else pool_coll
        progs = [dict(rnd.choice(pool)) for _ in range(nw)]
        init = [rnd.choice([0, 1])] if res == "val" else [rnd.choice([-1, 1]), rnd.choice([-1, 2])]
        kinds = [{"uo": rnd.random() < 0.3, "lossy": rnd.random() < 0.3, "masked": rnd.random() < 0.3, "inc": False, "pid": False}
                 for _ in range(rnd.choice([1, 2, 2]))]
        if res == "coll" and rnd.random() < 0.3:     # an include-filtered subscriber beside the others
            kinds[0] = dict(kinds[0], inc=True, lossy=False)
        equiv = "none"
        if rnd.random() < 0.25:        # an equivalence configured: writes of equal values, remove and add again
            equiv = res
            kinds = [dict(k, lossy=False) for k in kinds]
            progs = [dict(rnd.choice([call(v=1, cia=True), call(v=1, cia=True), call(v=2, cia=True), call(op="del", am=True)]
                                     if res == "coll" else [call(v=1), call(v=1), call(v=2)])) for _ in range(nw)]
        cases.append({"res": res, "equiv": equiv, "init": init, "progs": progs, "kinds": kinds, "sched": [],
                      "stress": 30 if ctx.tier == "quick" else 300})
    return cases


def run(ctx):
    thorough = ctx.tier == "thorough"
    mcs = ["ConcMC_sub_val.cfg", "ConcMC_sub_coll.cfg", "ConcMC_lossy_val.cfg", "ConcMC_lossy_coll.cfg",
           "ConcMC_gc_coll.cfg", "ConcMC_equiv_coll.cfg", "ConcMC_equiv_val.cfg", "ConcMC_sub_coll_inc.cfg"] + \
        (["ConcMC_sub2_coll.cfg", "ConcMC_sub_val3.cfg"] if thorough else [])
    G = conc_common.gen
    if thorough:
        jobs = [lambda: G(ctx, "ConcGen_sub_val.cfg", "val", timeout=1800, limit=25000),
                lambda: G(ctx, "ConcGen_sub_coll.cfg", "coll", timeout=1800, limit=25000),
                lambda: G(ctx, "ConcGen_sub2_coll.cfg", "coll", simulate="num=20000", timeout=1800),
                lambda: G(ctx, "ConcGen_sub_val3.cfg", "val", simulate="num=20000", timeout=1800),
                lambda: G(ctx, "ConcGen_sub2_val_mask.cfg", "val", simulate="num=20000", timeout=1800),
                lambda: G(ctx, "ConcGen_sub2_coll_mask.cfg", "coll", simulate="num=20000", timeout=1800),
                lambda: G(ctx, "ConcGen_sub_coll_inc.cfg", "coll", timeout=1800, limit=20000),
                lambda: G(ctx, "ConcGen_pid_coll.cfg", "coll", timeout=1800, limit=10000),
                lambda: G(ctx, "ConcGen_sub2_coll_inc.cfg", "coll", simulate="num=20000", timeout=1800),
                lambda: G(ctx, "ConcGen_gc_coll.cfg", "coll", simulate="num=20000", timeout=1800),
                lambda: G(ctx, "ConcGen_lossy_val.cfg", "val", timeout=1800, limit=20000),
                lambda: G(ctx, "ConcGen_lossy_coll.cfg", "coll", timeout=1800, limit=20000),
                lambda: G(ctx, "ConcGen_equiv_coll.cfg", "coll", equiv="coll", timeout=1800),
                lambda: G(ctx, "ConcGen_equiv_val.cfg", "val", equiv="val", timeout=1800)]
        width = 3
    else:
        jobs = [lambda: G(ctx, "ConcGen_gc_coll.cfg", "coll", simulate="num=1000"),
                lambda: G(ctx, "ConcGen_lossy_val.cfg", "val", simulate="num=600"),
                lambda: G(ctx, "ConcGen_lossy_coll.cfg", "coll", simulate="num=1200"),
                lambda: G(ctx, "ConcGen_sub_val.cfg", "val", simulate="num=1200"),
                lambda: G(ctx, "ConcGen_sub_coll.cfg", "coll", simulate="num=1500"),
                lambda: G(ctx, "ConcGen_sub2_coll.cfg", "coll", simulate="num=800"),
                lambda: G(ctx, "ConcGen_sub_val3.cfg", "val", simulate="num=800"),
                lambda: G(ctx, "ConcGen_sub2_val_mask.cfg", "val", simulate="num=500"),
                lambda: G(ctx, "ConcGen_sub2_coll_mask.cfg", "coll", simulate="num=500"),
                lambda: G(ctx, "ConcGen_sub_coll_inc.cfg", "coll", simulate="num=500"),
                lambda: G(ctx, "ConcGen_pid_coll.cfg", "coll", simulate="num=400"),
                lambda: G(ctx, "ConcGen_sub2_coll_inc.cfg", "coll", simulate="num=700"),
                # resources with an equivalence configured (changes equal to what the subscriber holds are suppressed)
                lambda: G(ctx, "ConcGen_equiv_coll.cfg", "coll", simulate="num=700", equiv="coll"),
                lambda: G(ctx, "ConcGen_equiv_val.cfg", "val", simulate="num=400", equiv="val")]
        width = 6
    mcjobs = [(lambda c=c: ctx.mc("ConcMC", c, workers=4 if not thorough else vf.NCPU, timeout=3000)) for c in mcs]
    results = conc_common.par(mcjobs + jobs, width=width)
    cases = [c for r in results[len(mcjobs):] for c in r]
    if len(cases) < 500:
        raise vf.Inconclusive("only %d schedules generated" % len(cases))
    # counterexample schedules of the unordered-publication variant (the defect the publication mutex repairs)
    A = conc_common.attacks
    ajobs = [
        # counterexample schedules of the unordered-publication variant (the defect the publication mutex repairs)
        lambda: A(ctx, "ConcGen_sub_val_pinned.cfg", "val", "converged", 800 if thorough else 20,
                  simulate=None if thorough else "num=3000"),
        lambda: A(ctx, "ConcGen_sub_coll_pinned.cfg", "coll", "converged", 800 if thorough else 20,
                  simulate=None if thorough else "num=3000"),
        # ... of the variant whose subscriptions are not serialised with commit+publication (lossy stale item)
        lambda: A(ctx, "ConcGen_lossy_attack.cfg", "coll", "converged", 800 if thorough else 25),
        # ... of the variant whose bus is garbage-collected from the copy taken when the publication began
        lambda: A(ctx, "ConcGen_gc_coll_pinned.cfg", "coll", "noMissed", 800 if thorough else 25,
                  simulate="num=%d" % (60000 if thorough else 5000)),
        # ... of the variant that keeps what it last sent for an id after handing its removal over
        lambda: A(ctx, "ConcGen_equiv_coll_keep.cfg", "coll", "converged", 800 if thorough else 25,
                  simulate=None if thorough else "num=3000", equiv="coll")]
    # ... of the variant whose unconditional Delete does not compare the item's identity under the lock
    ajobs.append(lambda: A(ctx, "ConcGen_inc_norecheck.cfg", "coll", "converged", 800 if thorough else 25,
                           simulate=None if thorough else "num=6000"))
    # ... and of the variant whose subscriptions let go of the read lock between snapshot and registration
    ajobs.append(lambda: A(ctx, "ConcGen_snap_unlocked.cfg", "coll", "converged", 800 if thorough else 25,
                           simulate=None if thorough else "num=4000"))
    ajobs.append(lambda: A(ctx, "ConcGen_snap_unlocked_pid.cfg", "coll", "converged", 800 if thorough else 15,
                           simulate=None if thorough else "num=3000"))
    ajobs.append(lambda: A(ctx, "ConcGen_snap_unlocked_val.cfg", "val", "converged", 800 if thorough else 15,
                           simulate=None if thorough else "num=3000"))
    # (an include-filtered subscription may take its snapshot on a path of its own)
    ajobs.append(lambda: A(ctx, "ConcGen_snap_unlocked_inc.cfg", "coll", "converged", 800 if thorough else 15,
                           simulate=None if thorough else "num=3000"))
    if thorough:
        ajobs.append(lambda: A(ctx, "ConcGen_lossy_coll_pinned.cfg", "coll", "converged", 800))
    att = [c for r in conc_common.par(ajobs, width=3 if thorough else 6) for c in r]
    ctx.cov["attack_schedules"] = len(att)
    if len(att) < 20:
        raise vf.Inconclusive("only %d attack schedules found" % len(att))
    ctx.cov["schedules_generated_by_tlc"] = len(cases) + len(att)
    conc_common.run_and_check(ctx, "C03", cases, "forced")
    conc_common.run_and_check(ctx, "C03", att, "attack")
    st = stress_cases(ctx, "val", 10 if not thorough else 40) + stress_cases(ctx, "coll", 20 if not thorough else 80)
    conc_common.run_and_check(ctx, "C03", st, "stress")
    ctx.cov["rule"] = ("forced: interleavings (exhaustive in the thorough tier, simulated in quick) of 2-3 writers and 1-2 "
                       "subscribers that subscribe at any point (SubSnap/SubListen as separate steps), with every "
                       "placement of commits, listener-list copies, per-listener deliveries and consumer receives, "
                       "replayed on the real Value/Collection through hook gates; stress: free-running writers and "
                       "subscribers (updates-only / lossy mixed) with quiescence decided by a sentinel write. TLC "
                       "validates each run: the fold of what a subscriber received equals the final contents, every "
                       "commit after registration is delivered, seeds first. non-trivial = at least two commits or a "
                       "failed call; distinct = distinct (programs, schedule, commit order)")


MANIFEST = {
    "engine": "spec/ResourceConc.tla + ConcMC.tla + ConcTrace.tla (TLC) + harness cmd/conc",
    "technique": "TLA+ model of commit, publication (listener snapshot + per-listener rendezvous), subscription "
                 "(snapshot under the read lock, registration) and consumer receives; TLC checks convergence over all "
                 "interleavings; its schedules are forced onto the real goroutines; TLC validates each real run",
    "text": "ResourceConc.tla adds to the writers of C02 the bus publication steps and subscribers that snapshot and "
            "register in two steps, forwarders that hand one event at a time to the consumer. TLC checks Converged "
            "(fold of received = store once writers are done and everything is handed over) for 2-3 writers x 1-2 "
            "subscribers and shows it fails when publications are not ordered (PublishAfterUnlock = TRUE, the pinned "
            "code). Schedules from TLC are replayed on the real code via hook gates (sub.snap, send.each, pub.before, "
            "...), consumer receives are schedule steps; stress runs use a sentinel write for quiescence. TLC evaluates "
            "the C03 predicates on every real run. Subscriber kinds also cover a read mask (the projection is made for "
            "that subscriber alone), an include predicate (stream of the filtered collection) and resources with an "
            "equivalence; refuted deviations (unordered publication, listener copy at send time, bus collected from a "
            "stale copy, per-id memory kept after a removal, Delete without identity re-check) supply attack schedules.",
    "note": "Trusted base: TLC; hook placement; the harness is the consumer (so 'reader keeps receiving' holds by "
            "construction); bodies abstracted to default_int32; read masks on subscriptions are covered by C04/C06, "
            "lossy delivery by C09.",
}
