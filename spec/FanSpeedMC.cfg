SPECIFICATION Spec
CONSTRAINT Bounded
INVARIANTS PresetDeterminesOthers PresetWins IndexBeatsPercentage PercentageLast RelativeAdds FailureIsNoop IndexInRange
VIEW ViewNoHist
