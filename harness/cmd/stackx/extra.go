package main

import (
	"context"
	"time"

	"google.golang.org/protobuf/proto"
	"google.golang.org/protobuf/reflect/protoreflect"
	"google.golang.org/protobuf/types/known/durationpb"
)

// Steps beyond Update / Get / OpenPull / CloseStream / Other.

const (
	tweenDuration = 20 * time.Millisecond  // shorter than any tick: the first tick of the timed behaviour is its last
	waitDuration  = 110 * time.Millisecond // "time passes": > two ticks of the light memory device (1/15 s)
	maxWaits      = 120                    // real delays per process; further timed triples run as plain updates
	gateTimeout   = 2 * time.Second
)

// tweenField finds, from the descriptors, a top-level field of the resource that starts timed behaviour:
// a message with a google.protobuf.Duration field (smartcore.types.Tween.total_duration).
func (s *session) tweenField() (fd, dur protoreflect.FieldDescriptor) {
	fields := s.tr.res.Fields()
	for i := 0; i < fields.Len(); i++ {
		f := fields.Get(i)
		if f.Message() == nil || f.IsList() || f.IsMap() {
			continue
		}
		for j := 0; j < f.Message().Fields().Len(); j++ {
			d := f.Message().Fields().Get(j)
			if d.Message() != nil && d.Message().FullName() == "google.protobuf.Duration" && !d.IsList() {
				return f, d
			}
		}
	}
	return nil, nil
}

// nudge writes the current value with its first top-level float field moved by 0.004 - less than any tolerance a
// model is configured with (fan speed: 0.01), so whether it is due on the streams is not asserted; the streams are
// not read.
func (s *session) nudge(o *obs, name string, preMsg proto.Message) bool {
	if preMsg == nil || !o.Pre.Ok {
		return false
	}
	var fd protoreflect.FieldDescriptor
	fields := s.tr.res.Fields()
	for i := 0; i < fields.Len(); i++ {
		f := fields.Get(i)
		if (f.Kind() == protoreflect.FloatKind || f.Kind() == protoreflect.DoubleKind) && !f.IsList() && !f.IsMap() {
			fd = f
			break
		}
	}
	if fd == nil {
		return false
	}
	val := proto.Clone(preMsg).ProtoReflect()
	if fd.Kind() == protoreflect.FloatKind {
		val.Set(fd, protoreflect.ValueOfFloat32(float32(val.Get(fd).Float())+0.004))
	} else {
		val.Set(fd, protoreflect.ValueOfFloat64(val.Get(fd).Float()+0.004))
	}
	req := s.request(s.tr.update, s.tr.updName, name)
	req.Set(s.tr.updValue, protoreflect.ValueOfMessage(val))
	o.ValKind = "nudge"
	m, err := s.unary(s.tr.update, req)
	o.Code, o.Panic = errCode(err)
	o.Resp = absMsg(s.tr.res, m)
	o.Post = s.fullGet()
	if err == nil {
		s.armed = false
	}
	for _, ps := range s.streams {
		o.Streams = append(o.Streams, s.snapshot(ps))
		if err == nil {
			ps.pending++
		}
	}
	return true
}

// pullOnce opens a Pull with a read mask, reads its first message and closes it again.
func (s *session) pullOnce(o *obs, op genOp, name string, preMsg proto.Message) bool {
	if s.tr.pullMask == nil {
		return false
	}
	fm, om := s.mask(op.Mask, true)
	sub := s.subVec(om, preMsg)
	o.Op = "OpenPull"
	o.Mask = om
	o.Note = "Pull with a read mask: first message only"
	for _, ps := range s.streams {
		o.Streams = append(o.Streams, s.snapshot(ps))
	}
	ps := s.openMasked(name, false, o.Pre.V, fm, om, sub)
	sn := s.snapshot(ps)
	sn.Opened, sn.Awaited = true, true
	sn.Msgs, sn.Timeout = s.await(ps, nil)
	ps.cancel()
	s.drain(ps)
	sn.Ended = ""
	o.Streams = append(o.Streams, sn)
	o.Post = s.fullGet()
	return true
}

// timedUpdate sends a good value with a short duration in the resource's tween field.  The next step of the
// history is a plain Update, made at once.
func (s *session) timedUpdate(o *obs, op genOp, name string) bool {
	fd, dur := s.tweenField()
	if fd == nil || s.mt.Waits >= maxWaits {
		return false
	}
	req := s.request(s.tr.update, s.tr.updName, name)
	v, _ := s.pickValue((op.Val-1)%4 + 1)
	val := proto.Clone(v).ProtoReflect()
	tw := val.Mutable(fd).Message()
	tw.Set(dur, protoreflect.ValueOfMessage(durationpb.New(tweenDuration).ProtoReflect()))
	req.Set(s.tr.updValue, protoreflect.ValueOfMessage(val))
	o.Val, o.ValKind = op.Val, "timed"
	m, err := s.unary(s.tr.update, req)
	o.Code, o.Panic = errCode(err)
	o.Resp = absMsg(s.tr.res, m)
	o.Post = s.fullGet()
	s.timedPending = true
	if err == nil {
		s.armed = true
	}
	// the update's own change is consumed here (it arrives at once), so that what is left on a stream is always
	// an echo of the current value; nothing is asserted about it (TimedFails)
	s.deliver(o, m, err)
	return true
}

// wait lets time pass and then reads, without waiting, whatever the open streams delivered meanwhile.
func (s *session) wait(o *obs) bool {
	if !s.timedPending {
		return false
	}
	s.timedPending = false
	s.mt.Waits++
	time.Sleep(waitDuration)
	o.Armed = s.armed
	s.armed = false
	for _, ps := range s.streams {
		sn := s.snapshot(ps)
	drain:
		for !ps.done {
			select {
			case ev := <-ps.ch:
				if ev.err != nil {
					ps.done = true
					ps.ended, _ = errCode(ev.err)
					break drain
				}
				cs := s.changesOf(ps, ev.msg)
				sn.Msgs = append(sn.Msgs, cs...)
				ps.nread += len(cs)
			default:
				break drain
			}
		}
		sn.Ended = ps.ended
		o.Streams = append(o.Streams, sn)
	}
	o.Post = s.fullGet()
	return true
}

// gatedUpdate makes an Update and, while the write is held between its commit and its publication (hook point
// pub.before), opens a new Pull that stays open.  Two observations: the OpenPull (during the hold) and the Update.
func (s *session) gatedUpdate(o *obs, op genOp, name string) {
	req := s.request(s.tr.update, s.tr.updName, name)
	val := s.lastVal%len(s.st.values) + 1 // a value other than the last one written
	if val >= 5 {
		val += 2
	}
	v, kind := s.pickValue(val)
	o.Op, o.Val, o.ValKind = "Update", val, kind
	o.Note = "a Pull was opened between this Update's commit and its publication"
	req.Set(s.tr.updValue, protoreflect.ValueOfMessage(proto.Clone(v).ProtoReflect()))

	for len(gate.reached) > 0 {
		<-gate.reached
	}
	gate.armed.Store(true)
	type result struct {
		m   proto.Message
		err error
	}
	done := make(chan result, 1)
	go func() {
		m, err := s.unary(s.tr.update, req)
		done <- result{m, err}
	}()
	var res result
	finished := false
	held := false
	timer := time.NewTimer(gateTimeout)
	select {
	case <-gate.reached:
		held = true
	case res = <-done:
		finished = true
	case <-timer.C:
	}
	timer.Stop()
	gate.armed.Store(false)

	// the new Pull, opened while the write is held (or after it, if it never reached the hook point)
	oo := *o
	oo.Op, oo.Val, oo.ValKind, oo.Streams = "OpenPull", 0, "", []obsStream{}
	oo.Note = "opened while an Update was between commit and publication"
	if !held {
		oo.Note = "opened after an Update that published nothing"
	}
	oo.Pre = s.fullGetTimeout(time.Second)
	for _, ps := range s.streams {
		oo.Streams = append(oo.Streams, s.snapshot(ps))
	}
	nb := s.open(name, false, oo.Pre.V)
	sn := s.snapshot(nb)
	sn.Opened, sn.Awaited = true, true
	sn.Msgs, sn.Timeout = s.await(nb, nil)
	sn.Ended = nb.ended
	oo.Streams = append(oo.Streams, sn)
	oo.Post = s.fullGetTimeout(time.Second)
	if !oo.Post.Ok {
		oo.Post = oo.Pre
	}

	if held {
		s.mt.Gated++
		gate.release <- struct{}{}
	} else {
		s.mt.Ungated++
	}
	if !finished {
		res = <-done
	}
	o.Code, o.Panic = errCode(res.err)
	o.Resp = absMsg(s.tr.res, res.m)
	o.Post = s.fullGet()
	if res.err == nil {
		s.armed = false
		if kind == "good" {
			s.lastVal = s.goodIndex(val) + 1
		}
	}
	s.deliver(o, res.m, res.err)
	s.streams = append(s.streams, nb)
	s.out.Write(oo)
	s.mt.Steps++
}

func (s *session) fullGetTimeout(d time.Duration) absGet {
	req := s.request(s.tr.get, s.tr.getName, routeNames[0])
	out := newMsg(s.tr.get.Output()).Interface()
	ctx, cancel := context.WithTimeout(context.Background(), d)
	defer cancel()
	err := s.st.conn.Invoke(ctx, s.method(s.tr.get), req.Interface(), out)
	code, _ := errCode(err)
	if err != nil {
		return absGet{Code: code, V: zeros(s.tr.res.Fields().Len())}
	}
	return absGet{Ok: true, Code: code, V: absMsg(s.tr.res, out)}
}
