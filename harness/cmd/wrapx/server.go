package main

import (
	"context"
	"errors"
	"io"
	"strconv"
	"sync"
	"time"

	"google.golang.org/grpc"
	"google.golang.org/grpc/codes"
	"google.golang.org/grpc/metadata"
	"google.golang.org/grpc/status"
	"google.golang.org/protobuf/proto"

	"github.com/smart-core-os/sc-golang/internal/testproto"
	"github.com/smart-core-os/sc-golang/verifharness/hx"
)

// sres is what one server step did.
type sres struct {
	I    int    `json:"i"`    // step index (1-based)
	Op   string `json:"op"`   // the op
	Kind string `json:"kind"` // msg eof err ok
	V    int    `json:"v"`
	Code string `json:"code"`
}

type scmd struct {
	i  int
	st Step
}

// call is the rendezvous between the script runner and the handler serving it.
type call struct {
	id      string
	shape   string
	cmd     chan scmd
	done    chan sres
	abort   chan struct{}
	exited  chan struct{}
	entered chan struct{}

	mu     sync.Mutex
	reqmd  int
	srecvd []proto.Message // requests the server holds, in order of receipt
	ssent  []proto.Message // responses the server sent (it keeps them)
}

func newCall(id, shape string) *call {
	return &call{id: id, shape: shape, cmd: make(chan scmd, 4), done: make(chan sres, 8),
		abort: make(chan struct{}), exited: make(chan struct{}), entered: make(chan struct{}), reqmd: -1}
}

// scriptServer is the single TestApiServer both transports talk to.
type scriptServer struct {
	testproto.UnimplementedTestApiServer
	mu    sync.Mutex
	calls map[string]*call
	// current is the script being run, for calls whose context carries no outgoing metadata
	// to find it by (only scripts that run to their end are made that way)
	current *call
}

func newScriptServer() *scriptServer { return &scriptServer{calls: map[string]*call{}} }

func (s *scriptServer) register(c *call) {
	s.mu.Lock()
	s.calls[c.id] = c
	s.mu.Unlock()
}

func (s *scriptServer) unregister(c *call) {
	s.mu.Lock()
	delete(s.calls, c.id)
	s.mu.Unlock()
}

func (s *scriptServer) lookup(ctx context.Context) *call {
	md, _ := metadata.FromIncomingContext(ctx)
	ids := md.Get("x-call")
	s.mu.Lock()
	var c *call
	switch {
	case len(ids) == 0, len(ids) == 1 && ids[0] == outerCallID:
		c = s.current // nothing of the caller's to go by (or somebody else's metadata)
	case len(ids) == 1:
		c = s.calls[ids[0]]
	}
	s.mu.Unlock()
	if c == nil {
		return nil
	}
	c.mu.Lock()
	c.reqmd = 0
	if v := md.Get("x-req"); len(v) == 1 {
		if n, err := strconv.Atoi(v[0]); err == nil {
			c.reqmd = n
		}
	}
	c.mu.Unlock()
	return c
}

// outerCallID / outerReq are the INCOMING metadata of a caller that is itself a handler.
const outerCallID = "outer-call"
const outerReq = 77

var errNoScript = status.Error(codes.FailedPrecondition, "no script for this call")

func (s *scriptServer) Unary(ctx context.Context, req *testproto.UnaryRequest) (*testproto.UnaryResponse, error) {
	c := s.lookup(ctx)
	if c == nil {
		return nil, errNoScript
	}
	resp, err := serve(c, ctx, nil, req)
	if resp == nil {
		return nil, err
	}
	return resp.(*testproto.UnaryResponse), err
}

func (s *scriptServer) ServerStream(req *testproto.ServerStreamRequest, stream grpc.ServerStreamingServer[testproto.ServerStreamResponse]) error {
	c := s.lookup(stream.Context())
	if c == nil {
		return errNoScript
	}
	_, err := serve(c, stream.Context(), stream, req)
	return err
}

func (s *scriptServer) ClientStream(stream grpc.ClientStreamingServer[testproto.ClientStreamRequest, testproto.ClientStreamResponse]) error {
	c := s.lookup(stream.Context())
	if c == nil {
		return errNoScript
	}
	_, err := serve(c, stream.Context(), stream, nil)
	return err
}

func (s *scriptServer) BidiStream(stream grpc.BidiStreamingServer[testproto.BidiStreamRequest, testproto.BidiStreamResponse]) error {
	c := s.lookup(stream.Context())
	if c == nil {
		return errNoScript
	}
	_, err := serve(c, stream.Context(), stream, nil)
	return err
}

func mdOf(tok int) metadata.MD {
	key := "x-a"
	if tok%2 == 0 {
		key = "x-b"
	}
	return metadata.Pairs(key, strconv.Itoa(tok))
}

// scribbleMD overwrites every value of md in place and adds values under both user keys.
func scribbleMD(md metadata.MD, overwrite, add string) {
	if md == nil {
		return
	}
	for _, vs := range md {
		for i := range vs {
			vs[i] = overwrite
		}
	}
	md["x-a"] = append(md["x-a"], add)
	md["x-b"] = append(md["x-b"], add)
}

func statusOf(st Step) error {
	msg := "err" + strconv.Itoa(st.V)
	switch st.Code {
	case "OK":
		return nil
	case "Raw": // a plain Go error: real gRPC reports Unknown with the error text
		return errors.New(msg)
	case "CtxCanceled": // the handler returns a bare context error of its own
		return context.Canceled
	case "CtxDeadline":
		return context.DeadlineExceeded
	}
	for c := codes.OK; c <= codes.Unauthenticated; c++ {
		if c.String() == st.Code {
			return status.Error(c, msg)
		}
	}
	hx.Fatal("unknown status code %q in script", st.Code)
	return nil
}

// serve executes the server half of the script: it performs the op of every step the
// runner hands over and reports what the op returned.
func serve(c *call, ctx context.Context, stream grpc.ServerStream, first proto.Message) (proto.Message, error) {
	defer close(c.exited)
	if first != nil {
		// unary / server-streaming: the generated handler already received the request
		c.mu.Lock()
		c.srecvd = append(c.srecvd, first)
		c.mu.Unlock()
		c.done <- sres{Op: "recv", Kind: "msg", V: valOf(first)}
	}
	close(c.entered)
	var lastMD metadata.MD
	for {
		var cmd scmd
		select {
		case <-c.abort:
			return nil, status.Error(codes.Aborted, "script aborted by the harness")
		case cmd = <-c.cmd:
		}
		st := cmd.st
		r := sres{I: cmd.i, Op: st.S, Kind: "ok"}
		fail := func(err error) {
			if err != nil {
				r.Kind = "err"
				r.Code = hx.Code(err)
			}
		}
		switch st.S {
		case "recv":
			m := newReq(c.shape)
			err := stream.RecvMsg(m)
			switch {
			case err == nil:
				r.Kind, r.V = "msg", valOf(m)
				c.mu.Lock()
				c.srecvd = append(c.srecvd, m)
				c.mu.Unlock()
			case err == io.EOF:
				r.Kind = "eof"
			default:
				fail(err)
			}
		case "sethdr", "sendhdr", "settrl":
			// x bit 0: through the context helpers; x bit 1: the handler recycles the metadata.MD
			// object of its previous metadata op.  Either way it keeps using the object afterwards
			// (scribbleMD): a server copies metadata when it is handed over.
			md := mdOf(st.Md)
			if st.X >= 2 && lastMD != nil {
				for k := range lastMD {
					delete(lastMD, k)
				}
				for k, v := range md {
					lastMD[k] = v
				}
				md = lastMD
			}
			viaCtx := stream == nil || st.X%2 == 1
			switch st.S {
			case "sethdr":
				if viaCtx {
					fail(grpc.SetHeader(ctx, md))
				} else {
					fail(stream.SetHeader(md))
				}
			case "sendhdr":
				if viaCtx {
					fail(grpc.SendHeader(ctx, md))
				} else {
					fail(stream.SendHeader(md))
				}
			case "settrl":
				if viaCtx {
					fail(grpc.SetTrailer(ctx, md))
				} else {
					stream.SetTrailer(md)
				}
			}
			scribbleMD(md, "99", "98")
			lastMD = md
		case "send":
			m := newResp(c.shape, st.V)
			c.mu.Lock()
			c.ssent = append(c.ssent, m)
			c.mu.Unlock()
			fail(stream.SendMsg(m))
			scribble(m, altered) // the handler goes on using its message as soon as the send has returned
		case "wait":
			select {
			case <-ctx.Done():
				r.Code = hx.Code(ctx.Err())
			case <-time.After(stepTimeout):
				if ctx.Err() != nil {
					r.Code = hx.Code(ctx.Err())
				} else {
					r.Kind = "hang"
				}
			}
		case "return":
			err := statusOf(st)
			var resp proto.Message
			if err == nil && (c.shape == "unary" || c.shape == "ustream") {
				resp = newResp(c.shape, st.V)
				c.mu.Lock()
				c.ssent = append(c.ssent, resp)
				c.mu.Unlock()
			}
			c.done <- r
			return resp, err
		default:
			hx.Fatal("unknown server op %q", st.S)
		}
		c.done <- r
	}
}
