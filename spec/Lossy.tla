---------------------------- MODULE Lossy ----------------------------
(***************************************************************************)
(* C09: the stages that break backpressure between the bus and a slow     *)
(* subscriber.                                                             *)
(*   kind = "coll":  pkg/resource.mergeCollectionExcess -- one pending     *)
(*                   change per id (merged by the mergeChanges table) and  *)
(*                   a FIFO queue of ids                                    *)
(*   kind = "val":   internal/minibus.DropExcess -- a single slot holding  *)
(*                   the most recent message                               *)
(* A producer feeds an API-legal history (per id: ADD when absent, UPDATE  *)
(* or REMOVE when present); the consumer receives when it pleases.  The    *)
(* stage's input is always enabled (In has no precondition on the          *)
(* consumer): that is "a slow reader never blocks the writer".             *)
(***************************************************************************)
EXTENDS Integers, Sequences, FiniteSets, TLC, Json

CONSTANTS Ids, MaxSteps, Kind

Absent == 0
VARIABLES truth,     \* [Ids -> value or Absent]: the fold of everything sent
          nextVal,   \* values are 1, 2, 3, ... so that every version is distinguishable
          pending,   \* [Ids -> change or None]   (for "val": pending[1] is the slot)
          queue,     \* sequence of ids with a pending change, front first
          view,      \* [Ids -> value or Absent]: the consumer's fold of what it received
          steps      \* history: the sequence of [a |-> "in", e |-> change] / [a |-> "out", e |-> change]
vars == <<truth, nextVal, pending, queue, view, steps>>

None == [type |-> "NONE", id |-> 0, old |-> Absent, new |-> Absent]
Chg(t, id, old, new) == [type |-> t, id |-> id, old |-> old, new |-> new]

(* resource.mergeChanges(a, b): a is pending, b arrives.  [send, c]        *)
Merge(a, b) ==
  CASE a.type = "ADD" ->
         (CASE b.type = "ADD" -> [send |-> TRUE, c |-> b]
            [] b.type \in {"UPDATE", "REPLACE"} -> [send |-> TRUE, c |-> [b EXCEPT !.type = "ADD", !.old = Absent]]
            [] b.type = "REMOVE" -> [send |-> FALSE, c |-> None]
            [] OTHER -> [send |-> TRUE, c |-> b])
    [] a.type = "UPDATE" ->
         [send |-> TRUE, c |-> [b EXCEPT !.old = a.old, !.type = IF b.type = "ADD" THEN "REPLACE" ELSE b.type]]
    [] a.type = "REPLACE" ->
         [send |-> TRUE, c |-> [b EXCEPT !.old = a.old, !.type = IF b.type \in {"ADD", "UPDATE"} THEN "REPLACE" ELSE b.type]]
    [] a.type = "REMOVE" ->
         [send |-> TRUE, c |-> [b EXCEPT !.old = a.old, !.type = IF b.type # "REMOVE" THEN "REPLACE" ELSE b.type]]
    [] OTHER -> [send |-> TRUE, c |-> b]

Without(q, id) == SelectSeq(q, LAMBDA x : x # id)

Init == /\ truth = [i \in Ids |-> Absent] /\ nextVal = 1
        /\ pending = [i \in Ids |-> None] /\ queue = <<>>
        /\ view = [i \in Ids |-> Absent] /\ steps = <<>>

\* the next legal change of id i
Legal(i) == IF Kind = "val" THEN { Chg("UPDATE", i, truth[i], nextVal) }
            ELSE IF truth[i] = Absent THEN { Chg("ADD", i, Absent, nextVal) }
            ELSE { Chg("UPDATE", i, truth[i], nextVal), Chg("REMOVE", i, truth[i], Absent) }

In(e) ==
  /\ nextVal <= MaxSteps            \* MaxSteps changes are fed in all
  /\ truth' = [truth EXCEPT ![e.id] = e.new]
  /\ nextVal' = nextVal + 1
  /\ steps' = Append(steps, [a |-> "in", e |-> e])
  /\ IF Kind = "val"
       THEN /\ pending' = [pending EXCEPT ![e.id] = e]          \* replace the buffered message
            /\ queue' = <<e.id>>
       ELSE IF pending[e.id] # None
              THEN LET m == Merge(pending[e.id], e) IN
                   IF m.send THEN /\ pending' = [pending EXCEPT ![e.id] = m.c]
                                  /\ queue' = Append(Without(queue, e.id), e.id)
                             ELSE /\ pending' = [pending EXCEPT ![e.id] = None]
                                  /\ queue' = Without(queue, e.id)
              ELSE /\ pending' = [pending EXCEPT ![e.id] = e]
                   /\ queue' = Append(queue, e.id)
  /\ UNCHANGED view

Apply(v, e) == [v EXCEPT ![e.id] = e.new]

Out ==
  /\ queue # <<>>
  /\ LET id == Head(queue)  e == pending[id] IN
     /\ view' = Apply(view, e)
     /\ steps' = Append(steps, [a |-> "out", e |-> e])
     /\ pending' = [pending EXCEPT ![id] = None]
     /\ queue' = Tail(queue)
  /\ UNCHANGED <<truth, nextVal>>

Next == (\E i \in Ids : \E e \in Legal(i) : In(e)) \/ Out
Spec == Init /\ [][Next]_vars
ViewNoHist == <<truth, nextVal, pending, queue, view>>

----------------------------------------------------------------------------
\* folding what is still pending, in queue order, on top of the consumer's view gives the truth
RECURSIVE FoldQ(_, _)
FoldQ(v, q) == IF q = <<>> THEN v ELSE FoldQ(Apply(v, pending[Head(q)]), Tail(q))
FoldPreserved == FoldQ(view, queue) = truth
\* what is about to be delivered continues from what the consumer holds
OldChain == \A k \in 1..Len(queue) : Kind = "coll" => pending[queue[k]].old = view[queue[k]]
KindsMakeSense == \A k \in 1..Len(queue) : Kind = "coll" =>
                    LET e == pending[queue[k]] IN
                    /\ (e.type = "ADD" => view[e.id] = Absent /\ e.new # Absent)
                    /\ (e.type = "REMOVE" => view[e.id] # Absent /\ e.new = Absent)
                    /\ (e.type \in {"UPDATE", "REPLACE"} => view[e.id] # Absent /\ e.new # Absent)
QueueIsPending == /\ \A k \in 1..Len(queue) : pending[queue[k]] # None
                  /\ \A i \in Ids : pending[i] # None => \E k \in 1..Len(queue) : queue[k] = i
                  /\ \A j, k \in 1..Len(queue) : j # k => queue[j] # queue[k]
\* once drained the consumer holds the most recent value of everything
Latest == queue = <<>> => view = truth
\* memory: at most one pending change per id
Bounded == Len(queue) <= Cardinality(Ids)

----------------------------------------------------------------------------
(* Gen: complete behaviours (history full, everything handed over) printed  *)
(* as the step sequence the harness replays on the real stage.              *)
Terminal == nextVal > MaxSteps /\ queue = <<>>
EmitCase == Terminal => PrintT("CASE " \o ToJson([kind |-> Kind, steps |-> steps, truth |-> [i \in 1..Cardinality(Ids) |-> truth[i]]]))
=============================================================================
