// Command isolation runs the operation walks generated from spec/Isolation.tla on real objects of the repository
// (resource.Value, resource.Collection, every trait model and memory device bound in targets_*.go) with the
// isolation monitor of C07 switched on:
//
//   - every message that crosses the API boundary is registered with a deep copy taken at that moment (arguments of
//     writes = "in"; results, list elements, event values new and old = "out"),
//   - after EVERY step each live handed-out message is compared with its frozen copy,
//   - the full read-back of the object (Get / List of everything, without masks) is digested before and after each
//     step,
//   - after a write returned (at once, or some steps later: the walk says when) every field of the messages the
//     caller handed in is overwritten in place, as its own step.
//
// One JSON line per step is written to <outdir>/<target>.ndjson; spec/IsolationTrace.tla judges them.  Nothing is
// judged here.
//
//	isolation -list                                  the targets, their exported methods and the bound ones (JSON)
//	isolation -cases walks.ndjson -outdir DIR [-targets a,b] [-per N]
package main

import (
	"context"
	"encoding/json"
	"fmt"
	"hash/fnv"
	"math/rand"
	"os"
	"path/filepath"
	"reflect"
	"runtime"
	"sort"
	"strings"
	"sync"
	"sync/atomic"
	"time"

	"google.golang.org/protobuf/proto"

	"github.com/smart-core-os/sc-golang/verifharness/hx"
)

// One operation of a target.  run hands messages in and out through e; err is informational.
type op struct {
	name string // method name, optionally "/variant"
	ro   bool   // read-only according to the property text: Get, List, Pull (and its seed), Describe
	run  func(e *env) error
}

// instance is one constructed object under test.
type instance struct {
	// model: the object itself, for targets built on top of another target (the ModelServer of a model)
	model any
	ops   []op
	// state is the full read-back through the public API, without masks
	state func() []proto.Message
}

type target struct {
	name  string       // used in file names and signatures
	pkg   string       // directory under pkg/trait (or "resource")
	typ   reflect.Type // the type whose exported methods are listed
	build func(e *env) *instance
	// notOps: exported methods that are not operations on messages (documented in the listing)
	notOps []string
	// layer "server": a ModelServer driven through its grpc.ServiceDesc, built over the model target named over
	layer, over string
}

var targets []target

func register(t target) { targets = append(targets, t) }

type stepT struct {
	Kind  string `json:"kind"`
	Op    int    `json:"op"`
	Arg   int    `json:"arg"`
	Delay int    `json:"delay"`
	Src   string `json:"src"`  // "fresh" | "held": where the written message of a plain write comes from
	Pick  int    `json:"pick"` // which held message
}
type walkT struct {
	N     int     `json:"n"`
	Init  string  `json:"init"` // "absent" | "present": the construction of the object
	Steps []stepT `json:"steps"`
}

type snapshot struct {
	digest string
	parts  [][]byte
	msgs   []proto.Message // clones, only kept for the diff of the previous step
}

func snap(inst *instance) snapshot {
	var s snapshot
	p := hx.Catch(func() {
		for _, m := range inst.state() {
			if !validMsg(m) {
				s.parts = append(s.parts, nil)
				s.msgs = append(s.msgs, nil)
				continue
			}
			b, err := proto.MarshalOptions{Deterministic: true}.Marshal(m)
			if err != nil {
				b = []byte("marshal error: " + err.Error())
			}
			s.parts = append(s.parts, b)
			s.msgs = append(s.msgs, m)
		}
	})
	h := fnv.New64a()
	for _, b := range s.parts {
		fmt.Fprintf(h, "%d:", len(b))
		h.Write(b)
	}
	if p != "" {
		fmt.Fprintf(h, "panic:%s", p)
	}
	s.digest = fmt.Sprintf("%016x", h.Sum64())
	return s
}

// sdiff names where two read-backs differ: "[i].field".
func sdiff(a, b snapshot) []string {
	res := []string{}
	if len(a.parts) != len(b.parts) {
		res = append(res, fmt.Sprintf("len %d->%d", len(a.parts), len(b.parts)))
	}
	for i := 0; i < len(a.parts) && i < len(b.parts) && len(res) < 6; i++ {
		if string(a.parts[i]) == string(b.parts[i]) {
			continue
		}
		if a.msgs[i] == nil || b.msgs[i] == nil {
			res = append(res, fmt.Sprintf("[%d]", i))
			continue
		}
		hx.Catch(func() {
			x := a.msgs[i].ProtoReflect().New().Interface()
			y := b.msgs[i].ProtoReflect().New().Interface()
			if proto.Unmarshal(a.parts[i], x) != nil || proto.Unmarshal(b.parts[i], y) != nil ||
				x.ProtoReflect().Descriptor() != y.ProtoReflect().Descriptor() {
				res = append(res, fmt.Sprintf("[%d]", i))
				return
			}
			for _, f := range diffFields(x.ProtoReflect(), y.ProtoReflect(), "", 0) {
				res = append(res, fmt.Sprintf("[%d].%s", i, f))
			}
		})
	}
	return res
}

func hashName(s string) int64 {
	h := fnv.New32a()
	h.Write([]byte(s))
	return int64(h.Sum32())
}

// watchdog: an operation that never returns (a writer blocked for ever by a dead subscription, say) cannot be
// abandoned; the process reports where it is stuck and exits with status 4 (inconclusive for the driver).
var (
	lastProgress atomic.Int64
	doing        sync.Map // target name -> description of the step being executed
)

func watchdog() {
	lastProgress.Store(time.Now().UnixNano())
	for {
		time.Sleep(time.Second)
		if time.Since(time.Unix(0, lastProgress.Load())) > 45*time.Second {
			fmt.Fprintln(os.Stderr, "isolation: no step finished for 45s; stuck in:")
			doing.Range(func(k, v any) bool { fmt.Fprintf(os.Stderr, "  STUCK %v: %v\n", k, v); return true })
			os.Exit(4)
		}
	}
}

func runWalk(tg target, w walkT, out *hx.Out) {
	t := newTracker()
	base := hx.Seed()*1000003 + int64(w.N)*7919 + hashName(tg.name)
	e := &env{r: rand.New(rand.NewSource(base)), t: t, present: w.Init != "absent"}
	t.opName = "New"
	var inst *instance
	line := func(o obs) {
		o.Target, o.Walk, o.Init = tg.name, w.N, w.Init
		if o.Changed == nil {
			o.Changed = []changedHandle{}
		}
		if o.Sdiff == nil {
			o.Sdiff = []string{}
		}
		if o.Err == "" {
			o.Err = "OK"
		}
		o.Subs = t.nsubs()
		out.Write(o)
	}
	if p := hx.Catch(func() { inst = tg.build(e) }); p != "" || inst == nil {
		line(obs{Kind: "new", Op: "New", Panic: p, Pre: "-", Post: "-"})
		return
	}
	defer t.closeAll()
	pre := snap(inst)
	line(obs{Kind: "new", Op: "New", Pre: pre.digest, Post: pre.digest})

	// the caller scribbles on the messages he handed in at an earlier step
	doScribbles := func(step int, all bool) {
		keep := t.pend[:0]
		for _, p := range t.pend {
			if !all && p.due > step {
				keep = append(keep, p)
				continue
			}
			t.opName = p.op
			own := ownMessages(p.msgs)
			pan := hx.Catch(func() {
				for _, m := range p.msgs {
					scribbleMessage(m)
				}
			})
			t.settle()
			nh, changed, aliased := t.check(own)
			post := snap(inst)
			o := obs{Step: step, Kind: "scribble", Op: p.op, Panic: pan, Nin: len(p.msgs), Nh: nh, Aliased: aliased,
				Changed: changed, Pre: pre.digest, Post: post.digest}
			if post.digest != pre.digest || len(changed) > 0 {
				o.Sdiff = sdiff(pre, post)
			}
			line(o)
			pre = post
		}
		t.pend = keep
	}

	for i, st := range w.Steps {
		step := i + 1
		t.step = step
		if st.Kind == "recheck" {
			t.opName = "Recheck"
			time.Sleep(200 * time.Microsecond)
			t.settle()
			nh, changed, _ := t.check(nil)
			post := snap(inst)
			o := obs{Step: step, Kind: "recheck", Op: "Recheck", Nh: nh, Changed: changed, Pre: pre.digest, Post: post.digest}
			if post.digest != pre.digest {
				o.Sdiff = sdiff(pre, post)
			}
			line(o)
			pre = post
			doScribbles(step, false)
			continue
		}
		o := inst.ops[st.Op%len(inst.ops)]
		doing.Store(tg.name, fmt.Sprintf("walk %d step %d op %s", w.N, step, o.name))
		lastProgress.Store(time.Now().UnixNano())
		e.r = rand.New(rand.NewSource(base + int64(st.Arg)*31 + int64(step)))
		e.held, e.heldPick = st.Src == "held", st.Pick
		t.mu.Lock()
		t.opName, t.nin, t.nout, t.curIn = o.name, 0, 0, nil
		t.mu.Unlock()
		var err error
		pan := hx.Catch(func() { err = o.run(e) })
		t.settle()
		nh, changed, _ := t.check(nil)
		post := snap(inst)
		t.mu.Lock()
		l := obs{Step: step, Kind: "call", Op: o.name, Ro: o.ro, Err: hx.Code(err), Panic: pan, Nin: t.nin, Nout: t.nout,
			Nh: nh, Changed: changed, Pre: pre.digest, Post: post.digest}
		if len(t.curIn) > 0 {
			t.pend = append(t.pend, pending{op: o.name, due: step + st.Delay, msgs: t.curIn})
			t.curIn = nil
		}
		t.mu.Unlock()
		if post.digest != pre.digest && (o.ro || len(changed) > 0) {
			l.Sdiff = sdiff(pre, post)
		}
		line(l)
		pre = post
		doScribbles(step, false)
	}
	t.step = len(w.Steps) + 1
	doScribbles(t.step, true)
	doing.Delete(tg.name)
	// one last look at everything that was handed out
	t.opName = "Recheck"
	t.settle()
	nh, changed, _ := t.check(nil)
	post := snap(inst)
	line(obs{Step: t.step, Kind: "recheck", Op: "Recheck", Nh: nh, Changed: changed, Pre: pre.digest, Post: post.digest})
}

type listing struct {
	Name    string   `json:"name"`
	Pkg     string   `json:"pkg"`
	Type    string   `json:"type"`
	Methods []string `json:"methods"`
	Bound   []string `json:"bound"`
	Ops     []string `json:"ops"`
	NotOps  []string `json:"not_ops"`
	Layer   string   `json:"layer"`
	Over    string   `json:"over"`
}

func list() {
	res := []listing{}
	for _, tg := range targets {
		l := listing{Name: tg.name, Pkg: tg.pkg, Type: tg.typ.String(), Methods: []string{}, Bound: []string{}, Ops: []string{}, NotOps: tg.notOps,
			Layer: tg.layer, Over: tg.over}
		if l.NotOps == nil {
			l.NotOps = []string{}
		}
		for i := 0; i < tg.typ.NumMethod(); i++ {
			l.Methods = append(l.Methods, tg.typ.Method(i).Name)
		}
		e := &env{r: rand.New(rand.NewSource(1)), t: newTracker(), present: true}
		inst := tg.build(e)
		seen := map[string]bool{}
		for _, o := range inst.ops {
			if !contains(l.Ops, o.name) {
				l.Ops = append(l.Ops, o.name)
			}
			m := strings.SplitN(o.name, "/", 2)[0]
			if !seen[m] {
				seen[m] = true
				l.Bound = append(l.Bound, m)
			}
		}
		e.t.closeAll()
		sort.Strings(l.Bound)
		res = append(res, l)
	}
	b, _ := json.Marshal(res)
	fmt.Println(string(b))
}

func contains(ss []string, s string) bool {
	for _, x := range ss {
		if x == s {
			return true
		}
	}
	return false
}

func main() {
	if len(os.Args) > 1 && os.Args[1] == "-list" {
		list()
		return
	}
	cases := hx.Arg("-cases", "")
	outdir := hx.Arg("-outdir", ".")
	only := hx.Arg("-targets", "")
	per := hx.ArgInt("-per", 0)
	if cases == "" {
		hx.Fatal("usage: isolation -list | -cases walks.ndjson -outdir DIR [-targets a,b] [-per N]")
	}
	walks := hx.ReadCases[walkT](cases)
	if per > 0 && per < len(walks) {
		walks = walks[:per]
	}
	var sel []target
	for _, tg := range targets {
		if only == "" || contains(strings.Split(only, ","), tg.name) {
			sel = append(sel, tg)
		}
	}
	if len(sel) == 0 {
		hx.Fatal("no target selected")
	}
	go watchdog()
	jobs := make(chan target)
	var wg sync.WaitGroup
	nw := runtime.NumCPU() / 2
	if nw < 1 {
		nw = 1
	}
	if nw > len(sel) {
		nw = len(sel)
	}
	for k := 0; k < nw; k++ {
		wg.Add(1)
		go func() {
			defer wg.Done()
			for tg := range jobs {
				out := hx.NewOut(filepath.Join(outdir, tg.name+".ndjson"))
				for _, w := range walks {
					hx.Current(map[string]any{"target": tg.name, "walk": w.N})
					runWalk(tg, w, out)
				}
				out.Close()
			}
		}()
	}
	for _, tg := range sel {
		jobs <- tg
	}
	close(jobs)
	wg.Wait()
	if n := leakedSubs.Load(); n > 0 {
		fmt.Fprintf(os.Stderr, "isolation: %d subscriptions did not close within 2s of cancelling\n", n)
	}
	os.Exit(0)
}

// ---- helpers shared by the target tables ----------------------------------------------------------------------

const maxSubs = 3

// subscribe opens a subscription through open (which gets a fresh context) and adopts its channel.  At most maxSubs
// stay open per object: the oldest is cancelled first.
func subscribe(e *env, name string, open func(ctx context.Context) any) error {
	for e.t.nsubs() >= maxSubs {
		e.t.closeOldest()
	}
	ctx, cancel := context.WithCancel(context.Background())
	ch := open(ctx)
	e.t.adopt(name, ch, cancel)
	return nil
}

// cancelOp: the caller ends his oldest subscription.
func cancelOp(name string) op {
	return op{name: name + "/cancel", ro: true, run: func(e *env) error { e.t.closeOldest(); return nil }}
}
