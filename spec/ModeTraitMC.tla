---------------------------- MODULE ModeTraitMC ----------------------------
(***************************************************************************)
(* MC use of ModeTrait.tla: two modes (3 and 4 values), relative updates  *)
(* of every subset of modes by -5..5, plain writes of any values.         *)
(***************************************************************************)
EXTENDS ModeTrait, TLC

VARIABLES st, last
vars == <<st, last>>

Ms == << [name |-> "a", values |-> <<"a1", "a2", "a3">>], [name |-> "b", values |-> <<"b1", "b2", "b3", "b4">>] >>
Adjs == -5..5
Rels == {<<>>} \cup { <<[mode |-> "a", adj |-> x]>> : x \in Adjs } \cup { <<[mode |-> "b", adj |-> x]>> : x \in Adjs }
        \cup { <<[mode |-> "a", adj |-> x], [mode |-> "b", adj |-> y]>> : x, y \in Adjs }
Abss == {<<>>, <<[mode |-> "a", value |-> "a2"]>>, <<[mode |-> "a", value |-> "a3"], [mode |-> "b", value |-> "b4"]>>,
         <<[mode |-> "b", value |-> "zz"]>>}

Init == st = InitialValues(Ms) /\ last = [pre |-> st, rel |-> <<>>]
Next == \E abs \in Abss, rel \in Rels : st' = Update(Ms, st, abs, rel) /\ last' = [pre |-> st, rel |-> rel]
Spec == Init /\ [][Next]_vars
ViewNoHist == st

OnePerMode == \A p, q \in st : p.mode = q.mode => p = q
SteppedValueInList == \A k \in 1..Len(last.rel) : LET n == last.rel[k].mode IN HasValue(st, n) /\ ValueOf(st, n) \in SetOf(ValuesOf(Ms, n))
\* stepping by the number of values, or there and back, returns to the same value; a step is a rotation
WrapLaws == \A n \in ModeNames(Ms) : StepSettled(Ms, st, n) =>
              LET vs == ValuesOf(Ms, n) IN
              /\ Stepped(Ms, st, n, Len(vs)) = ValueOf(st, n) /\ Stepped(Ms, st, n, -Len(vs)) = ValueOf(st, n)
              /\ Stepped(Ms, st, n, 0) = ValueOf(st, n)
              /\ \A a \in Adjs : LET mid == { [mode |-> n, value |-> Stepped(Ms, st, n, a)] } IN Stepped(Ms, mid, n, -a) = ValueOf(st, n)
              /\ Stepped(Ms, st, n, -1) = vs[IF IndexOf(vs, ValueOf(st, n)) = 1 THEN Len(vs) ELSE IndexOf(vs, ValueOf(st, n)) - 1]
              /\ Stepped(Ms, st, n, 1) = vs[IF IndexOf(vs, ValueOf(st, n)) = Len(vs) THEN 1 ELSE IndexOf(vs, ValueOf(st, n)) + 1]
=============================================================================
