INIT Init
NEXT Next
PROPERTY ReadOnlyFrame
CONSTANTS
  StoreIn = FALSE
  InPlace = FALSE
  ReadEdits = TRUE
  FirstWriteKeeps = FALSE
  HookEditsOld = FALSE
  LendsOld = FALSE
  MergeFiltersSrc = FALSE
  InitKinds = {"absent", "present"}
  NCases = 0
  MinOps = 1
  MaxOps = 1
  MaxLive = 200
