---------------------------- MODULE PublicationMC ----------------------------
(***************************************************************************)
(* MC use of Publication.tla: two ids, two bodies, optional audience, a   *)
(* ticking clock; clients send the current, a stale or no version.        *)
(***************************************************************************)
EXTENDS Publication, TLC

CONSTANT MaxTime
VARIABLES st, now, last
vars == <<st, now, last>>

MCIds == {"p1", "p2"}
Written == [id : MCIds, body : {"b1", "b2"}, mt : {"text/plain"}, aud : {[has |-> FALSE, name |-> ""], [has |-> TRUE, name |-> "x"]}]
\* a stale version: that of some other content
Stale == Minted([id |-> "p1", body |-> "zz", mt |-> "", aud |-> ""])
Versions(i) == {Stale} \cup (IF Has(st, i) THEN {Rec(st, i).ver} ELSE {})

Init == st = <<>> /\ now = 1 /\ last = [op |-> "none", kind |-> "", pre |-> <<>>, at |-> 0]
Tick == now < MaxTime /\ now' = now + 1 /\ UNCHANGED <<st, last>>
DoCreate == \E w \in Written : st' = Create(st, now, w).post /\ last' = [op |-> "Create", kind |-> Create(st, now, w).err, pre |-> st, at |-> now] /\ UNCHANGED now
DoUpdate == \E w \in Written, mask \in {"none", "body", "audience.name"}, sent \in {"none", "cur", "stale"} :
              LET vok == sent = "none" \/ (sent = "cur" /\ Has(st, w.id))
                  r == Update(st, now, w, mask, vok)
              IN (mask = "audience.name" => w.aud.has) /\ st' = r.post /\ last' = [op |-> "Update", kind |-> r.err, pre |-> st, at |-> now] /\ UNCHANGED now
DoAck == \E i \in MCIds : \E v \in Versions(i), receipt \in {"ACCEPTED", "REJECTED"} :
           LET vmatch == Has(st, i) /\ v = Rec(st, i).ver IN
           /\ st' = Acknowledge(st, now, i, vmatch, receipt, IF receipt = "REJECTED" THEN "no" ELSE "")
           /\ last' = [op |-> "Ack", kind |-> AckKind(st, i, vmatch), pre |-> st, at |-> now] /\ UNCHANGED now
DoDelete == \E i \in MCIds : st' = Delete(st, i, TRUE, FALSE).post /\ last' = [op |-> "Delete", kind |-> "", pre |-> st, at |-> now] /\ UNCHANGED now
Next == Tick \/ DoCreate \/ DoUpdate \/ DoAck \/ DoDelete
Spec == Init /\ [][Next]_vars
ViewNoHist == <<st, now>>

AllConsistent == \A k \in 1..Len(st) : RecordConsistent(st[k]) /\ st[k].ver.minted /\ st[k].pt.has
\* versions are an injective function of the content: two records (over time: the record and its predecessor)
\* have the same version exactly when they have the same content
VersionInjective == \A i \in MCIds : (Has(st, i) /\ Has(last.pre, i)) =>
                       ((Rec(st, i).ver = Rec(last.pre, i).ver) <=> (Content(Rec(st, i)) = Content(Rec(last.pre, i))))
SuccessfulUpdateResets == (last.op \in {"Create", "Update"} /\ last.kind = "OK") =>
                            \E k \in 1..Len(st) : st[k].pt = At(last.at) /\ ~Acked(st[k].aud) /\ ~st[k].aud.rtime.has
OnlyFirstAckChanges == (last.op = "Ack" /\ last.kind # "first") => st = last.pre
FirstAckRecords == (last.op = "Ack" /\ last.kind = "first") =>
                     \E i \in MCIds : Has(st, i) /\ Has(last.pre, i) /\ Acked(Rec(st, i).aud) /\ ~Acked(Rec(last.pre, i).aud) /\ Rec(st, i).ver = Rec(last.pre, i).ver
                                      /\ Rec(st, i).pt = Rec(last.pre, i).pt /\ Rec(st, i).aud.rtime = At(last.at)
FailureIsNoop == (last.op \in {"Create", "Update"} /\ last.kind # "OK") => st = last.pre
=============================================================================
