INIT ExhInit
NEXT ExhNext
INVARIANT EmitCase
CONSTANTS
  Ids = {}
  MaxNow = 0
  Dev = {}
  Titles = {0, 1, 2}
