package main

import (
	"context"
	"encoding/json"
	"os"
	"strings"
	"sync/atomic"
	"time"

	"google.golang.org/grpc"
	"google.golang.org/grpc/status"
	"google.golang.org/protobuf/proto"
	"google.golang.org/protobuf/reflect/protoreflect"
	"google.golang.org/protobuf/reflect/protoregistry"
	"google.golang.org/protobuf/types/known/fieldmaskpb"

	"github.com/smart-core-os/sc-golang/pkg/resource"
	"github.com/smart-core-os/sc-golang/verifharness/hx"
)

// ---- generated histories (StackGen.tla) -------------------------------------

type genMask struct {
	Nil bool  `json:"nil"`
	Sel []int `json:"sel"`
}
type genOp struct {
	Op    string  `json:"op"` // Update | Get | OpenPull | CloseStream | Other
	Uo    bool    `json:"uo"`
	Name  int     `json:"name"`
	Val   int     `json:"val"`
	Mask  genMask `json:"mask"`
	Which int     `json:"which"`

	settle bool // appended by the harness, see session.run
}
type genHist struct {
	N   int     `json:"n"`
	Ops []genOp `json:"ops"`
}

// ---- observations (StackTrace.tla) -------------------------------------------

type absGet struct {
	Ok   bool   `json:"ok"`
	Code string `json:"code"`
	V    []int  `json:"v"`
}
type obsMask struct {
	Nil    bool  `json:"nil"`
	Paths  []int `json:"paths"`  // 1-based indices of top-level fields selected whole; 0 = a path that names no field
	Nested []int `json:"nested"` // top-level fields of which only sub-fields are selected ("states.direction")

	sub map[int]map[string]bool // field index -> selected child names
}
type obsChange struct {
	Name string `json:"name"`
	V    []int  `json:"v"`
	Ct   string `json:"ct"` // change_time relative to the opening of the stream: before-open | after-open | none
}
type obsStream struct {
	Sid     int         `json:"sid"`
	Name    string      `json:"name"`    // the name given in the Pull request
	Uo      bool        `json:"uo"`      // updates_only
	Fresh   bool        `json:"fresh"`   // nothing has been read from this stream before this step
	Quiet   bool        `json:"quiet"`   // no successful non-changing Update since the stream was opened / last awaited
	Opened  bool        `json:"opened"`  // opened by this step
	Awaited bool        `json:"awaited"` // this step waited for a message on this stream
	Timeout bool        `json:"timeout"` // ... and none carrying the awaited value arrived in time
	Ended   string      `json:"ended"`   // "" or the status the server ended the stream with
	Vopen   []int       `json:"vopen"`   // full Get when the stream was opened
	Mask    obsMask     `json:"mask"`    // read mask of the Pull request
	Sub     []int       `json:"sub"`     // as obs.sub, for the value current when the stream was opened
	Psub    []int       `json:"psub"`    // as obs.sub, under this stream's mask, for the unmasked Get before the step
	Rsub    []int       `json:"rsub"`    // ... for the Update's response
	Msgs    []obsChange `json:"msgs"`    // every change read from the stream during this step, in order
}
type obs struct {
	Tgt     string      `json:"tgt"`
	Hist    int         `json:"hist"`
	Step    int         `json:"step"`
	Op      string      `json:"op"`
	Nf      int         `json:"nf"`
	Name    string      `json:"name"`
	Code    string      `json:"code"`
	Panic   string      `json:"panic"`
	Pre     absGet      `json:"pre"`
	Post    absGet      `json:"post"`
	Resp    []int       `json:"resp"`
	Mask    obsMask     `json:"mask"`
	Sub     []int       `json:"sub"` // per top-level field in mask.nested: the field of the unmasked Get restricted to the selected sub-fields
	Val     int         `json:"val"`
	ValKind string      `json:"valkind"`
	Streams []obsStream `json:"streams"`
	Armed   bool        `json:"armed"` // Wait: a timed update succeeded and no plain Update has succeeded since
	Note    string      `json:"note"`
}

type meta struct {
	Target    string `json:"target"`
	Safe      bool   `json:"safe"`
	Histories int    `json:"histories"`
	Steps     int    `json:"steps"`
	Timeouts  int    `json:"timeouts"`
	Unsynced  int    `json:"unsynced"`
	Waits     int    `json:"waits"`
	Gated     int    `json:"gated"`   // updates held between commit and publication while a Pull was opened
	Ungated   int    `json:"ungated"` // ... that never reached the hook point (nothing to publish)
	Aborted   bool   `json:"aborted"`
	Reason    string `json:"reason"`
}

// ---- plumbing --------------------------------------------------------------------

const (
	awaitTimeout = 4 * time.Second // "appears on every open stream": a message missing after this long is missing
	rpcTimeout   = 10 * time.Second
	maxTimeouts  = 3 // a target that timed out this often is abandoned (each timeout costs awaitTimeout)
)

var routeNames = []string{"dev/a", "dev/b"}

// listenCh gets a token whenever a resource subscription has been established (hook point sub.listening of
// pkg/resource, build tag verif): the harness knows without sleeping that an updates-only Pull is in place.
var listenCh = make(chan struct{}, 4096)

// gate holds the next write between its commit and its publication (hook point pub.before) while armed.
var gate struct {
	armed   atomic.Bool
	reached chan struct{}
	release chan struct{}
}

func installHook() {
	gate.reached = make(chan struct{}, 1)
	gate.release = make(chan struct{})
	resource.VerifHook = func(point string, _ any, _ ...any) {
		switch point {
		case "sub.listening":
			select {
			case listenCh <- struct{}{}:
			default:
			}
		case "pub.before":
			if gate.armed.CompareAndSwap(true, false) {
				gate.reached <- struct{}{}
				select {
				case <-gate.release:
				case <-time.After(5 * time.Second):
				}
			}
		}
	}
}

func newMsg(md protoreflect.MessageDescriptor) protoreflect.Message {
	mt, err := protoregistry.GlobalTypes.FindMessageByName(md.FullName())
	if err != nil {
		hx.Fatal("no Go type for %s: %v", md.FullName(), err)
	}
	return mt.New()
}

type streamEvent struct {
	msg proto.Message
	err error
}

type pullStream struct {
	sid     int
	name    string
	uo      bool
	nread   int
	pending int // successful non-changing updates since opened / last awaited
	vopen   []int
	mask    obsMask
	sub     []int
	topen   time.Time // taken just before the Pull was issued
	cancel  context.CancelFunc
	ch      chan streamEvent
	ended   string
	done    bool
}

type session struct {
	tg      *target
	tr      *triple
	st      *stack
	out     *hx.Out
	mt      *meta
	hist    int
	streams []*pullStream
	nextSid int
	lastVal int // value index of the last successful Update (0: none)

	preMsg       proto.Message // the unmasked Get before the current step
	armed        bool          // a timed update succeeded and no plain Update has succeeded since
	timedPending bool // a timed update was made since the last Wait
}

func (s *session) method(md protoreflect.MethodDescriptor) string {
	return "/" + s.tr.Service + "/" + string(md.Name())
}

func (s *session) request(md protoreflect.MethodDescriptor, nameFd protoreflect.FieldDescriptor, name string) protoreflect.Message {
	req := newMsg(md.Input())
	if nameFd != nil {
		req.Set(nameFd, protoreflect.ValueOfString(name))
	}
	if s.st.decorate != nil {
		s.st.decorate(string(md.Name()), req)
	}
	return req
}

func (s *session) unary(md protoreflect.MethodDescriptor, req protoreflect.Message) (proto.Message, error) {
	out := newMsg(md.Output()).Interface()
	ctx, cancel := context.WithTimeout(context.Background(), rpcTimeout)
	defer cancel()
	err := s.st.conn.Invoke(ctx, s.method(md), req.Interface(), out)
	if err != nil {
		return nil, err
	}
	return out, nil
}

func errCode(err error) (code, panicked string) {
	if err == nil {
		return "OK", ""
	}
	if st, ok := status.FromError(err); ok && strings.HasPrefix(st.Message(), panicMarker) {
		return "PANIC", strings.TrimPrefix(st.Message(), panicMarker)
	}
	return hx.Code(err), ""
}

func (s *session) fullGet() absGet {
	g, _ := s.fullGetMsg()
	return g
}

func (s *session) fullGetMsg() (absGet, proto.Message) {
	req := s.request(s.tr.get, s.tr.getName, routeNames[0])
	m, err := s.unary(s.tr.get, req)
	code, _ := errCode(err)
	return absGet{Ok: err == nil, Code: code, V: absMsg(s.tr.res, m)}, m
}

// mask turns a generated selector list into a field mask.  x in 0..19: top-level field x mod n; 90: a path naming
// no field (update masks); 20..59 (read masks): field (x-20) mod 8 mod n, and if that field is a message (or a list
// of messages) its child number (x-20)/8 only: "field.child"; 100..179 (read masks): such a field AND one of its
// children (>= 140: child first), or the same path twice for a field that is not a message.  Read masks keep
// duplicates and overlaps as generated; for the specification a field selected whole absorbs its sub-selections
// (a field mask is the union of its paths).
func (s *session) mask(g genMask, forRead bool) (*fieldmaskpb.FieldMask, obsMask) {
	if g.Nil {
		return nil, obsMask{Nil: true, Paths: []int{}, Nested: []int{}}
	}
	fields := s.tr.res.Fields()
	nf := fields.Len()
	whole := map[int]bool{}
	var order []int // field indices in order of first mention: idx whole, -idx nested
	sub := map[int]map[string]bool{}
	fm := &fieldmaskpb.FieldMask{}
	addWhole := func(idx int) {
		if whole[idx] && !forRead {
			return
		}
		if !whole[idx] {
			whole[idx] = true
			order = append(order, idx)
		}
		if idx == 0 {
			fm.Paths = append(fm.Paths, "verif_no_such_field")
		} else {
			fm.Paths = append(fm.Paths, string(fields.Get(idx-1).Name()))
		}
	}
	childOf := func(idx, c int) protoreflect.FieldDescriptor {
		fd := fields.Get(idx - 1)
		if fd.Message() == nil || fd.IsMap() || fd.Message().Fields().Len() == 0 {
			return nil
		}
		return fd.Message().Fields().Get(c % fd.Message().Fields().Len())
	}
	addNested := func(idx int, child protoreflect.FieldDescriptor) {
		if sub[idx] == nil {
			sub[idx] = map[string]bool{}
			order = append(order, -idx)
		}
		sub[idx][string(child.Name())] = true
		fm.Paths = append(fm.Paths, string(fields.Get(idx-1).Name())+"."+string(child.Name()))
	}
	for _, x := range g.Sel {
		switch {
		case x >= 100 && forRead:
			k := x - 100
			idx := k%8%nf + 1
			child := childOf(idx, (k%40)/8)
			switch {
			case child == nil:
				addWhole(idx)
				addWhole(idx)
			case k >= 40:
				addNested(idx, child)
				addWhole(idx)
			default:
				addWhole(idx)
				addNested(idx, child)
			}
		case x >= 90:
			if !forRead {
				addWhole(0)
			}
		case x >= 20 && forRead:
			idx := (x-20)%8%nf + 1
			if child := childOf(idx, (x-20)/8); child != nil {
				addNested(idx, child)
			} else {
				addWhole(idx)
			}
		case x >= 20:
			addWhole((x-20)%8%nf + 1)
		default:
			addWhole(x%nf + 1)
		}
	}
	om := obsMask{Paths: []int{}, Nested: []int{}, sub: map[int]map[string]bool{}}
	for _, idx := range order {
		switch {
		case idx >= 0:
			om.Paths = append(om.Paths, idx)
		case !whole[-idx]:
			om.Nested = append(om.Nested, -idx)
			om.sub[-idx] = sub[-idx]
		}
	}
	return fm, om
}

func (s *session) changesOf(ps *pullStream, m proto.Message) []obsChange {
	var res []obsChange
	list := m.ProtoReflect().Get(s.tr.changes).List()
	for i := 0; i < list.Len(); i++ {
		ch := list.Get(i).Message()
		c := obsChange{V: zeros(s.tr.res.Fields().Len()), Ct: "none"}
		if ct := ch.Descriptor().Fields().ByName("change_time"); ct != nil && ct.Message() != nil &&
			ct.Message().FullName() == "google.protobuf.Timestamp" && ch.Has(ct) {
			tm := ch.Get(ct).Message()
			sec := tm.Get(tm.Descriptor().Fields().ByName("seconds")).Int()
			nanos := tm.Get(tm.Descriptor().Fields().ByName("nanos")).Int()
			if time.Unix(sec, nanos).Before(ps.topen) {
				c.Ct = "before-open"
			} else {
				c.Ct = "after-open"
			}
		}
		if s.tr.chgName != nil {
			c.Name = ch.Get(s.tr.chgName).String()
		}
		if ch.Has(s.tr.chgValue) {
			c.V = absMsg(s.tr.res, ch.Get(s.tr.chgValue).Message().Interface())
		}
		res = append(res, c)
	}
	return res
}

// await reads from ps until a change carrying want arrives (want == nil: until one message arrives).
func (s *session) await(ps *pullStream, want []int) (msgs []obsChange, timedOut bool) {
	msgs = []obsChange{}
	if ps.done {
		return msgs, true
	}
	timer := time.NewTimer(awaitTimeout)
	defer timer.Stop()
	for {
		select {
		case ev := <-ps.ch:
			if ev.err != nil {
				ps.done = true
				ps.ended, _ = errCode(ev.err)
				return msgs, true
			}
			cs := s.changesOf(ps, ev.msg)
			msgs = append(msgs, cs...)
			ps.nread += len(cs)
			if want == nil {
				return msgs, false
			}
			for _, c := range cs {
				if sameVec(c.V, want) {
					return msgs, false
				}
			}
		case <-timer.C:
			s.mt.Timeouts++
			return msgs, true
		}
	}
}

// drain reads whatever is left on a cancelled stream until the server side has ended it.
func (s *session) drain(ps *pullStream) []obsChange {
	msgs := []obsChange{}
	if ps.done {
		return msgs
	}
	timer := time.NewTimer(awaitTimeout)
	defer timer.Stop()
	for {
		select {
		case ev := <-ps.ch:
			if ev.err != nil {
				ps.done = true
				ps.ended, _ = errCode(ev.err)
				return msgs
			}
			msgs = append(msgs, s.changesOf(ps, ev.msg)...)
		case <-timer.C:
			ps.done = true
			ps.ended = "harness-timeout-waiting-for-stream-end"
			return msgs
		}
	}
}

func (s *session) snapshot(ps *pullStream) obsStream {
	return obsStream{Sid: ps.sid, Name: ps.name, Uo: ps.uo, Fresh: ps.nread == 0, Quiet: ps.pending == 0,
		Ended: ps.ended, Vopen: ps.vopen, Msgs: []obsChange{}, Mask: ps.mask, Sub: ps.sub,
		Psub: s.subVec(ps.mask, s.preMsg), Rsub: zeros(s.tr.res.Fields().Len())}
}

// subVec: for every top-level field of which om selects sub-fields only, the number of m's field restricted to them.
func (s *session) subVec(om obsMask, m proto.Message) []int {
	res := zeros(s.tr.res.Fields().Len())
	for _, idx := range om.Nested {
		res[idx-1] = absSubField(s.tr.res, m, idx-1, om.sub[idx])
	}
	return res
}

const rejectedGrace = 8 * time.Millisecond

// readAvailable reads, without waiting, what the stream has delivered so far.
func (s *session) readAvailable(ps *pullStream, sn *obsStream) {
	for !ps.done {
		select {
		case ev := <-ps.ch:
			if ev.err != nil {
				ps.done = true
				ps.ended, _ = errCode(ev.err)
				sn.Ended = ps.ended
				return
			}
			cs := s.changesOf(ps, ev.msg)
			sn.Msgs = append(sn.Msgs, cs...)
			ps.nread += len(cs)
		default:
			return
		}
	}
}

// projVec is Stack!Project on the harness side (used only to decide what to wait for).
func projVec(v []int, om obsMask, sub []int) []int {
	if om.Nil {
		return v
	}
	res := make([]int, len(v))
	for _, idx := range om.Paths {
		if idx >= 1 {
			res[idx-1] = v[idx-1]
		}
	}
	for _, idx := range om.Nested {
		res[idx-1] = sub[idx-1]
	}
	return res
}

// deliver: after a successful Update every open stream must show the response as seen through the stream's read
// mask, if that differs from what the stream showed before; the harness reads each stream until it does.
func (s *session) deliver(o *obs, respMsg proto.Message, err error) {
	if err != nil && len(s.streams) > 0 {
		// a publication made by the handler before it answered has had several goroutine hand-overs to travel;
		// give it a moment (no verdict depends on this being long enough: it can only under-report)
		time.Sleep(rejectedGrace)
	}
	for _, ps := range s.streams {
		sn := s.snapshot(ps)
		sn.Rsub = s.subVec(ps.mask, respMsg)
		want := projVec(o.Resp, ps.mask, sn.Rsub)
		before := projVec(o.Pre.V, ps.mask, sn.Psub)
		switch {
		case err == nil && o.Pre.Ok && !sameVec(want, before):
			sn.Awaited = true
			sn.Msgs, sn.Timeout = s.await(ps, want)
			sn.Ended = ps.ended
			ps.pending = 0
		case err == nil:
			ps.pending++
		default:
			// rejected: a rejected Update must not appear on the streams; read what is there (see deliver's caller)
			s.readAvailable(ps, &sn)
		}
		o.Streams = append(o.Streams, sn)
	}
}

func (s *session) open(name string, uo bool, vopen []int) *pullStream {
	return s.openMasked(name, uo, vopen, nil, obsMask{Nil: true, Paths: []int{}, Nested: []int{}}, nil)
}

func (s *session) openMasked(name string, uo bool, vopen []int, fm *fieldmaskpb.FieldMask, om obsMask, sub []int) *pullStream {
	req := s.request(s.tr.pull, s.tr.pullName, name)
	if fm != nil && s.tr.pullMask != nil {
		req.Set(s.tr.pullMask, protoreflect.ValueOfMessage(fm.ProtoReflect()))
	}
	if sub == nil {
		sub = zeros(s.tr.res.Fields().Len())
	}
	if s.tr.pullUpdatesOnly != nil {
		req.Set(s.tr.pullUpdatesOnly, protoreflect.ValueOfBool(uo))
	}
	ctx, cancel := context.WithCancel(context.Background())
	s.nextSid++
	ps := &pullStream{sid: s.nextSid, name: name, uo: uo, vopen: vopen, mask: om, sub: sub, topen: time.Now(), cancel: cancel, ch: make(chan streamEvent, 4096)}
	for len(listenCh) > 0 {
		<-listenCh
	}
	cs, err := s.st.conn.NewStream(ctx, &grpc.StreamDesc{ServerStreams: true}, s.method(s.tr.pull))
	if err == nil {
		if err = cs.SendMsg(req.Interface()); err == nil {
			err = cs.CloseSend()
		}
	}
	if err != nil {
		ps.done = true
		ps.ended, _ = errCode(err)
		cancel()
		return ps
	}
	ended := make(chan struct{})
	go func() {
		for {
			m := newMsg(s.tr.pull.Output()).Interface()
			if err := cs.RecvMsg(m); err != nil {
				ps.ch <- streamEvent{err: err}
				close(ended)
				return
			}
			ps.ch <- streamEvent{msg: m}
		}
	}()
	// wait until the server's subscription is in place (or the stream has ended)
	timer := time.NewTimer(awaitTimeout)
	defer timer.Stop()
	select {
	case <-listenCh:
	case <-ended:
	case <-timer.C:
		s.mt.Unsynced++
		s.mt.Timeouts++
	}
	return ps
}

func (s *session) closeAll() {
	for _, ps := range s.streams {
		ps.cancel()
		s.drain(ps)
	}
	s.streams = nil
}

func (s *session) pickValue(val int) (proto.Message, string) {
	if (val == 5 || val == 6) && len(s.st.bad) > 0 {
		return s.st.bad[(val-5)%len(s.st.bad)], "bad"
	}
	return s.st.values[s.goodIndex(val)], "good"
}

// goodIndex: value indices 1-4 and 7, 8 select the table's values 0-3 and 4, 5 (modulo their number)
func (s *session) goodIndex(val int) int {
	i := val - 1
	if val >= 7 {
		i = val - 3
	}
	return ((i % len(s.st.values)) + len(s.st.values)) % len(s.st.values)
}

func (s *session) run(h genHist) {
	s.hist = h.N
	nf := s.tr.res.Fields().Len()
	// settle: a Pull that delivered nothing when it was opened is only a verdict once the stream delivers
	// something else first, so the harness inserts changing Updates (one per value) right after such an open
	ops := append([]genOp{}, h.Ops...)
	for k := 0; k < len(ops); k++ {
		op := ops[k]
		if s.mt.Timeouts >= maxTimeouts {
			s.mt.Aborted = true
			s.mt.Reason = "abandoned after repeated timeouts"
			break
		}
		name := routeNames[((op.Name%len(routeNames))+len(routeNames))%len(routeNames)]
		o := obs{Tgt: s.tg.ID, Hist: h.N, Step: k + 1, Op: op.Op, Nf: nf, Name: name, Code: "OK", Resp: zeros(nf), Sub: zeros(nf),
			Mask: obsMask{Nil: true, Paths: []int{}, Nested: []int{}}, Streams: []obsStream{}}
		hx.Current(map[string]any{"target": s.tg.ID, "hist": h.N, "step": k + 1, "op": op})
		var preMsg proto.Message
		o.Pre, preMsg = s.fullGetMsg()
		s.preMsg = preMsg
		switch op.Op {
		case "Get":
			req := s.request(s.tr.get, s.tr.getName, name)
			fm, om := s.mask(op.Mask, true)
			if s.tr.getMask == nil {
				fm, om = nil, obsMask{Nil: true, Paths: []int{}, Nested: []int{}}
			}
			if fm != nil {
				req.Set(s.tr.getMask, protoreflect.ValueOfMessage(fm.ProtoReflect()))
			}
			o.Mask = om
			for _, idx := range om.Nested {
				o.Sub[idx-1] = absSubField(s.tr.res, preMsg, idx-1, om.sub[idx])
			}
			m, err := s.unary(s.tr.get, req)
			o.Code, o.Panic = errCode(err)
			o.Resp = absMsg(s.tr.res, m)
			o.Post = s.fullGet()
			for _, ps := range s.streams {
				o.Streams = append(o.Streams, s.snapshot(ps))
			}
		case "Update":
			req := s.request(s.tr.update, s.tr.updName, name)
			v, kind := s.pickValue(op.Val)
			o.Val, o.ValKind = op.Val, kind
			if op.settle {
				o.Note = "settling update appended by the harness"
			}
			req.Set(s.tr.updValue, protoreflect.ValueOfMessage(proto.Clone(v).ProtoReflect()))
			fm, om := s.mask(op.Mask, false)
			if s.tr.updMask == nil {
				fm, om = nil, obsMask{Nil: true, Paths: []int{}, Nested: []int{}}
			}
			if fm != nil {
				req.Set(s.tr.updMask, protoreflect.ValueOfMessage(fm.ProtoReflect()))
			}
			o.Mask = om
			m, err := s.unary(s.tr.update, req)
			o.Code, o.Panic = errCode(err)
			o.Resp = absMsg(s.tr.res, m)
			o.Post = s.fullGet()
			if err == nil && kind == "good" {
				s.lastVal = s.goodIndex(op.Val) + 1
			}
			if err == nil {
				s.armed = false
			}
			s.deliver(&o, m, err)
		case "OpenPull":
			for _, ps := range s.streams {
				o.Streams = append(o.Streams, s.snapshot(ps))
			}
			fm, om := s.mask(op.Mask, true)
			if s.tr.pullMask == nil {
				fm, om = nil, obsMask{Nil: true, Paths: []int{}, Nested: []int{}}
			}
			o.Mask = om
			ps := s.openMasked(name, op.Uo, o.Pre.V, fm, om, s.subVec(om, preMsg))
			sn := s.snapshot(ps)
			sn.Opened = true
			if !op.Uo {
				sn.Awaited = true
				sn.Msgs, sn.Timeout = s.await(ps, nil)
				sn.Ended = ps.ended
				if sn.Timeout && !ps.done {
					rest := append([]genOp{}, ops[k+1:]...)
					ops = ops[:k+1]
					for i := 1; i <= len(s.st.values); i++ {
						v := (s.lastVal+i-1)%len(s.st.values) + 1 // start with a value other than the last one written
						if v >= 5 {
							v += 2 // table values 4, 5 are value indices 7, 8
						}
						ops = append(ops, genOp{Op: "Update", Val: v, Mask: genMask{Nil: true, Sel: []int{}}, settle: true})
					}
					ops = append(ops, rest...)
				}
			}
			s.streams = append(s.streams, ps)
			o.Streams = append(o.Streams, sn)
			o.Post = s.fullGet()
		case "Nudge":
			if !s.nudge(&o, name, preMsg) {
				continue
			}
		case "PullOnce":
			if !s.pullOnce(&o, op, name, preMsg) {
				continue
			}
		case "TimedUpdate":
			if !s.timedUpdate(&o, op, name) {
				continue
			}
		case "Wait":
			if !s.wait(&o) {
				continue
			}
		case "RaceOpen":
			if len(s.streams) >= 2 {
				continue
			}
			// open and cancel a stream (its dead subscription stays registered until the next publication), then the
			// gated update; spliced in as ordinary steps
			n := len(s.streams)
			rest := append([]genOp{}, ops[k+1:]...)
			ops = append(ops[:k+1], genOp{Op: "OpenPull", Name: op.Name, Mask: genMask{Nil: true, Sel: []int{}}},
				genOp{Op: "CloseStream", Which: n}, genOp{Op: "GatedUpdate", Name: op.Name, Val: op.Val, Mask: genMask{Nil: true, Sel: []int{}}})
			ops = append(ops, rest...)
			continue
		case "GatedUpdate":
			s.gatedUpdate(&o, op, name)
		case "Other":
			// another record of the collection holding the addressed record is deleted (which = 0) or (re)created
			if s.st.other == nil {
				continue // the server's triple does not address a record of a collection
			}
			o.Code, o.Panic = errCode(s.st.other(op.Which == 1))
			if op.Which == 1 {
				o.Note = "other record created"
			} else {
				o.Note = "other record deleted"
			}
			for _, ps := range s.streams {
				o.Streams = append(o.Streams, s.snapshot(ps))
			}
			o.Post = s.fullGet()
		case "CloseStream":
			if len(s.streams) == 0 {
				continue
			}
			i := ((op.Which % len(s.streams)) + len(s.streams)) % len(s.streams)
			for j, ps := range s.streams {
				sn := s.snapshot(ps)
				if j == i {
					ps.cancel()
					sn.Msgs = s.drain(ps)
					sn.Ended = ps.ended
					o.Note = "closed sid " + itoa(ps.sid)
				}
				o.Streams = append(o.Streams, sn)
			}
			s.streams = append(s.streams[:i:i], s.streams[i+1:]...)
			o.Post = s.fullGet()
		default:
			hx.Fatal("unknown op %q", op.Op)
		}
		s.out.Write(o)
		s.mt.Steps++
	}
	s.closeAll()
}

func itoa(i int) string { b, _ := json.Marshal(i); return string(b) }

func cmdRun() {
	id := hx.Arg("-target", "")
	tg := findTarget(id)
	if tg == nil {
		hx.Fatal("unknown target %q", id)
	}
	tr := findTriple(discoverTriples(), tg.Service, tg.Update)
	if tr == nil {
		hx.Fatal("no (Get, Update, Pull) triple for %s %s in the descriptors", tg.Service, tg.Update)
	}
	safe := false
	for _, a := range os.Args {
		if a == "-safe" {
			safe = true
		}
	}
	installHook()
	hists := hx.ReadCases[genHist](hx.Arg("-cases", "cases.ndjson"))
	outPath := hx.Arg("-out", "obs.ndjson")
	out := hx.NewOut(outPath)
	mt := &meta{Target: id, Safe: safe}
	for _, h := range hists {
		if mt.Aborted {
			break
		}
		s := &session{tg: tg, tr: tr, st: tg.build(safe, routeNames), out: out, mt: mt}
		s.run(h)
		mt.Histories++
	}
	out.Close()
	b, _ := json.Marshal(mt)
	if err := os.WriteFile(outPath+".meta", b, 0o644); err != nil {
		hx.Fatal("write meta: %v", err)
	}
}
