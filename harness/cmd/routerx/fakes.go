package main

import (
	"context"
	"io"
	"math/rand"
	"sort"

	"google.golang.org/grpc"
	"google.golang.org/grpc/codes"
	"google.golang.org/grpc/metadata"
	"google.golang.org/grpc/status"
	"google.golang.org/protobuf/proto"
	"google.golang.org/protobuf/reflect/protoreflect"
)

// ---------------------------------------------------------------- JSON shapes shared with the specs

type kv struct {
	K string   `json:"k"`
	V []string `json:"v"`
}

type nc struct {
	N string `json:"n"`
	C int    `json:"c"`
}

func mdOf(kvs []kv) metadata.MD {
	if len(kvs) == 0 {
		return nil
	}
	md := metadata.MD{}
	for _, e := range kvs {
		md[e.K] = append([]string{}, e.V...)
	}
	return md
}

func kvOf(md metadata.MD) []kv {
	res := []kv{}
	keys := make([]string, 0, len(md))
	for k := range md {
		keys = append(keys, k)
	}
	sort.Strings(keys)
	for _, k := range keys {
		res = append(res, kv{K: k, V: append([]string{}, md[k]...)})
	}
	return res
}

func codeOf(name string) codes.Code {
	for c := codes.OK; c <= codes.Unauthenticated; c++ {
		if c.String() == name {
			return c
		}
	}
	return codes.Unknown
}

// ---------------------------------------------------------------- capture of (ServiceDesc, impl)

type capture struct {
	desc *grpc.ServiceDesc
	impl any
	n    int
}

func (c *capture) RegisterService(d *grpc.ServiceDesc, impl any) {
	c.desc, c.impl, c.n = d, impl, c.n+1
}

// ---------------------------------------------------------------- the child side: recording fake connections

type callRec struct {
	C     int    `json:"c"`     // id of the client whose connection was used
	M     string `json:"m"`     // full method name it was called with
	Seen  bool   `json:"seen"`  // the request message was handed over (Invoke / SendMsg)
	ReqEq bool   `json:"reqeq"` // ... and equals the caller's request in every field but `name`
	N     string `json:"n"`     // ... with this name
	NSend int    `json:"nsend"` // number of request messages handed over
	Close int    `json:"close"` // CloseSend calls (streams)
	ctx   context.Context
}

// childScript says what every child answers in the current case.
type childScript struct {
	K     int
	Hdr   metadata.MD
	Trl   metadata.MD
	ErrAt int // -1 none, -2 the call itself fails, -3 Header() fails, i>=0 status after i messages
	Err   error
}

// world is everything the fakes of one invocation share.
type world struct {
	rng          *rand.Rand
	cs           childScript
	orig         proto.Message // the caller's request as decoded (before the handler chain saw it)
	calls        []*callRec
	resps        []proto.Message // what the children answered, in order
	shapes       []string        // how the j-th answer is populated (script)
	trailerEarly bool            // Trailer() read before the child stream ended
}

func stripName(m proto.Message) (proto.Message, string) {
	c := proto.Clone(m)
	fd := c.ProtoReflect().Descriptor().Fields().ByName("name")
	if fd == nil || fd.Kind() != protoreflect.StringKind || fd.IsList() {
		return c, ""
	}
	n := c.ProtoReflect().Get(fd).String()
	c.ProtoReflect().Clear(fd)
	return c, n
}

func (w *world) sawRequest(rec *callRec, req any) {
	rec.NSend++
	if rec.Seen {
		return
	}
	rec.Seen = true
	m, ok := req.(proto.Message)
	if !ok {
		return
	}
	got, n := stripName(m)
	want, _ := stripName(w.orig)
	rec.N = n
	rec.ReqEq = proto.Equal(got, want)
}

// answer fills reply with the next scripted response.
func (w *world) answer(reply any) {
	m := reply.(proto.Message)
	r := m.ProtoReflect().New()
	kind := "rand"
	if j := len(w.resps); j < len(w.shapes) {
		kind = w.shapes[j]
	}
	if sh, ok := shapeOf(kind); ok {
		fillShaped(r, w.rng, 3, sh)
	} else if kind != "empty" {
		fillRandom(r, w.rng, 3)
	}
	w.resps = append(w.resps, r.Interface())
	proto.Reset(m)
	proto.Merge(m, r.Interface())
}

type fakeConn struct {
	w  *world
	id int
}

func (c *fakeConn) Invoke(ctx context.Context, method string, args, reply any, _ ...grpc.CallOption) error {
	rec := &callRec{C: c.id, M: method, ctx: ctx}
	c.w.calls = append(c.w.calls, rec)
	c.w.sawRequest(rec, args)
	if c.w.cs.ErrAt != -1 {
		return c.w.cs.Err
	}
	c.w.answer(reply)
	return nil
}

func (c *fakeConn) NewStream(ctx context.Context, _ *grpc.StreamDesc, method string, _ ...grpc.CallOption) (grpc.ClientStream, error) {
	rec := &callRec{C: c.id, M: method, ctx: ctx}
	c.w.calls = append(c.w.calls, rec)
	if c.w.cs.ErrAt == -2 {
		return nil, c.w.cs.Err
	}
	return &fakeClientStream{w: c.w, rec: rec, ctx: ctx}, nil
}

// fakeClientStream behaves like grpc's client stream as far as the ClientStream contract goes:
// header available once asked for, k messages, then io.EOF or the status; the trailer is only
// there once RecvMsg has returned a non-nil error.
type fakeClientStream struct {
	w     *world
	rec   *callRec
	ctx   context.Context
	pos   int
	ended bool
}

func (s *fakeClientStream) Header() (metadata.MD, error) {
	if s.w.cs.ErrAt == -3 {
		return nil, s.w.cs.Err
	}
	return s.w.cs.Hdr.Copy(), nil
}

func (s *fakeClientStream) Trailer() metadata.MD {
	if !s.ended {
		s.w.trailerEarly = true
		return nil
	}
	return s.w.cs.Trl.Copy()
}

func (s *fakeClientStream) CloseSend() error { s.rec.Close++; return nil }

func (s *fakeClientStream) Context() context.Context { return s.ctx }

func (s *fakeClientStream) SendMsg(m any) error { s.w.sawRequest(s.rec, m); return nil }

func (s *fakeClientStream) RecvMsg(m any) error {
	limit := s.w.cs.K
	if s.w.cs.ErrAt >= 0 {
		limit = s.w.cs.ErrAt
	}
	if s.pos >= limit {
		s.ended = true
		if s.w.cs.ErrAt >= 0 || s.w.cs.ErrAt == -3 {
			return s.w.cs.Err
		}
		return io.EOF
	}
	s.pos++
	s.w.answer(m)
	return nil
}

// ---------------------------------------------------------------- the caller side: fake server stream

var errCallerGone = status.Error(codes.Unavailable, "caller went away")

type fakeServerStream struct {
	ctx     context.Context
	reqHook func(m any) // fills the (empty) request message the handler decodes
	recvd   int
	ev      []string
	sent    []proto.Message
	hdr     metadata.MD
	nhdr    int
	trl     metadata.MD
	failAt  int // -1 never; 0 SendHeader fails; j the j-th SendMsg fails
	sends   int
}

func (s *fakeServerStream) SetHeader(md metadata.MD) error {
	s.ev = append(s.ev, "h")
	s.hdr = metadata.Join(s.hdr, md)
	return nil
}

func (s *fakeServerStream) SendHeader(md metadata.MD) error {
	if s.failAt == 0 {
		s.ev = append(s.ev, "Hx")
		return errCallerGone
	}
	s.ev = append(s.ev, "H")
	s.nhdr++
	s.hdr = metadata.Join(s.hdr, md)
	return nil
}

func (s *fakeServerStream) SetTrailer(md metadata.MD) {
	s.ev = append(s.ev, "T")
	s.trl = metadata.Join(s.trl, md)
}

func (s *fakeServerStream) Context() context.Context { return s.ctx }

func (s *fakeServerStream) SendMsg(m any) error {
	s.sends++
	if pm, ok := m.(proto.Message); ok {
		s.sent = append(s.sent, proto.Clone(pm))
	}
	if s.sends == s.failAt {
		s.ev = append(s.ev, "Mx")
		return errCallerGone
	}
	s.ev = append(s.ev, "M")
	return nil
}

func (s *fakeServerStream) RecvMsg(m any) error {
	if s.recvd > 0 {
		return io.EOF
	}
	s.recvd++
	s.reqHook(m)
	return nil
}
