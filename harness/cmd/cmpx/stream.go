package main

import (
	"context"
	"reflect"
	"sort"
	"strings"
	"sync"
	"time"

	"github.com/smart-core-os/sc-api/go/types"
	"google.golang.org/protobuf/proto"
	"google.golang.org/protobuf/types/known/fieldmaskpb"

	"github.com/smart-core-os/sc-golang/pkg/resource"
	"github.com/smart-core-os/sc-golang/verifharness/hx"
)

// streamCase: a write history over one resource configured with
// WithMessageEquivalence(cmp.Equal(terms...)), observed by backpressured Pulls.
type streamCase struct {
	N     int    `json:"n"`
	Res   string `json:"res"` // "val" | "coll"
	Terms []Term `json:"terms"`
	Init  struct {
		Has bool `json:"has"`
		V   Msg  `json:"v"`
	} `json:"init"`
	Writes []struct {
		Op string `json:"op"` // "set" | "put" | "del"
		ID string `json:"id"`
		V  Msg    `json:"v"`
	} `json:"writes"`
	Subs []struct {
		Uo   bool `json:"uo"` // updates only
		At   int  `json:"at"` // opened after this many writes
		Mask struct {
			Nil bool     `json:"nil"`
			Fs  []string `json:"fs"`
		} `json:"mask"` // read mask over the fields the walk touches
	} `json:"subs"`
	Sc int `json:"sc"`
	Tb int `json:"tb"`
}

// deliv is what one subscriber was handed for one write.
type deliv struct {
	N    int    `json:"n"`    // number of events
	Same bool   `json:"same"` // exactly one event and it carries this write (id, value / removal)
	Type string `json:"type"` // change type of the first event, "" if none
}

// ---- the pump: the harness is the receiver of every Pull ----------------------
// (same idea as harness/cmd/harness/resource.go: the forwarder goroutine inside
// Pull reports through the verif hook points fwd.got / fwd.skip / fwd.sent /
// fwd.seeded, pub.before counts the events handed to the bus; a subscription is
// idle when it has taken and disposed of every published event.)

type event struct {
	id      string
	typ     string
	value   proto.Message // new value (nil for a removal)
	seed    bool
	lastSed bool
}

type subState struct {
	ch     reflect.Value
	got    int
	done   int
	seeded bool
	exited bool
	base   int
	events []event
	isVal  bool
}

type pump struct {
	mu        sync.Mutex
	published int
	byChan    map[uintptr]*subState
	wake      chan struct{}
}

var thePump = &pump{byChan: map[uintptr]*subState{}, wake: make(chan struct{}, 1)}

func (p *pump) hook(point string, obj any, args ...any) {
	if point == "pub.before" || point == "del.removed" {
		p.mu.Lock()
		p.published++
		p.mu.Unlock()
		return
	}
	if !strings.HasPrefix(point, "fwd.") {
		return
	}
	key := reflect.ValueOf(obj).Pointer()
	p.mu.Lock()
	s := p.byChan[key]
	if s == nil {
		if point == "fwd.exit" {
			p.mu.Unlock()
			return
		}
		s = &subState{}
		p.byChan[key] = s
	}
	switch point {
	case "fwd.got":
		s.got++
	case "fwd.skip", "fwd.sent":
		s.done++
	case "fwd.seeded":
		s.seeded = true
	case "fwd.exit":
		s.exited = true
	}
	p.mu.Unlock()
	p.poke()
}

func (p *pump) poke() {
	select {
	case p.wake <- struct{}{}:
	default:
	}
}

func (p *pump) adopt(ch any, isVal bool) *subState {
	v := reflect.ValueOf(ch)
	key := v.Pointer()
	p.mu.Lock()
	defer p.mu.Unlock()
	s := p.byChan[key]
	if s == nil || s.exited || s.ch.IsValid() {
		s = &subState{}
		p.byChan[key] = s
	}
	s.ch = v
	s.isVal = isVal
	s.base = p.published
	return s
}

func (p *pump) forget(s *subState) {
	p.mu.Lock()
	delete(p.byChan, s.ch.Pointer())
	p.mu.Unlock()
}

// run receives from all subs until done() holds and every forwarder is idle.
func (p *pump) run(subs []*subState, done func() bool, what string) {
	deadline := time.After(20 * time.Second)
	for {
		// done() is read BEFORE the idle test: once the write has returned, published is final, so an
		// idle verdict taken afterwards cannot be stale (the other order lets a whole write slip in between)
		finished := done()
		p.mu.Lock()
		idle := true
		for _, s := range subs {
			if !s.exited && (!s.seeded || s.got != s.done || s.got != p.published-s.base) {
				idle = false
			}
		}
		p.mu.Unlock()
		if idle && finished {
			return
		}
		cases := make([]reflect.SelectCase, 0, len(subs)+2)
		for _, s := range subs {
			cases = append(cases, reflect.SelectCase{Dir: reflect.SelectRecv, Chan: s.ch})
		}
		cases = append(cases, reflect.SelectCase{Dir: reflect.SelectRecv, Chan: reflect.ValueOf(p.wake)})
		cases = append(cases, reflect.SelectCase{Dir: reflect.SelectRecv, Chan: reflect.ValueOf(deadline)})
		i, v, ok := reflect.Select(cases)
		switch {
		case i < len(subs):
			if !ok {
				p.mu.Lock()
				subs[i].exited = true
				p.mu.Unlock()
				subs[i].ch = reflect.ValueOf((chan struct{})(nil))
				continue
			}
			if subs[i].isVal {
				c := v.Interface().(*resource.ValueChange)
				subs[i].events = append(subs[i].events, event{typ: "UPDATE", value: c.Value, seed: c.SeedValue, lastSed: c.LastSeedValue})
			} else {
				c := v.Interface().(*resource.CollectionChange)
				subs[i].events = append(subs[i].events, event{id: c.Id, typ: c.ChangeType.String(), value: c.NewValue, seed: c.SeedValue, lastSed: c.LastSeedValue})
			}
		case i == len(subs):
		default:
			hx.Fatal("pump: no quiescence within 20s while %s", what)
		}
	}
}

// ---- running one history --------------------------------------------------------

func runStream(c streamCase) map[string]any {
	e := newEmbed(c.Sc, c.Tb)
	nW, nS := len(c.Writes), len(c.Subs)
	dl := make([][]deliv, nS)
	for s := range dl {
		dl[s] = make([]deliv, nW)
		for k := range dl[s] {
			dl[s][k] = deliv{Same: true}
		}
	}
	seedok := make([]bool, nS)
	werr := make([]string, nW)
	for k := range werr {
		werr[k] = "OK"
	}

	panicked := hx.Catch(func() {
		opts := []resource.Option{resource.WithMessageEquivalence(e.equal(c.Terms))}
		var (
			val  *resource.Value
			coll *resource.Collection
			// what the resource stores, tracked from the writes themselves
			stored = map[string]Msg{}
		)
		if c.Res == "val" {
			if c.Init.Has {
				opts = append(opts, resource.WithInitialValue(e.conc(c.Init.V)))
				stored[""] = c.Init.V
			}
			val = resource.NewValue(opts...)
		} else {
			coll = resource.NewCollection(opts...)
		}

		subs := make([]*subState, nS)
		var open []*subState
		var cancels []context.CancelFunc
		mark := make([]int, nS) // events of sub s already accounted for
		defer func() {
			for _, cancel := range cancels {
				cancel()
			}
			for _, s := range open {
				thePump.forget(s)
			}
		}()

		for k := 0; k <= nW; k++ {
			for si, so := range c.Subs {
				if so.At != k {
					continue
				}
				ctx, cancel := context.WithCancel(context.Background())
				cancels = append(cancels, cancel)
				ro := []resource.ReadOption{resource.WithBackpressure(true), resource.WithUpdatesOnly(so.Uo)}
				if !so.Mask.Nil {
					ro = append(ro, resource.WithReadMask(concMask(so.Mask.Fs)))
				}
				if val != nil {
					subs[si] = thePump.adopt(val.Pull(ctx, ro...), true)
				} else {
					subs[si] = thePump.adopt(coll.Pull(ctx, ro...), false)
				}
				open = append(open, subs[si])
				thePump.run([]*subState{subs[si]}, func() bool { return true }, "waiting for the seed")
				shown := map[string]proto.Message{}
				for id, m := range stored {
					shown[id] = e.conc(proj(m, so.Mask.Nil, so.Mask.Fs))
				}
				seedok[si] = seedMatches(subs[si].events, shown, so.Uo)
				mark[si] = len(subs[si].events)
			}
			if k == nW {
				break
			}
			w := c.Writes[k]
			finished := make(chan struct{})
			go func() {
				defer close(finished)
				var err error
				switch w.Op {
				case "set":
					_, err = val.Set(e.conc(w.V))
				case "put":
					_, err = coll.Update(w.ID, e.conc(w.V), resource.WithCreateIfAbsent())
				case "del":
					_, err = coll.Delete(w.ID, resource.WithAllowMissing(true))
				}
				werr[k] = hx.Code(err)
			}()
			go func() { <-finished; thePump.poke() }()
			thePump.run(open, func() bool {
				select {
				case <-finished:
					return true
				default:
					return false
				}
			}, "delivering a write")
			if w.Op == "del" {
				delete(stored, w.ID)
			} else {
				stored[w.ID] = w.V
			}
			for si, s := range subs {
				if s == nil {
					continue
				}
				evs := s.events[mark[si]:]
				mark[si] = len(s.events)
				d := deliv{N: len(evs)}
				if len(evs) > 0 {
					d.Type = evs[0].typ
				}
				if len(evs) == 1 {
					ev := evs[0]
					if w.Op == "del" {
						d.Same = ev.id == w.ID && ev.typ == types.ChangeType_REMOVE.String() && ev.value == nil
					} else {
						d.Same = ev.id == w.ID && ev.value != nil && !ev.seed && proto.Equal(ev.value, e.conc(proj(w.V, c.Subs[si].Mask.Nil, c.Subs[si].Mask.Fs)))
					}
				} else {
					d.Same = len(evs) == 0
				}
				dl[si][k] = d
			}
		}
	})
	return map[string]any{"dl": dl, "seedok": seedok, "werr": werr, "panic": panicked}
}

// seedMatches: the seed a subscription got is exactly the stored state (in id
// order), or nothing for an updates-only subscription.
func seedMatches(evs []event, stored map[string]proto.Message, updatesOnly bool) bool {
	if updatesOnly {
		return len(evs) == 0
	}
	ids := make([]string, 0, len(stored))
	for id := range stored {
		ids = append(ids, id)
	}
	sort.Strings(ids)
	if len(evs) != len(ids) {
		return false
	}
	for k, id := range ids {
		if evs[k].id != id || !evs[k].seed || evs[k].value == nil || !proto.Equal(evs[k].value, stored[id]) {
			return false
		}
	}
	return true
}

// ---- read masks (spec: Proj in Cmp.tla) ----------------------------------------

var maskField = map[string]string{"fl": "default_float", "db": "default_double", "rd": "repeated_double",
	"wk": "default_well_known", "i": "default_int32"}

func concMask(fs []string) *fieldmaskpb.FieldMask {
	fm := &fieldmaskpb.FieldMask{Paths: []string{}}
	for _, f := range fs {
		fm.Paths = append(fm.Paths, maskField[f])
	}
	return fm
}

// proj is what a subscriber with the mask is shown of m: the listed fields, the rest unset.
func proj(m Msg, isNil bool, fs []string) Msg {
	if isNil {
		return m
	}
	out := Msg{Ty: m.Ty, Fl: Flt{K: "fin"}, Db: Flt{K: "fin"}}
	for _, f := range fs {
		switch f {
		case "fl":
			out.Fl = m.Fl
		case "db":
			out.Db = m.Db
		case "rd":
			out.Rd = m.Rd
		case "wk":
			out.Wk = m.Wk
		case "i":
			out.I = m.I
		}
	}
	return out
}
