---------------------------- MODULE PublicationTrace ----------------------------
(***************************************************************************)
(* Trace use of Publication.tla.  One line = one RPC on the real          *)
(* ModelServer under the harness clock (now): the publications before     *)
(* (ListPublications), the request as sent, the response, the             *)
(* publications afterwards.  The harness numbers version strings (vid)    *)
(* and content tuples (cid) in order of first appearance, both numbered   *)
(* when a record is read: versions are an injective function of the       *)
(* content exactly when vid = cid on every record; such a record is       *)
(* Minted(its content), any other record Foreign(1000 + vid).  Configured *)
(* versions "init-<k>" are reported as vid = cid = -k, i.e. Foreign(k).   *)
(* rvid = the vid of the version the request carried (0 = none).          *)
(***************************************************************************)
EXTENDS Publication, TLC, Json

VARIABLE c
Obs == ndJsonDeserialize("obs.ndjson")
If(b, name) == IF b THEN {} ELSE {name}

ToSpec(r) == [id |-> r.id, body |-> r.body, mt |-> r.mt, aud |-> r.aud, pt |-> r.pt,
              ver |-> IF r.vid > 0 /\ r.vid = r.cid THEN Minted(Content(r)) ELSE Foreign(IF r.vid < 0 THEN -r.vid ELSE 1000 + r.vid)]
ToSpecState(s) == [k \in 1..Len(s) |-> ToSpec(s[k])]
RecOr(st, i) == IF Has(st, i) THEN Rec(st, i) ELSE [id |-> "", body |-> "", mt |-> "", aud |-> NoAud, ver |-> Foreign(0), pt |-> NoTime]
ReceiptOf(r) == [receipt |-> r.aud.receipt, reason |-> r.aud.reason, rtime |-> r.aud.rtime]

\* clauses about the record a successful Create / Update wrote
Published(op, got, want) ==
  If(Content(got) = Content(want) /\ got.aud.has = want.aud.has, "content-written")
  \cup If(got.ver = want.ver, "new-version-is-function-of-content")
  \cup If(got.pt = want.pt, "new-publish-time")
  \cup If(ReceiptOf(got) = ReceiptOf(want), "receipt-reset")

\* every line: each stored record is consistent in itself (receipt time only with a receipt and not before the
\* publish time, no reason or receipt time without a receipt)
Inconsistent(t) == If(\A k \in 1..Len(t.post) : RecordConsistent(ToSpec(t.post[k])), "version-publish-time-receipt-consistent")

Fails(t) ==
  IF t.panic # "" THEN {"panic"}
  \* conc: the call was held by the stepped clock at its instant t.now while another client's call (logged as its own
  \* line) was committed; t.pre = the publications when it was released, overtaken = that differs from what the call
  \* started from.  An overtaken call may be refused, and then must change nothing; otherwise it is judged like
  \* any call, on t.pre with its own instant.
  ELSE IF t.conc /\ t.overtaken /\ t.err # "OK" THEN If(t.post = t.pre, "refused-call-changed-state")
  ELSE Inconsistent(t) \cup
  LET pre == ToSpecState(t.pre)
      post == ToSpecState(t.post)
      w == [id |-> t.id, body |-> t.body, mt |-> t.mt, aud |-> t.aud]
      vmatch == Has(pre, t.id) /\ t.rvid = Rec(t.pre, t.id).vid
      vok == t.rvid = 0 \/ vmatch
      others(st) == Without(st, t.id)
      resp == IF t.ret.has THEN {ToSpec(t.ret.v)} ELSE {}
  IN
  \* first read (ListPublications = post, the PullPublications seed = seed) against the option sequence (as the
  \* harness handed it over, records in the format of this file) folded by ConfPubs
  CASE t.op = "New" -> If(t.post = ConfPubs(t.opts), "initial-publications-used") \cup If(t.seed = t.post, "pull-seed-is-first-read")
    [] t.op \in {"Create", "Update"} ->
         LET r == IF t.op = "Create" THEN Create(pre, t.now, w) ELSE Update(pre, t.now, w, t.mask, vok) IN
         IF r.err # "OK" THEN If(t.err = r.err, "err") \cup If(post = pre, "failed-write-changed-state")
         ELSE If(t.err = "OK", "err")
              \cup Published(t.op, RecOr(post, t.id), Rec(r.post, t.id))
              \cup If(others(post) = others(pre), "other-publications-changed")
              \cup If(t.err # "OK" \/ resp = {RecOr(post, t.id)}, "response-is-stored-value")
    [] t.op = "Ack" ->
         LET kind == AckKind(pre, t.id, vmatch)
             want == Acknowledge(pre, t.now, t.id, vmatch, t.receipt, t.reason) IN
         CASE kind = "not-found" -> If(t.err = "NotFound", "err") \cup If(post = pre, "failed-acknowledge-changed-state")
           [] kind = "version-mismatch" -> If(t.err # "OK", "version-must-match") \cup If(post = pre, "failed-acknowledge-changed-state")
           \* allow_acknowledged: whether the repeated acknowledge answers OK or an error is not asserted
           [] kind = "second" -> If(t.allow \/ t.err # "OK", "second-acknowledge-rejected") \cup If(post = pre, "second-acknowledge-changed-state")
           [] OTHER -> LET got == RecOr(post, t.id)
                           exp == Rec(want, t.id) IN
                       If(t.err = "OK", "err")
                       \cup If(got.aud.receipt = exp.aud.receipt /\ got.aud.reason = exp.aud.reason, "receipt-recorded")
                       \cup If(got.aud.rtime = exp.aud.rtime, "receipt-time-set")
                       \cup If(got.ver = exp.ver /\ got.pt = exp.pt /\ Content(got) = Content(exp), "acknowledge-keeps-version-and-publish-time")
                       \cup If(others(post) = others(pre), "other-publications-changed")
                       \cup If(t.err # "OK" \/ resp = {got}, "response-is-stored-value")
    [] t.op = "Delete" ->
         LET r == Delete(pre, t.id, vok, t.allowMissing) IN If(t.err = r.err, "err") \cup If(post = r.post, "post")

BadLines == { k \in 1..Len(Obs) : Fails(Obs[k]) # {} }
TraceInit == c = 0
TraceNext == UNCHANGED c
EmitBad == \A k \in BadLines : PrintT("BAD " \o ToJson([line |-> k, fails |-> Fails(Obs[k])]))
TraceChecked == EmitBad /\ PrintT("CHECKED " \o ToString(Len(Obs)))
=============================================================================
