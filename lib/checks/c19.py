"""C19 - the electric model keeps its documented mode invariants.

spec/Electric.tla (state, one atomic step per Model operation, the clauses of C19 as predicates over a
step) is used three ways:
  MC    ElectricMC.cfg: the Next relation over all operations, <= 4 mode ids; the clauses hold of every
        step the specification can take from every reachable state.  The two deviations of the code as
        found (constant Dev) are model-checked too and must FAIL there (the invariants bite).
  Gen   ElectricGen.tla: exhaustive sequences (every non-final operation succeeds and changes the state)
        and random state-aware walks, printed for the harness.
  Trace harness/cmd/electric replays them through the Model API and through the ElectricApi /
        MemorySettingsApi servers with a harness clock, logging the state before and after every call;
        a concurrent part lets 2-4 goroutines loose on one model and logs the state at quiescence and
        everything PullModes / PullActiveMode delivered.  ElectricTrace.tla evaluates the clauses on
        every line.  Only a clause false on a logged line is a violation.
"""
import os

import vf

IDS3 = '{"a", "b", "c"}'
IDS4 = '{"a", "b", "c", "d"}'

MC_AS_CODED_CFG = "SPECIFICATION Spec\nINVARIANTS %s\n"


def _consts(ids, maxnow, dev="{}"):
    return {"Ids": ids, "Titles": "{0, 1}", "MaxNow": maxnow, "Dev": dev}


def model_check(ctx, thorough):
    # (stored modes carry a start_time since the write-back operations: one title in the larger instances)
    for ids, titles, maxnow in ([(IDS4, "{0}", 2), (IDS3, "{0, 1}", 2)] if thorough else [(IDS3, "{0}", 1)]):
        c = _consts(ids, maxnow)
        c["Titles"] = titles
        ctx.mc("Electric", "ElectricMC.cfg", consts=c, workers=vf.NCPU if thorough else 4, timeout=1800, deadlock=False)
    # the invariants have teeth on the model: with the code's deviations switched on TLC must find the
    # state invariant / step clause failing (this run says nothing about the code)
    shown = {}
    ctx.cov["deviations_shown_on_model"] = shown
    if not thorough:
        return
    for dev, inv in (("update-no-normal-check", "AtMostOneNormal"), ("delete-am-notfound", "DeleteAbsent")):
        r = ctx.tlc("Electric", None, cfg_text=MC_AS_CODED_CFG % inv, consts=_consts(IDS3, 1, '{"%s"}' % dev),
                    workers=1, timeout=600, deadlock=False)
        if inv not in r.violated:
            raise vf.Inconclusive("model with deviation %s does not violate %s: the invariant has no teeth\n%s"
                                  % (dev, inv, r.out[-2000:]))
        shown[dev] = {"violates": inv, "states_to_counterexample": r.distinct}


def conc_model(ctx):
    """ElectricConc.tla: UpdateMode / AddMode / CreateMode split at check / write with the model lock as a
    variable.  Must hold as documented; with UpdateMode on a read lock TLC must refute AtMostOneNormal.
    Returns the file with the pairs it prints for the forced schedules."""
    r = ctx.mc("ElectricConc", "ElectricConc.cfg", consts={"Dev": "{}"}, workers=1, timeout=600, deadlock=False)
    pairs = r.cases()
    if len(pairs) < 14:
        raise vf.Inconclusive("ElectricConc printed only %d cases\n%s" % (len(pairs), r.out[-2000:]))
    for dev, inv in (("update-rlock", "AtMostOneNormal"), ("change-unlocked-commit", "ActiveExists")):
        bad = ctx.tlc("ElectricConc", "ElectricConc.cfg", consts={"Dev": '{"%s"}' % dev}, workers=1, timeout=600,
                      deadlock=False)
        if inv not in bad.violated:
            raise vf.Inconclusive("deviation %s is not refuted by the concurrent model (%s)\n%s"
                                  % (dev, inv, bad.out[-2000:]))
        ctx.cov.setdefault("deviations_shown_on_model", {})[dev] = {"violates": inv,
                                                                    "states_to_counterexample": bad.distinct}
    return ctx.write_ndjson("pairs.ndjson", pairs), len(pairs)


def gen_cases(ctx, thorough):
    """Runs the generators; the printed sequences go straight to progs.ndjson (they can be ~10^6)."""
    import json
    rnd = {"NRandom": 40000 if thorough else 2500, "WalkLen": 10 if thorough else 6,
           "RandAddIds": IDS4 if thorough else IDS3}
    none = {"NRandom": 0, "WalkLen": 0, "RandAddIds": "{}"}
    exh = {"AddIds": '{"a", "b"}', "MaxGen": 1, "MaxModes": 4}
    if thorough:
        plans = [("ElectricGenExh.cfg", dict(exh, Depth=5, **none)),
                 # deeper, narrower: one AddMode id, no CreateMode
                 ("ElectricGenExh.cfg", dict(exh, Depth=6, AddIds='{"a"}', MaxGen=0, **none)),
                 ("ElectricGenRand.cfg", dict(exh, Depth=0, MaxGen=9, **rnd))]
    else:
        # both generators in one TLC run
        plans = [("ElectricGenBoth.cfg", dict(exh, Depth=4, **rnd))]
    counts = []
    total = 0
    cpath = ctx.path("progs.ndjson")
    with open(cpath, "w") as f:
        for cfg, consts in plans:
            g = ctx.tlc("ElectricGen", cfg, consts=consts, workers=4, timeout=1800, deadlock=False)
            n = 0
            for line in g.out.splitlines():
                if line.startswith('"CASE '):
                    f.write(json.loads(line)[5:] + "\n")
                    n += 1
            if n < 100:
                raise vf.Inconclusive("Gen %s produced only %d sequences\n%s" % (cfg, n, g.out[-2000:]))
            counts.append({"cfg": cfg, "consts": consts, "sequences": n})
            total += n
            del g
    ctx.cov["generated"] = counts
    return cpath, total


def op_class(op):
    o = op["op"]
    if o == "Update":
        return "mask=%s,normal=%s" % (op["mask"], str(op["normal"]).lower())
    if o == "Delete":
        return "allow-missing=%s" % str(op["am"]).lower()
    if o in ("Create", "Add"):
        return "normal=%s" % str(op["normal"]).lower()
    return "-"


NAMES = {"Create": "CreateMode", "Add": "AddMode", "Update": "UpdateMode", "Delete": "DeleteMode",
         "SetActive": "SetActiveMode", "Change": "ChangeActiveMode", "Clear": "ClearActiveMode"}


def trace_check(ctx, obs_path, label, each):
    """TLC evaluates ElectricTrace.tla on obs_path; the observations are then streamed once (they can be
    millions): violations / notes are attached to the lines TLC flagged, each(o) sees every observation."""
    import json
    CHUNK = 400000   # observations per TLC run (bounds the memory of the JSON-reading JVM)
    bad, noted, n = {}, {}, 0
    with open(obs_path) as f:
        part, rows = 0, []

        def flush():
            nonlocal part, rows, n
            if not rows:
                return
            part += 1
            cp = ctx.path("%s-part%d.ndjson" % (label, part))
            with open(cp, "w") as g:
                g.writelines(rows)
            tr = ctx.tlc("ElectricTrace", "ElectricTrace.cfg", workers=1, files={"obs.ndjson": cp}, timeout=3000)
            if not any(l.startswith('"CHECKED %d"' % len(rows)) for l in tr.out.splitlines()):
                raise vf.Inconclusive("trace check (%s, part %d) did not cover all %d observations:\n%s"
                                      % (label, part, len(rows), tr.out[-3000:]))
            for b in tr.cases("BAD "):
                bad[n + b["line"]] = b["fails"]
            for b in tr.cases("NOTE "):
                noted[n + b["line"]] = b["notes"]
            n += len(rows)
            rows = []
            for junk in (cp, os.path.join(tr.dir, "obs.ndjson")):
                if os.path.exists(junk):
                    os.remove(junk)

        for line in f:
            if line.strip():
                rows.append(line)
                if len(rows) >= CHUNK:
                    flush()
        flush()
    ctx.count(n)
    notes = {}
    k = 0
    with open(obs_path) as f:
        for line in f:
            if not line.strip():
                continue
            k += 1
            o = json.loads(line)
            for clause in bad.get(k, ()):
                if o["kind"] == "step":
                    sig = "C19/%s/%s/%s/%s" % (o["api"], NAMES.get(o["op"]["op"], o["op"]["op"]), clause, op_class(o["op"]))
                    what = ("step %d of sequence %d through the %s: clause '%s' of C19 false on what the real code did"
                            % (o["step"], o["prog"], "Model API" if o["api"] == "model" else "gRPC servers", clause))
                elif o["kind"] == "pair":
                    sig = "C19/concurrent/pair-%s+%s/%s" % (NAMES[o["ops"][0]["op"]], NAMES[o["ops"][1]["op"]], clause)
                    what = ("forced schedule, case %d rep %d (%s and %s through %s, parked between check and write; "
                            "normal mode before: %s): clause '%s' of C19 false"
                            % (o["case"], o["rep"], NAMES[o["ops"][0]["op"]], NAMES[o["ops"][1]["op"]],
                               "/".join(o["apis"]), o["init"], clause))
                else:
                    sig = "C19/concurrent/%s/%s" % (o["kind"] + ("-" + o["part"] if o["kind"] == "cclear" else ""), clause)
                    what = ("run %d round %d of the concurrent part (%s line): clause '%s' of C19 false"
                            % (o["run"], o["round"], o["kind"], clause))
                ctx.violation(sig, what, o)
            for nt in noted.get(k, ()):
                key = "%s/%s/%s" % (o.get("api", "concurrent"), NAMES.get(o.get("op", {}).get("op"), o["kind"]), nt)
                if key not in notes:
                    notes[key] = {"count": 0, "example": o}
                notes[key]["count"] += 1
            each(k, n, o)
    if notes:
        ctx.cov["notes"].append({"part": label,
                                 "documented_behaviour_outside_the_property_text_not_met (no verdict)": notes})
    return n


def run(ctx):
    thorough = ctx.tier == "thorough"
    model_check(ctx, thorough)

    # ---- sequential replays
    cpath, nprogs = gen_cases(ctx, thorough)
    obs_path = ctx.path("obs-seq.ndjson")
    p = ctx.run_harness(["seq", "-cases", cpath, "-out", obs_path], timeout=3000, cmd="electric", check=False)
    if p.crash:
        ctx.violation("C19/crash/seq", "the process died while replaying sequences: " + p.crash["message"], p.crash)
        return
    if p.returncode != 0:
        raise vf.Inconclusive("harness electric seq failed rc=%d:\n%s" % (p.returncode, p.stdout[-3000:]))

    def each_step(k, n, o):
        if o["err"] != "OK" or o["post"] != o["pre"]:
            ctx.distinct((o["api"], o["pre"]["modes"], o["pre"]["active"], o["changed"],
                          {f: v for f, v in o["op"].items() if f != "dt"}, o["now"] - o["pre"]["active"]["start"]))
        if k in (1, 1001, 1002):
            ctx.sample(o)

    ctx.cov["traces_validated_against_impl"] += 2 * nprogs

    # ---- concurrent part
    cobs_path = ctx.path("obs-conc.ndjson")
    runs, rounds, nops = (3000, 10, 4) if thorough else (150, 8, 4)
    movers, clears, forced = (60, 2000, 1500) if thorough else (6, 700, 150)
    ppath, npairs = conc_model(ctx)
    reps, stress, iters = (40, 40, 2000) if thorough else (4, 4, 500)
    p = ctx.run_harness(["conc", "-out", cobs_path, "-runs", str(runs), "-rounds", str(rounds), "-ops", str(nops),
                         "-movers", str(movers), "-clears", str(clears), "-forced", str(forced),
                         "-pairs", ppath, "-reps", str(reps), "-meet-ms", "100",
                         "-stress", str(stress), "-stress-iters", str(iters)],
                        timeout=3000, cmd="electric", check=False)
    if p.crash:
        ctx.violation("C19/crash/concurrent", "the process died in the concurrent part: " + p.crash["message"], p.crash)
        return
    if p.returncode != 0:
        raise vf.Inconclusive("harness electric conc failed rc=%d:\n%s" % (p.returncode, p.stdout[-3000:]))
    c = {"quiesce": 0, "mstream": 0, "aevent": 0, "cclear": 0, "cclear-ok": 0, "undrained": 0, "calls": 0,
         "pair": 0, "pair-met": 0, "cnormal": 0}

    def each_conc(k, n, o):
        c[o["kind"]] += 1
        if o["kind"] == "cclear":
            c["cclear-ok"] += 1 if o["err"] == "OK" else 0
            ctx.distinct(("cclear", o["part"], o["api"], o["err"], o["ret"]["m"]["id"]))
        if o["kind"] == "pair":
            c["pair-met"] += 1 if o["arrivals"] >= 2 else 0
            ctx.distinct(("pair", o["case"], o["apis"], o["errs"]))
        if o["kind"] != "quiesce":
            return
        c["undrained"] += 0 if o["drained"] else 1
        if o["round"] == rounds:
            c["calls"] += o["calls"]
        if o["state"]["modes"]:
            ctx.distinct(("conc", o["state"]["modes"], o["state"]["active"]["id"], o["changed"]))
        if c["quiesce"] == runs * rounds // 2:
            ctx.sample(o)

    # one trace check over both logs (steps first, then the lines of the concurrent part)
    with open(obs_path, "a") as f, open(cobs_path) as g:
        for line in g:
            f.write(line)
    os.remove(cobs_path)
    steps = [0]

    def each(k, n, o):
        if o["kind"] == "step":
            steps[0] += 1
            each_step(k, n, o)
        else:
            each_conc(k, n, o)

    trace_check(ctx, obs_path, "sequential+concurrent", each)
    ctx.cov["steps_validated"] = steps[0]
    if c["undrained"] > c["quiesce"] // 10:
        raise vf.Inconclusive("the Pull streams did not catch up with the model at %d of %d quiescent points"
                              % (c["undrained"], c["quiesce"]))
    ctx.cov["concurrent"] = {"runs": runs, "rounds_per_run": rounds, "ops_per_goroutine_per_round": nops,
                             "quiescent_states_checked": c["quiesce"],
                             "streamed_tables_checked": c["mstream"],
                             "streamed_active_modes_checked": c["aevent"],
                             "clear_responses_checked": c["cclear"], "clear_responses_ok": c["cclear-ok"],
                             "forced_pairs_of_normal_writers": c["pair"], "pair_cases_from_ElectricConc": npairs,
                             "tables_read_after_becoming_normal": c["cnormal"],
                             "calls": c["calls"],
                             "quiescent_points_with_streams_not_caught_up": c["undrained"]}
    ctx.cov["traces_validated_against_impl"] += runs
    ctx.cov["rule"] = ("sequences printed by TLC from spec/ElectricGen.tla: (a) exhaustive, every sequence of <= Depth "
                       "operations over 2 AddMode ids + 1 CreateMode whose non-final operations succeed and change "
                       "the specification state, only the final step checked; (b) random walks, operation drawn "
                       "with regard to the specification state, every step checked; each replayed through the Model "
                       "API and through the servers.  One evaluation = one logged step / quiescent state / stream "
                       "delivery checked by TLC.  non-trivial = the call was refused or changed the state (sequential), "
                       "a non-empty table at quiescence (concurrent); distinct = distinct (api, state before, call, "
                       "age of the active mode) resp. distinct (table, active id)")
    ctx.assumptions.append("mode titles, ids and times are abstracted to small alphabets; modes carry only id, title, "
                           "normal (description, voltage, segments are not exercised)")
    ctx.assumptions.append("the concurrent part checks the state clauses of C19 at quiescent points, on every table and "
                           "active mode delivered to Model subscribers with backpressure (complete histories), and on "
                           "what the server streams (which may drop or merge older changes) add up to at quiescence; "
                           "free-running goroutines, no schedule control.  At each quiescent point the harness pushes a marker "
                           "through the streams (adds and removes a mode 'zz-marker', sets the active mode to itself with a "
                           "marker start time and back) to know that everything written before has been delivered; the "
                           "markers are not part of the record and leave the state as it was (checked)")


MANIFEST = {
    "engine": "spec/Electric.tla (+ElectricMC.cfg) + ElectricGen.tla + ElectricTrace.tla (TLC) + harness 'electric'",
    "technique": "TLA+ specification of the electric mode table (one atomic step per Model operation, the clauses of "
                 "C19 as predicates over a step); TLC model-checks them over the full Next relation, generates "
                 "exhaustive and random operation sequences, the harness replays them through the Model API and "
                 "the gRPC servers and runs goroutines concurrently, TLC evaluates the same predicates on every "
                 "logged step, quiescent state and stream delivery",
    "text": "Electric.tla models modes (id -> normal, title), the active mode (id, copy of the mode, start time), "
            "the model clock, and every Model operation (CreateMode, AddMode, UpdateMode with mask, "
            "DeleteMode with allow-missing, SetActiveMode, ChangeActiveMode, ChangeToNormalMode) as one atomic "
            "step with its documented outcome. TLC checks over all operations from all reachable states "
            "(<= 4 ids) that at most one mode is normal, the active mode is never deleted, a changed active mode "
            "exists, clearing selects the normal mode, a switch stamps the clock, deleting an absent mode gives "
            "NotFound / success with allow-missing, and shows each invariant failing when the code's deviation is "
            "switched on in the model. Generated sequences (exhaustive to depth 4-6, random walks of 6-10) are "
            "replayed on the real model and servers with an injected clock; the state before and after every call "
            "is logged and TLC evaluates the same clause predicates per step; 2-4 goroutines run free on one "
            "model and the clauses are evaluated at quiescence and on the PullModes / PullActiveMode streams. "
            "Stored modes carry a start_time (the operation alphabet includes writing back what GetActiveMode / "
            "ListModes returned, and modes added with a start_time) so that every switch is checked to be stamped "
            "with the clock and not with a stale stored time; every ClearActiveMode response given under "
            "concurrency (random mix, a goroutine moving the normal flag between two modes, and a forced schedule "
            "that parks a writer inside the model lock with a blocking clock while a clear and a flag move queue "
            "up) must return a normal mode: lookup and switch are one atomic step. "
            "Models are also constructed with initial modes and an initial active mode (the constructor options, "
            "a generated well-formed initial configuration) and the clauses judged from the first step on. "
            "Conformance on the generated sequences and sampled schedules, bounded model checking of the design; "
            "not a proof.",
    "note": "Trusted base: TLC 1.8.0 evaluating the TLA+ predicates; the harness abstraction (ids a-d / g<k> for "
            "allocated ids, title index, start time in clock ticks) and its faithful reporting of what the code "
            "returned. Only the text of C19 gives verdicts; other documented behaviour (error codes of refused "
            "calls, the start time when the same mode is selected again) is compared with the specification and "
            "reported as notes in the evidence. Concurrent schedules are whatever the Go scheduler produces.",
}
