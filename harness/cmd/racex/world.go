package main

import (
	"context"
	"strings"
	"time"

	"google.golang.org/grpc"
	"google.golang.org/grpc/metadata"
	"google.golang.org/protobuf/proto"
	"google.golang.org/protobuf/types/known/timestamppb"

	"github.com/smart-core-os/sc-api/go/traits"
	"github.com/smart-core-os/sc-golang/internal/minibus"
	"github.com/smart-core-os/sc-golang/internal/testproto"
	"github.com/smart-core-os/sc-golang/pkg/resource"
	"github.com/smart-core-os/sc-golang/pkg/router"
	"github.com/smart-core-os/sc-golang/pkg/trait/bookingpb"
	"github.com/smart-core-os/sc-golang/pkg/trait/electricpb"
	"github.com/smart-core-os/sc-golang/pkg/trait/hailpb"
	"github.com/smart-core-os/sc-golang/pkg/trait/metadatapb"
	"github.com/smart-core-os/sc-golang/pkg/trait/onoffpb"
	"github.com/smart-core-os/sc-golang/pkg/trait/parentpb"
	"github.com/smart-core-os/sc-golang/pkg/trait/publicationpb"
)

// world holds the shared objects of one iteration of one program.  It is built by the main goroutine before the
// processes are released and never written afterwards.
type world struct {
	root   context.Context
	cancel context.CancelFunc

	val  *resource.Value
	coll *resource.Collection
	bus  *minibus.Bus

	rtr    *onoffpb.ApiRouter
	rtrCli traits.OnOffApiClient // the router itself behind wrap.ServerToClient

	wrapModel *onoffpb.Model
	wrapCli   traits.OnOffApiClient // hdrServer behind wrap.ServerToClient

	el   *electricpb.Model
	par  *parentpb.Model
	md   *metadatapb.Model
	hail *hailpb.Model
	book *bookingpb.Model
	pub  *publicationpb.Model
}

func (w *world) close() { w.cancel() }

var collIDs = []string{"A", "b", "C"}
var rtrNames = []string{"n1", "n2", "n3"}

func newWorld(need map[string]bool) *world {
	w := &world{}
	w.root, w.cancel = context.WithCancel(context.Background())
	if need["val"] {
		w.val = resource.NewValue(resource.WithInitialValue(mkMsg(1)))
	}
	if need["coll"] {
		w.coll = resource.NewCollection(
			resource.WithInitialRecord("a", mkMsg(1)),
			resource.WithInitialRecord("b", mkMsg(2)),
			resource.WithIDInterceptor(strings.ToLower))
	}
	if need["bus"] {
		w.bus = &minibus.Bus{}
	}
	if need["rtr"] {
		w.rtr = onoffpb.NewApiRouter(
			onoffpb.WithOnOffApiClientFactory(func(name string) (traits.OnOffApiClient, error) {
				useString(name)
				return newOnOffClient(), nil
			}),
			router.WithOnChange(func(c router.Change) {
				// a callback that reads the change it is given
				useString(c.Name)
				useAny(c.Old)
				useAny(c.New)
				useBool(c.Auto)
			}))
		w.rtr.Add("n1", newOnOffClient())
		w.rtrCli = onoffpb.WrapApi(w.rtr)
	}
	if need["wrap"] {
		w.wrapModel = onoffpb.NewModel(onoffpb.WithInitialOnOff(&traits.OnOff{State: traits.OnOff_ON}))
		w.wrapCli = onoffpb.WrapApi(&hdrServer{m: w.wrapModel})
	}
	if need["el"] {
		w.el = electricpb.NewModel(
			electricpb.WithInitialMode(
				&traits.ElectricMode{Id: "m1", Title: "one", Normal: true, Segments: []*traits.ElectricMode_Segment{{Magnitude: 1}}},
				&traits.ElectricMode{Id: "m2", Title: "two", Segments: []*traits.ElectricMode_Segment{{Magnitude: 2}, {Magnitude: 3}}}),
			electricpb.WithInitialDemand(&traits.ElectricDemand{Current: 1, Voltage: proto.Float32(240), Rating: 13}))
	}
	if need["par"] {
		w.par = parentpb.NewModel(parentpb.WithInitialChildren(
			&traits.Child{Name: "c1", Traits: []*traits.Trait{{Name: "b"}, {Name: "d"}, {Name: "f"}}},
			&traits.Child{Name: "c2", Traits: []*traits.Trait{{Name: "a"}}}))
	}
	if need["md"] {
		w.md = metadatapb.NewModel(resource.WithInitialValue(&traits.Metadata{
			Name:       "dev",
			Traits:     []*traits.TraitMetadata{{Name: "t1", More: map[string]string{"k": "v"}}, {Name: "t3"}},
			Appearance: &traits.Metadata_Appearance{Title: "title"},
			More:       map[string]string{"x": "y"},
		}))
	}
	if need["hail"] {
		w.hail = hailpb.NewModel()
		_, _ = w.hail.CreateHail(&traits.Hail{Origin: &traits.Hail_Location{DisplayName: "o"}})
	}
	if need["book"] {
		w.book = bookingpb.NewModel(bookingpb.WithInitialBooking(&traits.Booking{Id: "k1", Title: "one", OwnerName: "me"}))
	}
	if need["pub"] {
		w.pub = publicationpb.NewModel(publicationpb.WithInitialPublication(
			&traits.Publication{Id: "u1", Body: []byte("one"), Audience: &traits.Publication_Audience{Name: "aud"}}))
	}
	return w
}

func newOnOffClient() traits.OnOffApiClient {
	return onoffpb.WrapApi(onoffpb.NewModelServer(onoffpb.NewModel()))
}

// mkMsg builds a message with scalar, nested, repeated and map content so that a reader has memory to touch.
func mkMsg(v int) *testproto.TestAllTypes {
	return &testproto.TestAllTypes{
		DefaultInt32:          int32(v),
		DefaultString:         "s",
		DefaultBytes:          []byte{1, 2, 3},
		DefaultNestedMessage:  &testproto.TestAllTypes_NestedMessage{A: int32(v), Corecursive: &testproto.TestAllTypes{DefaultInt32: 7}},
		RepeatedInt32:         []int32{1, 2, int32(v)},
		RepeatedString:        []string{"x", "y"},
		RepeatedNestedMessage: []*testproto.TestAllTypes_NestedMessage{{A: 1}, {A: 2}},
		MapStringString:       map[string]string{"k": "v", "l": "w"},
		MapStringNestedMessage: map[string]*testproto.TestAllTypes_NestedMessage{
			"n": {A: int32(v)},
		},
	}
}

// ---- reading what we are given -------------------------------------------------------------

//go:noinline
func useString(s string) int { return len(s) }

//go:noinline
func useBool(b bool) bool { return b }

//go:noinline
func useAny(v any) bool { return v == nil }

//go:noinline
func useInt(v int64) int64 { return v }

// touch reads every field of m (clone + compare walk the whole message).  It never writes to m.
func touch(m proto.Message) {
	if m == nil {
		return
	}
	if !m.ProtoReflect().IsValid() {
		return
	}
	c := proto.Clone(m)
	useBool(proto.Equal(m, c))
}

func touchTime(t time.Time) { useInt(t.UnixNano()) }

func touchMD(md metadata.MD) {
	for k, vs := range md {
		useString(k)
		for _, v := range vs {
			useString(v)
		}
	}
}

// ---- a server whose handlers use header and trailer metadata --------------------------------

// hdrServer is an OnOffApi server backed by the library's own model; its handlers set and send header metadata and
// set trailer metadata the way a gRPC handler is allowed to.
type hdrServer struct {
	traits.UnimplementedOnOffApiServer
	m *onoffpb.Model
}

func (s *hdrServer) GetOnOff(ctx context.Context, req *traits.GetOnOffRequest) (*traits.OnOff, error) {
	touch(req)
	_ = grpc.SetHeader(ctx, metadata.Pairs("h", "get"))
	_ = grpc.SetTrailer(ctx, metadata.Pairs("t", "get"))
	return s.m.GetOnOff(resource.WithReadMask(req.ReadMask))
}

func (s *hdrServer) UpdateOnOff(ctx context.Context, req *traits.UpdateOnOffRequest) (*traits.OnOff, error) {
	touch(req)
	_ = grpc.SetHeader(ctx, metadata.Pairs("h", "upd"))
	_ = grpc.SendHeader(ctx, metadata.Pairs("h2", "upd"))
	res, err := s.m.UpdateOnOff(req.OnOff, resource.WithUpdateMask(req.UpdateMask))
	_ = grpc.SetTrailer(ctx, metadata.Pairs("t", "upd"))
	return res, err
}

func (s *hdrServer) PullOnOff(req *traits.PullOnOffRequest, srv traits.OnOffApi_PullOnOffServer) error {
	touch(req)
	_ = srv.SetHeader(metadata.Pairs("h", "pull"))
	if req.Name != "lazy" {
		_ = srv.SendHeader(metadata.Pairs("h2", "pull"))
	}
	n := 0
	updates := s.m.PullOnOff(srv.Context(), resource.WithReadMask(req.ReadMask), resource.WithUpdatesOnly(req.UpdatesOnly))
	defer func() {
		// the model's forwarder sends without watching the context: keep receiving until it has closed the channel
		go func() {
			for range updates {
			}
		}()
	}()
	for update := range updates {
		change := &traits.PullOnOffResponse_Change{Name: req.Name, ChangeTime: timestamppb.New(update.ChangeTime), OnOff: update.Value}
		if err := srv.Send(&traits.PullOnOffResponse{Changes: []*traits.PullOnOffResponse_Change{change}}); err != nil {
			srv.SetTrailer(metadata.Pairs("t", "send-failed"))
			return err
		}
		n++
		srv.SetTrailer(metadata.Pairs("t", "sent"))
		if req.Name == "end" {
			// the handler ends the stream itself; the model's subscription ends with the stream's context
			return nil
		}
	}
	srv.SetTrailer(metadata.Pairs("t", "ended"))
	return srv.Context().Err()
}
