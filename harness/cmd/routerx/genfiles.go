package main

import (
	"bytes"
	"fmt"
	"os"
	"os/exec"
	"path/filepath"
	"sort"
	"strings"

	"google.golang.org/protobuf/proto"
	"google.golang.org/protobuf/reflect/protodesc"
	"google.golang.org/protobuf/reflect/protoreflect"
	"google.golang.org/protobuf/reflect/protoregistry"
	"google.golang.org/protobuf/types/descriptorpb"
	"google.golang.org/protobuf/types/pluginpb"

	"github.com/smart-core-os/sc-golang/verifharness/hx"
)

// Translation validation of the checked-in routers and wrappers (auxiliary, text level): there is no
// protoc here, so the CodeGeneratorRequest protoc would send is assembled from the descriptors linked
// into this binary (the same sc-api / electricpb versions the tree builds against), and the tree's own
// plugins (built by the check from $VERIF_REPO/cmd/protoc-gen-*) are run on it.

type genRow struct {
	Plugin string `json:"plugin"`
	File   string `json:"file"` // path the generator wants to write, relative to the repository root
	Bytes  int    `json:"bytes"`
	Proto  string `json:"proto"`
}

func goPackageOf(fd protoreflect.FileDescriptor) string {
	if o, ok := fd.Options().(*descriptorpb.FileOptions); ok && o != nil {
		p := o.GetGoPackage()
		if i := strings.Index(p, ";"); i >= 0 {
			p = p[:i]
		}
		return p
	}
	return ""
}

func buildRequest() (*pluginpb.CodeGeneratorRequest, []string) {
	var gen []protoreflect.FileDescriptor
	protoregistry.GlobalFiles.RangeFiles(func(fd protoreflect.FileDescriptor) bool {
		gp := goPackageOf(fd)
		if fd.Services().Len() > 0 && (gp == "github.com/smart-core-os/sc-api/go/traits" ||
			strings.HasPrefix(gp, "github.com/smart-core-os/sc-golang/pkg/trait/")) {
			gen = append(gen, fd)
		}
		return true
	})
	sort.Slice(gen, func(i, j int) bool { return gen[i].Path() < gen[j].Path() })
	req := &pluginpb.CodeGeneratorRequest{}
	seen := map[string]bool{}
	var visit func(fd protoreflect.FileDescriptor)
	visit = func(fd protoreflect.FileDescriptor) {
		if seen[fd.Path()] {
			return
		}
		seen[fd.Path()] = true
		imps := fd.Imports()
		for i := 0; i < imps.Len(); i++ {
			visit(imps.Get(i).FileDescriptor)
		}
		req.ProtoFile = append(req.ProtoFile, protodesc.ToFileDescriptorProto(fd))
	}
	var names []string
	for _, fd := range gen {
		visit(fd)
		req.FileToGenerate = append(req.FileToGenerate, fd.Path())
		names = append(names, fd.Path())
	}
	return req, names
}

func cmdGen() {
	outdir := hx.Arg("-outdir", "gen")
	out := hx.NewOut(hx.Arg("-out", "gen.ndjson"))
	defer out.Close()
	req, names := buildRequest()
	if len(names) == 0 {
		hx.Fatal("no service-defining descriptors linked in")
	}
	in, err := proto.Marshal(req)
	if err != nil {
		hx.Fatal("marshal request: %v", err)
	}
	for _, pl := range []struct{ name, flag string }{{"router", "-router-plugin"}, {"wrapper", "-wrapper-plugin"}} {
		path := hx.Arg(pl.flag, "")
		if path == "" {
			continue
		}
		cmd := exec.Command(path)
		cmd.Stdin = bytes.NewReader(in)
		var so, se bytes.Buffer
		cmd.Stdout, cmd.Stderr = &so, &se
		if err := cmd.Run(); err != nil {
			hx.Fatal("plugin %s failed: %v\n%s", pl.name, err, se.String())
		}
		resp := &pluginpb.CodeGeneratorResponse{}
		if err := proto.Unmarshal(so.Bytes(), resp); err != nil {
			hx.Fatal("plugin %s: bad response: %v", pl.name, err)
		}
		if resp.Error != nil {
			hx.Fatal("plugin %s reports: %s", pl.name, resp.GetError())
		}
		for _, f := range resp.File {
			if f.GetInsertionPoint() != "" || f.GetName() == "" {
				hx.Fatal("plugin %s: unexpected insertion point / continuation in %q", pl.name, f.GetName())
			}
			dst := filepath.Join(outdir, pl.name, f.GetName())
			if err := os.MkdirAll(filepath.Dir(dst), 0o755); err != nil {
				hx.Fatal("%v", err)
			}
			if err := os.WriteFile(dst, []byte(f.GetContent()), 0o644); err != nil {
				hx.Fatal("%v", err)
			}
			out.Write(genRow{Plugin: pl.name, File: f.GetName(), Bytes: len(f.GetContent())})
		}
	}
	fmt.Fprintf(os.Stderr, "routerx gen: %d proto files with services, %d files generated\n", len(names), out.N)
}
