---------------------------- MODULE BusTrace ----------------------------
(***************************************************************************)
(* Trace use of Bus.tla: one line of obs.ndjson = one behaviour of the     *)
(* specification forced onto the real minibus.Bus (mode "bus"), or one     *)
(* free-running cancel storm on real Value/Collection subscriptions (mode  *)
(* "storm").  The C10 clauses are evaluated on what really happened.       *)
(***************************************************************************)
EXTENDS Integers, Sequences, FiniteSets, TLC, Json
VARIABLE c
Obs == ndJsonDeserialize("obs.ndjson")
If(b, name) == IF b THEN {} ELSE {name}

InGot(g, ev) == \E k \in 1..Len(g) : g[k] = ev
CtxEnded(t, s) == \E k \in 1..Len(t.sched) : t.sched[k].a = "SendCtxDone" /\ t.sched[k].p = s
Listened(t, l) == \E k \in 1..Len(t.sched) : t.sched[k].a = "Listen" /\ t.sched[k].p = l

\* real-time reading of "live for the whole send": the listener's Listen had returned before the harness let the
\* send start, and it was not cancelled before that Send returned (positions in the harness's journal)
Pos(t, ev, p, k) == LET ks == { j \in 1..Len(t.journal) : t.journal[j].ev = ev /\ t.journal[j].p = p /\ t.journal[j].k = k } IN
                    IF ks = {} THEN 0 ELSE CHOOSE j \in ks : \A i \in ks : j <= i
OwedRealTime(t, l) ==
  { <<t.journal[j].p, t.journal[j].k>> : j \in { j \in 1..Len(t.journal) :
        /\ t.journal[j].ev = "sent" /\ t.journal[j].ok
        /\ LET start == Pos(t, "send", t.journal[j].p, t.journal[j].k)
               lis == Pos(t, "listened", l, 0)
               can == Pos(t, "cancel", l, 0)
           IN start > 0 /\ lis > 0 /\ lis < start /\ (can = 0 \/ can > j) } }

BusFails(t) ==
  If(t.panics = <<>>, "C10:panic")
  \cup If(t.problem = "", "C10:sender-stalled-after-everything-was-cancelled")
  \cup (IF t.problem # "" THEN {} ELSE
     UNION { LET g == t.got[l] IN
             If(\A j, k \in 1..Len(g) : j # k => g[j] # g[k], "C10:event-delivered-twice")
             \cup If(\A j, k \in 1..Len(g) : j < k /\ g[j][1] = g[k][1] => g[j][2] < g[k][2], "C10:per-sender-order-broken")
             \cup If(~Listened(t, l) \/ t.closedSeen[l], "C10:channel-not-closed-after-cancel")
             \cup If(t.afterClose[l] = 0, "C10:delivery-after-close")
             \cup If(\A ev \in OwedRealTime(t, l) : InGot(g, ev), "C10:live-listener-missed-event")
             \* a listener registered and live for the whole of a send received its event (only decidable when
             \* the run followed the specification's behaviour to the end)
             \cup (IF t.drift # "" THEN {} ELSE
                     If(\A k \in 1..Len(t.expect.mustHave[l]) :
                          t.expect.mustHave[l][k].must => InGot(g, t.expect.mustHave[l][k].ev), "C10:live-listener-missed-event"))
           : l \in 1..t.nl }
     \* (when the run left the behaviour the harness ends every context itself, senders' included)
     \cup (IF t.drift # "" THEN {} ELSE
             UNION { If(\A k \in 1..Len(t.sendOK[s]) : t.sendOK[s][k] \/ CtxEnded(t, s), "C10:send-gave-up-without-cause") : s \in 1..t.ns })
     \cup If(t.leaked = 0, "C10:goroutine-left-behind"))

StormFails(t) ==
  If(t.panics = <<>>, "C10:panic")
  \cup If(t.unclosed = 0, "C10:channel-not-closed-after-cancel")
  \cup If(t.writerStall = 0, "C10:writers-stalled-after-everything-was-cancelled")
  \cup If(t.pullIdOpen = 0, "C10:single-item-subscription-survives-removal")
  \* ... and having ended it holds nobody up (its context need not be cancelled for that)
  \cup If(t.pullIdStall = 0, "C10:writers-stalled-behind-ended-single-item-subscription")
  \cup If(t.leaked = 0, "C10:goroutine-left-behind")
  \* LiveGetsAll on real subscriptions: a subscriber that registered (while others were cancelling and writers
  \* writing) and never cancelled received the write made after all of that
  \cup If(t.survivorMissed = 0, "C10:live-listener-missed-event")

Fails(t) == IF t.mode = "storm" THEN StormFails(t) ELSE BusFails(t)
BadLines == { k \in 1..Len(Obs) : Fails(Obs[k]) # {} }
TraceInit == c = 0
TraceNext == UNCHANGED c
EmitBad == \A k \in BadLines : PrintT("BAD " \o ToJson([line |-> k, fails |-> Fails(Obs[k])]))
TraceChecked == EmitBad /\ PrintT("CHECKED " \o ToString(Len(Obs)))
=============================================================================
