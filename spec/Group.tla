---------------------------- MODULE Group ----------------------------
(***************************************************************************)
(* C17: the design of pkg/group/exec.go as communicating processes.       *)
(*                                                                         *)
(*  member m   (parallel strategies: one goroutine each, executeEach)     *)
(*     "run"  --MemberReturns-->  "send"  --Send-->  "done"                *)
(*     MemberReturns: the member function comes back, either because the  *)
(*     environment let it (any time: every completion order is a          *)
(*     behaviour) with its planned outcome, or, for a cancellation-aware  *)
(*     member, because its context is cancelled.                          *)
(*     Send: `responses <- r`: rendezvous with the collector when the      *)
(*     channel is unbuffered (Cap = "zero", the code as written) or an    *)
(*     append when it has room for every member (Cap = "n").              *)
(*  closer     "wait" --Close (all members done)--> "done"                 *)
(*  collector  the caller's goroutine: the `for range` loop of            *)
(*     ExecuteUpTo / ExecuteFast / ExecuteRace, or the sequential loop of  *)
(*     ExecuteOne (which calls the members itself), followed by Execute's  *)
(*     placement of the single result at index i ("place").               *)
(*  cancelled  the context derived by the call; parent: the caller's own. *)
(*                                                                         *)
(* Member errors.  A member that fails on its own (act = 0) returns an     *)
(* error of any kind: a plain one, or one that *looks like* a context     *)
(* error (context.Canceled / DeadlineExceeded, bare, wrapped with %w, or  *)
(* as gRPC status) -- cfg.ctxerr[m] -- because of a per-member timeout or *)
(* an inner operation, whatever the state of the group's context (live,  *)
(* cancelled, expired: `parent`, set by CancelParent at any moment).      *)
(* The design never reads the kind of a member's error: every action     *)
(* below treats act = 0 and act = 2 alike, ctxerr or not.  Only the       *)
(* group's own context ending may cut a strategy short (GroupContract,    *)
(* clause "one-order"); this design does not even do that.  The parameter *)
(* StopOnCtxErr = TRUE describes the tempting variant "ExecuteOne stops   *)
(* trying when a member's error is a context error"; TLC refutes          *)
(* ContractHolds for it (GroupStopOnCtxErr.cfg).                          *)
(*                                                                         *)
(* Design parameters: Cap (see above) and Guard (Execute checks that the  *)
(* index exists before placing).  The code as pinned is Cap = "zero",     *)
(* Guard = FALSE; GroupMC.cfg checks Cap = "n", Guard = TRUE, for which    *)
(* every property below holds; c17.py also runs the pinned parameters and *)
(* records which properties TLC refutes for them.                         *)
(***************************************************************************)
EXTENDS GroupContract

CONSTANTS MaxN,     \* groups of 0..MaxN members
          AwareN,   \* groups of up to AwareN members also range over cancellation-aware members and a caller that cancels
          KindN,    \* groups of up to KindN members also range over which failing members return context-like errors
          Cap, Guard, StopOnCtxErr

VARIABLES cfg,        \* [n, strat, api, plan, aware, ctxerr, pcan]: fixed in Init
          mpc, act, seen,
          chanq, closed, clpc,
          cpc, inbox, errCount, firstErr, results, ret, cur,
          cancelled, parent,
          resps,      \* history: members in the order the collector observed their responses
          pcAt        \* history: how many responses had been observed when the caller's context ended, -1 = it has not
vars == <<cfg, mpc, act, seen, chanq, closed, clpc, cpc, inbox, errCount, firstErr, results, ret, cur, cancelled, parent, resps, pcAt>>

Configs ==
  UNION { { [n |-> n, strat |-> s, api |-> a, plan |-> p, aware |-> w, ctxerr |-> ce, pcan |-> pc] :
              s \in Strategies, a \in {"Direct", "Execute"}, p \in [1..n -> BOOLEAN],
              w \in (IF n <= AwareN THEN [1..n -> BOOLEAN] ELSE {[m \in 1..n |-> FALSE]}),
              ce \in (IF n <= KindN THEN [1..n -> BOOLEAN] ELSE {[m \in 1..n |-> FALSE]}),
              pc \in (IF n <= AwareN \/ n <= KindN THEN BOOLEAN ELSE {FALSE}) }
          : n \in 0..MaxN }

N == cfg.n
Par == cfg.strat # "One"
CapN == IF Cap = "zero" THEN 0 ELSE N
\* what a member's context says: ExecuteOne hands the caller's context to the members
CtxDone == IF Par THEN cancelled \/ parent ELSE parent
Allowed == CASE cfg.strat = "All" -> 0 [] cfg.strat = "Most" -> N \div 2 [] cfg.strat = "Any" -> N - 1 [] OTHER -> 0
Leave == IF cfg.api = "Execute" /\ cfg.strat \in Single THEN "place" ELSE "returned"

Init ==
  /\ cfg \in { c \in Configs : /\ c.strat \in UpTo => c.api = "Direct"     \* Execute only forwards for All/Most/Any
                               /\ \A m \in 1..c.n : c.ctxerr[m] => ~c.plan[m] }   \* (the kind of error of a member that succeeds is moot)
  /\ mpc = [m \in 1..N |-> IF Par THEN "run" ELSE "idle"]
  /\ act = [m \in 1..N |-> -1]
  /\ seen = [m \in 1..N |-> FALSE]
  /\ chanq = <<>> /\ closed = FALSE
  /\ clpc = IF Par THEN "wait" ELSE "done"
  /\ cpc = IF Par THEN "recv" ELSE "call"
  /\ inbox = 0 /\ errCount = 0 /\ firstErr = 0
  /\ results = [m \in 1..N |-> 0]
  /\ ret = [err |-> -1, idx |-> 0, msg |-> 0]
  /\ cur = 1 /\ cancelled = FALSE /\ parent = FALSE /\ resps = <<>> /\ pcAt = -1

----------------------------------------------------------------------------
MemberReturns(m) ==
  /\ mpc[m] = "run"
  /\ \/ act' = [act EXCEPT ![m] = IF cfg.plan[m] THEN 1 ELSE 0]
     \/ cfg.aware[m] /\ CtxDone /\ act' = [act EXCEPT ![m] = 2]
  /\ seen' = [seen EXCEPT ![m] = CtxDone]
  /\ IF Par THEN mpc' = [mpc EXCEPT ![m] = "send"] /\ UNCHANGED cpc
            ELSE mpc' = [mpc EXCEPT ![m] = "done"] /\ cpc' = "back"
  /\ UNCHANGED <<cfg, chanq, closed, clpc, inbox, errCount, firstErr, results, ret, cur, cancelled, parent, resps, pcAt>>

Send(m) ==
  /\ mpc[m] = "send"
  /\ \/ CapN > 0 /\ Len(chanq) < CapN /\ chanq' = Append(chanq, m) /\ UNCHANGED <<cpc, inbox>>
     \/ CapN = 0 /\ cpc = "recv" /\ inbox' = m /\ cpc' = "got" /\ UNCHANGED chanq
  /\ mpc' = [mpc EXCEPT ![m] = "done"]      \* all.Done()
  /\ UNCHANGED <<cfg, act, seen, closed, clpc, errCount, firstErr, results, ret, cur, cancelled, parent, resps, pcAt>>

Close ==
  /\ clpc = "wait" /\ \A m \in 1..N : mpc[m] = "done"
  /\ closed' = TRUE /\ clpc' = "done"
  /\ UNCHANGED <<cfg, mpc, act, seen, chanq, cpc, inbox, errCount, firstErr, results, ret, cur, cancelled, parent, resps, pcAt>>

Recv ==
  /\ cpc = "recv" /\ chanq # <<>>
  /\ inbox' = Head(chanq) /\ chanq' = Tail(chanq) /\ cpc' = "got"
  /\ UNCHANGED <<cfg, mpc, act, seen, closed, clpc, errCount, firstErr, results, ret, cur, cancelled, parent, resps, pcAt>>

RecvClosed ==
  /\ cpc = "recv" /\ chanq = <<>> /\ closed
  /\ cpc' = "end"
  /\ UNCHANGED <<cfg, mpc, act, seen, chanq, closed, clpc, inbox, errCount, firstErr, results, ret, cur, cancelled, parent, resps, pcAt>>

\* the loop body
Process ==
  /\ cpc = "got"
  /\ resps' = Append(resps, inbox)
  /\ LET m == inbox  ok == act[inbox] = 1 IN
     CASE cfg.strat \in UpTo ->
            /\ results' = [results EXCEPT ![m] = IF ok THEN m ELSE 0]
            /\ firstErr' = IF ~ok /\ firstErr = 0 THEN m ELSE firstErr
            /\ errCount' = IF ok THEN errCount ELSE errCount + 1
            /\ cancelled' = (cancelled \/ (~ok /\ errCount + 1 > Allowed))
            /\ cpc' = "recv" /\ UNCHANGED ret
       [] cfg.strat = "Fast" ->
            IF ok THEN /\ ret' = [err |-> -1, idx |-> m, msg |-> m] /\ cancelled' = TRUE /\ cpc' = Leave
                       /\ UNCHANGED <<results, firstErr, errCount>>
                  ELSE /\ firstErr' = (IF firstErr = 0 THEN m ELSE firstErr) /\ cpc' = "recv"
                       /\ UNCHANGED <<results, errCount, cancelled, ret>>
       [] cfg.strat = "Race" ->
            /\ ret' = IF ok THEN [err |-> -1, idx |-> m, msg |-> m] ELSE [err |-> m, idx |-> m, msg |-> 0]
            /\ cancelled' = TRUE /\ cpc' = Leave
            /\ UNCHANGED <<results, firstErr, errCount>>
  /\ UNCHANGED <<cfg, mpc, act, seen, chanq, closed, clpc, inbox, cur, parent, pcAt>>

\* the channel was closed: after the loop (the deferred cancelFunc runs on return)
End ==
  /\ cpc = "end"
  /\ cancelled' = TRUE
  /\ CASE cfg.strat \in UpTo ->
            /\ ret' = [err |-> IF errCount > Allowed /\ firstErr # 0 THEN firstErr ELSE -1, idx |-> 0, msg |-> 0]
            /\ cpc' = "returned"
       [] cfg.strat = "Fast" ->
            /\ ret' = IF firstErr = 0 THEN [err |-> 0, idx |-> 1, msg |-> 0]     \* "no members returned a response", index 0
                      ELSE [err |-> firstErr, idx |-> firstErr, msg |-> 0]
            /\ cpc' = Leave
       [] cfg.strat = "Race" ->
            /\ ret' = [err |-> 0, idx |-> 1, msg |-> 0] /\ cpc' = Leave
  /\ UNCHANGED <<cfg, mpc, act, seen, chanq, closed, clpc, inbox, errCount, firstErr, results, cur, parent, resps, pcAt>>

\* ExecuteOne
OneCall ==
  /\ cpc = "call" /\ cur <= N
  /\ mpc' = [mpc EXCEPT ![cur] = "run"] /\ cpc' = "wait"
  /\ UNCHANGED <<cfg, act, seen, chanq, closed, clpc, inbox, errCount, firstErr, results, ret, cur, cancelled, parent, resps, pcAt>>
OneBack ==
  /\ cpc = "back"
  /\ resps' = Append(resps, cur)
  /\ IF act[cur] = 1
       THEN ret' = [err |-> -1, idx |-> cur, msg |-> cur] /\ cpc' = Leave /\ UNCHANGED <<firstErr, cur>>
       ELSE /\ firstErr' = (IF cur = 1 THEN cur ELSE firstErr) /\ cpc' = "call" /\ UNCHANGED ret
            \* the design goes on to the next member whatever kind of error this one returned
            /\ cur' = IF StopOnCtxErr /\ (act[cur] = 2 \/ cfg.ctxerr[cur]) THEN N + 1 ELSE cur + 1
  /\ UNCHANGED <<cfg, mpc, act, seen, chanq, closed, clpc, inbox, errCount, results, cancelled, parent, pcAt>>
OneEnd ==
  /\ cpc = "call" /\ cur > N
  /\ ret' = [err |-> IF firstErr = 0 THEN -1 ELSE firstErr, idx |-> 1, msg |-> 0]     \* return nil, 0, firstErr
  /\ cpc' = Leave
  /\ UNCHANGED <<cfg, mpc, act, seen, chanq, closed, clpc, inbox, errCount, firstErr, results, cur, cancelled, parent, resps, pcAt>>

\* Execute: allRes := make([]proto.Message, len(members)); allRes[i] = res
Place ==
  /\ cpc = "place"
  /\ IF ret.idx \in 1..N
       THEN results' = [m \in 1..N |-> IF m = ret.idx THEN ret.msg ELSE 0] /\ cpc' = "returned"
       ELSE results' = results /\ cpc' = (IF Guard THEN "returned" ELSE "panicked")
  /\ UNCHANGED <<cfg, mpc, act, seen, chanq, closed, clpc, inbox, errCount, firstErr, ret, cur, cancelled, parent, resps, pcAt>>

CancelParent ==
  /\ cfg.pcan /\ ~parent /\ parent' = TRUE /\ pcAt' = Len(resps)
  /\ UNCHANGED <<cfg, mpc, act, seen, chanq, closed, clpc, cpc, inbox, errCount, firstErr, results, ret, cur, cancelled, resps>>

Next == \/ \E m \in 1..N : MemberReturns(m) \/ Send(m)
        \/ Close \/ Recv \/ RecvClosed \/ Process \/ End \/ OneCall \/ OneBack \/ OneEnd \/ Place \/ CancelParent
\* every behaviour is finite (each action moves some process forward), so fairness of Next says:
\* the environment lets every member return and no process stops while it can move
Spec == Init /\ [][Next]_vars /\ WF_vars(Next)

----------------------------------------------------------------------------
PcsOK == /\ \A m \in 1..N : mpc[m] \in {"idle", "run", "send", "done"} /\ act[m] \in {-1, 0, 1, 2}
         /\ cpc \in {"recv", "got", "end", "call", "wait", "back", "place", "returned", "panicked"}
         /\ clpc \in {"wait", "done"} /\ Len(chanq) <= CapN

CallOver == cpc \in {"returned", "panicked"}
MembersBack == \A m \in 1..N : mpc[m] \in {"idle", "send", "done"}
Unobserved == {m \in 1..N : act[m] # -1 /\ m \notin Range(resps)}

\* the outcome record of GroupContract for the current state
Outcome ==
  [strat |-> cfg.strat, api |-> cfg.api, n |-> N, act |-> act, ran |-> [m \in 1..N |-> mpc[m] # "idle"], seen |-> seen,
   obs |-> [k \in 1..Len(resps) |-> [lead |-> resps[k], all |-> <<resps[k]>>]] \o <<[lead |-> 0, all |-> SetToSeq(Unobserved)]>>,
   panic |-> IF cpc = "panicked" THEN "index out of range" ELSE "", returned |-> cpc = "returned",
   err |-> ret.err, errk |-> IF ret.err = -1 THEN "" ELSE "plain", idx |-> ret.idx, msg |-> ret.msg, res |-> results, resLen |-> N,
   \* (every error carries its member's id here; which kind it is plays no part in the design)
   ek |-> [m \in 1..N |-> IF act[m] \in {0, 2} THEN "plain" ELSE ""],
   \* ExecuteOne calls the members itself: the member observed as number pcAt + 1 is the first to return after the caller's context ended
   cc |-> IF pcAt = -1 THEN 0 ELSE pcAt + 1,
   leak |-> Cardinality({m \in 1..N : mpc[m] \in {"run", "send"}}) + (IF clpc = "wait" THEN 1 ELSE 0)]

(* Strategy contract, own index, first error: on every outcome. *)
ContractHolds == CallOver /\ MembersBack => CallFails(Outcome) = {}
NoPanic == cpc # "panicked"
(* Once the outcome is decided the derived context is cancelled, so every *)
(* member returning from then on sees it (the observational form, clause  *)
(* "not-cancelled" of GroupContract, needs the harness's one-at-a-time    *)
(* schedule and is evaluated on the real code only).                      *)
Decided == CASE cfg.strat \in UpTo -> N > 0 /\ cpc \in {"recv", "end", "returned"}
                                      /\ FailsWith([strat |-> cfg.strat, n |-> N], {m \in Range(resps) : act[m] # 1})
             [] cfg.strat \in {"Fast", "Race"} -> cpc \in {"place", "returned", "panicked"} /\ resps # <<>>
             [] OTHER -> FALSE
CancelledOnceDecided == Decided => cancelled
(* ... and not before: a member that returns before anything is decided   *)
(* and before the caller cancels never sees a cancelled context.          *)
NotCancelledEarly == (\A m \in 1..N : seen[m] => parent \/ cancelled)
                     /\ (cancelled /\ cfg.strat \in UpTo /\ cpc \in {"recv", "got"} => errCount > Allowed)

(* Liveness: the call comes back, and every goroutine it started ends.     *)
CallEnds == <>CallOver
AllEnded == (\A m \in 1..N : mpc[m] \in {"idle", "done"}) /\ clpc = "done"
AllGoroutinesEnd == <>[]AllEnded
(* The same as a state predicate (behaviours are finite): where nothing can *)
(* move any more, the call is over and every goroutine has ended.          *)
EndedWhenNothingMoves == ~(ENABLED Next) => CallOver /\ AllEnded
=============================================================================
