----------------------------- MODULE WrapTrace -----------------------------
(***************************************************************************)
(* Trace use of Wrap.tla.  Every line of obs.ndjson is one script (echoed) *)
(* with the transcript observed through wrap.ServerToClient (w) and the    *)
(* transcript observed over a real gRPC connection (g) against the same    *)
(* scripted server.  Allowed(o) is the specification's set of transcripts  *)
(* for the script; both transcripts must be in it, which makes them equal  *)
(* wherever gRPC is deterministic.  A g transcript outside the set means   *)
(* the specification does not describe the reference (reported separately: *)
(* that is a defect of the model, never a verdict about the code).         *)
(* Besides: copy semantics (alias), goroutines left behind (leak), ops     *)
(* that never completed (hang), and the calls that must be refused.        *)
(***************************************************************************)
EXTENDS Wrap, Json

VARIABLE c
Obs == ndJsonDeserialize("obs.ndjson")

If(b, name) == IF b THEN {} ELSE {name}

\* ---- features of a script, used to name the input class in signatures
Idx(steps, P(_)) == LET I == { i \in 1..Len(steps) : P(steps[i]) } IN
                    IF I = {} THEN 0 ELSE CHOOSE i \in I : \A k \in I : i <= k
CxI(o) == Idx(o.steps, LAMBDA e : e.c \in {"cancel", "deadline"})
OpenI(o) == Idx(o.steps, LAMBDA e : e.c \in {"open", "invoke"})
RetI(o) == Idx(o.steps, LAMBDA e : e.s = "return")
SendI(o) == Idx(o.steps, LAMBDA e : e.s = "send")
FlushI(o) == Idx(o.steps, LAMBDA e : e.s \in {"send", "sendhdr"})
HasCx(o) == CxI(o) > 0
PreCx(o) == HasCx(o) /\ CxI(o) < OpenI(o)
RetAfterCx(o) == HasCx(o) /\ RetI(o) > CxI(o)
SawCx(o) == RetAfterCx(o) /\ o.steps[CxI(o)].c = "cancel" /\ \E i \in CxI(o)..RetI(o) : o.steps[i].s = "wait"
HdrSetUnsent(o) == /\ RetI(o) > 0 /\ (FlushI(o) = 0 \/ FlushI(o) > RetI(o))
                   /\ \E i \in 1..RetI(o) : o.steps[i].s = "sethdr"
RespThenErr(o) == Single(o.shape) /\ SendI(o) > 0 /\ RetI(o) > 0 /\ o.steps[RetI(o)].code # "OK"
TrlAfterResp(o) == Single(o.shape) /\ SendI(o) > 0 /\ \E i \in SendI(o)..Len(o.steps) : o.steps[i].s = "settrl"

WithCause(o) == HasCx(o) /\ o.steps[CxI(o)].x = 1
TermTag(o) == (IF WithCause(o) THEN "cause+" ELSE "") \o
              IF PreCx(o) THEN "context-ended-before-call"
              ELSE IF SawCx(o) THEN "handler-returned-after-seeing-context-end"
              ELSE IF RetAfterCx(o) THEN "handler-returned-after-context-end"
              ELSE IF HasCx(o) THEN "context-end"
              ELSE IF RespThenErr(o) THEN "response-then-error"
              ELSE "plain"
LateOps(o) == HasCx(o) /\ \E i \in CxI(o)..Len(o.steps) : o.steps[i].c = "-" /\ o.steps[i].s \in {"sethdr", "sendhdr", "send", "settrl"}
LateSendHdr(o) == HasCx(o) /\ \E i \in CxI(o)..Len(o.steps) : o.steps[i].c = "-" /\ o.steps[i].s = "sendhdr"
\* a SetHeader after an explicit SendHeader or a message of the handler
LateSetHdr(o) == \E i \in 1..Len(o.steps) : o.steps[i].s = "sethdr" /\ (~HasCx(o) \/ i < CxI(o))
                                           /\ \E k \in 1..(i - 1) : o.steps[k].s \in {"sendhdr", "send"}
HdrTag(o) == IF LateSetHdr(o) THEN "set-header-after-headers-sent" ELSE
             IF LateSendHdr(o) THEN "handler-sent-header-after-context-end" ELSE
             IF LateOps(o) THEN "handler-continued-after-context-end" ELSE
             IF HdrSetUnsent(o) /\ (~HasCx(o) \/ RetI(o) < CxI(o)) THEN "set-but-no-message-sent"
             ELSE IF HasCx(o) THEN "context-end" ELSE "plain"
TrlTag(o) == IF TrlAfterResp(o) THEN "set-after-response" ELSE IF RespThenErr(o) THEN "response-then-error"
             ELSE IF HasCx(o) THEN "context-end" ELSE "plain"

\* ---- conformance of one transcript
Allowed(o) == { Transcript(s) : s \in Run(o.shape, o.req, o.mdk, o.steps) }
\* what the server saw once the client's context ended is not asserted
Seen(o, t) == [msgs |-> t.msgs, term |-> t.term, hdrs |-> t.hdrs, trls |-> t.trls, reqmd |-> t.reqmd,
               srecv |-> IF HasCx(o) THEN SelectSeq(t.srecv, LAMBDA r : r.i < CxI(o)) ELSE t.srecv,
               \* whether SetHeader reported an error to the handler (not which), while the call was live
               shdr |-> IF HasCx(o) THEN SelectSeq(t.shdr, LAMBDA r : r.i < CxI(o)) ELSE t.shdr]
SeqMatch(e, g) == Len(e) = Len(g) /\ \A k \in 1..Len(e) : MDMatch(e[k], g[k])
\* A client that finds its own writes in a later metadata read was handed the stream's map:
\* that is the copy clause; the metadata values of such a transcript are not judged again
\* (they are the client's own scribble).
OwnWrites(t0) == \E k \in 1..Len(t0.alias) : t0.alias[k] = "client-write-seen-in-later-metadata-read"
MdMatch(e, g, own) == IF own THEN Len(e) = Len(g) ELSE SeqMatch(e, g)
Match(e, t, own) == /\ e.msgs = t.msgs /\ e.term = t.term /\ MdMatch(e.hdrs, t.hdrs, own) /\ MdMatch(e.trls, t.trls, own)
                    /\ e.srecv = t.srecv /\ e.shdr = t.shdr /\ (e.reqmd = -2 \/ e.reqmd = t.reqmd)

CallFails(o, t0) ==
  LET t == Seen(o, t0)  A == Allowed(o)  own == OwnWrites(t0) IN
  IF t0.skip THEN {}
  ELSE IF Len(t0.hang) > 0 THEN {"hang:" \o TermTag(o)}
  ELSE (IF \E e \in A : Match(e, t, own) THEN {}
        ELSE LET parts ==
                   If(\E e \in A : e.msgs = t.msgs, "messages:" \o TermTag(o))
                   \cup If(\E e \in A : e.term = t.term, "outcome:" \o TermTag(o))
                   \cup If(\E e \in A : MdMatch(e.hdrs, t.hdrs, own), "header:" \o HdrTag(o))
                   \cup If(\E e \in A : MdMatch(e.trls, t.trls, own), "trailer:" \o TrlTag(o))
                   \cup If(\E e \in A : e.srecv = t.srecv, "server-received:" \o TermTag(o))
                   \cup If(\E e \in A : e.shdr = t.shdr, "set-header-result:" \o HdrTag(o))
                   \cup If(\E e \in A : e.reqmd = -2 \/ e.reqmd = t.reqmd, "request-metadata:" \o (IF o.mdk = 2 THEN "incoming-only-context" ELSE IF o.mdk = 1 THEN "no-metadata" ELSE TermTag(o)))
             IN IF parts = {} THEN {"combination:" \o (IF HdrTag(o) = "set-but-no-message-sent" THEN HdrTag(o) ELSE TermTag(o))}
                ELSE parts)
       \cup { "copy:" \o t0.alias[k] : k \in 1..Len(t0.alias) }
       \cup If(t0.leak = 0, "goroutine-left-behind:" \o TermTag(o))

\* ---- calls that must be refused
Actual(m) == CASE m = "Unary" -> <<FALSE, FALSE>> [] m = "ServerStream" -> <<FALSE, TRUE>>
               [] m = "ClientStream" -> <<TRUE, FALSE>> [] m = "BidiStream" -> <<TRUE, TRUE>> [] OTHER -> <<FALSE, FALSE>>
Known(o) == o.svc = "ok" /\ o.method \in {"Unary", "ServerStream", "ClientStream", "BidiStream"}
\* (Invoke on a streaming method is a shape mismatch too, but the wrapper has no stream
\*  descriptor to compare then; the text does not settle which of the two errors applies:
\*  not generated, not asserted.)
ProbeFails(o, t, ref) ==
  IF Len(t.hang) > 0 THEN {"hang:refused-call"}
  ELSE IF ~Known(o) THEN If(t.term.code = "Unimplemented", "unknown-method:" \o o.via)
  ELSE IF o.via = "stream" /\ <<o.cs, o.ss>> # Actual(o.method) /\ ~ref
       THEN If(t.term.code = "Internal", "shape-mismatch:" \o o.method)   \* (a real connection cannot know the client's descriptor)
  ELSE {}

WFails(o) == IF o.kind = "probe" THEN ProbeFails(o, o.w, FALSE) \cup If(o.w.leak = 0, "goroutine-left-behind:refused-call")
             ELSE CallFails(o, o.w)
GFails(o) == IF o.kind = "probe" THEN ProbeFails(o, o.g, TRUE) ELSE CallFails(o, [o.g EXCEPT !.leak = 0])

BadLines == { k \in 1..Len(Obs) : WFails(Obs[k]) # {} \/ GFails(Obs[k]) # {} }
Skipped == Cardinality({ k \in 1..Len(Obs) : Obs[k].kind = "call" /\ (Obs[k].w.skip \/ Obs[k].g.skip) })
Ambiguous == Cardinality({ k \in 1..Len(Obs) : Obs[k].kind = "call" /\ Cardinality(Allowed(Obs[k])) > 1 })
TraceInit == c = 0
TraceNext == UNCHANGED c
EmitBad == \A k \in BadLines : PrintT("BAD " \o ToJson([line |-> k, fails |-> WFails(Obs[k]), ref |-> GFails(Obs[k])]))
TraceChecked == EmitBad /\ PrintT("SKIPPED " \o ToString(Skipped)) /\ PrintT("AMBIGUOUS " \o ToString(Ambiguous))
                /\ PrintT("CHECKED " \o ToString(Len(Obs)))
=============================================================================
