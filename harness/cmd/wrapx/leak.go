package main

import (
	"context"
	"runtime"
	"strings"
	"time"

	"google.golang.org/grpc"
	"google.golang.org/grpc/codes"

	"github.com/smart-core-os/sc-golang/verifharness/hx"
)

const wrapFrame = "sc-golang/pkg/wrap."

var leakBaseline int

func goroutineStacks() []string {
	buf := make([]byte, 1<<20)
	for {
		n := runtime.Stack(buf, true)
		if n < len(buf) {
			buf = buf[:n]
			break
		}
		buf = make([]byte, 2*len(buf))
	}
	return strings.Split(string(buf), "\n\n")
}

// wrapGoroutines counts the goroutines that have a pkg/wrap frame on their stack.
func wrapGoroutines() int {
	n := 0
	for _, g := range goroutineStacks() {
		if strings.Contains(g, wrapFrame) {
			n++
		}
	}
	return n
}

func wrapGoroutineDump() string {
	var res []string
	for _, g := range goroutineStacks() {
		if strings.Contains(g, wrapFrame) {
			var keep []string
			for _, l := range strings.Split(g, "\n") {
				if !strings.HasPrefix(l, "\t") {
					keep = append(keep, l)
				}
			}
			res = append(res, strings.Join(keep, " < "))
		}
	}
	s := strings.Join(res, " || ")
	if len(s) > 1500 {
		s = s[:1500]
	}
	return s
}

// waitNoWrapGoroutines polls (bounded) until the number of pkg/wrap goroutines is back at
// the baseline and returns how many are left above it.
func waitNoWrapGoroutines(bound time.Duration) int {
	deadline := time.Now().Add(bound)
	sleep := 50 * time.Microsecond
	for {
		n := wrapGoroutines()
		if n <= leakBaseline {
			leakBaseline = n
			return 0
		}
		if time.Now().After(deadline) {
			return n - leakBaseline
		}
		time.Sleep(sleep)
		if sleep < 20*time.Millisecond {
			sleep *= 2
		}
	}
}

// drainLeak accepts the goroutines that are still there as the new baseline so that one
// leak is reported once.
func drainLeak() bool {
	leakBaseline = wrapGoroutines()
	return leakBaseline < 200
}

// runProbe performs one call that must be refused: unknown method / service, or a stream
// opened with a shape the method does not have.
func runProbe(conn grpc.ClientConnInterface, c Case) Transcript {
	t := emptyTranscript()
	svc := "sc.go.test.TestApi"
	if c.Svc == "other" {
		svc = "sc.go.test.OtherApi"
	}
	method := "/" + svc + "/" + c.Method
	shape := map[string]string{"Unary": "unary", "ServerStream": "sstream", "ClientStream": "cstream", "BidiStream": "bidi"}[c.Method]
	if shape == "" {
		shape = "unary"
	}
	ctx, cancel := contextWithTimeout(stepTimeout)
	defer cancel()
	var err error
	if c.Via == "invoke" {
		err = conn.Invoke(ctx, method, mkReq(shape, 1), newRespEmpty(shape))
	} else {
		var s grpc.ClientStream
		s, err = conn.NewStream(ctx, &grpc.StreamDesc{StreamName: c.Method, ClientStreams: c.CS, ServerStreams: c.SS}, method)
		if err == nil {
			// the refusal may only arrive with the first read (it does over a real connection)
			_ = s.SendMsg(mkReq(shape, 1))
			_ = s.CloseSend()
			err = s.RecvMsg(newRespEmpty(shape))
			if err == nil {
				err = s.RecvMsg(newRespEmpty(shape))
			}
		}
	}
	t.Term = outcome(err)
	if hx.Code(err) == codes.DeadlineExceeded.String() {
		t.Hang = append(t.Hang, 1)
	}
	return t
}

func contextWithTimeout(d time.Duration) (context.Context, context.CancelFunc) {
	return context.WithTimeout(context.Background(), d)
}
