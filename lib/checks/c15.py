"""C15: paged List RPCs enumerate every item exactly once.

spec/Paging.tla is model-checked (small Default/Max), then walks the property's (n, size) grid with
the library's constants and prints the cases with random id sets; harness 'paging' fills each of the
seven paged model servers, follows the page tokens and logs the pages; spec/PagingTrace.tla decides.
"""
import collections

import vf

DEFAULT, MAX = 50, 1000


def run(ctx):
    thorough = ctx.tier == "thorough"
    scope = 2 if thorough else 1
    # 1. MC: the (items, token) state machine with small constants (thorough: also default = cap and
    #    default = 1, so that the default/cap case analysis is covered in every relation)
    for default, cap, sc in ([(2, 4, 2), (1, 5, 2), (3, 3, 1)] if thorough else [(2, 4, 1)]):
        ctx.mc("Paging", "PagingMC.cfg", consts={"Default": default, "Max": cap, "Scope": sc},
               workers=vf.NCPU, deadlock=False, timeout=1500)
    # 2. Gen: the same state machine walks the grid with the real constants (one worker: the random
    #    id sets are then a function of the seed)
    gen = ctx.tlc("Paging", "PagingGen.cfg", consts={"Default": DEFAULT, "Max": MAX, "Scope": scope},
                  workers=1, deadlock=False, timeout=1500)
    cases = gen.cases()
    if len(cases) < 300:
        raise vf.Inconclusive("Gen produced only %d cases\n%s" % (len(cases), gen.out[-2000:]))
    for c in cases:
        if len(c["ids"]) != c["n"]:
            raise vf.Inconclusive("Gen case with %d ids for n=%d" % (len(c["ids"]), c["n"]))
    cpath = ctx.write_ndjson("cases.ndjson", cases)
    # 3. the real servers
    obs_path = ctx.path("obs.ndjson")
    ctx.run_harness(["-cases", cpath, "-out", obs_path], timeout=3000, cmd="paging")
    obs = ctx.read_ndjson(obs_path)
    want = sum((6 if c["sch"] == "lastkey" else 1) * (len(c["segs"]) if c["k"] == "hist" else 1) for c in cases)
    if len(obs) != want:
        raise vf.Inconclusive("harness produced %d observations, expected %d" % (len(obs), want))
    servers = sorted(set(o["srv"] for o in obs))
    if len(servers) != 7:
        raise vf.Inconclusive("expected the seven paged RPCs, harness drove %s" % servers)
    for o in obs:
        if o["k"] != "hist" and o["n"] != cases[o["case"]]["n"]:
            raise vf.Inconclusive("%s could not be filled with %d items (holds %d)" %
                                  (o["srv"], cases[o["case"]]["n"], o["n"]))
    # 4. Trace: the property predicates, evaluated by TLC on every walk
    tr = ctx.tlc("PagingTrace", "PagingTrace.cfg", consts={"Default": DEFAULT, "Max": MAX, "Scope": 1},
                 workers=1, files={"obs.ndjson": obs_path}, timeout=3000)
    if not any(l.startswith('"CHECKED %d"' % len(obs)) for l in tr.out.splitlines()):
        raise vf.Inconclusive("trace check did not cover all %d observations:\n%s" % (len(obs), tr.out[-3000:]))
    ctx.count(len(obs))
    ctx.cov["traces_validated_against_impl"] += len(obs)
    ctx.cov["requests_sent"] = sum(o["calls"] for o in obs)
    for b in tr.cases("BAD "):
        o = obs[b["line"] - 1]
        for clause in b["fails"]:
            ctx.violation(signature(o, clause),
                          "%s, %d items, page_size=%d, first token %s: clause '%s' false on what the server did%s" %
                          (o["srv"], o["n"], o["size"], o["tclass"], clause,
                           (" (" + o["panic"] + ")") if clause == "panic" else ""),
                          witness(o, cases[o["case"]]))
    # information (not a verdict): how many real walks have exactly the reference page boundaries
    same = differ = 0
    shapes = collections.Counter()
    writes = collections.Counter()
    for o in obs:
        c = cases[o["case"]]
        if o["k"] in ("walk", "sched") and c["expect"] == "pages" and o["err"] == "OK" and o["ended"]:
            if o["lens"] == c["lens"]:
                same += 1
            else:
                differ += 1
        nontrivial = o["calls"] > 1 or o["err"] != "OK" or o["panic"] != "" or any(w["sup"] for w in o["ops"])
        if nontrivial:
            ctx.distinct((o["srv"], o["n"], o["size"], o["tclass"], c["ids"], o["ops"]))
        if o["k"] == "hist" and o["seg"] == len(c["segs"]):
            for w in o["ops"]:
                writes[(w["kind"], "unsupported" if not w["sup"] else "accepted" if w["ok"] else "refused")] += 1
        shapes[(o["k"], "error" if o["err"] != "OK" else "ok")] += 1
    ctx.cov["walks_with_reference_page_boundaries"] = same
    ctx.cov["walks_with_other_page_boundaries"] = differ
    ctx.cov["servers"] = servers
    ctx.cov["observation_kinds"] = {"%s/%s" % k: v for k, v in sorted(shapes.items())}
    ctx.cov["writes_before_walks"] = {"%s/%s" % k: v for k, v in sorted(writes.items())}
    ctx.cov["unsorted_listings"] = sum(1 for o in obs if not o["sorted"] and o["scheme"] == "lastkey")
    for o in obs[:1] + obs[len(obs) // 3: len(obs) // 3 + 2] + obs[-2:]:
        ctx.sample(witness(o, cases[o["case"]]))
    ctx.cov["rule"] = ("cases printed by TLC from spec/Paging.tla: collection sizes %s plus 999, 1000, 1001 x page sizes "
                       "-5..0, 1, 2, 3, 7, 50, 1000, 5000 and random ones, with random id sets drawn from a dense "
                       "prefix-closed key space over a digit, upper/lower case, accented and CJK characters (many ids are "
                       "prefixes of each other; byte order differs from case-folded / collated order); plus 9 classes of corrupted / "
                       "foreign first tokens per scheme; plus walks whose page size changes from call to call (growing, shrinking, "
                       "0 = default, at / around / above the collection size, random schedules); plus walks after random "
                       "histories of the trait's write operations; each case runs on every model server of its token scheme "
                       "(6 last-key servers, waste's index scheme); one evaluation = one followed token chain; "
                       "non-trivial = more than one request, an error or a panic; distinct = distinct (server, n, "
                       "size, token class, id set)" % ("0..60" if thorough else "0..12, 24, 25, 49..51, 60, 3 random"))
    ctx.assumptions.append("the listing's order is taken from the model's own un-paged list method (for waste: "
                           "insertion order reversed, newest first as documented)")
    ctx.assumptions.append("ids are non-empty; an item with the empty id cannot be created through the model APIs that "
                           "invent ids, and is not exercised")


def size_class(size):
    if size < 0:
        return "negative-size"
    if size == 0:
        return "default-size"
    if size > MAX:
        return "size-over-cap"
    return "size-in-range"


def signature(o, clause):
    """C15/<rpc>/<clause>/<input class>: the clause, the RPC and the class of the request."""
    if o["k"] == "tok":
        return "C15/%s/%s/token=%s" % (o["srv"], clause, o["tclass"])
    cls = size_class(o["size"])
    if o["k"] == "sched":
        # how the page size changes along the chain
        sz = [DEFAULT if x == 0 else min(x, MAX) for x in o["sizes"]]
        kind = "grows" if sz == sorted(sz) else "shrinks" if sz == sorted(sz, reverse=True) else "mixed"
        if any(b >= o["n"] > a for a, b in zip(sz, sz[1:])):
            kind += "-to-whole-collection"
        if 0 in o["sizes"]:
            kind += "-with-default"
        return "C15/%s/%s/changing-page-size/%s" % (o["srv"], clause, kind)
    if o["k"] == "hist":
        # the writes that came before the walk: kinds that were refused / accepted
        refused = sorted(set(w["kind"] for w in o["ops"] if w["sup"] and not w["ok"]))
        accepted = sorted(set(w["kind"] for w in o["ops"] if w["sup"] and w["ok"]))
        return "C15/%s/%s/after-writes/refused=%s/accepted=%s" % (o["srv"], clause, "+".join(refused) or "none",
                                                                 "+".join(accepted) or "none")
    if clause in ("item-repeated", "item-missing", "items-out-of-listing-order", "item-not-in-listing",
                  "token-chain-did-not-end", "error-on-valid-request"):
        cap = DEFAULT if o["size"] == 0 else min(o["size"], MAX)
        shape = "empty" if o["n"] == 0 else "single-page" if o["n"] < cap else \
            "ends-on-page-boundary" if o["n"] % cap == 0 else "partial-last-page"
        cls += "/" + shape
    return "C15/%s/%s/%s" % (o["srv"], clause, cls)


def witness(o, c):
    w = dict(o)
    if len(w["flat"]) > 80:
        w["flat"] = w["flat"][:40] + ["..."] + w["flat"][-20:]
    for k in ("lens", "totals"):
        if len(w[k]) > 40:
            w[k] = w[k][:20] + ["..."] + w[k][-10:]
    w["reference_lens"] = c["lens"] if len(c["lens"]) <= 40 else c["lens"][:20] + ["..."]
    w["ids"] = c["ids"] if len(c["ids"]) <= 12 else c["ids"][:12] + ["..."]
    if c["k"] == "hist":
        w["spec_listing"] = c["segs"][o["seg"] - 1]["listing"]
    else:
        for k in ("init", "ops", "flatKeys", "seg"):
            w.pop(k, None)
    return w


MANIFEST = {'engine': "spec/Paging.tla + spec/PagingTrace.tla (TLC) + harness 'paging'",
 'technique': 'TLA+ state machine (items, token) for the last-key and the descending-index token schemes; TLC '
              'model-checks it over all small listings, walks the (n, page size) grid with the library constants '
              'and prints cases with random prefix-heavy id sets; the harness follows the token chains of the seven '
              'real List RPCs; TLC evaluates the property clauses on the recorded pages',
 'text': 'Paging.tla defines Page(items, token, size) for both token schemes and a Walk action. With Default=2, '
         'Max=4 TLC checks for every listing of up to 6-7 keys that are prefixes of each other, every page size '
         '-2..6 and every start token (none, any present or absent key, any index -1..n+1, garbage) that the '
         'chain ends within n+2 pages, delivers exactly the wanted items once and in order, respects the page '
         'size, reports total_size, answers negative sizes / garbage tokens with an error and never indexes out '
         'of range. The same machine then walks n in 0..60 + {999,1000,1001} x the listed page sizes with 50/1000; '
         'the harness fills electric ListModes, hail ListHails, parent ListChildren, publication ListPublications, '
         'vending ListConsumables/ListInventory and waste ListWasteRecords with the generated ids, follows '
         'next_page_token (bound 2n+5 requests), also starting from 9 classes of corrupted or foreign tokens, and '
         'and after histories of the trait\'s write operations (create / update / delete with and without allow-missing / '
         'bad field mask / trait-specific refused and accepted writes such as Dispense, AcknowledgePublication, '
         'UpdateActiveMode; generated by TLC, interleaved before and between walks); '
         'PagingTrace.tla requires on every recorded chain: no panic, termination, error status for negative size '
         'and undecodable tokens, concatenation of pages = the un-paged listing, page <= requested (default 50, cap '
         '1000), total_size = n; after a history the pages must be exactly the key set '
         'the specification computes from the writes (a failed write changes nothing). Bounded model checking of the design plus conformance on the grid; not a proof.',
 'note': 'Trusted base: TLC evaluating the TLA+ predicates; the harness reporting faithfully what the servers '
         'returned (items are reported as positions in the model\'s own un-paged listing). Servers are called '
         'in-process through their RPC methods, not through a gRPC connection (a plain Go error from waste counts '
         'as an error status). Exact page boundaries, the status code of errors and decodable-but-foreign tokens '
         'are deliberately not judged. The waste model is emptied through reflection because NewModel always '
         'invents 100 records.'}
