SPECIFICATION Spec
CONSTANTS
  Writers <- W2
  Subs <- S2
  Ids <- I1
  MaxV = 6
  Programs <- SubCollPrograms
  SubKinds <- KindsMask
  InitStores <- CollStores
  PublishAfterUnlock = FALSE
  CreatedRevalidated = TRUE
  DeleteHoldsLock = TRUE
  SnapHoldsLock = TRUE
  DeleteRechecks = TRUE
  Equiv = "none"
  SubSer = FALSE
  MayCancel = FALSE
  SnapAtCommit = TRUE
  CollectLive = TRUE
VIEW ViewNoHist
INVARIANTS TypeOK CommitValid EffectOnce LoserCodes Converged NoCommitMissed
CHECK_DEADLOCK FALSE
