------------------------------ MODULE WrapGen ------------------------------
(***************************************************************************)
(* Gen use of Wrap.tla: random walks through the grammar Legal of          *)
(* well-matched scripts (five call shapes, 0..MaxMsgs messages each way,    *)
(* header / trailer / error / cancel / deadline / half-close wherever the   *)
(* grammar allows them), printed as CASE lines, plus the exhaustive list    *)
(* of calls that must be refused (unknown method, wrong streaming shape).   *)
(* No verdict here: the harness runs every script through the wrapper and   *)
(* through a real gRPC connection and WrapTrace.tla judges the transcripts. *)
(***************************************************************************)
EXTENDS Wrap, Json

CONSTANTS NCases, MaxMsgs, MaxLen,
          CxPct,    \* chance (per step, in %) of ending the client's context where the grammar allows it
          DlPct     \* share (in %) of scripts whose context carries a deadline
VARIABLE c

R(X) == RandomElement(X)
D0(dl) == [vals |-> {0}, mds |-> {0}, codes |-> {"?"}, xs |-> {0}, causes |-> {0}, maxc |-> MaxMsgs, maxs |-> MaxMsgs, dl |-> dl]
CodesW == <<"OK", "OK", "OK", "OK", "NotFound", "NotFound", "Aborted", "Raw", "Unknown", "CtxCanceled", "Canceled",
            "DeadlineExceeded", "CtxDeadline", "Internal", "Unimplemented">>

Fill(z, shape, e) ==
  [e EXCEPT !.v = IF e.c \in {"send", "invoke"} \/ (e.c = "open" /\ shape = "sstream") \/ e.s \in {"send", "return"} THEN R(1..9) ELSE 0,
            !.md = IF e.s \in {"sethdr", "sendhdr", "settrl"} THEN R(1..4) ELSE 0,
            !.x = IF e.s \in {"sethdr", "sendhdr", "settrl"} THEN R(0..3)             \* helper / recycled MD
                  ELSE IF e.c \in {"cancel", "deadline"} THEN R(0..1) ELSE 0,                \* context with a cause
            !.code = IF e.s = "return" THEN CodesW[R(1..Len(CodesW))] ELSE ""]

\* one kind of step, by weight: message exchanges first, metadata reads last; the end of the
\* client's context is kept rare enough for scripts to get somewhere before it
Weight(e) ==
  CASE e.c = "recv" /\ e.s = "send" -> 7
    [] e.c = "send" /\ e.s = "recv" -> 6
    [] e.c = "-" /\ e.s = "send" -> 6
    [] e.c = "recv" /\ e.s = "-" -> 3
    [] e.c = "-" /\ e.s \in {"sethdr", "sendhdr", "settrl", "recv", "wait", "return"} -> 2
    [] e.c = "close" /\ e.s = "-" -> 2
    [] OTHER -> 1
\* once the handler has seen the end of the context: mostly the handler carrying on
\* regardless and the client looking at what it can still see
LateWeight(e) ==
  CASE e.c = "-" /\ e.s \in {"sethdr", "send"} -> 5
    [] e.c = "-" /\ e.s \in {"sendhdr", "settrl"} -> 2
    [] e.c \in {"header", "recv"} -> 3
    [] e.c = "-" /\ e.s = "wait" -> 1
    [] OTHER -> 2
Weighted(L) == LET p == R(UNION { { <<e, k>> : k \in 1..Weight(e) } : e \in L }) IN p[1]
LateWeighted(L) == LET p == R(UNION { { <<e, k>> : k \in 1..LateWeight(e) } : e \in L }) IN p[1]
Pick(z, L) ==
  LET Lc == { e \in L : e.c \in {"cancel", "deadline"} }
      Ln == L \ Lc
  IN IF Ln = {} \/ (Lc # {} /\ R(1..100) <= CxPct) THEN R(Lc) ELSE Weighted(Ln)
PickLate(z, L) == LateWeighted(L)

Finishers(L) == LET A == { e \in L : e.s = "return" /\ e.c = "-" } IN
                IF A # {} THEN A ELSE { e \in L : e.c = "recv" /\ e.s = "-" }

RECURSIVE Walk(_, _, _, _)
Walk(z, st, steps, dl) ==
  LET L == Legal(st, D0(dl))
      len == Len(steps)
      stopPct == IF st.term.has THEN 45 ELSE 12
  IN IF CanStop(st) /\ (L = {} \/ len >= MaxLen \/ R(1..100) <= stopPct) THEN steps
     ELSE LET e0 == IF len >= MaxLen /\ Finishers(L) # {} THEN R(Finishers(L))
                    ELSE IF st.waited /\ ~st.ret THEN PickLate(z, L) ELSE Pick(z, L)
              e == WithJ(st, Fill(z, st.shape, e0))
          IN Walk(z, R(Step(st, e, len + 1)), Append(steps, e), dl)

ShapeW == <<"unary", "sstream", "sstream", "cstream", "cstream", "bidi", "bidi", "bidi", "ustream">>
Call(k) ==
  LET shape == ShapeW[(k % Len(ShapeW)) + 1]
      req == R(1..9)
      steps == Walk(k, New(shape, req), <<>>, R(1..100) <= DlPct)
      hasCx == \E i \in 1..Len(steps) : steps[i].c \in {"cancel", "deadline"}
      \* contexts without outgoing metadata only on calls that run to their end (the harness
      \* finds the script of such a call by elimination)
      mdk == IF hasCx THEN 0 ELSE <<0, 0, 0, 0, 1, 2, 2>>[R(1..7)]
  IN [n |-> k, kind |-> "call", shape |-> shape, req |-> req, mdk |-> mdk, steps |-> steps,
      dl |-> \E i \in 1..Len(steps) : steps[i].c = "deadline",
      via |-> "", method |-> "", svc |-> "", cs |-> FALSE, ss |-> FALSE]

\* calls that must be refused
Methods == {"Unary", "ServerStream", "ClientStream", "BidiStream"}
Probe(k, via, method, svc, cs, ss) ==
  [n |-> k, kind |-> "probe", shape |-> "", req |-> 0, mdk |-> 0, steps |-> <<>>, dl |-> FALSE,
   via |-> via, method |-> method, svc |-> svc, cs |-> cs, ss |-> ss]
ProbeTuples ==
  { <<"stream", m, "ok", cs, ss>> : m \in Methods, cs \in BOOLEAN, ss \in BOOLEAN }
  \cup { <<"stream", m, svc, cs, ss>> : m \in {"Nope"}, svc \in {"ok", "other"}, cs \in BOOLEAN, ss \in BOOLEAN }
  \cup { <<"stream", "Unary", "other", cs, ss>> : cs \in BOOLEAN, ss \in BOOLEAN }
  \cup { <<"invoke", "Nope", "ok", FALSE, FALSE>>, <<"invoke", "Unary", "other", FALSE, FALSE>>, <<"invoke", "", "ok", FALSE, FALSE>> }
ProbeSeq == LET RECURSIVE ToSeq(_)
                ToSeq(X) == IF X = {} THEN <<>> ELSE LET x == CHOOSE y \in X : TRUE IN <<x>> \o ToSeq(X \ {x})
            IN ToSeq(ProbeTuples)
Probes == { LET p == ProbeSeq[k] IN Probe(NCases + k, p[1], p[2], p[3], p[4], p[5]) : k \in 1..Len(ProbeSeq) }

GenInit == c \in { Call(k) : k \in 1..NCases } \cup Probes
GenNext == UNCHANGED c
EmitCase == PrintT("CASE " \o ToJson(c))
=============================================================================
