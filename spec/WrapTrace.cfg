INIT TraceInit
NEXT TraceNext
INVARIANT TraceChecked
CONSTANT HandsOverSendersMessage = FALSE
CONSTANT LateSetHeaderJoins = FALSE
