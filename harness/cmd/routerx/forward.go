package main

import (
	"context"
	"fmt"
	"math/rand"
	"os"
	"sort"
	"strings"

	"google.golang.org/grpc"
	"google.golang.org/grpc/status"
	"google.golang.org/protobuf/proto"
	"google.golang.org/protobuf/reflect/protoreflect"
	"google.golang.org/protobuf/types/known/durationpb"
	"google.golang.org/protobuf/types/known/wrapperspb"

	"github.com/smart-core-os/sc-golang/pkg/middleware/name"
	"github.com/smart-core-os/sc-golang/pkg/router"
	"github.com/smart-core-os/sc-golang/pkg/wrap"
	"github.com/smart-core-os/sc-golang/verifharness/hx"
)

// script is one case printed by spec/Forward.tla (ForwardGen.cfg).
type script struct {
	ID     int      `json:"id"`
	Name   string   `json:"name"`   // the name the caller puts in the request
	Icpt   bool     `json:"icpt"`   // default-name interceptor installed in front of the router
	Dflt   string   `json:"dflt"`   // ... with this default name
	Reg    []nc     `json:"reg"`    // clients added to the router before the call
	HasFb  bool     `json:"hasfb"`  // WithFallback configured
	Fb     []nc     `json:"fb"`     // ... which knows these names
	HasFac bool     `json:"hasfac"` // factory configured
	Fac    []nc     `json:"fac"`    // ... which can create these names
	Refuse string   `json:"refuse"` // how fallback/factory refuse other names: "nil" | "err"
	Typed  bool     `json:"typed"`  // factory installed through the generated With<Client>Factory
	K      int      `json:"k"`
	Hdr    []kv     `json:"hdr"`
	Trl    []kv     `json:"trl"`
	ErrAt  int      `json:"errAt"`
	Code   string   `json:"code"`
	Msg    string   `json:"msg"`
	Cf     int      `json:"cf"`     // caller failure: -1 never, 0 SendHeader, j = j-th Send
	Rep    int      `json:"rep"`    // the same request is issued this many times
	Via    string   `json:"via"`    // "conn": clients over the recording connection; "wrap": over wrap.ServerToClient around an in-process server
	Shapes []string `json:"shapes"` // how the child populates its j-th message
}

type fwdObs struct {
	Kind     string     `json:"kind"` // "fwd"
	Pkg      string     `json:"pkg"`
	Ctor     string     `json:"ctor"`
	Svc      string     `json:"svc"`
	Method   string     `json:"method"`
	Stream   bool       `json:"stream"`
	CStream  bool       `json:"cstream"`
	HasName  bool       `json:"hasname"`
	S        script     `json:"s"`
	Inv      int        `json:"inv"`
	Reg      []nc       `json:"reg"`  // registry read back before the call
	Post     []nc       `json:"post"` // ... and after
	WantM    string     `json:"wantm"`
	Calls    []*callRec `json:"calls"`
	FbCalls  []string   `json:"fbcalls"`
	FacCalls []string   `json:"faccalls"`
	Ev       []string   `json:"ev"`
	Msgs     []int      `json:"msgs"`
	Hdr      []kv       `json:"hdr"`
	Trl      []kv       `json:"trl"`
	Code     string     `json:"code"`
	Msg      string     `json:"msg"`
	TrlEarly bool       `json:"trlearly"`
	Cancel   bool       `json:"cancel"`
	Panic    string     `json:"panic"`
}

// setName sets the string field `name` of m; reports whether there is one.
func setName(m proto.Message, n string) bool {
	fd := m.ProtoReflect().Descriptor().Fields().ByName("name")
	if fd == nil || fd.Kind() != protoreflect.StringKind || fd.IsList() {
		return false
	}
	if n == "" {
		m.ProtoReflect().Clear(fd)
	} else {
		m.ProtoReflect().Set(fd, protoreflect.ValueOfString(n))
	}
	return true
}

// fwdWorld is one router with its fake children.
type fwdWorld struct {
	e       entry
	s       *script
	w       *world
	r       routerT
	ids     map[any]int // typed client -> id
	fbCalls []string
	facCall []string
	names   []string
}

func (fw *fwdWorld) client(id int) any {
	var cc grpc.ClientConnInterface = &fakeConn{w: fw.w, id: id}
	if fw.s.Via == "wrap" {
		// the usual child of a router: an in-process server behind the wrapper.  The server is another
		// instance of the same generated router that hands everything to the recording connection.
		leaf := fw.e.NewClient(cc)
		inner := fw.e.New(router.WithFallback(func(string) (any, error) { return leaf, nil }))
		cp := &capture{}
		inner.Register(cp)
		cc = wrap.ServerToClient(*cp.desc, cp.impl)
	}
	c := fw.e.NewClient(cc)
	fw.ids[c] = id
	return c
}

func newFwdWorld(e entry, s *script, rng *rand.Rand) *fwdWorld {
	fw := &fwdWorld{e: e, s: s, w: &world{rng: rng}, ids: map[any]int{}}
	lookup := func(tbl []nc, calls *[]string) func(string) (any, error) {
		return func(n string) (any, error) {
			*calls = append(*calls, n)
			for _, x := range tbl {
				if x.N == n {
					return fw.client(x.C), nil
				}
			}
			if s.Refuse == "err" {
				return nil, fmt.Errorf("no such device %q", n)
			}
			return nil, nil
		}
	}
	var opts []router.Option
	if s.HasFb {
		opts = append(opts, router.WithFallback(lookup(s.Fb, &fw.fbCalls)))
	}
	if s.HasFac {
		if s.Typed {
			opts = append(opts, e.TypedFactory(lookup(s.Fac, &fw.facCall)))
		} else {
			opts = append(opts, router.WithFactory(lookup(s.Fac, &fw.facCall)))
		}
	}
	fw.r = e.New(opts...)
	seen := map[string]bool{}
	add := func(n string) {
		if !seen[n] {
			seen[n] = true
			fw.names = append(fw.names, n)
		}
	}
	for _, x := range s.Reg {
		fw.r.Add(x.N, fw.client(x.C))
		add(x.N)
	}
	for _, x := range s.Fb {
		add(x.N)
	}
	for _, x := range s.Fac {
		add(x.N)
	}
	add(s.Name)
	add(s.Dflt)
	return fw
}

// readBack reads the registry through Has/Get (Get on a registered name has no side effects).
func (fw *fwdWorld) readBack() []nc {
	res := []nc{}
	for _, n := range fw.names {
		if !fw.r.Has(n) {
			continue
		}
		c, err := fw.r.Get(n)
		id := -1
		if err == nil {
			if v, ok := fw.ids[c]; ok {
				id = v
			}
		}
		res = append(res, nc{N: n, C: id})
	}
	return res
}

func cmdForward() {
	scripts := hx.ReadCases[script](hx.Arg("-cases", "cases.ndjson"))
	out := hx.NewOut(hx.Arg("-out", "obs.ndjson"))
	defer out.Close()
	only := hx.Arg("-only", "")
	nreq := hx.ArgInt("-nreq", 1)
	rng := hx.Rand(12)
	for _, e := range routers {
		if only != "" && !strings.Contains(e.Pkg+"."+e.Ctor, only) {
			continue
		}
		cp := &capture{}
		e.New().Register(cp)
		if cp.desc == nil || cp.n != 1 {
			hx.Fatal("%s.%s: Register did not register exactly one service", e.Pkg, e.Ctor)
		}
		desc := cp.desc
		nm := len(desc.Methods) + len(desc.Streams)
		for mi := 0; mi < nm; mi++ {
			// (handler panics are caught per invocation; this is for crashes that cannot be caught)
			hx.Current(map[string]any{"router": e.Pkg + "." + e.Ctor, "method_index": mi})
			for si := range scripts {
				for q := 0; q < nreq; q++ {
					s := scripts[si]
					fw := newFwdWorld(e, &s, rng)
					for inv := 1; inv <= s.Rep; inv++ {
						o := fw.invoke(desc, mi, inv)
						out.Write(o)
					}
				}
			}
		}
	}
	// the interceptors on their own, over the name alphabet of the scripts (which includes the
	// names that are not empty but look empty)
	alphabet := map[string]bool{"": true, "dflt": true}
	for _, s := range scripts {
		alphabet[s.Name] = true
	}
	names := make([]string, 0, len(alphabet))
	for n := range alphabet {
		names = append(names, n)
	}
	sort.Strings(names)
	icptDirect(out, rng, names)
	fmt.Fprintln(os.Stderr, "routerx forward: observations:", out.N)
}

func (fw *fwdWorld) invoke(desc *grpc.ServiceDesc, mi int, inv int) *fwdObs {
	s := fw.s
	e := fw.e
	// a fresh recording world per invocation, same router and clients
	w := fw.w
	w.calls, w.resps, w.trailerEarly, w.orig = nil, nil, false, nil
	w.shapes = s.Shapes
	w.cs = childScript{K: s.K, Hdr: mdOf(s.Hdr), Trl: mdOf(s.Trl), ErrAt: s.ErrAt}
	if s.ErrAt != -1 {
		w.cs.Err = status.Error(codeOf(s.Code), s.Msg)
	}
	fw.fbCalls, fw.facCall = nil, nil

	o := &fwdObs{Kind: "fwd", Pkg: e.Pkg, Ctor: e.Ctor, Svc: desc.ServiceName, S: *s, Inv: inv,
		Calls: []*callRec{}, FbCalls: []string{}, FacCalls: []string{}, Ev: []string{}, Msgs: []int{},
		Hdr: []kv{}, Trl: []kv{}}
	o.Reg = fw.readBack()

	// the caller's request: random content, the scripted name
	makeReq := func(in any) {
		m := in.(proto.Message)
		fillRandom(m.ProtoReflect(), w.rng, 3)
		o.HasName = setName(m, s.Name)
		w.orig = proto.Clone(m)
	}

	ctx, cancel := context.WithCancel(context.Background())
	defer cancel()
	var resp any
	var err error
	var ss *fakeServerStream
	if mi < len(desc.Methods) {
		md := desc.Methods[mi]
		o.Method = md.MethodName
		o.WantM = "/" + desc.ServiceName + "/" + md.MethodName
		var ic grpc.UnaryServerInterceptor
		if s.Icpt {
			ic = name.IfAbsentUnaryInterceptor(s.Dflt)
		}
		o.Panic = hx.Catch(func() {
			resp, err = md.Handler(fw.implOf(desc), ctx, func(in any) error { makeReq(in); return nil }, ic)
		})
		if o.Panic == "" && err == nil {
			if pm, ok := resp.(proto.Message); ok {
				o.Msgs = append(o.Msgs, matchResp(w.resps, 0, pm))
			} else {
				o.Msgs = append(o.Msgs, -1)
			}
		}
	} else {
		sd := desc.Streams[mi-len(desc.Methods)]
		o.Method = sd.StreamName
		o.WantM = "/" + desc.ServiceName + "/" + sd.StreamName
		o.Stream = true
		o.CStream = sd.ClientStreams
		ss = &fakeServerStream{ctx: ctx, failAt: s.Cf}
		ss.reqHook = makeReq
		o.Panic = hx.Catch(func() {
			if s.Icpt {
				ic := name.IfAbsentStreamInterceptor(s.Dflt)
				err = ic(fw.implOf(desc), ss, &grpc.StreamServerInfo{FullMethod: o.WantM, IsServerStream: true}, sd.Handler)
			} else {
				err = sd.Handler(fw.implOf(desc), ss)
			}
		})
		for j, m := range ss.sent {
			o.Msgs = append(o.Msgs, matchResp(w.resps, j, m))
		}
		o.Ev = append(o.Ev, ss.ev...)
		o.Hdr = kvOf(ss.hdr)
		o.Trl = kvOf(ss.trl)
	}
	o.Code = hx.Code(err)
	if st, ok := status.FromError(err); ok && err != nil {
		o.Msg = st.Message()
	} else if err != nil {
		o.Msg = err.Error()
	}
	o.Calls = append(o.Calls, w.calls...)
	for _, c := range w.calls {
		if c.ctx != nil && c.ctx.Err() != nil {
			o.Cancel = true
		}
	}
	o.FbCalls = append(o.FbCalls, fw.fbCalls...)
	o.FacCalls = append(o.FacCalls, fw.facCall...)
	o.TrlEarly = w.trailerEarly
	o.Post = fw.readBack()
	return o
}

// implOf returns the service implementation the router registered (the router itself).
func (fw *fwdWorld) implOf(_ *grpc.ServiceDesc) any {
	cp := &capture{}
	fw.r.Register(cp)
	return cp.impl
}

// matchResp names the message the caller received: j+1 when it equals the j-th message the child
// answered, otherwise the first child message it equals, 0 when it equals none.
func matchResp(resps []proto.Message, j int, got proto.Message) int {
	if j < len(resps) && proto.Equal(resps[j], got) {
		return j + 1
	}
	for i, r := range resps {
		if proto.Equal(r, got) {
			return i + 1
		}
	}
	return 0
}

// ---------------------------------------------------------------- the default-name interceptor on its own

type icptObs struct {
	Kind    string `json:"kind"` // "icpt"
	Via     string `json:"via"`  // "unary" | "stream"
	Type    string `json:"type"`
	HasName bool   `json:"hasname"` // the message has a singular string field `name`
	In      string `json:"in"`      // its value before
	Dflt    string `json:"dflt"`
	Out     string `json:"out"`    // its value as the handler saw it
	RestEq  bool   `json:"resteq"` // every other field unchanged
	Panic   string `json:"panic"`
}

type oneShotStream struct {
	grpc.ServerStream
	msg proto.Message
}

func (s *oneShotStream) RecvMsg(m any) error { proto.Merge(m.(proto.Message), s.msg); return nil }

// icptDirect applies the interceptors to messages with and without a name field.
func icptDirect(out *hx.Out, rng *rand.Rand, names []string) {
	protos := []proto.Message{}
	// every request type of the routed services has a name; add messages that have none
	protos = append(protos, &wrapperspb.StringValue{Value: "x"}, &durationpb.Duration{Seconds: 3})
	for _, e := range routers[:8] {
		cp := &capture{}
		e.New().Register(cp)
		for _, md := range cp.desc.Methods {
			// obtain an instance of the request type by running the handler's decode step only
			var got proto.Message
			hx.Catch(func() {
				md.Handler(cp.impl, context.Background(), func(in any) error {
					got = proto.Clone(in.(proto.Message))
					return fmt.Errorf("stop")
				}, nil)
			})
			if got != nil {
				protos = append(protos, got)
			}
		}
	}
	for _, proto0 := range protos {
		for _, in := range names {
			for _, via := range []string{"unary", "stream"} {
				m := proto0.ProtoReflect().New().Interface()
				fillRandom(m.ProtoReflect(), rng, 2)
				o := &icptObs{Kind: "icpt", Via: via, Type: string(m.ProtoReflect().Descriptor().FullName()), In: in, Dflt: "dflt"}
				o.HasName = setName(m, in)
				if !o.HasName {
					o.In = ""
				}
				before := proto.Clone(m)
				var seen proto.Message
				o.Panic = hx.Catch(func() {
					if via == "unary" {
						name.IfAbsentUnaryInterceptor("dflt")(context.Background(), m, &grpc.UnaryServerInfo{},
							func(ctx context.Context, req any) (any, error) {
								seen = proto.Clone(req.(proto.Message))
								return nil, nil
							})
					} else {
						name.IfAbsentStreamInterceptor("dflt")(nil, &oneShotStream{msg: m}, &grpc.StreamServerInfo{},
							func(srv any, stream grpc.ServerStream) error {
								x := m.ProtoReflect().New().Interface()
								if err := stream.RecvMsg(x); err != nil {
									return err
								}
								seen = x
								return nil
							})
					}
				})
				if seen != nil {
					a, n := stripName(seen)
					b, _ := stripName(before)
					o.Out = n
					o.RestEq = proto.Equal(a, b)
				}
				out.Write(o)
			}
		}
	}
}
