package main

import (
	"context"
	"reflect"
	"strings"

	"google.golang.org/grpc"
	"google.golang.org/grpc/metadata"
	"google.golang.org/protobuf/proto"
	"google.golang.org/protobuf/reflect/protoreflect"
	"google.golang.org/protobuf/reflect/protoregistry"
	"google.golang.org/protobuf/types/known/fieldmaskpb"

	"github.com/smart-core-os/sc-api/go/traits"
	"github.com/smart-core-os/sc-golang/pkg/trait/accesspb"
	"github.com/smart-core-os/sc-golang/pkg/trait/airqualitysensorpb"
	"github.com/smart-core-os/sc-golang/pkg/trait/airtemperaturepb"
	"github.com/smart-core-os/sc-golang/pkg/trait/bookingpb"
	"github.com/smart-core-os/sc-golang/pkg/trait/electricpb"
	"github.com/smart-core-os/sc-golang/pkg/trait/energystoragepb"
	"github.com/smart-core-os/sc-golang/pkg/trait/enterleavesensorpb"
	"github.com/smart-core-os/sc-golang/pkg/trait/fanspeedpb"
	"github.com/smart-core-os/sc-golang/pkg/trait/hailpb"
	"github.com/smart-core-os/sc-golang/pkg/trait/lightpb"
	"github.com/smart-core-os/sc-golang/pkg/trait/metadatapb"
	"github.com/smart-core-os/sc-golang/pkg/trait/meterpb"
	"github.com/smart-core-os/sc-golang/pkg/trait/modepb"
	"github.com/smart-core-os/sc-golang/pkg/trait/occupancysensorpb"
	"github.com/smart-core-os/sc-golang/pkg/trait/onoffpb"
	"github.com/smart-core-os/sc-golang/pkg/trait/openclosepb"
	"github.com/smart-core-os/sc-golang/pkg/trait/parentpb"
	"github.com/smart-core-os/sc-golang/pkg/trait/publicationpb"
	"github.com/smart-core-os/sc-golang/pkg/trait/vendingpb"
	"github.com/smart-core-os/sc-golang/pkg/trait/wastepb"
	"github.com/smart-core-os/sc-golang/verifharness/hx"
)

// The RPC layer.  A ModelServer adapts a model as a gRPC server; several of its methods add their own interceptors
// and callbacks to the write (relative mode adjustments, fan speed steps, publication acknowledgement...), which are
// handed the live stored message.  The driver is reflective: the services a ModelServer registers are captured from
// its own Register method, every unary and server-streaming method of their grpc.ServiceDesc becomes an operation,
// called through the generated handler (so the server gets exactly the request object and hands back exactly the
// response objects a grpc.Server would see, before serialisation), with requests filled from the descriptor.  The
// operations of the model underneath are part of the same walk: a message obtained from the model or from an earlier
// RPC must not change after ANY later RPC.

type registration struct {
	desc *grpc.ServiceDesc
	impl any
}
type captureRegistrar struct{ regs []registration }

func (c *captureRegistrar) RegisterService(d *grpc.ServiceDesc, impl any) {
	c.regs = append(c.regs, registration{d, impl})
}

// rpcStream is the grpc.ServerStream of a server-streaming call made in process.
type rpcStream struct {
	ctx context.Context
	req proto.Message
	ch  chan proto.Message
}

func (s *rpcStream) SetHeader(_ metadata.MD) error  { return nil }
func (s *rpcStream) SendHeader(_ metadata.MD) error { return nil }
func (s *rpcStream) SetTrailer(_ metadata.MD)       {}
func (s *rpcStream) Context() context.Context       { return s.ctx }
func (s *rpcStream) RecvMsg(m any) error            { proto.Merge(m.(proto.Message), s.req); return nil }
func (s *rpcStream) SendMsg(m any) error {
	msg, ok := m.(proto.Message)
	if !ok {
		return nil
	}
	select {
	case s.ch <- msg:
		return nil
	case <-s.ctx.Done():
		return s.ctx.Err()
	}
}

func isReadOnlyRPC(name string) bool {
	for _, p := range []string{"Get", "List", "Pull", "Describe"} {
		if strings.HasPrefix(name, p) {
			return true
		}
	}
	return false
}

func isWKT(md protoreflect.MessageDescriptor) bool {
	return strings.HasPrefix(string(md.FullName()), "google.protobuf.")
}

// payloadOf finds the message type a read mask of the method applies to: the response itself (Get), the element of
// its list (List), the value inside the change of its list of changes (Pull).
func payloadOf(out protoreflect.MessageDescriptor) protoreflect.MessageDescriptor {
	fds := out.Fields()
	for i := 0; i < fds.Len(); i++ {
		fd := fds.Get(i)
		if fd.IsList() && fd.Message() != nil && !isWKT(fd.Message()) {
			el := fd.Message()
			efs := el.Fields()
			for j := 0; j < efs.Len(); j++ {
				f := efs.Get(j)
				if f.Message() != nil && !f.IsList() && !f.IsMap() && !isWKT(f.Message()) && strings.HasSuffix(string(out.Name()), "Response") &&
					strings.HasPrefix(string(out.Name()), "Pull") {
					return f.Message()
				}
			}
			return el
		}
	}
	return out
}

// fillRequest fills a request from its descriptor: random fields from the small domains, field masks over the
// payload type, no page token most of the time.
func fillRequest(e *env, req proto.Message, out protoreflect.MessageDescriptor) {
	m := req.ProtoReflect()
	fill(e.r, m, 55, 0)
	fds := m.Descriptor().Fields()
	defer func() {
		// ids, versions, names: often a value that an earlier response carried in a field of the same name
		reuse := func(pm protoreflect.Message) {
			pf := pm.Descriptor().Fields()
			for i := 0; i < pf.Len(); i++ {
				fd := pf.Get(i)
				if fd.Kind() != protoreflect.StringKind || fd.IsList() || fd.IsMap() || !e.flip(60) {
					continue
				}
				if v, ok := e.t.known(string(fd.Name()), e.r); ok {
					pm.Set(fd, protoreflect.ValueOfString(v))
				}
			}
		}
		reuse(m)
		for i := 0; i < fds.Len(); i++ {
			fd := fds.Get(i)
			if fd.Message() != nil && !fd.IsList() && !fd.IsMap() && !isWKT(fd.Message()) && m.Has(fd) {
				reuse(m.Get(fd).Message())
			}
		}
	}()
	for i := 0; i < fds.Len(); i++ {
		fd := fds.Get(i)
		switch {
		case fd.Name() == "page_token" && e.flip(85):
			m.Clear(fd)
		case fd.Message() != nil && !fd.IsList() && !fd.IsMap() && !isWKT(fd.Message()) && !m.Has(fd) && e.flip(85):
			// the payload is usually there (several servers dereference it without looking)
			f := smallFiller
			f.fill(e.r, m.Mutable(fd).Message(), 55, 1)
		case fd.Message() != nil && fd.Message().FullName() == "google.protobuf.FieldMask" && !fd.IsList():
			if !e.flip(35) {
				m.Clear(fd)
				continue
			}
			target := payloadOf(out)
			if fd.Name() == "update_mask" {
				// the mask is over the message being written: the field of the request with the response's type, or
				// failing that the first message-typed field
				var first protoreflect.MessageDescriptor
				for j := 0; j < fds.Len(); j++ {
					f := fds.Get(j)
					if f.Message() == nil || f.IsList() || f.IsMap() || isWKT(f.Message()) {
						continue
					}
					if first == nil {
						first = f.Message()
					}
					if f.Message() == out {
						first = out
						break
					}
				}
				if first != nil {
					target = first
				}
			}
			if target.Fields().Len() == 0 {
				continue
			}
			mask := &fieldmaskpb.FieldMask{Paths: randPathsL(e.r, target, fd.Name() != "update_mask" && e.flip(40))}
			m.Set(fd, protoreflect.ValueOfMessage(mask.ProtoReflect()))
		}
	}
}

// rpcOps turns every method of the registered services into an operation.
func rpcOps(regs []registration) []op {
	var ops []op
	bg := context.Background()
	for _, reg := range regs {
		sd, err := protoregistry.GlobalFiles.FindDescriptorByName(protoreflect.FullName(reg.desc.ServiceName))
		if err != nil {
			continue
		}
		svc, ok := sd.(protoreflect.ServiceDescriptor)
		if !ok {
			continue
		}
		impl := reg.impl
		for _, md := range reg.desc.Methods {
			md := md
			pm := svc.Methods().ByName(protoreflect.Name(md.MethodName))
			if pm == nil {
				continue
			}
			ro := isReadOnlyRPC(md.MethodName)
			ops = append(ops, op{name: md.MethodName, ro: ro, run: func(e *env) error {
				dec := func(m any) error {
					req := m.(proto.Message)
					fillRequest(e, req, pm.Output())
					if !ro {
						e.in(req) // the request (and the message inside it) is what the caller hands to the write
					}
					return nil
				}
				res, err := md.Handler(impl, bg, dec, nil)
				if msg, ok := res.(proto.Message); ok {
					e.out("result", msg)
				}
				return err
			}})
		}
		var lastStream string
		for _, st := range reg.desc.Streams {
			st := st
			if !st.ServerStreams || st.ClientStreams {
				continue
			}
			pm := svc.Methods().ByName(protoreflect.Name(st.StreamName))
			if pm == nil {
				continue
			}
			mt, err := protoregistry.GlobalTypes.FindMessageByName(pm.Input().FullName())
			if err != nil {
				continue
			}
			lastStream = st.StreamName
			ops = append(ops, op{name: st.StreamName, ro: true, run: func(e *env) error {
				req := mt.New().Interface()
				fillRequest(e, req, pm.Output())
				return subscribe(e, "response", func(ctx context.Context) any {
					s := &rpcStream{ctx: ctx, req: req, ch: make(chan proto.Message)}
					go func() {
						defer close(s.ch)
						hx.Catch(func() { _ = st.Handler(impl, s) })
					}()
					return s.ch
				})
			}})
		}
		if lastStream != "" {
			ops = append(ops, cancelOp(lastStream))
		}
	}
	return ops
}

// serverTarget registers the ModelServer of the model target named model.  descs: the services of a server that
// has no Register method of its own.
func serverTarget(model string, typ reflect.Type, mk func(model any) any, descs ...*grpc.ServiceDesc) {
	pkg := ""
	for _, t := range targets {
		if t.name == model {
			pkg = t.pkg
		}
	}
	register(target{name: "srv-" + model, pkg: pkg, typ: typ, layer: "server", over: model,
		notOps: []string{"Register", "Unwrap"},
		build: func(e *env) *instance {
			var mt *target
			for i := range targets {
				if targets[i].name == model {
					mt = &targets[i]
				}
			}
			if mt == nil {
				hx.Fatal("server target over unknown model target %q", model)
			}
			inst := mt.build(e)
			srv := mk(inst.model)
			cr := &captureRegistrar{}
			if r, ok := srv.(interface{ Register(grpc.ServiceRegistrar) }); ok {
				r.Register(cr)
			}
			for _, d := range descs {
				cr.regs = append(cr.regs, registration{d, srv})
			}
			rpc := rpcOps(cr.regs)
			// two thirds RPCs, one third operations of the model underneath (named "Model.<method>")
			ops := append(append([]op{}, rpc...), rpc...)
			for _, o := range inst.ops {
				o.name = "Model." + o.name
				ops = append(ops, o)
			}
			return &instance{model: srv, ops: ops, state: inst.state}
		}})
}

func init() {
	serverTarget("access", reflect.TypeOf(&accesspb.ModelServer{}), func(m any) any { return accesspb.NewModelServer(m.(*accesspb.Model)) },
		&traits.AccessApi_ServiceDesc) // Register takes a *grpc.Server
	serverTarget("airquality", reflect.TypeOf(&airqualitysensorpb.ModelServer{}), func(m any) any { return airqualitysensorpb.NewModelServer(m.(*airqualitysensorpb.Model)) })
	serverTarget("airtemperature", reflect.TypeOf(&airtemperaturepb.ModelServer{}), func(m any) any { return airtemperaturepb.NewModelServer(m.(*airtemperaturepb.Model)) })
	serverTarget("booking", reflect.TypeOf(&bookingpb.ModelServer{}), func(m any) any { return bookingpb.NewModelServer(m.(*bookingpb.Model)) })
	serverTarget("electric", reflect.TypeOf(&electricpb.ModelServer{}), func(m any) any { return electricpb.NewModelServer(m.(*electricpb.Model)) })
	serverTarget("energystorage", reflect.TypeOf(&energystoragepb.ModelServer{}), func(m any) any { return energystoragepb.NewModelServer(m.(*energystoragepb.Model)) })
	serverTarget("enterleave", reflect.TypeOf(&enterleavesensorpb.ModelServer{}), func(m any) any { return enterleavesensorpb.NewModelServer(m.(*enterleavesensorpb.Model)) })
	serverTarget("fanspeed", reflect.TypeOf(&fanspeedpb.ModelServer{}), func(m any) any { return fanspeedpb.NewModelServer(m.(*fanspeedpb.Model)) })
	serverTarget("hail", reflect.TypeOf(&hailpb.ModelServer{}), func(m any) any { return hailpb.NewModelServer(m.(*hailpb.Model)) })
	serverTarget("light", reflect.TypeOf(&lightpb.ModelServer{}), func(m any) any { return lightpb.NewModelServer(m.(*lightpb.Model)) })
	serverTarget("metadata", reflect.TypeOf(&metadatapb.ModelServer{}), func(m any) any { return metadatapb.NewModelServer(m.(*metadatapb.Model)) })
	serverTarget("meter", reflect.TypeOf(&meterpb.ModelServer{}), func(m any) any { return meterpb.NewModelServer(m.(*meterpb.Model)) },
		&traits.MeterApi_ServiceDesc) // Register takes a *grpc.Server
	serverTarget("mode", reflect.TypeOf(&modepb.ModelServer{}), func(m any) any { return modepb.NewModelServer(m.(*modepb.Model)) })
	serverTarget("occupancy", reflect.TypeOf(&occupancysensorpb.ModelServer{}), func(m any) any { return occupancysensorpb.NewModelServer(m.(*occupancysensorpb.Model)) })
	serverTarget("onoff", reflect.TypeOf(&onoffpb.ModelServer{}), func(m any) any { return onoffpb.NewModelServer(m.(*onoffpb.Model)) })
	serverTarget("openclose", reflect.TypeOf(&openclosepb.ModelServer{}), func(m any) any { return openclosepb.NewModelServer(m.(*openclosepb.Model)) },
		&traits.OpenCloseInfo_ServiceDesc) // Register only registers the Api
	serverTarget("parent", reflect.TypeOf(&parentpb.ModelServer{}), func(m any) any { return parentpb.NewModelServer(m.(*parentpb.Model)) },
		&traits.ParentApi_ServiceDesc)
	serverTarget("publication", reflect.TypeOf(&publicationpb.ModelServer{}), func(m any) any { return publicationpb.NewModelServer(m.(*publicationpb.Model)) })
	serverTarget("vending", reflect.TypeOf(&vendingpb.ModelServer{}), func(m any) any { return vendingpb.NewModelServer(m.(*vendingpb.Model)) })
	serverTarget("waste", reflect.TypeOf(&wastepb.ModelServer{}), func(m any) any { return wastepb.NewModelServer(m.(*wastepb.Model)) },
		&traits.WasteApi_ServiceDesc) // Register takes a *grpc.Server
}
