INIT GenInit
NEXT GenNext
INVARIANT EmitCase
CONSTANT HandsOverSendersMessage = FALSE
CONSTANT LateSetHeaderJoins = FALSE
