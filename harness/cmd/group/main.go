// Command group replays C17 cases (spec/GroupGen.tla) on the real pkg/group Execute* functions.
//
// A case fixes the strategy, the entry point, each member's planned outcome and, for a failing member,
// the kind of error it returns (plain, context.Canceled / DeadlineExceeded bare, wrapped with %w, or as
// gRPC status: a member's own error, whatever the state of the group's context), which members are
// cancellation-aware and the order in which the members are allowed to return (0 in the order = the
// caller cancels its context, -1 = the caller's deadline passes).  Every member blocks on its own gate; the harness opens the gates one
// event at a time and, after each event, waits until the call is *quiescent*: every goroutine that
// belongs to the call (frames of pkg/group or of this harness's member/caller functions) is parked on a
// channel/semaphore.  Go readies a parked goroutine in the same step that makes it runnable (close,
// send/receive hand-off, context cancellation, WaitGroup.Done), and runtime.Stack(all) stops the world,
// so "all parked" in one dump means nothing can move until the next event: the order of responses the
// collector observes is exactly the order of the events, without any hook inside pkg/group.
//
// Logged per case (one JSON line, the outcome record of spec/GroupContract.tla): what the call returned
// (error identity, index, message identity, slice), recovered panic, which members ran, how each
// returned and whether its context was cancelled at that moment, the batches of returns per event, and
// the goroutines started by the call that still exist after every member returned (leak).
//
// Goroutines leaked by earlier cases stay parked forever and make every dump slower, so the process
// re-executes itself (-from k, appending to -out) once it carries more than maxCarried of them.  The
// cases are spread over worker processes (the schedule inside a case does not depend on timing).
package main

import (
	"bufio"
	"context"
	"encoding/json"
	"errors"
	"fmt"
	"os"
	"os/exec"
	"regexp"
	"runtime"
	"strconv"
	"strings"
	"sync"
	"syscall"
	"time"

	"google.golang.org/grpc"
	"google.golang.org/grpc/codes"
	"google.golang.org/grpc/status"
	"google.golang.org/protobuf/proto"
	"google.golang.org/protobuf/types/known/wrapperspb"

	"github.com/smart-core-os/sc-api/go/traits"
	"github.com/smart-core-os/sc-golang/pkg/group"
	"github.com/smart-core-os/sc-golang/pkg/trait/lightpb"
	"github.com/smart-core-os/sc-golang/pkg/trait/onoffpb"
	"github.com/smart-core-os/sc-golang/verifharness/hx"
)

const maxCarried = 60

type Case struct {
	Id    int      `json:"id"`
	Kind  string   `json:"kind"`
	Strat string   `json:"strat"`
	Api   string   `json:"api"`
	N     int      `json:"n"`
	Plan  []bool   `json:"plan"`
	Fk    []string `json:"fk"` // kind of error of a failing member
	Aware []bool   `json:"aware"`
	Order []int    `json:"order"`
}

type Batch struct {
	Lead int   `json:"lead"`
	All  []int `json:"all"`
}

type Obs struct {
	Case
	Panic    string   `json:"panic"`
	Returned bool     `json:"returned"`
	RetAt    int      `json:"retAt"` // number of events after which the call was seen to be back, -1 never
	Err      int      `json:"err"`   // -1 nil, m: member m's error, 0: an error without member id
	Errk     string   `json:"errk"`  // kind of the returned error
	Ek       []string `json:"ek"`    // kind of error each member returned, "" none
	Cc       int      `json:"cc"`    // 0, or the first batch that may have seen the caller's context ended
	ErrText  string   `json:"errText"`
	Idx      int      `json:"idx"` // 1-based, 0 = not applicable
	Msg      int      `json:"msg"`
	Res      []int    `json:"res"`
	ResLen   int      `json:"resLen"`
	Ran      []bool   `json:"ran"`
	Act      []int    `json:"act"`
	Seen     []bool   `json:"seen"`
	Obs      []Batch  `json:"obs"`
	Leak     int      `json:"leak"`
	LeakSend int      `json:"leakSend"` // parked in `responses <- r`
	LeakWait int      `json:"leakWait"` // parked in all.Wait()
	LeakText string   `json:"leakText"`
	Quiet    bool     `json:"quiet"` // quiescence was always reached within the bound
}

type memberErr struct{ m int }

func (e *memberErr) Error() string { return fmt.Sprintf("member %d failed", e.m) }

// makeErr builds member m's error of the given kind.  Every kind but the bare context errors names the member.
func makeErr(m int, kind string) error {
	switch kind {
	case "canceled":
		return context.Canceled
	case "deadline":
		return context.DeadlineExceeded
	case "wcanceled":
		return fmt.Errorf("member %d: %w", m, context.Canceled)
	case "wdeadline":
		return fmt.Errorf("member %d: %w", m, context.DeadlineExceeded)
	case "gcanceled":
		return status.Errorf(codes.Canceled, "member %d", m)
	case "gdeadline":
		return status.Errorf(codes.DeadlineExceeded, "member %d", m)
	}
	return &memberErr{m}
}

var memberRe = regexp.MustCompile(`member (\d+)`)

func errID(err error) int {
	if err == nil {
		return -1
	}
	if m := memberRe.FindStringSubmatch(err.Error()); m != nil {
		id, _ := strconv.Atoi(m[1])
		return id
	}
	return 0
}

func errKind(err error) string {
	switch {
	case err == nil:
		return ""
	case err == context.Canceled:
		return "canceled"
	case err == context.DeadlineExceeded:
		return "deadline"
	}
	if g, ok := err.(interface{ GRPCStatus() *status.Status }); ok {
		switch g.GRPCStatus().Code() {
		case codes.Canceled:
			return "gcanceled"
		case codes.DeadlineExceeded:
			return "gdeadline"
		}
		return "other"
	}
	var me *memberErr
	switch {
	case errors.Is(err, context.Canceled):
		return "wcanceled"
	case errors.Is(err, context.DeadlineExceeded):
		return "wdeadline"
	case errors.As(err, &me):
		return "plain"
	}
	return "other"
}

// manualCtx is the caller's context: it ends (cancelled or deadline exceeded) when the harness says so.
// It implements AfterFunc, so contexts derived from it are cancelled synchronously inside end() and no
// propagation goroutine exists that the quiescence detection would have to know about.
type manualCtx struct {
	mu    sync.Mutex
	done  chan struct{}
	err   error
	funcs map[int]func()
	next  int
}

func newManualCtx() *manualCtx { return &manualCtx{done: make(chan struct{}), funcs: map[int]func(){}} }

func (c *manualCtx) Deadline() (time.Time, bool) { return time.Time{}, false }
func (c *manualCtx) Done() <-chan struct{}       { return c.done }
func (c *manualCtx) Value(any) any               { return nil }
func (c *manualCtx) Err() error {
	c.mu.Lock()
	defer c.mu.Unlock()
	return c.err
}
func (c *manualCtx) AfterFunc(f func()) (stop func() bool) {
	c.mu.Lock()
	if c.err != nil {
		c.mu.Unlock()
		f()
		return func() bool { return false }
	}
	id := c.next
	c.next++
	c.funcs[id] = f
	c.mu.Unlock()
	return func() bool {
		c.mu.Lock()
		defer c.mu.Unlock()
		_, ok := c.funcs[id]
		delete(c.funcs, id)
		return ok
	}
}
func (c *manualCtx) end(err error) {
	c.mu.Lock()
	if c.err != nil {
		c.mu.Unlock()
		return
	}
	c.err = err
	fs := c.funcs
	c.funcs = map[int]func(){}
	close(c.done)
	c.mu.Unlock()
	for _, f := range fs {
		f()
	}
}

func msgID(m proto.Message) int {
	if m == nil {
		return 0
	}
	if v, ok := m.(*wrapperspb.Int32Value); ok && v != nil {
		return int(v.Value)
	}
	return -2
}

var strategies = map[string]group.ExecutionStrategy{
	"All": group.ExecutionStrategyAll, "Most": group.ExecutionStrategyMost, "Any": group.ExecutionStrategyAny,
	"One": group.ExecutionStrategyOne, "Fast": group.ExecutionStrategyFast, "Race": group.ExecutionStrategyRace,
}

// ---------------------------------------------------------------- one case

type run struct {
	c       Case
	o       *Obs
	gates   []chan struct{}
	mu      sync.Mutex
	returns []int // members in the order their function returned since the last batch was taken
	done    chan struct{}
}

// grpMember is the body of member m (1-based): blocks until its gate is opened (or, when
// cancellation-aware, until its context is cancelled) and returns the planned outcome.
func (r *run) grpMember(ctx context.Context, m int) error {
	r.mu.Lock()
	r.o.Ran[m-1] = true
	r.mu.Unlock()
	cancelled := false
	if r.c.Aware[m-1] {
		if ctx.Err() != nil {
			cancelled = true
		} else {
			select {
			case <-r.gates[m-1]:
			case <-ctx.Done():
				cancelled = true
			}
		}
	} else {
		<-r.gates[m-1]
	}
	var err error
	act := 1
	if cancelled {
		err, act = fmt.Errorf("member %d: %w", m, ctx.Err()), 2
	} else if !r.c.Plan[m-1] {
		err, act = makeErr(m, r.c.Fk[m-1]), 0
	}
	r.mu.Lock()
	r.o.Act[m-1] = act
	r.o.Ek[m-1] = errKind(err)
	r.o.Seen[m-1] = ctx.Err() != nil
	r.returns = append(r.returns, m)
	r.mu.Unlock()
	return err
}

type onoffClient struct {
	traits.OnOffApiClient
	r *run
}

func (c onoffClient) GetOnOff(ctx context.Context, in *traits.GetOnOffRequest, _ ...grpc.CallOption) (*traits.OnOff, error) {
	m, _ := strconv.Atoi(in.Name)
	if err := c.r.grpMember(ctx, m); err != nil {
		return nil, err
	}
	return &traits.OnOff{State: traits.OnOff_ON}, nil
}

type lightClient struct {
	traits.LightApiClient
	r *run
}

func (c lightClient) UpdateBrightness(ctx context.Context, in *traits.UpdateBrightnessRequest, _ ...grpc.CallOption) (*traits.Brightness, error) {
	m, _ := strconv.Atoi(in.Name)
	if err := c.r.grpMember(ctx, m); err != nil {
		return nil, err
	}
	return &traits.Brightness{LevelPercent: float32(m)}, nil
}

// grpCaller makes the call under test.
func (r *run) grpCaller(ctx context.Context) {
	defer close(r.done)
	c, o := r.c, r.o
	members := make([]group.Member, c.N)
	names := make([]string, c.N)
	for i := range members {
		m := i + 1
		names[i] = strconv.Itoa(m)
		members[i] = func(ctx context.Context) (proto.Message, error) {
			if err := r.grpMember(ctx, m); err != nil {
				return nil, err
			}
			return wrapperspb.Int32(int32(m)), nil
		}
	}
	slice := func(res []proto.Message, err error) {
		o.Err, o.ResLen = errID(err), len(res)
		for _, x := range res {
			o.Res = append(o.Res, msgID(x))
		}
		o.Errk = errKind(err)
		if err != nil {
			o.ErrText = err.Error()
		}
	}
	single := func(res proto.Message, i int, err error) {
		o.Err, o.Idx, o.Msg = errID(err), i+1, msgID(res)
		o.Errk = errKind(err)
		if err != nil {
			o.ErrText = err.Error()
		}
	}
	o.Panic = hx.Catch(func() {
		switch c.Api {
		case "Execute":
			slice(group.Execute(ctx, strategies[c.Strat], members))
		case "Direct":
			switch c.Strat {
			case "All":
				slice(group.ExecuteAll(ctx, members))
			case "Most":
				slice(group.ExecuteMost(ctx, members))
			case "Any":
				slice(group.ExecuteAny(ctx, members))
			case "One":
				single(group.ExecuteOne(ctx, members))
			case "Fast":
				single(group.ExecuteFast(ctx, members))
			case "Race":
				single(group.ExecuteRace(ctx, members))
			}
		case "OnOff":
			g := onoffpb.NewGroup(onoffClient{r: r}, names...)
			g.ReadExecution = strategies[c.Strat]
			_, err := g.GetOnOff(ctx, &traits.GetOnOffRequest{Name: "group"})
			o.Err, o.Errk = errID(err), errKind(err)
			if err != nil {
				o.ErrText = err.Error()
			}
		case "Light":
			g := lightpb.NewGroup(lightClient{r: r}, names...)
			g.WriteExecution = strategies[c.Strat]
			_, err := g.UpdateBrightness(ctx, &traits.UpdateBrightnessRequest{Name: "group", Brightness: &traits.Brightness{LevelPercent: 50}})
			o.Err, o.Errk = errID(err), errKind(err)
			if err != nil {
				o.ErrText = err.Error()
			}
		default:
			hx.Fatal("unknown api %q", c.Api)
		}
		o.Returned = true
	})
}

// ---------------------------------------------------------------- goroutine dumps

type gor struct {
	id     int
	status string
	text   string
}

var (
	headerRe = regexp.MustCompile(`^goroutine (\d+) \[([^\]]*)\]:`)
	dumpBuf  = make([]byte, 1<<20)
	parked   = map[string]bool{"chan receive": true, "chan send": true, "select": true, "semacquire": true,
		"sync.Cond.Wait": true, "sync.Mutex.Lock": true, "sync.RWMutex.RLock": true, "sync.RWMutex.Lock": true,
		"sync.WaitGroup.Wait": true}
)

// relevant returns the goroutines that belong to calls under test: frames of pkg/group (including
// "created by ...executeEach") or of this harness's member and caller functions.
func relevant() []gor {
	var n int
	for {
		n = runtime.Stack(dumpBuf, true)
		if n < len(dumpBuf) {
			break
		}
		dumpBuf = make([]byte, 2*len(dumpBuf))
	}
	var res []gor
	for _, blk := range strings.Split(string(dumpBuf[:n]), "\n\n") {
		// (a goroutine that has not run yet shows only its entry wrapper and the "created by" line)
		if !strings.Contains(blk, "sc-golang/pkg/group.") && !strings.Contains(blk, "main.(*run).grp") &&
			!strings.Contains(blk, "created by main.runCase") {
			continue
		}
		m := headerRe.FindStringSubmatch(blk)
		if m == nil {
			continue
		}
		id, _ := strconv.Atoi(m[1])
		st := m[2]
		if i := strings.Index(st, ","); i >= 0 {
			st = st[:i]
		}
		res = append(res, gor{id, st, blk})
	}
	return res
}

var carried = map[int]bool{} // goroutines left behind by earlier cases

// quiesce waits until every goroutine of the current call is parked and returns them.
func quiesce() ([]gor, bool) {
	deadline := time.Now().Add(10 * time.Second)
	for spin := 0; ; spin++ {
		var mine []gor
		quiet := true
		for _, g := range relevant() {
			if carried[g.id] {
				continue
			}
			mine = append(mine, g)
			if !parked[g.status] {
				quiet = false
			}
		}
		if quiet {
			return mine, true
		}
		if time.Now().After(deadline) {
			return mine, false
		}
		switch {
		case spin < 20:
			runtime.Gosched()
		case spin < 200:
			time.Sleep(20 * time.Microsecond)
		default:
			time.Sleep(500 * time.Microsecond)
		}
	}
}

func runCase(c Case) *Obs {
	o := &Obs{Case: c, RetAt: -1, Err: -1, ResLen: -1, Res: []int{}, Ran: make([]bool, c.N), Act: make([]int, c.N),
		Seen: make([]bool, c.N), Ek: make([]string, c.N), Obs: []Batch{}, Quiet: true}
	if len(o.Fk) != c.N {
		hx.Fatal("case %d: fk has %d entries for %d members", c.Id, len(o.Fk), c.N)
	}
	for i := range o.Act {
		o.Act[i] = -1
	}
	if o.Plan == nil {
		o.Plan = []bool{}
	}
	if o.Aware == nil {
		o.Aware = []bool{}
	}
	if o.Order == nil {
		o.Order = []int{}
	}
	r := &run{c: c, o: o, gates: make([]chan struct{}, c.N), done: make(chan struct{})}
	for i := range r.gates {
		r.gates[i] = make(chan struct{})
	}
	parent := newManualCtx()
	defer parent.end(context.Canceled)

	settle := func(lead int, events int) []gor {
		gs, ok := quiesce()
		if !ok {
			o.Quiet = false
		}
		r.mu.Lock()
		b := Batch{All: append([]int{}, r.returns...)}
		r.returns = r.returns[:0]
		r.mu.Unlock()
		if lead != 0 && len(b.All) > 0 && b.All[0] == lead {
			b.Lead = lead
		}
		o.Obs = append(o.Obs, b)
		if o.RetAt < 0 {
			select {
			case <-r.done:
				o.RetAt = events
			default:
			}
		}
		return gs
	}

	go r.grpCaller(parent)
	gs := settle(0, 0)
	for k, ev := range c.Order {
		if ev <= 0 {
			if ev == 0 {
				parent.end(context.Canceled)
			} else {
				parent.end(context.DeadlineExceeded)
			}
			if o.Cc == 0 {
				o.Cc = k + 2 // event k+1 produces batch k+2 (batch 1 is the start)
			}
		} else {
			close(r.gates[ev-1])
		}
		gs = settle(ev, k+1)
	}
	// every member has been let go and nothing can move any more: what is still there stays
	for _, g := range gs {
		carried[g.id] = true
		if strings.Contains(g.text, "main.(*run).grpCaller") || strings.Contains(g.text, "created by main.runCase") {
			continue // the call itself has not come back: reported as returned = false
		}
		o.Leak++
		switch {
		case g.status == "chan send":
			o.LeakSend++
		case g.status == "semacquire" || g.status == "sync.WaitGroup.Wait":
			o.LeakWait++
		}
		if o.LeakText == "" {
			lines := strings.Split(g.text, "\n")
			if len(lines) > 3 {
				lines = lines[:3]
			}
			o.LeakText = strings.Join(lines, " | ")
		}
	}
	r.mu.Lock() // (a call that never returned may still own o)
	defer r.mu.Unlock()
	cp := *o
	return &cp
}

// ---------------------------------------------------------------- driver

func main() {
	casesPath, outPath := hx.Arg("-cases", ""), hx.Arg("-out", "")
	if casesPath == "" || outPath == "" {
		hx.Fatal("usage: group -cases f -out f [-workers w]")
	}
	if hx.Arg("-shard", "") == "" {
		parent(casesPath, outPath)
		return
	}
	worker(casesPath, outPath)
}

// parent splits the cases over worker processes (shard i takes the cases k with k % w == i) and
// concatenates what they wrote.
func parent(casesPath, outPath string) {
	w := hx.ArgInt("-workers", min(runtime.NumCPU(), 8))
	self, err := os.Executable()
	if err != nil {
		hx.Fatal("executable: %v", err)
	}
	cur := os.Getenv("VERIF_CURRENT")
	cmds := make([]*exec.Cmd, w)
	for i := range cmds {
		cmd := exec.Command(self, "-cases", casesPath, "-out", fmt.Sprintf("%s.part%d", outPath, i),
			"-shard", strconv.Itoa(i), "-of", strconv.Itoa(w), "-from", "0")
		cmd.Stdout, cmd.Stderr = os.Stdout, os.Stderr
		cmd.Env = os.Environ()
		if cur != "" {
			cmd.Env = append(cmd.Env, fmt.Sprintf("VERIF_CURRENT=%s.%d", cur, i))
		}
		if err := cmd.Start(); err != nil {
			hx.Fatal("start worker: %v", err)
		}
		cmds[i] = cmd
	}
	rc := 0
	for i, cmd := range cmds {
		if err := cmd.Wait(); err != nil {
			if rc == 0 && cur != "" { // the case the crashed worker was executing
				if b, err := os.ReadFile(fmt.Sprintf("%s.%d", cur, i)); err == nil {
					_ = os.WriteFile(cur, b, 0o644)
				}
			}
			rc = 1
			if ee, ok := err.(*exec.ExitError); ok && ee.ExitCode() > 0 {
				rc = ee.ExitCode()
			}
		}
	}
	out, err := os.Create(outPath)
	if err != nil {
		hx.Fatal("create out: %v", err)
	}
	n := 0
	for i := range cmds {
		b, err := os.ReadFile(fmt.Sprintf("%s.part%d", outPath, i))
		if err != nil {
			continue
		}
		n += strings.Count(string(b), "\n")
		out.Write(b)
	}
	out.Close()
	fmt.Printf("group: %d observations from %d workers\n", n, w)
	os.Exit(rc)
}

func worker(casesPath, outPath string) {
	shard, of, from := hx.ArgInt("-shard", 0), hx.ArgInt("-of", 1), hx.ArgInt("-from", 0)
	cases := hx.ReadCases[Case](casesPath)
	flags := os.O_CREATE | os.O_WRONLY | os.O_TRUNC
	if from > 0 {
		flags = os.O_WRONLY | os.O_APPEND
	}
	f, err := os.OpenFile(outPath, flags, 0o644)
	if err != nil {
		hx.Fatal("open out: %v", err)
	}
	w := bufio.NewWriterSize(f, 1<<20)
	for k := from; k < len(cases); k++ {
		if k%of != shard {
			continue
		}
		if len(carried) > maxCarried {
			// start over in a fresh process image without the parked left-overs
			w.Flush()
			f.Close()
			self, err := os.Executable()
			if err != nil {
				hx.Fatal("executable: %v", err)
			}
			err = syscall.Exec(self, []string{self, "-cases", casesPath, "-out", outPath, "-shard", strconv.Itoa(shard),
				"-of", strconv.Itoa(of), "-from", strconv.Itoa(k)}, os.Environ())
			hx.Fatal("exec: %v", err)
		}
		hx.Current(cases[k])
		b, err := json.Marshal(runCase(cases[k]))
		if err != nil {
			hx.Fatal("marshal: %v", err)
		}
		w.Write(b)
		w.WriteByte('\n')
	}
	w.Flush()
	f.Close()
}
