----------------------------- MODULE StackTrace -----------------------------
(***************************************************************************)
(* Trace use of Stack.tla.  Every line of obs.ndjson is one client step    *)
(* against a real trait server behind WrapApi(router{name -> WrapApi(srv)}) *)
(* as recorded by harness/cmd/stackx: the unmasked Get before and after,   *)
(* the RPC's status and response, and for every open Pull stream what was  *)
(* read from it during the step.  Each line is checked on its own against  *)
(* the relations of Stack.tla; Fails(t) is the set of clauses it falsifies.*)
(***************************************************************************)
EXTENDS Stack, TLC, Json

VARIABLE c
Obs == ndJsonDeserialize("obs.ndjson")

BadLines == { k \in 1..Len(Obs) : Fails(Obs[k]) # {} }
TraceInit == c = 0
TraceNext == UNCHANGED c
EmitBad == \A k \in BadLines : PrintT("BAD " \o ToJson([line |-> k, fails |-> Fails(Obs[k])]))
TraceChecked == EmitBad /\ PrintT("CHECKED " \o ToString(Len(Obs)))
=============================================================================
