---------------------------- MODULE FanSpeedMC ----------------------------
(***************************************************************************)
(* MC use of FanSpeed.tla: three presets, every absolute and relative     *)
(* request over small ranges (including unknown and empty presets) from   *)
(* every reachable state.                                                 *)
(***************************************************************************)
EXTENDS FanSpeed, TLC

CONSTANT MaxPct
VARIABLES st, last
vars == <<st, last>>

Ps == << [name |-> "off", pct |-> 0], [name |-> "low", pct |-> 2], [name |-> "high", pct |-> MaxPct] >>
Reqs == [preset : {"", "off", "low", "high", "bogus"}, index : -2..3, pct : -1..MaxPct, relative : BOOLEAN]

Init == st = Triple(Ps, 1) /\ last = [pre |-> st, req |-> [preset |-> "", index |-> 0, pct |-> 0, relative |-> FALSE], err |-> "OK"]
Next == \E req \in Reqs : LET r == Update(Ps, st, req) IN st' = r.post /\ last' = [pre |-> st, req |-> req, err |-> r.err]
Spec == Init /\ [][Next]_vars
Bounded == st.pct \in -2..(2 * MaxPct) /\ st.index \in -3..5
ViewNoHist == st

PresetDeterminesOthers == Consistent(Ps, st)
e == Eff(last.pre, last.req)
PresetWins == Known(Ps, e.preset) /\ e.preset # last.pre.preset => st.preset = e.preset
IndexBeatsPercentage == (e.preset = last.pre.preset /\ Known(Ps, e.preset) /\ e.index # last.pre.index)
                          => st.index = Clamp(Ps, e.index) /\ st.preset = Ps[st.index + 1].name
PercentageLast == (e.preset = last.pre.preset /\ Known(Ps, e.preset) /\ e.index = last.pre.index) => st.pct = e.pct
RelativeAdds == last.req.relative => e.index = last.pre.index + last.req.index /\ e.pct = last.pre.pct + last.req.pct
FailureIsNoop == last.err # "OK" => st = last.pre
IndexInRange == st.preset # "" => st.index \in 0..(Len(Ps) - 1)
=============================================================================
