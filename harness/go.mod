module github.com/smart-core-os/sc-golang/verifharness

go 1.23

require github.com/smart-core-os/sc-golang v0.0.0

replace github.com/smart-core-os/sc-golang => /repo
