package main

import (
	"context"
	"strings"
	"time"

	"google.golang.org/grpc/codes"
	"google.golang.org/grpc/status"
	"google.golang.org/protobuf/proto"
	"google.golang.org/protobuf/types/known/fieldmaskpb"

	"github.com/smart-core-os/sc-api/go/traits"
	"github.com/smart-core-os/sc-golang/internal/testproto"
	"github.com/smart-core-os/sc-golang/pkg/cmp"
	"github.com/smart-core-os/sc-golang/pkg/resource"
	"github.com/smart-core-os/sc-golang/pkg/router"
	"github.com/smart-core-os/sc-golang/pkg/trait/electricpb"
	"github.com/smart-core-os/sc-golang/pkg/trait/onoffpb"
	"github.com/smart-core-os/sc-golang/pkg/trait/publicationpb"
)

// optKit holds OPTION VALUES, and the masks and messages inside them, that a caller builds once and then reuses for
// many calls from many goroutines, on one or on several resources - the way a driver keeps a package-level
// `var onlyCurrent = resource.WithUpdatePaths("current")`.  One kit per program iteration, built by the main
// goroutine before the processes start, shared by ALL processes on ALL instances.  The caller (the harness) never
// modifies anything in it afterwards; the library may read it and must never write it.
// The masks are deliberately not in normal form (unsorted, duplicates, a field together with one of its sub-fields)
// so that any "normalisation" of the caller's mask is an actual write.
type optKit struct {
	// write options
	updMask, updPaths, resetMask, resetPaths, moreUpd, moreWritable, moreWritablePaths resource.WriteOption
	expected, expectedCheck, before, after, writeTime, allowMissing, createIfAbsent    resource.WriteOption
	// read options
	readMask, readPaths, include, updatesOnly, backpressure resource.ReadOption
	// resource options reused for several resources (writable fields, initial value message, comparer, ...)
	resOpts []resource.Option
	// router options reused for several routers
	rtrOpts []router.Option
	// trait model options reused for several models, and write options handed through trait models
	elOpts                         []resource.Option
	elUpd, mdUpd, hailUpd, bookUpd resource.WriteOption
	pubUpd                         []resource.WriteOption
	// request messages reused for many calls
	reqGet  *traits.GetOnOffRequest
	reqUpd  *traits.UpdateOnOffRequest
	reqPull *traits.PullOnOffRequest
}

func newOptKit() *optKit {
	k := &optKit{}
	wMask := &fieldmaskpb.FieldMask{Paths: []string{"repeated_int32", "default_int32", "default_nested_message.a", "default_nested_message", "default_int32", "default_int64", "default_uint32"}}
	rMask := &fieldmaskpb.FieldMask{Paths: []string{"map_string_string", "default_int32", "default_nested_message.a", "default_int32"}}
	k.updMask = resource.WithUpdateMask(wMask)
	k.updPaths = resource.WithUpdatePaths("repeated_string", "default_string", "default_int32", "default_int32")
	k.resetMask = resource.WithResetMask(&fieldmaskpb.FieldMask{Paths: []string{"default_bytes", "default_bool", "default_bool"}})
	k.resetPaths = resource.WithResetPaths("repeated_nested_message", "default_double")
	k.moreUpd = resource.WithMoreUpdateMask(&fieldmaskpb.FieldMask{Paths: []string{"map_string_string", "default_int64", "default_uint32", "default_float"}})
	k.moreWritable = resource.WithMoreWritableFields(&fieldmaskpb.FieldMask{Paths: []string{"repeated_string", "default_string", "map_string_string", "default_float", "default_int64", "default_uint32"}})
	k.moreWritablePaths = resource.WithMoreWritablePaths("default_double", "default_bytes", "default_bool", "repeated_nested_message")
	k.expected = resource.WithExpectedValue(mkMsg(1))
	k.expectedCheck = resource.WithExpectedCheck(func(old proto.Message) error {
		touch(old)
		if m, ok := old.(*testproto.TestAllTypes); ok && m.GetDefaultInt32()%7 == 0 {
			return status.Error(codes.FailedPrecondition, "multiple of seven")
		}
		return nil
	})
	ics := readingInterceptors()
	k.before, k.after = ics[0], ics[1]
	k.writeTime = resource.WithWriteTime(time.Unix(1_700_000_000, 0))
	k.allowMissing = resource.WithAllowMissing(true)
	k.createIfAbsent = resource.WithCreateIfAbsent()

	k.readMask = resource.WithReadMask(rMask)
	k.readPaths = resource.WithReadPaths(&testproto.TestAllTypes{}, "repeated_int32", "default_string", "default_nested_message", "default_int32")
	k.include = resource.WithInclude(func(id string, item proto.Message) bool {
		touch(item)
		return id != "zzz"
	})
	k.updatesOnly = resource.WithUpdatesOnly(true)
	k.backpressure = resource.WithBackpressure(true)

	k.resOpts = []resource.Option{
		resource.WithInitialValue(mkMsg(3)),
		resource.WithInitialRecord("a", mkMsg(4)),
		resource.WithWritableFields(&fieldmaskpb.FieldMask{Paths: []string{"repeated_int32", "default_int32", "default_nested_message", "default_int64",
			"default_uint32", "default_int32", "repeated_string", "default_string", "map_string_string", "default_float"}}),
		resource.WithMessageEquivalence(cmp.Equal(cmp.FloatValueApprox(0, 0.01))),
		resource.WithIDInterceptor(strings.ToLower),
		resource.WithClock(resource.WallClock()),
	}
	k.rtrOpts = []router.Option{
		onoffpb.WithOnOffApiClientFactory(func(name string) (traits.OnOffApiClient, error) {
			useString(name)
			return newOnOffClient(), nil
		}),
		router.WithOnChange(func(c router.Change) {
			useString(c.Name)
			useAny(c.Old)
			useAny(c.New)
		}),
	}
	k.elOpts = []resource.Option{
		electricpb.WithInitialMode(&traits.ElectricMode{Id: "m1", Title: "one", Normal: true, Segments: []*traits.ElectricMode_Segment{{Magnitude: 1}}}),
		electricpb.WithInitialDemand(&traits.ElectricDemand{Current: 2, Rating: 13}),
		electricpb.WithDemandOption(resource.WithWritablePaths(&traits.ElectricDemand{}, "rating", "current", "current")),
	}
	k.elUpd = resource.WithUpdatePaths("rating", "current", "current")
	k.mdUpd = resource.WithUpdateMask(&fieldmaskpb.FieldMask{Paths: []string{"name", "appearance.title", "appearance", "name"}})
	k.hailUpd = resource.WithUpdatePaths("state", "origin.display_name", "origin")
	k.bookUpd = resource.WithUpdatePaths("title", "owner_name", "title")
	k.pubUpd = []resource.WriteOption{resource.WithUpdatePaths("media_type", "body", "body"), publicationpb.WithNewVersion(), publicationpb.WithResetReceipt()}

	k.reqGet = &traits.GetOnOffRequest{Name: "n1", ReadMask: &fieldmaskpb.FieldMask{Paths: []string{"state", "state"}}}
	k.reqUpd = &traits.UpdateOnOffRequest{Name: "n1", OnOff: &traits.OnOff{State: traits.OnOff_ON}, UpdateMask: &fieldmaskpb.FieldMask{Paths: []string{"state", "state"}}}
	k.reqPull = &traits.PullOnOffRequest{Name: "n1", ReadMask: &fieldmaskpb.FieldMask{Paths: []string{"state"}}}
	return k
}

// Operation kinds that use the shared kit.  "...shared" kinds work on the instance of their process like the plain
// kinds; "o.new*" kinds build a new object from the shared option values and use it.
func init() {
	V, C := []string{"val"}, []string{"coll"}

	reg("v.setshared", V, func(w *world, pr *proc) error {
		k := w.kit
		res, err := w.val[pr.in].Set(pr.msg(), k.updMask, k.moreUpd, k.moreWritable, k.before, k.after, k.writeTime)
		touch(res)
		return err
	})
	reg("v.resetshared", V, func(w *world, pr *proc) error {
		k := w.kit
		res, err := w.val[pr.in].Set(pr.msg(), k.updPaths, k.resetMask, k.resetPaths, k.moreWritablePaths, k.expectedCheck)
		touch(res)
		return err
	})
	reg("v.casshared", V, func(w *world, pr *proc) error {
		res, err := w.val[pr.in].Set(pr.msg(), w.kit.expected, w.kit.updMask)
		touch(res)
		return err
	})
	reg("v.getshared", V, func(w *world, pr *proc) error {
		touch(w.val[pr.in].Get(w.kit.readMask))
		touch(w.val[pr.in].Get(w.kit.readPaths))
		return nil
	})
	reg("v.pullshared", V, func(w *world, pr *proc) error {
		ctx, cancel := context.WithCancel(w.root)
		consume(pr, w.val[pr.in].Pull(ctx, w.kit.readMask, w.kit.backpressure, w.kit.updatesOnly), cancel, 2, readValueChange)
		return nil
	})

	reg("c.updshared", C, func(w *world, pr *proc) error {
		k := w.kit
		res, err := w.coll[pr.in].Update(pr.collID(), pr.msg(), k.updMask, k.moreUpd, k.createIfAbsent, k.before, k.after, k.writeTime, k.moreWritable)
		touch(res)
		return err
	})
	reg("c.resetshared", C, func(w *world, pr *proc) error {
		k := w.kit
		res, err := w.coll[pr.in].Update(pr.collID(), pr.msg(), k.updPaths, k.resetPaths, k.resetMask, k.expectedCheck, k.moreWritablePaths)
		touch(res)
		return err
	})
	reg("c.delshared", C, func(w *world, pr *proc) error {
		k := w.kit
		res, err := w.coll[pr.in].Delete(pr.collID(), k.allowMissing, k.expectedCheck, k.expected, k.writeTime)
		touch(res)
		return err
	})
	reg("c.listshared", C, func(w *world, pr *proc) error {
		for _, m := range w.coll[pr.in].List(w.kit.include, w.kit.readMask) {
			touch(m)
		}
		m, _ := w.coll[pr.in].Get(pr.collID(), w.kit.readPaths)
		touch(m)
		return nil
	})
	reg("c.pullshared", C, func(w *world, pr *proc) error {
		ctx, cancel := context.WithCancel(w.root)
		consume(pr, w.coll[pr.in].Pull(ctx, w.kit.include, w.kit.readMask, w.kit.backpressure), cancel, 3, readCollectionChange)
		return nil
	})

	// write options handed through trait models
	reg("e.updshared", []string{"el"}, func(w *world, pr *proc) error {
		res, err := w.el[pr.in].UpdateDemand(&traits.ElectricDemand{Current: float32(pr.rnd.n(10)), Rating: 32}, w.kit.elUpd)
		touch(res)
		return err
	})
	reg("m.updshared", []string{"md"}, func(w *world, pr *proc) error {
		res, err := w.md[pr.in].UpdateMetadata(&traits.Metadata{Name: pr.uniq("dev"), Appearance: &traits.Metadata_Appearance{Title: "t"}}, w.kit.mdUpd)
		touch(res)
		return err
	})
	reg("h.updshared", []string{"hail"}, func(w *world, pr *proc) error {
		id := pr.lastID["hail"]
		if id == "" {
			if hs := w.hail[pr.in].ListHails(); len(hs) > 0 {
				id = hs[0].Id
			}
		}
		res, err := w.hail[pr.in].UpdateHail(&traits.Hail{Id: id, State: traits.Hail_BOARDING, Origin: &traits.Hail_Location{DisplayName: "x"}}, w.kit.hailUpd)
		if res != nil {
			touch(res)
		}
		return err
	})
	reg("k.updshared", []string{"book"}, func(w *world, pr *proc) error {
		res, err := w.book[pr.in].UpdateBooking(&traits.Booking{Id: "k1", Title: pr.uniq("t"), OwnerName: "you"}, w.kit.bookUpd)
		if res != nil {
			touch(res)
		}
		return err
	})
	reg("u.updshared", []string{"pub"}, func(w *world, pr *proc) error {
		res, err := w.pub[pr.in].UpdatePublication("u1", &traits.Publication{Body: []byte(pr.uniq("b")), MediaType: "text/plain"}, w.kit.pubUpd...)
		if res != nil {
			touch(res)
		}
		return err
	})

	// request messages reused for many calls through wrapped clients and the router
	reg("w.callshared", []string{"wrap"}, func(w *world, pr *proc) error {
		res, err := w.wrapCli[pr.in].GetOnOff(w.root, w.kit.reqGet)
		touch(res)
		res, err2 := w.wrapCli[pr.in].UpdateOnOff(w.root, w.kit.reqUpd)
		touch(res)
		if err == nil {
			err = err2
		}
		return err
	})
	reg("w.pullshared", []string{"wrap"}, func(w *world, pr *proc) error {
		return consumeStreamReq(w, pr, w.wrapCli[pr.in], w.kit.reqPull, 2)
	})
	reg("r.callshared", []string{"rtr"}, func(w *world, pr *proc) error {
		res, err := w.rtrCli[pr.in].GetOnOff(w.root, w.kit.reqGet)
		touch(res)
		res, err2 := w.rtrCli[pr.in].UpdateOnOff(w.root, w.kit.reqUpd)
		touch(res)
		if err == nil {
			err = err2
		}
		return err
	})

	// new objects built from the shared option values, by several goroutines at once
	O := []string{"kit"}
	reg("o.newval", O, func(w *world, pr *proc) error {
		k := w.kit
		v := resource.NewValue(k.resOpts...)
		touch(v.Get(k.readMask))
		res, err := v.Set(pr.msg(), k.updMask, k.before, k.after)
		touch(res)
		_, err2 := v.Set(pr.msg(), k.updPaths, k.resetMask, k.moreWritablePaths)
		if err == nil {
			err = err2
		}
		return err
	})
	reg("o.newcoll", O, func(w *world, pr *proc) error {
		k := w.kit
		c := resource.NewCollection(k.resOpts...)
		res, err := c.Update("A", pr.msg(), k.updMask, k.createIfAbsent, k.before)
		touch(res)
		_, _ = c.Add("", pr.msg(), resource.WithGenIDIfAbsent(), k.updMask)
		for _, m := range c.List(k.include, k.readMask) {
			touch(m)
		}
		_, _ = c.Delete("a", k.allowMissing, k.expectedCheck)
		return err
	})
	reg("o.newrtr", O, func(w *world, pr *proc) error {
		r := onoffpb.NewApiRouter(w.kit.rtrOpts...)
		useAny(r.Add("n2", newOnOffClient()))
		res, err := onoffpb.WrapApi(r).GetOnOff(w.root, w.kit.reqGet)
		touch(res)
		useAny(r.Remove("n2"))
		return err
	})
	reg("o.newmodel", O, func(w *world, pr *proc) error {
		m := electricpb.NewModel(w.kit.elOpts...)
		res, err := m.UpdateDemand(&traits.ElectricDemand{Current: float32(pr.rnd.n(10)), Rating: 16}, w.kit.elUpd)
		touch(res)
		touch(m.Demand())
		_, _ = m.CreateMode(&traits.ElectricMode{Title: "made"})
		return err
	})
}

// consumeStreamReq is consumeStream with a request message supplied by the caller (and shared between callers).
func consumeStreamReq(w *world, pr *proc, cli traits.OnOffApiClient, req *traits.PullOnOffRequest, k int) error {
	ctx, cancel := context.WithCancel(w.root)
	defer cancel()
	stream, err := cli.PullOnOff(ctx, req)
	if err != nil {
		return err
	}
	tm := time.AfterFunc(2*waitEvents, cancel)
	defer tm.Stop()
	for i := 0; i < k; i++ {
		res, err := stream.Recv()
		if err != nil {
			break
		}
		touch(res)
		pr.events++
	}
	cancel()
	for i := 0; i < 1000; i++ {
		if _, err := stream.Recv(); err != nil {
			break
		}
	}
	touchMD(stream.Trailer())
	return nil
}
