from checks import masks_common


def run(ctx):
    masks_common.run(ctx, "upd")


MANIFEST = {'engine': "spec/Msg.tla + spec/Masks.tla (TLC) + harness 'masks'",
 'technique': 'TLA+ reference semantics of masked writes; TLC laws (MC), TLC-generated tuples replayed on '
              'FieldUpdater/Value/Collection, TLC evaluates the property predicates on the real results',
 'text': 'TLC checks exhaustively over a small message/mask domain that the TLA+ reference merge satisfies '
         'frame, scalar-assignment, reset and empty-mask clauses; TLC then generates thousands of (stored, '
         'written, update mask, writable mask, extra-writable, reset mask) tuples, the harness runs each '
         'through masks.FieldUpdater, Value.Set and Collection.Update built from the working tree, and TLC '
         'evaluates the property clauses (and equality with the reference merge where the mask must be '
         'accepted) on every real result. Bounded model checking of the design plus conformance of the code '
         'on the generated tuples; not a proof for all messages.',
 'note': 'Trusted base: TLC 1.8.0 evaluating the TLA+ predicates; the Go abstraction function (harness/mini, '
         'Abs/Conc between spec messages and TestAllTypes); the harness reporting faithfully what the real '
         'code returned. Miniature schema (9 fields of TestAllTypes covering implicit/optional scalars, '
         'nested messages, repeated scalar/message, map, oneof) stands for all field kinds.'}
