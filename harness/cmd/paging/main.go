// Command paging drives the seven paged List RPCs of pkg/trait/*pb (C15) with the
// cases printed by spec/Paging.tla: it fills a model with the case's ids, asks the
// model server for pages in-process, follows next_page_token (bounded), and writes
// one JSON line per walk with what the server returned.  Nothing is judged here:
// spec/PagingTrace.tla evaluates the property on the lines.
package main

import (
	"context"
	"encoding/base64"
	"fmt"
	"math/rand"
	"reflect"
	"strconv"
	"strings"
	"time"
	"unsafe"

	"google.golang.org/protobuf/proto"
	"google.golang.org/protobuf/types/known/timestamppb"

	"github.com/smart-core-os/sc-api/go/traits"
	"github.com/smart-core-os/sc-api/go/types"
	"github.com/smart-core-os/sc-golang/pkg/resource"
	"github.com/smart-core-os/sc-golang/pkg/trait/electricpb"
	"github.com/smart-core-os/sc-golang/pkg/trait/hailpb"
	"github.com/smart-core-os/sc-golang/pkg/trait/parentpb"
	"github.com/smart-core-os/sc-golang/pkg/trait/publicationpb"
	"github.com/smart-core-os/sc-golang/pkg/trait/vendingpb"
	"github.com/smart-core-os/sc-golang/pkg/trait/wastepb"
	"github.com/smart-core-os/sc-golang/verifharness/hx"
)

// pagingCase is one CASE line of spec/Paging.tla (Gen).
type pagingCase struct {
	K       string  `json:"k"`     // "walk" | "tok" | "hist" | "sched"
	Sizes   []int   `json:"sizes"` // page size of call i is sizes[(i-1) mod len]
	Sch     string  `json:"sch"`   // "lastkey" | "index"
	N       int     `json:"n"`
	Size    int     `json:"size"`
	Rep     int     `json:"rep"`
	Variant int     `json:"variant"` // tok: 1..9
	IDs     [][]int `json:"ids"`
	Expect  string  `json:"expect"`
	Lens    []int   `json:"lens"` // reference page lengths
	Segs    []seg   `json:"segs"` // hist: (writes, then a walk) twice
}

// seg is one segment of a history: writes applied to the collection, then a walk
// from the first page with the given page size.
type seg struct {
	Ops  []writeOp `json:"ops"`
	Size int       `json:"size"`
}

// writeOp is one write of spec/Paging.tla: kind, the key it names, allow-missing.
type writeOp struct {
	Kind string `json:"kind"`
	Key  []int  `json:"key"`
	AM   bool   `json:"am"`
}

// writeObs is what the write did on the real model.
type writeObs struct {
	Kind string `json:"kind"`
	Key  []int  `json:"key"`
	AM   bool   `json:"am"`
	Sup  bool   `json:"sup"` // the trait has such an operation and it was called
	OK   bool   `json:"ok"`  // it returned without error (and did not panic)
	Eff  string `json:"eff"` // documented effect of a successful call on the key set: "add" | "remove" | "none"
	Err  string `json:"err"`
	Call string `json:"call"`
}

// walkObs is one line of obs.ndjson: what the server answered along one token chain.
type walkObs struct {
	K      string `json:"k"`
	Case   int    `json:"case"` // index of the case in cases.ndjson
	Srv    string `json:"srv"`
	Scheme string `json:"scheme"`
	N      int    `json:"n"`     // number of items in the model's own un-paged listing
	Size   int    `json:"size"`  // requested page size (of the first call)
	Sizes  []int  `json:"sizes"` // page size schedule: call i asks for sizes[(i-1) mod len]
	TClass string `json:"tclass"`
	Token  string `json:"token"`  // the first page token sent
	Calls  int    `json:"calls"`  // requests made
	First  string `json:"first"`  // status code of the first answer ("" if it panicked)
	Err    string `json:"err"`    // status code of the last answer
	Panic  string `json:"panic"`  // "" or the recovered panic of the last request
	Ended  bool   `json:"ended"`  // the chain stopped (empty token, error or panic) within the bound
	Bound  int    `json:"bound"`  // max requests allowed
	Flat   []int  `json:"flat"`   // returned items, all pages concatenated: 1-based position in the un-paged listing, 0 = not in it
	Lens   []int  `json:"lens"`   // items per page
	Totals []int  `json:"totals"` // total_size per page
	Sorted bool   `json:"sorted"` // the un-paged listing is in ascending byte order of its keys (information)
	Sample string `json:"sample"` // a few of the ids
	// hist only: the collection the case started with, every write so far with its outcome, and the
	// returned items by spec key ([0] = a key the case never wrote)
	Init     [][]int    `json:"init"`
	Ops      []writeObs `json:"ops"`
	FlatKeys [][]int    `json:"flatKeys"`
	Seg      int        `json:"seg"`
}

// page is one List answer reduced to what the property talks about.
type page struct {
	keys  []string
	next  string
	total int
}

// inst is one filled model behind one paged RPC.
type inst struct {
	// full is the model's own un-paged listing now (keys in listing order)
	full func() []string
	list func(size int32, token string) (page, error)
	// write runs one write operation of the trait on key; nil if the trait has none.
	// It returns the name of the call, the documented effect of a successful call on the key
	// set, the key the item is stored under if the model chose it, and the error.
	// call == "" means the trait has no such operation.
	write func(kind, key string, am bool) (call, eff, stored string, err error)
	// invents: create ignores the key and stores the item under a key of the model's choice
	invents bool
}

// target is one paged RPC: fill builds a fresh model holding ids.
type target struct {
	name   string
	scheme string
	fill   func(ids []string, rnd *rand.Rand) *inst
}

var badMask = resource.WithUpdatePaths("no_such_field")

// alphabet in ascending byte order; one number of a spec id = one character.
// UTF-8 keeps code point order, so the spec's lexicographic order of number
// sequences is the byte order of the strings.  The characters are chosen so that
// byte order differs from every "friendly" order: a digit, an upper-case letter
// that sorts before the lower-case ones in bytes but between them when case is
// folded ("B" < "a" < "c", yet "a" < "b" < "c"), an accented capital and a CJK
// character (collation / case folding move those too).  A listing that is sorted
// or searched by anything but plain string comparison shows up in the walks.
var alphabet = []string{"", "1", "B", "a", "c", "É", "中"}

func idString(id []int) string {
	var b strings.Builder
	for _, x := range id {
		if x < 1 || x >= len(alphabet) {
			hx.Fatal("id element %d outside the alphabet", x)
		}
		b.WriteString(alphabet[x])
	}
	return b.String()
}

func shuffled(ids []string, rnd *rand.Rand) []string {
	res := append([]string(nil), ids...)
	rnd.Shuffle(len(res), func(i, j int) { res[i], res[j] = res[j], res[i] })
	return res
}

var ctx = context.Background()

func litres(x float32) *traits.Consumable_Quantity {
	return &traits.Consumable_Quantity{Unit: traits.Consumable_LITER, Amount: x}
}

func targets() []target {
	return []target{
		{"electric.ListModes", "lastkey", func(ids []string, rnd *rand.Rand) *inst {
			m := electricpb.NewModel()
			for _, id := range shuffled(ids, rnd) {
				if err := m.AddMode(&traits.ElectricMode{Id: id, Title: "t" + id}); err != nil {
					hx.Fatal("electric AddMode %q: %v", id, err)
				}
			}
			s := electricpb.NewModelServer(m)
			return &inst{
				full: func() (full []string) {
					for _, x := range m.Modes() {
						full = append(full, x.Id)
					}
					return
				},
				list: func(size int32, token string) (page, error) {
					r, err := s.ListModes(ctx, &traits.ListModesRequest{Name: "dev", PageSize: size, PageToken: token})
					if err != nil {
						return page{}, err
					}
					p := page{next: r.NextPageToken, total: int(r.TotalSize)}
					for _, x := range r.Modes {
						p.keys = append(p.keys, x.Id)
					}
					return p, nil
				},
				write: func(kind, key string, am bool) (string, string, string, error) {
					switch kind {
					case "create":
						return "Model.AddMode", "add", "", m.AddMode(&traits.ElectricMode{Id: key, Title: "new"})
					case "update":
						_, err := m.UpdateMode(&traits.ElectricMode{Id: key, Title: "upd", Description: "d"})
						return "Model.UpdateMode", "none", "", err
					case "delete":
						return "Model.DeleteMode", "remove", "", m.DeleteMode(key, resource.WithAllowMissing(am))
					case "badmask":
						_, err := m.UpdateMode(&traits.ElectricMode{Id: key, Title: "x"}, badMask)
						return "Model.UpdateMode(bad mask)", "none", "", err
					case "refuse":
						_, err := s.UpdateActiveMode(ctx, &traits.UpdateActiveModeRequest{Name: "dev", ActiveMode: &traits.ElectricMode{Id: key + "?"}})
						return "UpdateActiveMode(unknown mode)", "none", "", err
					case "use":
						_, err := s.UpdateActiveMode(ctx, &traits.UpdateActiveModeRequest{Name: "dev", ActiveMode: &traits.ElectricMode{Id: key}})
						return "UpdateActiveMode", "none", "", err
					}
					return "", "", "", nil
				},
			}
		}},
		{"hail.ListHails", "lastkey", func(ids []string, rnd *rand.Rand) *inst {
			// CreateHail always invents the id; chosen ids go in as initial records
			opts := []resource.Option{hailpb.WithKeepAlive(-1)}
			for _, id := range shuffled(ids, rnd) {
				opts = append(opts, resource.WithInitialRecord(id, &traits.Hail{Id: id, Origin: &traits.Hail_Location{DisplayName: "o" + id}}))
			}
			m := hailpb.NewModel(opts...)
			s := hailpb.NewModelServer(m)
			return &inst{
				invents: true,
				full: func() (full []string) {
					for _, x := range m.ListHails() {
						full = append(full, x.Id)
					}
					return
				},
				list: func(size int32, token string) (page, error) {
					r, err := s.ListHails(ctx, &traits.ListHailsRequest{Name: "dev", PageSize: size, PageToken: token})
					if err != nil {
						return page{}, err
					}
					p := page{next: r.NextPageToken, total: int(r.TotalSize)}
					for _, x := range r.Hails {
						p.keys = append(p.keys, x.Id)
					}
					return p, nil
				},
				write: func(kind, key string, am bool) (string, string, string, error) {
					switch kind {
					case "create": // the id is the model's choice
						h, err := s.CreateHail(ctx, &traits.CreateHailRequest{Name: "dev", Hail: &traits.Hail{}})
						return "CreateHail", "add", h.GetId(), err
					case "update":
						_, err := m.UpdateHail(&traits.Hail{Id: key, State: traits.Hail_BOARDING})
						return "Model.UpdateHail", "none", "", err
					case "delete":
						_, err := s.DeleteHail(ctx, &traits.DeleteHailRequest{Name: "dev", Id: key, AllowMissing: am})
						return "DeleteHail", "remove", "", err
					case "badmask":
						_, err := m.UpdateHail(&traits.Hail{Id: key, State: traits.Hail_ARRIVED}, badMask)
						return "Model.UpdateHail(bad mask)", "none", "", err
					case "use":
						_, err := s.UpdateHail(ctx, &traits.UpdateHailRequest{Name: "dev", Hail: &traits.Hail{Id: key, State: traits.Hail_DEPARTED}})
						return "UpdateHail", "none", "", err
					}
					return "", "", "", nil
				},
			}
		}},
		{"parent.ListChildren", "lastkey", func(ids []string, rnd *rand.Rand) *inst {
			m := parentpb.NewModel()
			for _, id := range shuffled(ids, rnd) {
				m.AddChild(&traits.Child{Name: id})
			}
			s := parentpb.NewModelServer(m)
			return &inst{
				// the model's ListChildren returns the collection's order, the one the RPC pages through
				full: func() (full []string) {
					for _, x := range m.ListChildren() {
						full = append(full, x.Name)
					}
					return
				},
				list: func(size int32, token string) (page, error) {
					r, err := s.ListChildren(ctx, &traits.ListChildrenRequest{Name: "dev", PageSize: size, PageToken: token})
					if err != nil {
						return page{}, err
					}
					p := page{next: r.NextPageToken, total: int(r.TotalSize)}
					for _, x := range r.Children {
						p.keys = append(p.keys, x.Name)
					}
					return p, nil
				},
				// the trait has no write RPC; these are the model's own operations
				write: func(kind, key string, am bool) (string, string, string, error) {
					switch kind {
					case "create":
						m.AddChild(&traits.Child{Name: key}) // an existing name: documented no-op
						return "Model.AddChild", "add", "", nil
					case "update":
						m.AddChildTrait(key, "smartcore.traits.OnOff") // documented to create the child if absent
						return "Model.AddChildTrait", "add", "", nil
					case "delete":
						_, err := m.RemoveChildByName(key, resource.WithAllowMissing(am))
						return "Model.RemoveChildByName", "remove", "", err
					case "use":
						m.RemoveChildTrait(key, "smartcore.traits.OnOff") // an absent child: documented nil
						return "Model.RemoveChildTrait", "none", "", nil
					}
					return "", "", "", nil
				},
			}
		}},
		{"publication.ListPublications", "lastkey", func(ids []string, rnd *rand.Rand) *inst {
			m := publicationpb.NewModel()
			for _, id := range shuffled(ids, rnd) {
				if _, err := m.CreatePublication(&traits.Publication{Id: id, Body: []byte("b")}); err != nil {
					hx.Fatal("publication CreatePublication %q: %v", id, err)
				}
			}
			s := publicationpb.NewModelServer(m)
			return &inst{
				full: func() (full []string) {
					for _, x := range m.ListPublications() {
						full = append(full, x.Id)
					}
					return
				},
				list: func(size int32, token string) (page, error) {
					r, err := s.ListPublications(ctx, &traits.ListPublicationsRequest{Name: "dev", PageSize: size, PageToken: token})
					if err != nil {
						return page{}, err
					}
					p := page{next: r.NextPageToken, total: int(r.TotalSize)}
					for _, x := range r.Publications {
						p.keys = append(p.keys, x.Id)
					}
					return p, nil
				},
				write: func(kind, key string, am bool) (string, string, string, error) {
					switch kind {
					case "create":
						_, err := s.CreatePublication(ctx, &traits.CreatePublicationRequest{Name: "dev", Publication: &traits.Publication{Id: key, Body: []byte("new")}})
						return "CreatePublication", "add", "", err
					case "update":
						_, err := s.UpdatePublication(ctx, &traits.UpdatePublicationRequest{Name: "dev", Publication: &traits.Publication{Id: key, Body: []byte("upd")}})
						return "UpdatePublication", "none", "", err
					case "delete":
						_, err := s.DeletePublication(ctx, &traits.DeletePublicationRequest{Name: "dev", Id: key, AllowMissing: am})
						return "DeletePublication", "remove", "", err
					case "badmask":
						_, err := m.UpdatePublication(key, &traits.Publication{Id: key, Body: []byte("x")}, badMask)
						return "Model.UpdatePublication(bad mask)", "none", "", err
					case "refuse":
						_, err := s.AcknowledgePublication(ctx, &traits.AcknowledgePublicationRequest{Name: "dev", Id: key, Version: "not-the-version", Receipt: traits.Publication_Audience_ACCEPTED})
						return "AcknowledgePublication(stale version)", "none", "", err
					case "use":
						v := ""
						if p, ok := m.GetPublication(key); ok {
							v = p.Version
						}
						_, err := s.AcknowledgePublication(ctx, &traits.AcknowledgePublicationRequest{Name: "dev", Id: key, Version: v, Receipt: traits.Publication_Audience_ACCEPTED})
						return "AcknowledgePublication", "none", "", err
					}
					return "", "", "", nil
				},
			}
		}},
		{"vending.ListConsumables", "lastkey", func(ids []string, rnd *rand.Rand) *inst {
			m := vendingpb.NewModel()
			for _, id := range shuffled(ids, rnd) {
				if _, err := m.CreateConsumable(&traits.Consumable{Name: id, DisplayName: "d" + id}); err != nil {
					hx.Fatal("vending CreateConsumable %q: %v", id, err)
				}
			}
			s := vendingpb.NewModelServer(m)
			return &inst{
				full: func() (full []string) {
					for _, x := range m.ListConsumables() {
						full = append(full, x.Name)
					}
					return
				},
				list: func(size int32, token string) (page, error) {
					r, err := s.ListConsumables(ctx, &traits.ListConsumablesRequest{Name: "dev", PageSize: size, PageToken: token})
					if err != nil {
						return page{}, err
					}
					p := page{next: r.NextPageToken, total: int(r.TotalSize)}
					for _, x := range r.Consumables {
						p.keys = append(p.keys, x.Name)
					}
					return p, nil
				},
				// the trait's RPCs do not write consumables; these are the model's own operations
				write: func(kind, key string, am bool) (string, string, string, error) {
					switch kind {
					case "create":
						_, err := m.CreateConsumable(&traits.Consumable{Name: key, DisplayName: "new"})
						return "Model.CreateConsumable", "add", "", err
					case "update":
						_, err := m.UpdateConsumable(&traits.Consumable{Name: key, DisplayName: "upd"})
						return "Model.UpdateConsumable", "none", "", err
					case "delete":
						_, err := m.DeleteConsumable(key, resource.WithAllowMissing(am))
						return "Model.DeleteConsumable", "remove", "", err
					case "badmask":
						_, err := m.UpdateConsumable(&traits.Consumable{Name: key, DisplayName: "x"}, badMask)
						return "Model.UpdateConsumable(bad mask)", "none", "", err
					}
					return "", "", "", nil
				},
			}
		}},
		{"vending.ListInventory", "lastkey", func(ids []string, rnd *rand.Rand) *inst {
			m := vendingpb.NewModel()
			for _, id := range shuffled(ids, rnd) {
				if _, err := m.CreateStock(&traits.Consumable_Stock{Consumable: id, Remaining: litres(10), Used: litres(0)}); err != nil {
					hx.Fatal("vending CreateStock %q: %v", id, err)
				}
			}
			s := vendingpb.NewModelServer(m)
			return &inst{
				full: func() (full []string) {
					for _, x := range m.ListInventory() {
						full = append(full, x.Consumable)
					}
					return
				},
				list: func(size int32, token string) (page, error) {
					r, err := s.ListInventory(ctx, &traits.ListInventoryRequest{Name: "dev", PageSize: size, PageToken: token})
					if err != nil {
						return page{}, err
					}
					p := page{next: r.NextPageToken, total: int(r.TotalSize)}
					for _, x := range r.Inventory {
						p.keys = append(p.keys, x.Consumable)
					}
					return p, nil
				},
				write: func(kind, key string, am bool) (string, string, string, error) {
					switch kind {
					case "create":
						_, err := m.CreateStock(&traits.Consumable_Stock{Consumable: key, Remaining: litres(5), Used: litres(0)})
						return "Model.CreateStock", "add", "", err
					case "update":
						_, err := s.UpdateStock(ctx, &traits.UpdateStockRequest{Name: "dev", Stock: &traits.Consumable_Stock{Consumable: key, Remaining: litres(7), Used: litres(3)}})
						return "UpdateStock", "none", "", err
					case "delete":
						_, err := m.DeleteStock(key, resource.WithAllowMissing(am))
						return "Model.DeleteStock", "remove", "", err
					case "badmask":
						_, err := m.UpdateStock(&traits.Consumable_Stock{Consumable: key, Remaining: litres(1)}, badMask)
						return "Model.UpdateStock(bad mask)", "none", "", err
					case "refuse": // a weight cannot be taken from a stock kept in litres
						_, err := s.Dispense(ctx, &traits.DispenseRequest{Name: "dev", Consumable: key, Quantity: &traits.Consumable_Quantity{Unit: traits.Consumable_KILOGRAM, Amount: 1}})
						return "Dispense(inconvertible unit)", "none", "", err
					case "use":
						_, err := s.Dispense(ctx, &traits.DispenseRequest{Name: "dev", Consumable: key, Quantity: litres(1)})
						return "Dispense", "none", "", err
					}
					return "", "", "", nil
				},
			}
		}},
		{"waste.ListWasteRecords", "index", func(ids []string, rnd *rand.Rand) *inst {
			m := wastepb.NewModel()
			clearWaste(m) // NewModel invents 100 records; the case decides the contents
			var order []string
			t0 := time.Unix(1700000000, 0)
			add := func(id string) error {
				ts := timestamppb.New(t0.Add(time.Duration(len(order)) * time.Minute))
				_, err := m.AddWasteRecord(&traits.WasteRecord{Id: id, WasteCreateTime: ts, RecordCreateTime: ts})
				if err == nil {
					order = append(order, id)
				}
				return err
			}
			for _, id := range shuffled(ids, rnd) {
				if err := add(id); err != nil {
					hx.Fatal("waste AddWasteRecord %q: %v", id, err)
				}
			}
			if c := m.GetWasteRecordCount(); c != len(order) {
				hx.Fatal("waste model holds %d records, wanted %d", c, len(order))
			}
			s := wastepb.NewModelServer(m)
			return &inst{
				// the listing is newest first (ListWasteRecords' documentation): the model has
				// no un-paged list, its order of insertion reversed is the listing
				full: func() []string {
					full := make([]string, 0, len(order))
					for i := len(order) - 1; i >= 0; i-- {
						full = append(full, order[i])
					}
					return full
				},
				list: func(size int32, token string) (page, error) {
					r, err := s.ListWasteRecords(ctx, &traits.ListWasteRecordsRequest{Name: "dev", PageSize: size, PageToken: token})
					if err != nil {
						return page{}, err
					}
					p := page{next: r.NextPageToken, total: int(r.TotalSize)}
					for _, x := range r.WasteRecords {
						p.keys = append(p.keys, x.Id)
					}
					return p, nil
				},
				// appending a record is the trait model's only write (ids are not unique keys there:
				// a record whose id is already listed is not added by the harness)
				write: func(kind, key string, am bool) (string, string, string, error) {
					if kind != "create" {
						return "", "", "", nil
					}
					for _, id := range order {
						if id == key {
							return "", "", "", nil
						}
					}
					return "Model.AddWasteRecord", "add", "", add(key)
				},
			}
		}},
	}
}

// clearWaste empties the record list NewModel pre-populates (there is no exported
// way to construct an empty waste model).
func clearWaste(m *wastepb.Model) {
	f := reflect.ValueOf(m).Elem().FieldByName("allWasteRecords")
	if !f.IsValid() || f.Kind() != reflect.Slice {
		hx.Fatal("wastepb.Model has no slice field allWasteRecords any more: the harness cannot set its contents")
	}
	reflect.NewAt(f.Type(), unsafe.Pointer(f.UnsafeAddr())).Elem().Set(reflect.Zero(f.Type()))
}

func b64(b []byte) string { return base64.StdEncoding.EncodeToString(b) }

func nameToken(name string) string {
	b, err := proto.Marshal(&types.PageToken{PageStart: &types.PageToken_LastResourceName{LastResourceName: name}})
	if err != nil {
		hx.Fatal("marshal token: %v", err)
	}
	return b64(b)
}

// firstToken maps the spec's token variant to a concrete token of the scheme and
// the name of its class.  The classes listed in PagingTrace!Malformed are the ones
// that cannot be decoded at all.
func firstToken(scheme string, variant int, full []string) (class, token string) {
	n := len(full)
	if scheme == "index" {
		switch variant {
		case 1:
			return "garbage-text", "abc"
		case 2:
			return "garbage-float", "1.5"
		case 3:
			return "garbage-overflow", "99999999999999999999999"
		case 4:
			return "negative-index", "-3"
		case 5:
			return "zero-index", "0"
		case 6:
			return "index-n", strconv.Itoa(n)
		case 7:
			return "index-beyond-n", strconv.Itoa(n + 1)
		case 8:
			return "index-far-beyond-n", strconv.Itoa(n + 1000)
		default:
			return "index-inside", strconv.Itoa(n / 2)
		}
	}
	switch variant {
	case 1:
		return "garbage-base64", "!!not*base64!!"
	case 2:
		return "garbage-proto", b64([]byte{0x12, 0x05, 'a', 'b'}) // field 2, length 5, two bytes
	case 3:
		return "garbage-utf8", b64([]byte{0x12, 0x02, 0xff, 0xfe}) // proto3 string that is not UTF-8
	case 4:
		b, _ := proto.Marshal(&types.PageToken{PageStart: &types.PageToken_LastOffset{LastOffset: 3}})
		return "other-oneof-arm", b64(b)
	case 5:
		return "empty-key", b64([]byte{0x12, 0x00})
	case 6:
		return "absent-key-before-all", nameToken(" ")
	case 7:
		return "absent-key-after-all", nameToken("\U0010FFFF")
	case 8:
		if n == 0 {
			return "absent-key-inside", nameToken("m")
		}
		return "absent-key-inside", nameToken(full[n/2] + " ") // right after full[n/2]: ' ' sorts before the alphabet
	default:
		if n == 0 {
			return "absent-key-inside", nameToken("a")
		}
		return "present-key", nameToken(full[n/2])
	}
}

type keyBook struct {
	label map[string][]int // stored key -> spec key
}

func (b *keyBook) of(k string) []int {
	if l, ok := b.label[k]; ok {
		return l
	}
	return []int{0} // a key no write of the case put there
}

func runCase(idx int, c pagingCase, t target, out *hx.Out) {
	ids := make([]string, len(c.IDs))
	book := &keyBook{label: map[string][]int{}}
	for i, id := range c.IDs {
		ids[i] = idString(id)
		book.label[ids[i]] = id
	}
	rnd := hx.Rand(int64(idx)*131 + int64(len(t.name)))
	var in *inst
	if p := hx.Catch(func() { in = t.fill(ids, rnd) }); p != "" {
		hx.Fatal("filling %s with %d ids panicked: %s", t.name, len(ids), p)
	}
	sample := ""
	if len(ids) > 0 {
		sample = fmt.Sprintf("%q", shuffled(ids, rnd)[:min(4, len(ids))])
	}
	if c.K != "hist" {
		sizes := c.Sizes
		if len(sizes) == 0 {
			sizes = []int{c.Size}
		}
		o := walkObs{K: c.K, Case: idx, Srv: t.name, Scheme: t.scheme, Size: sizes[0], Sizes: sizes, TClass: "none", Sample: sample,
			Init: [][]int{}, Ops: []writeObs{}, FlatKeys: [][]int{}}
		walk(in, &o, c.Variant, nil)
		out.Write(o)
		return
	}
	// a history: writes, a walk, more writes, another walk; every walk is one line carrying
	// the collection the case started with and all writes so far with what they did
	init := c.IDs
	if init == nil {
		init = [][]int{}
	}
	ops := []writeObs{}
	stored := map[string]string{} // spec key -> key the model chose (hail)
	for si, sg := range c.Segs {
		for _, op := range sg.Ops {
			w := writeObs{Kind: op.Kind, Key: op.Key, AM: op.AM}
			want := idString(op.Key)
			key := want
			if k, ok := stored[want]; ok {
				key = k
			}
			skip := false
			if in.invents && op.Kind == "create" {
				// a create under a key of the model's choice can stand for the spec's create only
				// while the spec key is not in use
				for _, k := range in.full() {
					skip = skip || k == key
				}
			}
			if in.write != nil && !skip {
				var call, eff, got string
				var err error
				p := hx.Catch(func() { call, eff, got, err = in.write(op.Kind, key, op.AM) })
				w.Call, w.Eff, w.Sup = call, eff, call != "" || p != ""
				w.Err = hx.Code(err)
				if p != "" {
					w.Err = "Panic: " + p
				}
				w.OK = w.Sup && err == nil && p == ""
				if w.OK && w.Eff == "add" {
					if got != "" { // the model chose the key
						if _, live := book.label[got]; !live {
							stored[want] = got
							book.label[got] = op.Key
						}
					} else {
						book.label[want] = op.Key
					}
				}
			}
			ops = append(ops, w)
		}
		o := walkObs{K: "hist", Case: idx, Srv: t.name, Scheme: t.scheme, Size: sg.Size, Sizes: []int{sg.Size}, TClass: "none", Sample: sample,
			Init: init, Ops: append([]writeObs{}, ops...), Seg: si + 1, FlatKeys: [][]int{}}
		walk(in, &o, 0, book)
		out.Write(o)
	}
}

// walk follows one token chain on in and fills o.
func walk(in *inst, o *walkObs, variant int, book *keyBook) {
	var full []string
	if p := hx.Catch(func() { full = in.full() }); p != "" {
		hx.Fatal("%s: the model's un-paged list panicked: %s", o.Srv, p)
	}
	rank := make(map[string]int, len(full))
	o.Sorted = true
	for i, k := range full {
		rank[k] = i + 1
		if i > 0 && !(full[i-1] < k) {
			o.Sorted = false
		}
	}
	o.N = len(full)
	o.Flat, o.Lens, o.Totals = []int{}, []int{}, []int{}
	o.Bound = 2*len(full) + 5
	token := ""
	if o.K == "tok" {
		o.TClass, token = firstToken(o.Scheme, variant, full)
	}
	o.Token = token
	for {
		if o.Calls >= o.Bound {
			break // Ended stays false: the chain did not stop within the bound
		}
		o.Calls++
		var p page
		var err error
		size := o.Sizes[(o.Calls-1)%len(o.Sizes)]
		o.Panic = hx.Catch(func() { p, err = in.list(int32(size), token) })
		if o.Panic != "" {
			o.Err = "Panic"
			o.Ended = true
			break
		}
		o.Err = hx.Code(err)
		if o.Calls == 1 {
			o.First = o.Err
		}
		if err != nil {
			o.Ended = true
			break
		}
		for _, k := range p.keys {
			o.Flat = append(o.Flat, rank[k]) // 0 if the server returned something that is not in the listing
			if book != nil {
				o.FlatKeys = append(o.FlatKeys, book.of(k))
			}
		}
		o.Lens = append(o.Lens, len(p.keys))
		o.Totals = append(o.Totals, p.total)
		if p.next == "" {
			o.Ended = true
			break
		}
		token = p.next
	}
	if o.Calls == 1 && o.Panic != "" {
		o.First = "Panic"
	}
}

func main() {
	cases := hx.ReadCases[pagingCase](hx.Arg("-cases", "cases.ndjson"))
	out := hx.NewOut(hx.Arg("-out", "obs.ndjson"))
	defer out.Close()
	only := hx.Arg("-srv", "")
	ts := targets()
	for i, c := range cases {
		for _, t := range ts {
			if t.scheme != c.Sch || (only != "" && only != t.name) {
				continue
			}
			runCase(i, c, t, out)
		}
	}
}
