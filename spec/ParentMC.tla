---------------------------- MODULE ParentMC ----------------------------
(***************************************************************************)
(* MC use of Parent.tla: every operation from every reachable state over  *)
(* two children and four traits.  `added`/`removed` history variables     *)
(* restate the property independently of the step functions: a child's    *)
(* list is always the sorted duplicate-free list of its trait set, and    *)
(* the set evolves by union and difference only.                          *)
(***************************************************************************)
EXTENDS Parent, TLC

VARIABLES st, sets, last
vars == <<st, sets, last>>

MCTraits == {"Air", "Light", "aux", "zone"}
MCChildren == {"c1", "c2"}
\* argument lists: up to two names, any order, repetitions allowed
ArgLists == {<<>>} \cup { <<a>> : a \in MCTraits } \cup { <<a, b>> : a, b \in MCTraits }

Init == st = <<>> /\ sets = [c \in MCChildren |-> {}] /\ last = [op |-> "none", pre |-> <<>>, r |-> AddChild(<<>>, [name |-> "c1", traits |-> <<>>])]

Do(op, n, ts) ==
  LET r == Step(st, op, n, ts) IN
  /\ st' = r.post
  /\ last' = [op |-> op, pre |-> st, r |-> r]
  /\ sets' = CASE op = "AddChildTrait" -> [sets EXCEPT ![n] = @ \cup SetOf(ts)]
               [] op = "RemoveChildTrait" -> [sets EXCEPT ![n] = @ \ SetOf(ts)]
               [] op = "AddChild" -> IF Has(st, n) THEN sets ELSE [sets EXCEPT ![n] = SetOf(ts)]
               [] op = "RemoveChildByName" -> [sets EXCEPT ![n] = {}]

Next == \E n \in MCChildren :
          \/ \E ts \in ArgLists : Do("AddChildTrait", n, ts) \/ Do("RemoveChildTrait", n, ts)
          \/ \E S \in SUBSET MCTraits : Do("AddChild", n, SortedTraits(S))
          \/ Do("RemoveChildByName", n, <<>>)
Spec == Init /\ [][Next]_vars
ViewNoHist == <<st, sets>>

StateWellFormed == WellFormed(st)
ListIsSetAlgebra == \A n \in MCChildren : Has(st, n) => Child(st, n).traits = SortedTraits(sets[n])
AbsentMeansNoChange == (last.op = "RemoveChildTrait" /\ ~Has(last.pre, last.r.ret.v.name) /\ ~last.r.ret.has) => st = last.pre
ReturnIsStored == (last.op \in {"AddChildTrait", "RemoveChildTrait"} /\ last.r.ret.has) => Child(st, last.r.ret.v.name) = last.r.ret.v
=============================================================================
