INIT MCInit
NEXT MCNext
INVARIANT SingleCommit
CONSTANTS
  NCases = 0
  Recheck = FALSE
  Precheck = FALSE
  NMutators = 1
