------------------------------ MODULE Electric ------------------------------
(***************************************************************************)
(* Specification of pkg/trait/electricpb.Model (property C19): the mode    *)
(* table of an electric device and its active mode.                        *)
(*                                                                         *)
(*   st.modes    id |-> [normal, title, start]   (Modes(); start is the    *)
(*               start_time the STORED mode carries: an ordinary field of  *)
(*               ElectricMode that a client can write, e.g. by writing     *)
(*               back a mode it read from GetActiveMode; -1 = none)        *)
(*   st.active   [id, normal, title, start]      (ActiveMode(); a copy of  *)
(*               the mode taken when it became active; start = model clock *)
(*               tick, -1 = not set; id "" = the dummy of a new model)     *)
(*   st.changed  has the active mode been set / changed successfully yet   *)
(*   now         the model clock (WithClock), in ticks                     *)
(*                                                                         *)
(* Every Model operation is one atomic step (the code holds Model.mu for   *)
(* the whole operation): Step(s, now, op, newid) = [err, post].  The spec  *)
(* states the DOCUMENTED behaviour (doc comments of model.go + the text of *)
(* C19).  Two places where the code as found differs are named deviations  *)
(* that can be switched on with the constant Dev, so that TLC can show the *)
(* invariant failing "through the unusual door":                           *)
(*   "update-no-normal-check"  UpdateMode does not look for an existing    *)
(*                             normal mode (CreateMode/AddMode do)         *)
(*   "delete-am-notfound"      DeleteMode(allow-missing) of an absent mode *)
(*                             reports NotFound                            *)
(*                                                                         *)
(* The predicates P_* are the clauses of C19 written over one observed     *)
(* step x = [pre, now, op, err, post].  ElectricMC.cfg checks them on the  *)
(* specification's own steps (all operations from every reachable state); *)
(* ElectricTrace.tla evaluates the very same predicates on the steps the   *)
(* real code performed.                                                    *)
(***************************************************************************)
EXTENDS Integers, Sequences, FiniteSets, TLC

CONSTANTS Ids,      \* mode ids of the model-checking instance (<= 4)
          Titles,   \* title indices
          MaxNow,   \* bound of the clock in the model-checking instance
          Dev       \* set of deviations switched on ({} = documented behaviour)

VARIABLES st, now
vars == <<st, now>>

NoStart == -1
Dummy == [id |-> "", normal |-> FALSE, title |-> 0, start |-> NoStart]
InitState == [modes |-> <<>>, active |-> Dummy, changed |-> FALSE]

(* A model is constructed with options that shape its initial state                  *)
(* (model_opts.go): WithInitialMode(modes...) - additive, = WithModeOption(           *)
(* resource.WithInitialRecord) - puts modes into the table, WithInitialActiveMode     *)
(* (= WithActiveModeOption(resource.WithInitialValue)) puts a mode into the active    *)
(* mode value without any operation having run.  An initial configuration is          *)
(*   [modes : sequence of [id, normal, title, start], active : [id, normal, title,    *)
(*    start]]                                                                         *)
(* and is well formed when at most one initial mode is normal and the initial active  *)
(* mode is the blank one or (a copy of) one of the initial modes.  The clauses of C19 *)
(* hold from there on: in particular the configured active mode is never deleted,     *)
(* although no operation has "changed" the active mode yet.                           *)
SeqIdsOf(seq) == { seq[k].id : k \in 1..Len(seq) }
ModesFromSeq(seq) == [i \in SeqIdsOf(seq) |->
                        LET k == CHOOSE k \in 1..Len(seq) : seq[k].id = i
                        IN [normal |-> seq[k].normal, title |-> seq[k].title, start |-> seq[k].start]]
StateFrom(ini) == [modes |-> ModesFromSeq(ini.modes), active |-> ini.active, changed |-> FALSE]
EmptyInit == [modes |-> <<>>, active |-> Dummy]
WellFormedInit(ini) ==
  /\ Cardinality(SeqIdsOf(ini.modes)) = Len(ini.modes)
  /\ Cardinality({ k \in 1..Len(ini.modes) : ini.modes[k].normal }) <= 1
  /\ ini.active.id = "" \/ ini.active.id \in SeqIdsOf(ini.modes)

Has(m, id) == id \in DOMAIN m
NormalIds(m) == { i \in DOMAIN m : m[i].normal }
Put(m, id, rec) == [i \in (DOMAIN m) \cup {id} |-> IF i = id THEN rec ELSE m[i]]
Drop(m, id) == [i \in (DOMAIN m) \ {id} |-> m[i]]
AsActive(m, id, start) == [id |-> id, normal |-> m[id].normal, title |-> m[id].title, start |-> start]

----------------------------------------------------------------------------
(* Operations.  One record shape for all of them (JSON round trip):       *)
(*   op     "Create" | "Add" | "Update" | "Delete" | "SetActive" |         *)
(*          "Change" | "Clear"                                             *)
(*   id     the mode id (Add, Update, Delete, SetActive, Change)           *)
(*   normal, title   fields of the written mode (Create, Add, Update,      *)
(*          SetActive)                                                     *)
(*   mask   update mask of Update: "nil" (all fields) | "normal" | "title" *)
(*          | "both"                                                       *)
(*   am     allow-missing (Delete)                                         *)
(*   start  start_time of the written mode (Create, Add, Update without a  *)
(*          mask, SetActive; -1 = none)                                    *)
(*   src    where the written message comes from (Add, Update):            *)
(*          "lit"    the fields above                                      *)
(*          "active" a copy of what GetActiveMode returns (normal, start;  *)
(*                   Update: also its id), title edited to op.title -      *)
(*                   the client's read-modify-write of the active mode     *)
(*          "listed" a copy of the listed mode with that id (normal,       *)
(*                   start), title edited to op.title                      *)
(*   dt     ticks the harness clock advances before the call (Gen/Trace)   *)
MkOpS(o, id, n, t, m, am, s, dt, src) ==
  [op |-> o, id |-> id, normal |-> n, title |-> t, mask |-> m, am |-> am, start |-> s, dt |-> dt, src |-> src]
MkOp(o, id, n, t, m, am, s, dt) == MkOpS(o, id, n, t, m, am, s, dt, "lit")
Srcs == {"lit", "active", "listed"}

\* the message a write-back operation writes, given what the client reads in state s (a copy of
\* the dummy active mode of a new model has no id to update: such an operation is taken literally)
Resolve(s, op) ==
  IF op.op \notin {"Add", "Update"} THEN op
  ELSE IF op.src = "active" /\ s.active.id # ""
       THEN [op EXCEPT !.id = IF op.op = "Update" THEN s.active.id ELSE op.id,
                       !.normal = s.active.normal, !.start = s.active.start]
  ELSE IF op.src = "listed" /\ Has(s.modes, op.id)
       THEN [op EXCEPT !.normal = s.modes[op.id].normal, !.start = s.modes[op.id].start]
  ELSE op
Masks == {"nil", "normal", "title", "both"}
ActiveOps == {"SetActive", "Change", "Clear"}

Fail(s, e) == [err |-> e, post |-> s]
Ok(s) == [err |-> "OK", post |-> s]

\* CreateMode / AddMode: refuse a second normal mode, refuse an id in use
Insert(s, id, op) ==
  IF op.normal /\ NormalIds(s.modes) # {} THEN Fail(s, "AlreadyExists")
  ELSE IF Has(s.modes, id) THEN Fail(s, "AlreadyExists")
  ELSE Ok([s EXCEPT !.modes = Put(@, id, [normal |-> op.normal, title |-> op.title, start |-> op.start])])

\* UpdateMode: invariant 1 of the Model doc comment ("at most one mode has normal = true") holds after
\* any operation, so an update that would make a second mode normal is refused like in Create/Add
Update(s, op) ==
  IF ~Has(s.modes, op.id) THEN Fail(s, "NotFound")
  ELSE LET old == s.modes[op.id]
           new == [normal |-> IF op.mask \in {"nil", "normal", "both"} THEN op.normal ELSE old.normal,
                   title  |-> IF op.mask \in {"nil", "title", "both"} THEN op.title ELSE old.title,
                   \* without a mask the whole message is written, start_time included
                   start  |-> IF op.mask = "nil" THEN op.start ELSE old.start]
       IN IF new.normal /\ (NormalIds(s.modes) \ {op.id}) # {} /\ "update-no-normal-check" \notin Dev
          THEN Fail(s, "AlreadyExists")
          ELSE Ok([s EXCEPT !.modes = Put(@, op.id, new)])

\* DeleteMode: never the active mode; absent: NotFound unless allow-missing, then success
Delete(s, op) ==
  IF op.id = s.active.id THEN Fail(s, "FailedPrecondition")
  ELSE IF ~Has(s.modes, op.id)
       THEN (IF op.am /\ "delete-am-notfound" \notin Dev THEN Ok(s) ELSE Fail(s, "NotFound"))
  ELSE Ok([s EXCEPT !.modes = Drop(@, op.id)])

\* SetActiveMode: the given message becomes the active mode as it is ("StartTime will not be set for you")
SetActive(s, op) ==
  IF ~Has(s.modes, op.id) THEN Fail(s, "NotFound")
  ELSE Ok([s EXCEPT !.active = [id |-> op.id, normal |-> op.normal, title |-> op.title, start |-> op.start],
                    !.changed = TRUE])

\* ChangeActiveMode: the stored mode becomes active; "Updates the StartTime of the mode to the current
\* time if the mode changes" (whatever start_time the stored mode carries), otherwise the active mode
\* keeps the time it became active
ChangeTo(s, t, id) ==
  IF ~Has(s.modes, id) THEN Fail(s, "NotFound")
  ELSE Ok([s EXCEPT !.active = AsActive(s.modes, id, IF id # s.active.id THEN t ELSE s.active.start),
                    !.changed = TRUE])

\* ChangeToNormalMode / ClearActiveMode
Clear(s, t) ==
  IF NormalIds(s.modes) = {} THEN Fail(s, "NotFound")
  ELSE ChangeTo(s, t, CHOOSE i \in NormalIds(s.modes) : TRUE)

\* newid: the id the device allocates in CreateMode (any id not in use)
Step(s, t, op0, newid) ==
  LET op == Resolve(s, op0) IN
  CASE op.op = "Create"    -> Insert(s, newid, op)
    [] op.op = "Add"       -> Insert(s, op.id, op)
    [] op.op = "Update"    -> Update(s, op)
    [] op.op = "Delete"    -> Delete(s, op)
    [] op.op = "SetActive" -> SetActive(s, op)
    [] op.op = "Change"    -> ChangeTo(s, t, op.id)
    [] op.op = "Clear"     -> Clear(s, t)

----------------------------------------------------------------------------
(* C19, clause by clause, over one step x = [pre, now, op, err, post, ret] *)
(* (ret = [has, m]: the mode the call returned).                           *)
AMO(m) == Cardinality(NormalIds(m)) <= 1
ActiveOK(s) == s.changed => Has(s.modes, s.active.id)

\* "at most one mode is marked normal" (stepwise: no operation is a door out of the invariant)
P_OneNormal(x) == AMO(x.pre.modes) => AMO(x.post.modes)
\* "the active mode is never deleted"
P_ActiveKept(x) == Has(x.pre.modes, x.pre.active.id) => Has(x.post.modes, x.pre.active.id)
\* "once changed the active mode always refers to a mode that exists"
P_ActiveExists(x) == ActiveOK(x.pre) => ActiveOK(x.post)
\* "clearing the active mode selects the normal mode".  With no normal mode the doc comment says
\* ErrModeNotFound; the property text does not say, so only "success => a normal mode was selected".
\* The mode a clear returns is the copy of the stored mode taken at the instant of the switch (lookup
\* and switch are ONE atomic step): it is normal.  This is the form of the clause that can be judged
\* on a response alone, i.e. also while other goroutines move the normal flag around.
ClearResponseNormal(err, ret) == err = "OK" => ret.has /\ ret.m.normal
P_Clear(x) == x.op.op = "Clear" =>
                /\ x.err = "OK" => x.post.active.id \in NormalIds(x.pre.modes)
                /\ NormalIds(x.pre.modes) # {} => x.err = "OK"
                /\ ClearResponseNormal(x.err, x.ret)
\* "switching to a different mode stamps its start time with the model clock's current time".
\* SetActiveMode is documented not to stamp, so only ChangeActiveMode / ChangeToNormalMode.  What
\* happens to the start time when the SAME mode is selected again is not settled by the text and
\* not asserted here (the specification keeps it; see StepNotes below).  The clock's time, not a
\* start_time the stored mode happens to carry; the returned mode shows it too.
P_Stamp(x) == x.op.op \in {"Change", "Clear"} /\ x.err = "OK" /\ x.post.active.id # x.pre.active.id
                => x.post.active.start = x.now /\ (x.ret.has => x.ret.m.start = x.now)
\* "Deleting an absent mode reports NotFound unless allow-missing is set, in which case it succeeds"
\* (the id of the dummy active mode of a new model is left out: the text does not settle whether
\* that is "absent" or "active")
P_DeleteAbsent(x) == x.op.op = "Delete" /\ ~Has(x.pre.modes, x.op.id) /\ x.op.id # x.pre.active.id
                       => /\ x.err = (IF x.op.am THEN "OK" ELSE "NotFound")
                          /\ x.post.modes = x.pre.modes

If(b, name) == IF b THEN {} ELSE {name}
StepFails(x) == If(P_OneNormal(x), "at-most-one-normal")
           \cup If(P_ActiveKept(x), "active-mode-deleted")
           \cup If(P_ActiveExists(x), "active-refers-to-missing-mode")
           \cup If(P_Clear(x), "clear-selects-normal")
           \cup If(P_Stamp(x), "start-stamped-on-switch")
           \cup If(P_DeleteAbsent(x), "delete-absent")

(* Documented behaviour outside the text of C19 (error codes of refused    *)
(* calls, a refused call changes nothing, the exact new state): full       *)
(* conformance of a step with Step.  ElectricTrace reports these as notes, *)
(* never as violations.                                                    *)
NewIdOf(x) == LET d == (DOMAIN x.post.modes) \ (DOMAIN x.pre.modes)
              IN IF Cardinality(d) = 1 THEN CHOOSE i \in d : TRUE ELSE "?"
StepNotes(x) ==
  LET r == Step(x.pre, x.now, x.op, NewIdOf(x)) IN
       If(x.err = r.err, "err-differs-from-documented")
  \cup If(x.post.modes = r.post.modes, "modes-differ-from-documented")
  \cup If(x.post.active = r.post.active, "active-differs-from-documented")

----------------------------------------------------------------------------
(* Model checking instance: the real Next relation over all operations.   *)
Ops ==
       { MkOp("Create", "", n, t, "nil", FALSE, s, 0) : n \in BOOLEAN, t \in Titles, s \in {NoStart, 0} }
  \cup { MkOp("Add", i, n, t, "nil", FALSE, s, 0) : i \in Ids, n \in BOOLEAN, t \in Titles, s \in {NoStart, 0} }
  \cup { MkOp("Update", i, n, t, m, FALSE, NoStart, 0) : i \in Ids, n \in BOOLEAN, t \in Titles, m \in Masks }
  \* the client's read-modify-write: what GetActiveMode / ListModes returned, written back whole
  \cup { MkOpS("Update", "", FALSE, t, "nil", FALSE, NoStart, 0, "active") : t \in Titles }
  \cup { MkOpS("Update", i, FALSE, t, "nil", FALSE, NoStart, 0, "listed") : i \in Ids, t \in Titles }
  \cup { MkOpS("Add", i, FALSE, t, "nil", FALSE, NoStart, 0, "active") : i \in Ids, t \in Titles }
  \cup { MkOp("Delete", i, FALSE, 0, "nil", am, NoStart, 0) : i \in Ids, am \in BOOLEAN }
  \cup { MkOp("SetActive", i, n, 0, "nil", FALSE, s, 0) : i \in Ids, n \in BOOLEAN, s \in {NoStart, 0} }
  \cup { MkOp("Change", i, FALSE, 0, "nil", FALSE, NoStart, 0) : i \in Ids }
  \cup { MkOp("Clear", "", FALSE, 0, "nil", FALSE, NoStart, 0) }

NewIds(s, op) == IF op.op = "Create" THEN Ids \ DOMAIN s.modes ELSE {""}

\* the model-checking instance starts from every well formed configuration of up to 3 initial modes
\* over Ids (title 0, no start time), the active mode blank or a copy of one of them
InitTables == { m \in [Ids -> {"absent", "plain", "normal"}] :
                  /\ Cardinality({ i \in Ids : m[i] # "absent" }) <= 3
                  /\ Cardinality({ i \in Ids : m[i] = "normal" }) <= 1 }
TableOf(m) == [i \in { j \in Ids : m[j] # "absent" } |-> [normal |-> m[i] = "normal", title |-> 0, start |-> NoStart]]
InitStates == UNION { { [modes |-> TableOf(m), active |-> a, changed |-> FALSE]
                        : a \in {Dummy} \cup { AsActive(TableOf(m), i, NoStart) : i \in DOMAIN TableOf(m) } }
                      : m \in InitTables }
Init == st \in InitStates /\ now = 0
Do(op) == \E newid \in NewIds(st, op) : st' = Step(st, now, op, newid).post /\ now' = now
Tick == now < MaxNow /\ now' = now + 1 /\ UNCHANGED st
Next == Tick \/ \E op \in Ops : Do(op)
Spec == Init /\ [][Next]_vars

\* every step the specification can take from the current state, as an observation
\* (ChangeActiveMode / ChangeToNormalMode return the new active mode)
RetOf(op, r) == IF op.op \in {"Change", "Clear"} /\ r.err = "OK" THEN [has |-> TRUE, m |-> r.post.active]
                ELSE [has |-> FALSE, m |-> Dummy]
Seen(op, newid) == LET r == Step(st, now, op, newid)
                   IN [pre |-> st, now |-> now, op |-> op, err |-> r.err, post |-> r.post, ret |-> RetOf(op, r)]
StepsHere == UNION { { Seen(op, newid) : newid \in NewIds(st, op) } : op \in Ops }

TypeOK == /\ DOMAIN st.modes \subseteq Ids
          /\ \A i \in DOMAIN st.modes : /\ st.modes[i].normal \in BOOLEAN /\ st.modes[i].title \in Titles
                                       /\ st.modes[i].start \in -1..MaxNow
          /\ st.active.id \in Ids \cup {""} /\ st.active.start \in -1..MaxNow
          /\ st.changed \in BOOLEAN /\ now \in 0..MaxNow
AtMostOneNormal == AMO(st.modes)
ActiveExistsOnceChanged == ActiveOK(st)
\* the step clauses over a set S of observed steps
ActiveNeverDeletedIn(S) == \A x \in S : P_ActiveKept(x) /\ P_ActiveExists(x)
ClearSelectsNormalIn(S) == \A x \in S : P_Clear(x)
StartStampedOnSwitchIn(S) ==
  \A x \in S : /\ P_Stamp(x)
                \* the specification's own reading of "iff": the same mode again keeps its time
                /\ x.op.op \in {"Change", "Clear"} /\ x.err = "OK" /\ x.post.active.id = x.pre.active.id
                     => x.post.active.start = x.pre.active.start
DeleteAbsentIn(S) == \A x \in S : P_DeleteAbsent(x)
RefusedIsNoopIn(S) == \A x \in S : x.err # "OK" => x.post = x.pre

\* ... of every step the specification can take from the current state
ActiveNeverDeleted == ActiveNeverDeletedIn(StepsHere)
ClearSelectsNormal == ClearSelectsNormalIn(StepsHere)
StartStampedOnSwitch == StartStampedOnSwitchIn(StepsHere)
DeleteAbsent == DeleteAbsentIn(StepsHere)
RefusedIsNoop == RefusedIsNoopIn(StepsHere)
\* all of them with the steps computed once (what ElectricMC.cfg checks; the named ones above
\* serve to show a single clause failing)
StepClauses == LET S == StepsHere IN
  /\ ActiveNeverDeletedIn(S) /\ ClearSelectsNormalIn(S) /\ StartStampedOnSwitchIn(S)
  /\ DeleteAbsentIn(S) /\ RefusedIsNoopIn(S)
NoDoorOut == \A x \in StepsHere : StepFails(x) = {}
=============================================================================
