package main

import (
	"math/rand"

	"google.golang.org/protobuf/reflect/protoreflect"
)

// fillRandom populates m with random field values (every kind, lists, maps, oneofs, nested
// messages down to depth).  Floats are finite so that proto.Equal is reflexive on the result.
func fillRandom(m protoreflect.Message, r *rand.Rand, depth int) {
	fillShaped(m, r, depth, shape{skipPct: 35, minList: 0, maxList: 2})
}

// shape says how densely a message is populated.
type shape struct {
	skipPct          int // chance of leaving a field unset
	minList, maxList int // elements of repeated fields / maps
}

func shapeOf(name string) (shape, bool) {
	switch name {
	case "full":
		return shape{skipPct: 0, minList: 2, maxList: 3}, true
	case "sparse":
		return shape{skipPct: 70, minList: 1, maxList: 1}, true
	}
	return shape{}, false
}

func fillShaped(m protoreflect.Message, r *rand.Rand, depth int, sh shape) {
	n := func() int { return sh.minList + r.Intn(sh.maxList-sh.minList+1) }
	fds := m.Descriptor().Fields()
	for i := 0; i < fds.Len(); i++ {
		fd := fds.Get(i)
		if r.Intn(100) < sh.skipPct {
			continue
		}
		switch {
		case fd.IsMap():
			mp := m.Mutable(fd).Map()
			for j, n := 0, n(); j < n; j++ {
				key := randScalar(fd.MapKey(), r).MapKey()
				if fd.MapValue().Message() != nil {
					v := mp.NewValue()
					if depth > 0 {
						fillShaped(v.Message(), r, depth-1, sh)
					}
					mp.Set(key, v)
				} else {
					mp.Set(key, randScalar(fd.MapValue(), r))
				}
			}
		case fd.IsList():
			l := m.Mutable(fd).List()
			for j, n := 0, n(); j < n; j++ {
				if fd.Message() != nil {
					e := l.NewElement()
					if depth > 0 {
						fillShaped(e.Message(), r, depth-1, sh)
					}
					l.Append(e)
				} else {
					l.Append(randScalar(fd, r))
				}
			}
		case fd.Message() != nil:
			if depth <= 0 {
				continue
			}
			fillShaped(m.Mutable(fd).Message(), r, depth-1, sh)
		default:
			m.Set(fd, randScalar(fd, r))
		}
	}
}

func randString(r *rand.Rand) string {
	const al = "abcdefghijklmnopqrstuvwxyzABCDEFGHIJKLMNOPQRSTUVWXYZ0123456789/-_. "
	n := r.Intn(12)
	b := make([]byte, n)
	for i := range b {
		b[i] = al[r.Intn(len(al))]
	}
	return string(b)
}

func randScalar(fd protoreflect.FieldDescriptor, r *rand.Rand) protoreflect.Value {
	switch fd.Kind() {
	case protoreflect.BoolKind:
		return protoreflect.ValueOfBool(r.Intn(2) == 0)
	case protoreflect.EnumKind:
		vs := fd.Enum().Values()
		return protoreflect.ValueOfEnum(vs.Get(r.Intn(vs.Len())).Number())
	case protoreflect.Int32Kind, protoreflect.Sint32Kind, protoreflect.Sfixed32Kind:
		return protoreflect.ValueOfInt32(int32(r.Intn(2001) - 1000))
	case protoreflect.Uint32Kind, protoreflect.Fixed32Kind:
		return protoreflect.ValueOfUint32(uint32(r.Intn(100000)))
	case protoreflect.Int64Kind, protoreflect.Sint64Kind, protoreflect.Sfixed64Kind:
		return protoreflect.ValueOfInt64(r.Int63n(1<<40) - (1 << 39))
	case protoreflect.Uint64Kind, protoreflect.Fixed64Kind:
		return protoreflect.ValueOfUint64(uint64(r.Int63n(1 << 40)))
	case protoreflect.FloatKind:
		return protoreflect.ValueOfFloat32(float32(r.Intn(20001)-10000) / 8)
	case protoreflect.DoubleKind:
		return protoreflect.ValueOfFloat64(float64(r.Intn(2000001)-1000000) / 64)
	case protoreflect.StringKind:
		return protoreflect.ValueOfString(randString(r))
	case protoreflect.BytesKind:
		return protoreflect.ValueOfBytes([]byte(randString(r)))
	}
	panic("randScalar: unexpected kind " + fd.Kind().String())
}
