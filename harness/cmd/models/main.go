// Command models replays the walks generated from the C20 trait-model
// specifications (spec/Parent.tla, Vending.tla, FanSpeed.tla, ModeTrait.tla,
// EnterLeave.tla, Meter.tla, Publication.tla) on the real models of
// pkg/trait/*pb and records, one JSON line per operation, the abstract state
// before the call (read back through the model's public API), the call, what
// it returned and the abstract state afterwards.  Panics are recovered and
// recorded; nothing is judged here.
//
//	models -cases walks.ndjson -outdir DIR      writes DIR/<model>.ndjson
package main

import (
	"encoding/json"
	"os"
	"path/filepath"
	"sort"

	"github.com/smart-core-os/sc-golang/verifharness/hx"
)

// a runner executes one walk (the raw CASE object) and writes its observation lines
var runners = map[string]func(raw json.RawMessage, out *hx.Out){}

func register(model string, f func(raw json.RawMessage, out *hx.Out)) { runners[model] = f }

type head struct {
	Model string `json:"model"`
	N     int    `json:"n"`
}

func decode[T any](raw json.RawMessage) T {
	var v T
	if err := json.Unmarshal(raw, &v); err != nil {
		hx.Fatal("bad walk %s: %v", string(raw[:min(len(raw), 200)]), err)
	}
	return v
}

func main() {
	cases := hx.Arg("-cases", "")
	outdir := hx.Arg("-outdir", ".")
	if cases == "" {
		names := make([]string, 0, len(runners))
		for n := range runners {
			names = append(names, n)
		}
		sort.Strings(names)
		hx.Fatal("usage: models -cases f -outdir d; models: %v", names)
	}
	outs := map[string]*hx.Out{}
	for _, raw := range hx.ReadCases[json.RawMessage](cases) {
		h := decode[head](raw)
		run := runners[h.Model]
		if run == nil {
			hx.Fatal("no runner for model %q", h.Model)
		}
		out := outs[h.Model]
		if out == nil {
			out = hx.NewOut(filepath.Join(outdir, h.Model+".ndjson"))
			outs[h.Model] = out
		}
		hx.Current(map[string]any{"model": h.Model, "walk": h.N})
		run(raw, out)
	}
	for _, o := range outs {
		o.Close()
	}
	os.Exit(0)
}
