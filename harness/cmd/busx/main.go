// Command busx replays behaviours of spec/Bus.tla on the real minibus.Bus
// (senders parked at send.each, listener watchers parked at stop.before,
// the harness is every listener's consumer and the one who cancels), and
// runs free-running cancel storms on real Value / Collection subscriptions.
package main

import (
	"bytes"
	"context"
	"fmt"
	"runtime"
	"strconv"
	"strings"
	"sync"
	"sync/atomic"
	"time"

	"google.golang.org/protobuf/proto"

	"github.com/smart-core-os/sc-golang/internal/minibus"
	"github.com/smart-core-os/sc-golang/internal/testproto"
	"github.com/smart-core-os/sc-golang/pkg/resource"
	"github.com/smart-core-os/sc-golang/verifharness/hx"
)

type stepT struct {
	A string `json:"a"`
	P int    `json:"p"`
	Q int    `json:"q"`
}
type caseT struct {
	N        int     `json:"n"`
	Mode     string  `json:"mode"` // "bus" | "storm"
	Nl       int     `json:"nl"`
	Ns       int     `json:"ns"`
	MaxSends int     `json:"maxSends"`
	Sched    []stepT `json:"sched"`
	Expect   any     `json:"expect"`
	// storm parameters
	Res     string `json:"res"`
	Subs    int    `json:"subs"`
	Writers int    `json:"writers"`
	Iter    int    `json:"iter"`
}
type jrnT struct {
	Ev string `json:"ev"`
	P  int    `json:"p"`
	K  int    `json:"k"`
	OK bool   `json:"ok"`
}

type obsT struct {
	N          int       `json:"n"`
	Mode       string    `json:"mode"`
	Nl         int       `json:"nl"`
	Ns         int       `json:"ns"`
	Sched      []stepT   `json:"sched"`
	Expect     any       `json:"expect"`
	Got        [][][]int `json:"got"`        // per listener: events [sender, k] received
	ClosedSeen []bool    `json:"closedSeen"` // per listener: the consumer saw the channel closed after the watcher stopped it
	AfterClose []int     `json:"afterClose"` // per listener: values received after the channel was reported closed (must be 0)
	SendOK     [][]bool  `json:"sendOK"`     // per sender: result of each Send
	Panics     []string  `json:"panics"`
	Leaked     int       `json:"leaked"` // goroutines with minibus / pkg/resource frames left after everything was cancelled
	// Journal is the real-time order of what the harness did and saw: "listened" (Listen returned), "cancel"
	// (about to cancel a listener), "send" (about to let a sender start its k-th Send), "sent" (that Send returned)
	Journal []jrnT `json:"journal"`
	Steps   int    `json:"steps"`
	Drift   string `json:"drift"`
	Problem string `json:"problem"`
	// storm results
	Res         string `json:"res"`
	Unclosed    int    `json:"unclosed"`    // subscriptions whose channel did not close after cancel
	WriterStall int    `json:"writerStall"` // writes that did not return within the bound after every subscriber was cancelled
	PullIDOpen  int    `json:"pullIdOpen"`  // PullID channels still open after their item was removed
	PullIDStall int    `json:"pullIdStall"` // writes stuck behind a PullID that ended because its item was removed
	Subscribers int    `json:"subscribers"`
	WritesDone  int    `json:"writesDone"`
	// churn phase: subscribers that registered while others were cancelling and writers writing, never cancelled
	// themselves, and yet did not receive the last write
	Survivors      int `json:"survivors"`
	SurvivorMissed int `json:"survivorMissed"`
}

func goid() int64 {
	var buf [64]byte
	n := runtime.Stack(buf[:], false)
	f := bytes.Fields(buf[:n])
	id, _ := strconv.ParseInt(string(f[1]), 10, 64)
	return id
}

// ---- gates ---------------------------------------------------------------------

type proc struct {
	name    string
	release chan struct{}
	arrived chan string
	done    bool
}

type world struct {
	mu        sync.Mutex
	forced    bool
	byGoid    map[int64]*proc
	byLsn     map[any]*proc // watcher of a listener, keyed by the *listener the hooks pass
	lsnIndex  map[any]int
	listening int // index of the listener whose Listen call is in progress (0 = none)
	stopped   map[int]bool
}

var cur atomic.Pointer[world]

// listeners registered so far, per bus (counted in every mode), and the bus the main goroutine last registered on
var (
	lmu         sync.Mutex
	listenCount = map[any]int{}
	mainGoid    int64
	mainBus     any
)

func listensOn(bus any) int {
	lmu.Lock()
	defer lmu.Unlock()
	return listenCount[bus]
}

func hook(point string, obj any, args ...any) {
	if point == "listen.added" {
		lmu.Lock()
		listenCount[obj]++
		if goid() == mainGoid {
			mainBus = obj
		}
		lmu.Unlock()
	}
	w := cur.Load()
	if w == nil || !w.forced {
		return
	}
	switch point {
	case "listen.before":
		w.mu.Lock()
		if w.listening != 0 {
			l := args[0]
			w.lsnIndex[l] = w.listening
			p := &proc{name: fmt.Sprintf("watcher%d", w.listening), release: make(chan struct{}), arrived: make(chan string, 1)}
			w.byLsn[l] = p
		}
		w.mu.Unlock()
	case "stop.before":
		l := args[0]
		var p *proc
		for i := 0; i < 20000 && p == nil; i++ { // the Listen call registers the listener right after starting us
			w.mu.Lock()
			p = w.byLsn[l]
			w.mu.Unlock()
			if p == nil {
				time.Sleep(50 * time.Microsecond)
			}
		}
		if p == nil {
			return
		}
		p.arrived <- point
		<-p.release
	case "stop.closed":
		w.mu.Lock()
		if i, ok := w.lsnIndex[args[0]]; ok {
			w.stopped[i] = true
		}
		w.mu.Unlock()
	case "send.each":
		w.mu.Lock()
		p := w.byGoid[goid()]
		w.mu.Unlock()
		if p != nil {
			p.arrived <- point
			<-p.release
		}
	}
}

func await(p *proc, d time.Duration) (string, bool) {
	select {
	case at := <-p.arrived:
		if at == "done" {
			p.done = true
		}
		return at, true
	case <-time.After(d):
		return "", false
	}
}
func release(p *proc, d time.Duration) bool {
	select {
	case p.release <- struct{}{}:
		return true
	case <-time.After(d):
		return false
	}
}

// ---- bus behaviours ------------------------------------------------------------------

func runBus(c caseT) obsT {
	o := obsT{N: c.N, Mode: "bus", Nl: c.Nl, Ns: c.Ns, Sched: c.Sched, Expect: c.Expect, Panics: []string{}}
	w := &world{forced: true, byGoid: map[int64]*proc{}, byLsn: map[any]*proc{}, lsnIndex: map[any]int{}, stopped: map[int]bool{}}
	cur.Store(w)
	base := countGoroutines()
	bus := &minibus.Bus{}
	o.Got = make([][][]int, c.Nl)
	o.ClosedSeen = make([]bool, c.Nl)
	o.AfterClose = make([]int, c.Nl)
	o.SendOK = make([][]bool, c.Ns)
	for i := range o.Got {
		o.Got[i] = [][]int{}
	}
	for i := range o.SendOK {
		o.SendOK[i] = []bool{}
	}
	var jmu sync.Mutex
	o.Journal = []jrnT{}
	journal := func(ev string, p, k int, ok bool) {
		jmu.Lock()
		o.Journal = append(o.Journal, jrnT{Ev: ev, P: p, K: k, OK: ok})
		jmu.Unlock()
	}
	sendNo := make([]int, c.Ns+1)
	lctx := make([]context.Context, c.Nl+1)
	lcancel := make([]context.CancelFunc, c.Nl+1)
	lch := make([]<-chan any, c.Nl+1)
	for l := 1; l <= c.Nl; l++ {
		lctx[l], lcancel[l] = context.WithCancel(context.Background())
	}
	sctx := make([]context.Context, c.Ns+1)
	scancel := make([]context.CancelFunc, c.Ns+1)
	senders := make([]*proc, c.Ns+1)
	var pmu sync.Mutex
	for s := 1; s <= c.Ns; s++ {
		s := s
		sctx[s], scancel[s] = context.WithCancel(context.Background())
		p := &proc{name: fmt.Sprintf("sender%d", s), release: make(chan struct{}), arrived: make(chan string, 1)}
		senders[s] = p
		ready := make(chan struct{})
		go func() {
			w.mu.Lock()
			w.byGoid[goid()] = p
			w.mu.Unlock()
			close(ready)
			for k := 1; k <= c.MaxSends; k++ {
				<-p.release // SendSnap
				var ok bool
				pan := hx.Catch(func() { ok = bus.Send(sctx[s], []int{s, k}) })
				journal("sent", s, k, ok)
				pmu.Lock()
				o.SendOK[s-1] = append(o.SendOK[s-1], ok)
				if pan != "" {
					o.Panics = append(o.Panics, pan)
				}
				pmu.Unlock()
				if !ok || k == c.MaxSends {
					break
				}
				p.arrived <- "sent"
			}
			p.arrived <- "done"
		}()
		<-ready
	}
	watcher := func(l int) *proc {
		w.mu.Lock()
		defer w.mu.Unlock()
		for k, i := range w.lsnIndex {
			if i == l {
				return w.byLsn[k]
			}
		}
		return nil
	}
	recv := func(l int, d time.Duration) ([]int, bool, bool) { // value, got one, closed
		if lch[l] == nil {
			return nil, false, false
		}
		select {
		case v, ok := <-lch[l]:
			if !ok {
				return nil, false, true
			}
			return v.([]int), true, false
		case <-time.After(d):
			return nil, false, false
		}
	}
	const wait = 5 * time.Second
	fail := func(k int, st stepT, why string) {
		o.Drift = fmt.Sprintf("step %d (%s %d %d): %s", k+1, st.A, st.P, st.Q, why)
	}
loop:
	for k, st := range c.Sched {
		switch st.A {
		case "Listen":
			w.mu.Lock()
			w.listening = st.P
			w.mu.Unlock()
			lch[st.P] = bus.Listen(lctx[st.P])
			w.mu.Lock()
			w.listening = 0
			w.mu.Unlock()
			journal("listened", st.P, 0, true)
		case "Cancel":
			journal("cancel", st.P, 0, true)
			lcancel[st.P]()
		case "StopLock":
			p := watcher(st.P)
			if p == nil {
				fail(k, st, "no watcher")
				break loop
			}
			if _, ok := await(p, wait); !ok {
				fail(k, st, "the watcher did not wake up after the cancel")
				break loop
			}
			if !release(p, wait) {
				fail(k, st, "watcher not at its gate")
				break loop
			}
		case "StopClose":
			deadline := time.Now().Add(wait)
			for {
				w.mu.Lock()
				ok := w.stopped[st.P]
				w.mu.Unlock()
				if ok {
					break
				}
				if time.Now().After(deadline) {
					fail(k, st, "the listener was not stopped")
					break loop
				}
				time.Sleep(20 * time.Microsecond)
			}
			// the consumer now sees the channel closed, and nothing more on it
			for {
				v, got, closed := recv(st.P, wait)
				if closed {
					o.ClosedSeen[st.P-1] = true
					break
				}
				if !got {
					break
				}
				_ = v
				o.AfterClose[st.P-1]++
			}
		case "SendSnap":
			p := senders[st.P]
			sendNo[st.P]++
			journal("send", st.P, sendNo[st.P], true)
			if !release(p, wait) {
				fail(k, st, "sender not waiting to send")
				break loop
			}
			if _, ok := await(p, wait); !ok {
				fail(k, st, "sender neither reached its first listener nor returned")
				break loop
			}
		case "Enter":
			if !release(senders[st.P], wait) {
				fail(k, st, "sender not at a listener")
				break loop
			}
		case "Recv": // p = listener, q = sender
			v, got, _ := recv(st.P, wait)
			if !got {
				fail(k, st, "nothing to receive")
				break loop
			}
			o.Got[st.P-1] = append(o.Got[st.P-1], v)
			if _, ok := await(senders[st.Q], wait); !ok {
				fail(k, st, "sender did not move on after the delivery")
				break loop
			}
		case "Skip", "Abandon":
			if _, ok := await(senders[st.P], wait); !ok {
				fail(k, st, "sender did not move on")
				break loop
			}
		case "SendCtxDone":
			scancel[st.P]()
		case "Collect":
			// happens inside Send before it returns: already awaited
		default:
			o.Problem = "unknown action " + st.A
			return o
		}
		o.Steps++
	}
	// end of the behaviour (or drift): cancel everything, let everybody run, keep consuming
	w.mu.Lock()
	w.forced = false
	w.mu.Unlock()
	// (sends that start from here on are not journalled: they owe nothing to anybody)
	if o.Drift == "" {
		for l := 1; l <= c.Nl; l++ {
			journal("cancel", l, 0, true)
			lcancel[l]()
		}
	}
	for s := 1; s <= c.Ns; s++ {
		scancel[s]()
	}
	deadline := time.Now().Add(10 * time.Second)
	drainUntil := time.Now().Add(150 * time.Millisecond)
	cancelledAll := o.Drift == ""
	for {
		pending := 0
		for s := 1; s <= c.Ns; s++ {
			p := senders[s]
			if p.done {
				continue
			}
			select {
			case p.release <- struct{}{}:
			default:
			}
			select {
			case at := <-p.arrived:
				if at == "done" {
					p.done = true
				}
			default:
			}
			if !p.done {
				pending++
			}
		}
		w.mu.Lock()
		var ws []*proc
		for _, p := range w.byLsn {
			ws = append(ws, p)
		}
		w.mu.Unlock()
		for _, p := range ws {
			select {
			case <-p.arrived:
			default:
			}
			select {
			case p.release <- struct{}{}:
			default:
			}
		}
		for l := 1; l <= c.Nl; l++ {
			if v, got, closed := recv(l, 0); got && o.Drift != "" {
				o.Got[l-1] = append(o.Got[l-1], v)
			} else if closed {
				o.ClosedSeen[l-1] = true
			}
		}
		if !cancelledAll && (pending == 0 || time.Now().After(drainUntil)) {
			// after a drift the senders first get the chance to finish against live, receiving listeners
			cancelledAll = true
			for l := 1; l <= c.Nl; l++ {
				journal("cancel", l, 0, true)
				lcancel[l]()
			}
			continue
		}
		if pending == 0 {
			break
		}
		if time.Now().After(deadline) {
			o.Problem = fmt.Sprintf("%d senders cannot finish (%s)", pending, o.Drift)
			return o
		}
		time.Sleep(50 * time.Microsecond)
	}
	o.Leaked = leaked(base, func() {
		w.mu.Lock()
		var ws []*proc
		for _, p := range w.byLsn {
			ws = append(ws, p)
		}
		w.mu.Unlock()
		for _, p := range ws {
			select {
			case <-p.arrived:
			default:
			}
			select {
			case p.release <- struct{}{}:
			default:
			}
		}
	})
	for l := 1; l <= c.Nl; l++ {
		if lch[l] != nil && !o.ClosedSeen[l-1] {
			if _, _, closed := recv(l, 2*time.Second); closed {
				o.ClosedSeen[l-1] = true
			}
		}
		if lch[l] == nil {
			o.ClosedSeen[l-1] = true // never listened
		}
	}
	return o
}

// countGoroutines counts goroutines that run library code (minibus, pkg/resource).
func countGoroutines() int {
	buf := make([]byte, 1<<22)
	n := runtime.Stack(buf, true)
	cnt := 0
	for _, g := range strings.Split(string(buf[:n]), "\n\n") {
		if strings.Contains(g, "sc-golang/internal/minibus.") || strings.Contains(g, "sc-golang/pkg/resource.") {
			if !strings.Contains(g, "main.") || strings.Contains(g, "created by github.com/smart-core-os/sc-golang/") {
				cnt++
			}
		}
	}
	return cnt
}

// leaked polls until the library goroutine count is back to base (bounded) and returns the excess.
func leaked(base int, nudge func()) int {
	deadline := time.Now().Add(5 * time.Second)
	for {
		if nudge != nil {
			nudge()
		}
		n := countGoroutines() - base
		if n <= 0 || time.Now().After(deadline) {
			if n < 0 {
				n = 0
			}
			return n
		}
		time.Sleep(200 * time.Microsecond)
	}
}

// ---- cancel storms on real subscriptions ---------------------------------------------------

func msg(v int) proto.Message { return &testproto.TestAllTypes{DefaultInt32: int32(v)} }

func runStorm(c caseT) obsT {
	lmu.Lock()
	listenCount = map[any]int{} // (per run: the buses of earlier runs are not kept alive)
	lmu.Unlock()
	o := obsT{N: c.N, Mode: "storm", Res: c.Res, Sched: []stepT{}, Panics: []string{}, Expect: map[string]int{}, Journal: []jrnT{}, Got: [][][]int{}, ClosedSeen: []bool{}, AfterClose: []int{}, SendOK: [][]bool{}}
	cur.Store(&world{})
	rnd := hx.Rand(int64(c.N)*104729 + int64(c.Iter))
	base := countGoroutines()
	var val *resource.Value
	var col *resource.Collection
	ids := []string{"aaaaaaaa", "bbbbbbbb", "cccccccc"}
	// (a third of the resources are configured with an equivalence: different code path in the forwarders)
	var ropts []resource.Option
	if rnd.Intn(3) == 0 {
		ropts = append(ropts, resource.WithNoDuplicates())
	}
	if c.Res == "val" {
		val = resource.NewValue(append(ropts, resource.WithInitialValue(msg(0)))...)
	} else {
		col = resource.NewCollection(append(ropts, resource.WithInitialRecord(ids[0], msg(0)), resource.WithInitialRecord(ids[1], msg(0)))...)
	}
	type sub struct {
		cancel context.CancelFunc
		closed chan struct{}
		stopAt int // stops receiving after this many events (then only cancels); -1 = keeps receiving
		pullID bool
		// abandon: after it stopped receiving and cancelled it never receives again (a handler that returned);
		// the library's goroutines must end all the same, and once they have, the channel must be closed
		abandon bool
		isOpen  func() bool // non-blocking look at the channel: true unless it is closed
	}
	var subs []*sub
	var pmu sync.Mutex
	open := func() {
		ctx, cancel := context.WithCancel(context.Background())
		s := &sub{cancel: cancel, closed: make(chan struct{}), stopAt: -1}
		if rnd.Intn(3) == 0 {
			s.stopAt = rnd.Intn(3)
			s.abandon = rnd.Intn(2) == 0
		}
		ro := []resource.ReadOption{resource.WithBackpressure(rnd.Intn(2) == 0), resource.WithUpdatesOnly(rnd.Intn(2) == 0)}
		drain := func(recv func() bool) {
			go func() {
				defer close(s.closed)
				n := 0
				for {
					if s.stopAt >= 0 && n >= s.stopAt {
						<-ctx.Done() // stopped receiving without cancelling; cancels later
						if s.abandon {
							return
						}
						// after the cancel the channel must still close: keep reading until it does
						for recv() {
						}
						return
					}
					if !recv() {
						return
					}
					n++
				}
			}()
		}
		switch {
		case val != nil:
			ch := val.Pull(ctx, ro...)
			s.isOpen = func() bool {
				select {
				case _, ok := <-ch:
					return ok
				default:
					return true
				}
			}
			drain(func() bool { _, ok := <-ch; return ok })
		case rnd.Intn(3) == 0:
			s.pullID = true
			ch := col.PullID(ctx, ids[2], ro...)
			s.isOpen = func() bool {
				select {
				case _, ok := <-ch:
					return ok
				default:
					return true
				}
			}
			drain(func() bool { _, ok := <-ch; return ok })
		default:
			ch := col.Pull(ctx, ro...)
			s.isOpen = func() bool {
				select {
				case _, ok := <-ch:
					return ok
				default:
					return true
				}
			}
			drain(func() bool { _, ok := <-ch; return ok })
		}
		subs = append(subs, s)
	}
	for i := 0; i < c.Subs; i++ {
		open()
	}
	// writers
	var wg sync.WaitGroup
	stop := make(chan struct{})
	var writes int64
	for wi := 0; wi < c.Writers; wi++ {
		wi := wi
		wg.Add(1)
		go func() {
			defer wg.Done()
			r := hx.Rand(int64(c.N)*31 + int64(wi) + int64(c.Iter)*977)
			for k := 1; ; k++ {
				select {
				case <-stop:
					return
				default:
				}
				pan := hx.Catch(func() {
					if val != nil {
						_, _ = val.Set(msg(k))
					} else {
						switch r.Intn(4) {
						case 0:
							_, _ = col.Delete(ids[2], resource.WithAllowMissing(true))
						case 1:
							_, _ = col.Update(ids[2], msg(k), resource.WithCreateIfAbsent())
						default:
							_, _ = col.Update(ids[r.Intn(2)], msg(k))
						}
					}
				})
				if pan != "" {
					pmu.Lock()
					o.Panics = append(o.Panics, pan)
					pmu.Unlock()
					return
				}
				atomic.AddInt64(&writes, 1)
			}
		}()
	}
	// cancel the subscribers at random moments while the writers run
	order := rnd.Perm(len(subs))
	for _, i := range order {
		for k := rnd.Intn(40); k > 0; k-- {
			runtime.Gosched()
		}
		subs[i].cancel()
	}
	// every channel closes
	for _, s := range subs {
		select {
		case <-s.closed:
		case <-time.After(8 * time.Second):
			o.Unclosed++
		}
	}
	// with nobody subscribed any more the writers are not held up: they all notice stop promptly
	close(stop)
	doneW := make(chan struct{})
	go func() { wg.Wait(); close(doneW) }()
	select {
	case <-doneW:
	case <-time.After(8 * time.Second):
		o.WriterStall++
	}
	o.Subscribers = len(subs)
	o.WritesDone = int(atomic.LoadInt64(&writes))
	// a single-item subscription ends when the item is removed
	if col != nil && o.WriterStall == 0 {
		_, _ = col.Update(ids[2], msg(7), resource.WithCreateIfAbsent())
		ctx, cancel := context.WithCancel(context.Background())
		// which bus is the collection's: a subscription made (and ended) from this goroutine tells
		pctx, pcancel := context.WithCancel(context.Background())
		pch := col.Pull(pctx, resource.WithUpdatesOnly(true))
		lmu.Lock()
		colBus := mainBus
		lmu.Unlock()
		pcancel()
		for range pch {
		}
		listensBefore := listensOn(colBus)
		ch := col.PullID(ctx, ids[2], resource.WithBackpressure(true), resource.WithUpdatesOnly(c.Iter%2 == 1))
		got := make(chan struct{})
		first := make(chan struct{})
		go func() {
			n := 0
			for range ch {
				if n++; n == 1 {
					close(first)
				}
			}
			close(got)
		}()
		// The subscription registers from a goroutine of its own: it is established once its listener is on the
		// collection's own bus (hook "listen.added", counted per bus: stragglers of earlier runs register elsewhere).  A fixed
		// pause is not that: on a busy machine the removal could precede the registration and never be seen.
		// Nothing is written in between, so that an updates-only subscriber has not been sent the item.
		established := false
		for deadline := time.Now().Add(5 * time.Second); !established && time.Now().Before(deadline); {
			if established = listensOn(colBus) > listensBefore; !established {
				time.Sleep(50 * time.Microsecond)
			}
		}
		_ = first
		// (the removal may meet the subscription while it is still handing out its seed: the consumer keeps
		//  receiving, so it gets through -- a tree on which it does not must not hang the harness)
		removed := make(chan struct{})
		go func() { defer close(removed); _, _ = col.Delete(ids[2], resource.WithAllowMissing(true)) }()
		select {
		case <-removed:
		case <-time.After(6 * time.Second):
			o.WriterStall++
		}
		select {
		case <-got:
			// the subscription has ended by itself; its context is still live (nobody has to cancel a
			// subscription that is over): writers are not held up by what it leaves behind
			wrote := make(chan struct{})
			go func() {
				defer close(wrote)
				for k := 0; k < 3; k++ {
					_, _ = col.Update(ids[0], msg(500+k))
				}
			}()
			select {
			case <-wrote:
			case <-time.After(4 * time.Second):
				o.PullIDStall++
			}
		case <-time.After(5 * time.Second):
			if established {
				o.PullIDOpen++
			}
		}
		cancel()
	}
	// churn: many subscribers register while others cancel and a writer writes (every write that meets a
	// cancelled listener garbage-collects the bus).  Whoever registered and never cancelled is owed the last write.
	if c.Iter%5 == 0 && o.WriterStall == 0 && o.Unclosed == 0 {
		const sentinel = 999999
		pull := func(ctx context.Context) (recv func() (int, bool)) {
			ro := []resource.ReadOption{resource.WithBackpressure(rnd.Intn(2) == 0), resource.WithUpdatesOnly(rnd.Intn(2) == 0)}
			if val != nil {
				ch := val.Pull(ctx, ro...)
				return func() (int, bool) {
					e, ok := <-ch
					if !ok {
						return 0, false
					}
					return int(e.Value.(*testproto.TestAllTypes).DefaultInt32), true
				}
			}
			ch := col.Pull(ctx, ro...)
			return func() (int, bool) {
				e, ok := <-ch
				if !ok {
					return 0, false
				}
				if e.NewValue == nil {
					return 0, true
				}
				return int(e.NewValue.(*testproto.TestAllTypes).DefaultInt32), true
			}
		}
		write := func(v int) {
			if val != nil {
				_, _ = val.Set(msg(v))
			} else {
				_, _ = col.Update(ids[0], msg(v))
			}
		}
		const victims, survivors = 120, 150
		var vcancel []context.CancelFunc
		var vdone []chan struct{}
		for i := 0; i < victims; i++ {
			ctx, cancel := context.WithCancel(context.Background())
			recv := pull(ctx)
			d := make(chan struct{})
			go func() {
				defer close(d)
				for {
					if _, ok := recv(); !ok {
						return
					}
				}
			}()
			vcancel, vdone = append(vcancel, cancel), append(vdone, d)
		}
		stopW := make(chan struct{})
		wdone := make(chan struct{})
		go func() {
			defer close(wdone)
			for k := 1; ; k++ {
				select {
				case <-stopW:
					return
				default:
				}
				write(k)
			}
		}()
		go func() {
			for _, cancel := range vcancel {
				cancel()
				runtime.Gosched()
			}
		}()
		type surv struct {
			cancel context.CancelFunc
			got    chan struct{} // closed when the sentinel arrived
			ended  chan struct{}
		}
		survs := make([]*surv, survivors)
		var og sync.WaitGroup
		for g := 0; g < 4; g++ {
			g := g
			og.Add(1)
			go func() {
				defer og.Done()
				for i := g; i < survivors; i += 4 {
					ctx, cancel := context.WithCancel(context.Background())
					sv := &surv{cancel: cancel, got: make(chan struct{}), ended: make(chan struct{})}
					recv := pull(ctx)
					go func() {
						defer close(sv.ended)
						seen := false
						for {
							v, ok := recv()
							if !ok {
								return
							}
							if v == sentinel && !seen {
								seen = true
								close(sv.got)
							}
						}
					}()
					survs[i] = sv
				}
			}()
		}
		og.Wait()
		for _, d := range vdone {
			select {
			case <-d:
			case <-time.After(8 * time.Second):
				o.Unclosed++
			}
		}
		close(stopW)
		select {
		case <-wdone:
		case <-time.After(8 * time.Second):
			o.WriterStall++
		}
		if o.WriterStall == 0 {
			write(sentinel)
			deadline := time.After(4 * time.Second)
			for _, sv := range survs {
				select {
				case <-sv.got:
				case <-deadline:
					o.SurvivorMissed++
					deadline = time.After(time.Millisecond)
				}
			}
		}
		o.Survivors = survivors
		for _, sv := range survs {
			sv.cancel()
		}
		for _, sv := range survs {
			select {
			case <-sv.ended:
			case <-time.After(8 * time.Second):
				o.Unclosed++
			}
		}
	}
	// a subscriber registers while a publication is under way (held up by a slow subscriber with backpressure) and a
	// cancelled subscriber, not yet collected, is still ahead in the list: everybody who stays ends on the final value
	if val != nil && c.Iter%3 == 0 && o.WriterStall == 0 && o.Unclosed == 0 {
		v2 := resource.NewValue(resource.WithInitialValue(msg(0)))
		type watcher struct {
			last   int64
			cancel context.CancelFunc
			pause  chan struct{}
		}
		watch := func(paused bool) *watcher {
			ctx, cancel := context.WithCancel(context.Background())
			w := &watcher{cancel: cancel, pause: make(chan struct{})}
			if !paused {
				close(w.pause)
			}
			ch := v2.Pull(ctx, resource.WithBackpressure(true))
			first := make(chan struct{})
			go func() {
				n := 0
				for e := range ch {
					atomic.StoreInt64(&w.last, int64(e.Value.(*testproto.TestAllTypes).DefaultInt32))
					if n == 0 {
						close(first)
						<-w.pause // (a paused consumer takes its seed and then nothing until it is resumed)
					}
					n++
				}
			}()
			select {
			case <-first:
			case <-time.After(2 * time.Second):
			}
			return w
		}
		wc, wa, wb := watch(false), watch(true), watch(false)
		_, _ = v2.Set(msg(1)) // A's forwarder now holds 1 for its paused consumer
		wc.cancel()           // cancelled, and still first in the bus's list until a send meets it
		set2 := make(chan struct{})
		go func() { defer close(set2); _, _ = v2.Set(msg(2)) }() // skips C, waits on A
		time.Sleep(time.Duration(1+rnd.Intn(3)) * time.Millisecond)
		wn := watch(false) // registers while the publication of 2 is under way
		close(wa.pause)    // A resumes
		select {
		case <-set2:
		case <-time.After(6 * time.Second):
			o.WriterStall++
		}
		if o.WriterStall == 0 {
			// (the value travels through the subscriptions' own goroutines: it is awaited, not assumed to have
			//  arrived after a pause)
			for _, w := range []*watcher{wa, wb, wn} {
				for deadline := time.Now().Add(4 * time.Second); atomic.LoadInt64(&w.last) != 2 && time.Now().Before(deadline); {
					time.Sleep(200 * time.Microsecond)
				}
				if atomic.LoadInt64(&w.last) != 2 {
					o.SurvivorMissed++
				}
			}
		}
		o.Survivors += 3
		wa.cancel()
		wb.cancel()
		wn.cancel()
	}
	// a subscriber with backpressure that is still being handed its seed values while an item is deleted: it keeps
	// receiving, so the delete (which sends while it holds the collection's lock) gets through and nobody is stuck
	if col != nil && o.WriterStall == 0 && o.Unclosed == 0 {
		seedCol := resource.NewCollection(append(ropts, resource.WithInitialRecord(ids[0], msg(1)),
			resource.WithInitialRecord(ids[1], msg(2)), resource.WithInitialRecord(ids[2], msg(3)))...)
		sctx, scancel := context.WithCancel(context.Background())
		sch := seedCol.Pull(sctx, resource.WithBackpressure(true))
		got := 0
		take := func(d time.Duration) bool {
			select {
			case _, ok := <-sch:
				if ok {
					got++
				}
				return ok
			case <-time.After(d):
				return false
			}
		}
		take(2 * time.Second) // the first seed value
		deleted := make(chan struct{})
		go func() { defer close(deleted); _, _ = seedCol.Delete(ids[c.Iter%3], resource.WithAllowMissing(true)) }()
		time.Sleep(time.Duration(200+rnd.Intn(800)) * time.Microsecond)
		// the consumer keeps receiving: the other seeds, then the removal
		for deadline := time.Now().Add(5 * time.Second); got < 4 && time.Now().Before(deadline); {
			select {
			case _, ok := <-sch:
				if !ok {
					deadline = time.Time{} // closed: nothing more can come
				} else {
					got++
				}
			case <-time.After(100 * time.Millisecond):
			}
		}
		select {
		case <-deleted:
		case <-time.After(4 * time.Second):
			o.WriterStall++
		}
		if got < 4 && o.WriterStall == 0 {
			o.SurvivorMissed++ // three seed values and the removal were owed to a consumer that kept receiving
		}
		scancel()
	}
	// consumers that take the seed, stop receiving while a change is on its way to them, cancel and walk away
	// (a handler whose stream broke): the write gets through, the goroutines end, the channel is closed
	var walked []func() bool
	if o.WriterStall == 0 && o.Unclosed == 0 {
		walk := func(open func(ctx context.Context, bp resource.ReadOption) (recv func() bool, isOpen func() bool), write func()) {
			ctx, cancel := context.WithCancel(context.Background())
			recv, isOpen := open(ctx, resource.WithBackpressure(rnd.Intn(2) == 0))
			seeded := make(chan bool, 1)
			go func() { seeded <- recv() }()
			select {
			case <-seeded:
			case <-time.After(5 * time.Second):
				o.Problem = "no seed within 5s"
				cancel()
				return
			}
			wrote := make(chan struct{})
			go func() { defer close(wrote); write() }()
			time.Sleep(time.Duration(500+rnd.Intn(1500)) * time.Microsecond) // the change reaches the forwarder
			cancel()
			select {
			case <-wrote:
			case <-time.After(8 * time.Second):
				o.WriterStall++
			}
			walked = append(walked, isOpen)
		}
		if val != nil {
			walk(func(ctx context.Context, bp resource.ReadOption) (func() bool, func() bool) {
				ch := val.Pull(ctx, bp)
				return func() bool { _, ok := <-ch; return ok }, func() bool {
					select {
					case _, ok := <-ch:
						return ok
					default:
						return true
					}
				}
			}, func() { _, _ = val.Set(msg(41)) })
		} else {
			_, _ = col.Update(ids[2], msg(40), resource.WithCreateIfAbsent())
			walk(func(ctx context.Context, bp resource.ReadOption) (func() bool, func() bool) {
				ch := col.PullID(ctx, ids[2], bp)
				return func() bool { _, ok := <-ch; return ok }, func() bool {
					select {
					case _, ok := <-ch:
						return ok
					default:
						return true
					}
				}
			}, func() { _, _ = col.Update(ids[2], msg(41)) })
			walk(func(ctx context.Context, bp resource.ReadOption) (func() bool, func() bool) {
				ch := col.Pull(ctx, bp)
				return func() bool { _, ok := <-ch; return ok }, func() bool {
					select {
					case _, ok := <-ch:
						return ok
					default:
						return true
					}
				}
			}, func() { _, _ = col.Update(ids[2], msg(42)) })
		}
	}
	if o.Unclosed == 0 && o.WriterStall == 0 {
		o.Leaked = leaked(base, nil)
	}
	if o.Leaked == 0 && o.Unclosed == 0 && o.WriterStall == 0 {
		for _, isOpen := range walked {
			if isOpen() && isOpen() && isOpen() {
				o.Unclosed++
			}
		}
	}
	if o.Leaked == 0 && o.Unclosed == 0 && o.WriterStall == 0 {
		// every goroutine of the library has ended: the channels of the consumers that walked away are closed
		// (a lossy stage may still have handed a last change over before it noticed the cancel: look twice)
		for _, s := range subs {
			if s.abandon && s.isOpen() && s.isOpen() && s.isOpen() {
				o.Unclosed++
			}
		}
	}
	return o
}

func main() {
	mainGoid = goid()
	minibus.VerifHook = hook
	resource.VerifHook = func(string, any, ...any) {}
	cases := hx.ReadCases[caseT](hx.Arg("-cases", "cases.ndjson"))
	out := hx.NewOut(hx.Arg("-out", "obs.ndjson"))
	defer out.Close()
	// a tree on which many runs go wrong is judged on the first of them: every failing run costs seconds of
	// timeouts, and a handful of witnesses is as good as thousands
	bad := 0
	for _, c := range cases {
		if bad >= 12 {
			break
		}
		hx.Current(c)
		var o obsT
		began := time.Now()
		if c.Mode == "storm" {
			o = runStorm(c)
		} else {
			o = runBus(c)
		}
		// (a run that merely left the specification's behaviour and was finished free-running in no time costs
		//  nothing: it does not count towards giving up on the batch)
		cheapDrift := o.Drift != "" && time.Since(began) < 300*time.Millisecond
		if (o.Drift != "" && !cheapDrift) || o.Problem != "" || len(o.Panics) > 0 || o.Unclosed > 0 || o.WriterStall > 0 || o.Leaked > 0 || o.SurvivorMissed > 0 || o.PullIDStall > 0 {
			bad++
		}
		out.Write(o)
	}
}
