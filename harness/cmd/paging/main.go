// Command paging drives the seven paged List RPCs of pkg/trait/*pb (C15) with the
// cases printed by spec/Paging.tla: it fills a model with the case's ids, asks the
// model server for pages in-process, follows next_page_token (bounded), and writes
// one JSON line per walk with what the server returned.  Nothing is judged here:
// spec/PagingTrace.tla evaluates the property on the lines.
package main

import (
	"context"
	"encoding/base64"
	"fmt"
	"math/rand"
	"reflect"
	"strconv"
	"strings"
	"time"
	"unsafe"

	"google.golang.org/protobuf/proto"
	"google.golang.org/protobuf/types/known/timestamppb"

	"github.com/smart-core-os/sc-api/go/traits"
	"github.com/smart-core-os/sc-api/go/types"
	"github.com/smart-core-os/sc-golang/pkg/resource"
	"github.com/smart-core-os/sc-golang/pkg/trait/electricpb"
	"github.com/smart-core-os/sc-golang/pkg/trait/hailpb"
	"github.com/smart-core-os/sc-golang/pkg/trait/parentpb"
	"github.com/smart-core-os/sc-golang/pkg/trait/publicationpb"
	"github.com/smart-core-os/sc-golang/pkg/trait/vendingpb"
	"github.com/smart-core-os/sc-golang/pkg/trait/wastepb"
	"github.com/smart-core-os/sc-golang/verifharness/hx"
)

// pagingCase is one CASE line of spec/Paging.tla (Gen).
type pagingCase struct {
	K       string  `json:"k"`   // "walk" | "tok"
	Sch     string  `json:"sch"` // "lastkey" | "index"
	N       int     `json:"n"`
	Size    int     `json:"size"`
	Rep     int     `json:"rep"`
	Variant int     `json:"variant"` // tok: 1..9
	IDs     [][]int `json:"ids"`
	Expect  string  `json:"expect"`
	Lens    []int   `json:"lens"` // reference page lengths
}

// walkObs is one line of obs.ndjson: what the server answered along one token chain.
type walkObs struct {
	K      string `json:"k"`
	Case   int    `json:"case"` // index of the case in cases.ndjson
	Srv    string `json:"srv"`
	Scheme string `json:"scheme"`
	N      int    `json:"n"`    // number of items in the model's own un-paged listing
	Size   int    `json:"size"` // requested page size
	TClass string `json:"tclass"`
	Token  string `json:"token"`  // the first page token sent
	Calls  int    `json:"calls"`  // requests made
	First  string `json:"first"`  // status code of the first answer ("" if it panicked)
	Err    string `json:"err"`    // status code of the last answer
	Panic  string `json:"panic"`  // "" or the recovered panic of the last request
	Ended  bool   `json:"ended"`  // the chain stopped (empty token, error or panic) within the bound
	Bound  int    `json:"bound"`  // max requests allowed
	Flat   []int  `json:"flat"`   // returned items, all pages concatenated: 1-based position in the un-paged listing, 0 = not in it
	Lens   []int  `json:"lens"`   // items per page
	Totals []int  `json:"totals"` // total_size per page
	Sorted bool   `json:"sorted"` // the un-paged listing is in ascending byte order of its keys (information)
	Sample string `json:"sample"` // a few of the ids
}

// page is one List answer reduced to what the property talks about.
type page struct {
	keys  []string
	next  string
	total int
}

// target is one paged RPC: fill builds a fresh model holding ids and returns the
// model's own un-paged listing (keys in listing order) plus the List call.
type target struct {
	name   string
	scheme string
	fill   func(ids []string, rnd *rand.Rand) (full []string, list func(size int32, token string) (page, error))
}

// alphabet in ascending byte order; one number of a spec id = one character.
// UTF-8 keeps code point order, so the spec's lexicographic order of number
// sequences is the byte order of the strings.  The characters are chosen so that
// byte order differs from every "friendly" order: a digit, an upper-case letter
// that sorts before the lower-case ones in bytes but between them when case is
// folded ("B" < "a" < "c", yet "a" < "b" < "c"), an accented capital and a CJK
// character (collation / case folding move those too).  A listing that is sorted
// or searched by anything but plain string comparison shows up in the walks.
var alphabet = []string{"", "1", "B", "a", "c", "É", "中"}

func idString(id []int) string {
	var b strings.Builder
	for _, x := range id {
		if x < 1 || x >= len(alphabet) {
			hx.Fatal("id element %d outside the alphabet", x)
		}
		b.WriteString(alphabet[x])
	}
	return b.String()
}

func shuffled(ids []string, rnd *rand.Rand) []string {
	res := append([]string(nil), ids...)
	rnd.Shuffle(len(res), func(i, j int) { res[i], res[j] = res[j], res[i] })
	return res
}

var ctx = context.Background()

func targets() []target {
	return []target{
		{"electric.ListModes", "lastkey", func(ids []string, rnd *rand.Rand) ([]string, func(int32, string) (page, error)) {
			m := electricpb.NewModel()
			for _, id := range shuffled(ids, rnd) {
				if err := m.AddMode(&traits.ElectricMode{Id: id, Title: "t" + id}); err != nil {
					hx.Fatal("electric AddMode %q: %v", id, err)
				}
			}
			var full []string
			for _, x := range m.Modes() {
				full = append(full, x.Id)
			}
			s := electricpb.NewModelServer(m)
			return full, func(size int32, token string) (page, error) {
				r, err := s.ListModes(ctx, &traits.ListModesRequest{Name: "dev", PageSize: size, PageToken: token})
				if err != nil {
					return page{}, err
				}
				p := page{next: r.NextPageToken, total: int(r.TotalSize)}
				for _, x := range r.Modes {
					p.keys = append(p.keys, x.Id)
				}
				return p, nil
			}
		}},
		{"hail.ListHails", "lastkey", func(ids []string, rnd *rand.Rand) ([]string, func(int32, string) (page, error)) {
			// CreateHail always invents the id; chosen ids go in as initial records
			opts := []resource.Option{hailpb.WithKeepAlive(-1)}
			for _, id := range shuffled(ids, rnd) {
				opts = append(opts, resource.WithInitialRecord(id, &traits.Hail{Id: id, Origin: &traits.Hail_Location{DisplayName: "o" + id}}))
			}
			m := hailpb.NewModel(opts...)
			var full []string
			for _, x := range m.ListHails() {
				full = append(full, x.Id)
			}
			s := hailpb.NewModelServer(m)
			return full, func(size int32, token string) (page, error) {
				r, err := s.ListHails(ctx, &traits.ListHailsRequest{Name: "dev", PageSize: size, PageToken: token})
				if err != nil {
					return page{}, err
				}
				p := page{next: r.NextPageToken, total: int(r.TotalSize)}
				for _, x := range r.Hails {
					p.keys = append(p.keys, x.Id)
				}
				return p, nil
			}
		}},
		{"parent.ListChildren", "lastkey", func(ids []string, rnd *rand.Rand) ([]string, func(int32, string) (page, error)) {
			m := parentpb.NewModel()
			for _, id := range shuffled(ids, rnd) {
				m.AddChild(&traits.Child{Name: id})
			}
			// the listing's order is the one the RPC documents (sorted by name); the
			// model's ListChildren returns the collection's order, which is the same
			var full []string
			for _, x := range m.ListChildren() {
				full = append(full, x.Name)
			}
			s := parentpb.NewModelServer(m)
			return full, func(size int32, token string) (page, error) {
				r, err := s.ListChildren(ctx, &traits.ListChildrenRequest{Name: "dev", PageSize: size, PageToken: token})
				if err != nil {
					return page{}, err
				}
				p := page{next: r.NextPageToken, total: int(r.TotalSize)}
				for _, x := range r.Children {
					p.keys = append(p.keys, x.Name)
				}
				return p, nil
			}
		}},
		{"publication.ListPublications", "lastkey", func(ids []string, rnd *rand.Rand) ([]string, func(int32, string) (page, error)) {
			m := publicationpb.NewModel()
			for _, id := range shuffled(ids, rnd) {
				if _, err := m.CreatePublication(&traits.Publication{Id: id, Body: []byte("b")}); err != nil {
					hx.Fatal("publication CreatePublication %q: %v", id, err)
				}
			}
			var full []string
			for _, x := range m.ListPublications() {
				full = append(full, x.Id)
			}
			s := publicationpb.NewModelServer(m)
			return full, func(size int32, token string) (page, error) {
				r, err := s.ListPublications(ctx, &traits.ListPublicationsRequest{Name: "dev", PageSize: size, PageToken: token})
				if err != nil {
					return page{}, err
				}
				p := page{next: r.NextPageToken, total: int(r.TotalSize)}
				for _, x := range r.Publications {
					p.keys = append(p.keys, x.Id)
				}
				return p, nil
			}
		}},
		{"vending.ListConsumables", "lastkey", func(ids []string, rnd *rand.Rand) ([]string, func(int32, string) (page, error)) {
			m := vendingpb.NewModel()
			for _, id := range shuffled(ids, rnd) {
				if _, err := m.CreateConsumable(&traits.Consumable{Name: id, DisplayName: "d" + id}); err != nil {
					hx.Fatal("vending CreateConsumable %q: %v", id, err)
				}
			}
			var full []string
			for _, x := range m.ListConsumables() {
				full = append(full, x.Name)
			}
			s := vendingpb.NewModelServer(m)
			return full, func(size int32, token string) (page, error) {
				r, err := s.ListConsumables(ctx, &traits.ListConsumablesRequest{Name: "dev", PageSize: size, PageToken: token})
				if err != nil {
					return page{}, err
				}
				p := page{next: r.NextPageToken, total: int(r.TotalSize)}
				for _, x := range r.Consumables {
					p.keys = append(p.keys, x.Name)
				}
				return p, nil
			}
		}},
		{"vending.ListInventory", "lastkey", func(ids []string, rnd *rand.Rand) ([]string, func(int32, string) (page, error)) {
			m := vendingpb.NewModel()
			for _, id := range shuffled(ids, rnd) {
				if _, err := m.CreateStock(&traits.Consumable_Stock{Consumable: id}); err != nil {
					hx.Fatal("vending CreateStock %q: %v", id, err)
				}
			}
			var full []string
			for _, x := range m.ListInventory() {
				full = append(full, x.Consumable)
			}
			s := vendingpb.NewModelServer(m)
			return full, func(size int32, token string) (page, error) {
				r, err := s.ListInventory(ctx, &traits.ListInventoryRequest{Name: "dev", PageSize: size, PageToken: token})
				if err != nil {
					return page{}, err
				}
				p := page{next: r.NextPageToken, total: int(r.TotalSize)}
				for _, x := range r.Inventory {
					p.keys = append(p.keys, x.Consumable)
				}
				return p, nil
			}
		}},
		{"waste.ListWasteRecords", "index", func(ids []string, rnd *rand.Rand) ([]string, func(int32, string) (page, error)) {
			m := wastepb.NewModel()
			clearWaste(m) // NewModel invents 100 records; the case decides the contents
			order := shuffled(ids, rnd)
			t0 := time.Unix(1700000000, 0)
			for i, id := range order {
				ts := timestamppb.New(t0.Add(time.Duration(i) * time.Minute))
				if _, err := m.AddWasteRecord(&traits.WasteRecord{Id: id, WasteCreateTime: ts, RecordCreateTime: ts}); err != nil {
					hx.Fatal("waste AddWasteRecord %q: %v", id, err)
				}
			}
			// the listing is newest first (ListWasteRecords' documentation): the model has
			// no un-paged list, its order of insertion reversed is the listing
			full := make([]string, 0, len(order))
			for i := len(order) - 1; i >= 0; i-- {
				full = append(full, order[i])
			}
			if c := m.GetWasteRecordCount(); c != len(order) {
				hx.Fatal("waste model holds %d records, wanted %d", c, len(order))
			}
			s := wastepb.NewModelServer(m)
			return full, func(size int32, token string) (page, error) {
				r, err := s.ListWasteRecords(ctx, &traits.ListWasteRecordsRequest{Name: "dev", PageSize: size, PageToken: token})
				if err != nil {
					return page{}, err
				}
				p := page{next: r.NextPageToken, total: int(r.TotalSize)}
				for _, x := range r.WasteRecords {
					p.keys = append(p.keys, x.Id)
				}
				return p, nil
			}
		}},
	}
}

// clearWaste empties the record list NewModel pre-populates (there is no exported
// way to construct an empty waste model).
func clearWaste(m *wastepb.Model) {
	f := reflect.ValueOf(m).Elem().FieldByName("allWasteRecords")
	if !f.IsValid() || f.Kind() != reflect.Slice {
		hx.Fatal("wastepb.Model has no slice field allWasteRecords any more: the harness cannot set its contents")
	}
	reflect.NewAt(f.Type(), unsafe.Pointer(f.UnsafeAddr())).Elem().Set(reflect.Zero(f.Type()))
}

func b64(b []byte) string { return base64.StdEncoding.EncodeToString(b) }

func nameToken(name string) string {
	b, err := proto.Marshal(&types.PageToken{PageStart: &types.PageToken_LastResourceName{LastResourceName: name}})
	if err != nil {
		hx.Fatal("marshal token: %v", err)
	}
	return b64(b)
}

// firstToken maps the spec's token variant to a concrete token of the scheme and
// the name of its class.  The classes listed in PagingTrace!Malformed are the ones
// that cannot be decoded at all.
func firstToken(scheme string, variant int, full []string) (class, token string) {
	n := len(full)
	if scheme == "index" {
		switch variant {
		case 1:
			return "garbage-text", "abc"
		case 2:
			return "garbage-float", "1.5"
		case 3:
			return "garbage-overflow", "99999999999999999999999"
		case 4:
			return "negative-index", "-3"
		case 5:
			return "zero-index", "0"
		case 6:
			return "index-n", strconv.Itoa(n)
		case 7:
			return "index-beyond-n", strconv.Itoa(n + 1)
		case 8:
			return "index-far-beyond-n", strconv.Itoa(n + 1000)
		default:
			return "index-inside", strconv.Itoa(n / 2)
		}
	}
	switch variant {
	case 1:
		return "garbage-base64", "!!not*base64!!"
	case 2:
		return "garbage-proto", b64([]byte{0x12, 0x05, 'a', 'b'}) // field 2, length 5, two bytes
	case 3:
		return "garbage-utf8", b64([]byte{0x12, 0x02, 0xff, 0xfe}) // proto3 string that is not UTF-8
	case 4:
		b, _ := proto.Marshal(&types.PageToken{PageStart: &types.PageToken_LastOffset{LastOffset: 3}})
		return "other-oneof-arm", b64(b)
	case 5:
		return "empty-key", b64([]byte{0x12, 0x00})
	case 6:
		return "absent-key-before-all", nameToken(" ")
	case 7:
		return "absent-key-after-all", nameToken("\U0010FFFF")
	case 8:
		if n == 0 {
			return "absent-key-inside", nameToken("m")
		}
		return "absent-key-inside", nameToken(full[n/2] + " ") // right after full[n/2]: ' ' sorts before the alphabet
	default:
		if n == 0 {
			return "absent-key-inside", nameToken("a")
		}
		return "present-key", nameToken(full[n/2])
	}
}

func runCase(idx int, c pagingCase, t target, out *hx.Out) {
	ids := make([]string, len(c.IDs))
	for i, id := range c.IDs {
		ids[i] = idString(id)
	}
	rnd := hx.Rand(int64(idx)*131 + int64(len(t.name)))
	var full []string
	var list func(int32, string) (page, error)
	if p := hx.Catch(func() { full, list = t.fill(ids, rnd) }); p != "" {
		hx.Fatal("filling %s with %d ids panicked: %s", t.name, len(ids), p)
	}
	rank := make(map[string]int, len(full))
	sorted := true
	for i, k := range full {
		rank[k] = i + 1
		if i > 0 && !(full[i-1] < k) {
			sorted = false
		}
	}
	o := walkObs{K: c.K, Case: idx, Srv: t.name, Scheme: t.scheme, N: len(full), Size: c.Size, TClass: "none",
		Flat: []int{}, Lens: []int{}, Totals: []int{}, Sorted: sorted, Bound: 2*len(full) + 5}
	if len(ids) > 0 {
		o.Sample = fmt.Sprintf("%q", shuffled(ids, rnd)[:min(4, len(ids))])
	}
	token := ""
	if c.K == "tok" {
		o.TClass, token = firstToken(t.scheme, c.Variant, full)
	}
	o.Token = token
	for {
		if o.Calls >= o.Bound {
			break // Ended stays false: the chain did not stop within the bound
		}
		o.Calls++
		var p page
		var err error
		o.Panic = hx.Catch(func() { p, err = list(int32(c.Size), token) })
		if o.Panic != "" {
			o.Err = "Panic"
			o.Ended = true
			break
		}
		o.Err = hx.Code(err)
		if o.Calls == 1 {
			o.First = o.Err
		}
		if err != nil {
			o.Ended = true
			break
		}
		for _, k := range p.keys {
			o.Flat = append(o.Flat, rank[k]) // 0 if the server returned something that is not in the listing
		}
		o.Lens = append(o.Lens, len(p.keys))
		o.Totals = append(o.Totals, p.total)
		if p.next == "" {
			o.Ended = true
			break
		}
		token = p.next
	}
	if o.Calls == 1 && o.Panic != "" {
		o.First = "Panic"
	}
	out.Write(o)
}

func main() {
	cases := hx.ReadCases[pagingCase](hx.Arg("-cases", "cases.ndjson"))
	out := hx.NewOut(hx.Arg("-out", "obs.ndjson"))
	defer out.Close()
	only := hx.Arg("-srv", "")
	ts := targets()
	for i, c := range cases {
		for _, t := range ts {
			if t.scheme != c.Sch || (only != "" && only != t.name) {
				continue
			}
			runCase(i, c, t, out)
		}
	}
}
