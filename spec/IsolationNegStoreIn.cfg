INIT Init
NEXT Next
INVARIANT StoreIsolated
CONSTANTS
  StoreIn = TRUE
  InPlace = FALSE
  ReadEdits = FALSE
  FirstWriteKeeps = FALSE
  HookEditsOld = FALSE
  LendsOld = FALSE
  MergeFiltersSrc = FALSE
  InitKinds = {"absent", "present"}
  NCases = 0
  MinOps = 1
  MaxOps = 1
  MaxLive = 200
