SPECIFICATION Spec
CONSTANTS
  Ids = {1, 2}
  MaxSteps = 7
  Kind = "coll"
INVARIANT EmitCase
CHECK_DEADLOCK FALSE
