"""Per-property MANIFEST texts.  A property is only listed in MANIFEST.checks
once lib/checks/<id>.py exists."""

TLC_BASE = ("Trusted base: TLC 1.8.0 evaluating the TLA+ predicates; the Go abstraction function "
            "(harness/mini, Abs/Conc between spec messages and TestAllTypes); the harness reporting "
            "faithfully what the real code returned. ")

CHECKS = {
    "C05": {
        "engine": "spec/Msg.tla + spec/Masks.tla (TLC) + harness 'masks'",
        "technique": "TLA+ reference semantics of masked writes; TLC laws (MC), TLC-generated tuples replayed on "
                     "FieldUpdater/Value/Collection, TLC evaluates the property predicates on the real results",
        "text": "TLC checks exhaustively over a small message/mask domain that the TLA+ reference merge satisfies "
                "frame, scalar-assignment, reset and empty-mask clauses; TLC then generates thousands of "
                "(stored, written, update mask, writable mask, extra-writable, reset mask) tuples, the harness runs "
                "each through masks.FieldUpdater, Value.Set and Collection.Update built from the working tree, and "
                "TLC evaluates the property clauses (and equality with the reference merge where the mask must be "
                "accepted) on every real result. Bounded model checking of the design plus conformance of the code "
                "on the generated tuples; not a proof for all messages.",
        "note": TLC_BASE + "Miniature schema (9 fields of TestAllTypes covering implicit/optional scalars, nested "
                "messages, repeated scalar/message, map, oneof) stands for all field kinds.",
    },
    "C06": {
        "engine": "spec/Msg.tla + spec/Masks.tla (TLC) + harness 'masks'",
        "technique": "TLA+ declarative projection; TLC laws (MC), TLC-generated (message, mask) pairs replayed on "
                     "ResponseFilter/Value/Collection/Pull, TLC compares real results with the projection",
        "text": "TLC checks projection laws (idempotent, monotone, parent+child = parent, leaf-wise "
                "characterisation) on the TLA+ Project operator, generates (message, mask) pairs including every "
                "single-path and systematically corrupted mask, the harness runs them through FilterClone, Filter, "
                "Value.Get, Collection.Get/List and Pull seed/update events, and TLC requires every result to equal "
                "the projection, the stored message to be unchanged, corrupted masks to be reported InvalidArgument "
                "and no read to panic.",
        "note": TLC_BASE + "Pull vias are only exercised for valid masks in-process (a panic in Pull's goroutine "
                "would kill the harness; such a crash is reported as a violation through crash attribution).",
    },
}

NOT_APPLICABLE = []

ENGINES = [
    {"name": "tlc", "path": "/usr/local/bin/tlc", "serves_properties": [],
     "kind_free_text": "TLC 1.8.0 explicit-state model checker: MC of the specification library in spec/, case "
                       "generation (PrintT/ToJson) and trace validation (ndJsonDeserialize) against the real code"},
    {"name": "harness", "path": "harness/", "serves_properties": [],
     "kind_free_text": "Go program built on every check from /repo's working tree with -tags verif; replays "
                       "TLC-generated cases and records observations as ndjson"},
]

NOTES = ("Every check is ./bin/verif check <id> --tier quick|thorough; exit 0 = held, 1 = VIOLATION lines, "
         "2 = inconclusive (tool failure/timeout; never a violation). VERIF_REPO overrides /repo for scratch "
         "worktrees. Known findings: KNOWN_FINDINGS.txt.")
