---------------------------- MODULE GroupTrace ----------------------------
(***************************************************************************)
(* Trace use of the C17 specification: the verdict.  Every line of        *)
(* obs.ndjson is the outcome record (see GroupContract.tla) of one call   *)
(* of the real group.Execute* / trait group server, driven by the harness *)
(* through one schedule.  Fails(t) is the set of contract clauses the     *)
(* line falsifies.                                                        *)
(***************************************************************************)
EXTENDS GroupContract, Json

VARIABLE c
Obs == ndJsonDeserialize("obs.ndjson")

Fails(t) == ContractFails(t)
BadLines == { k \in 1..Len(Obs) : Fails(Obs[k]) # {} }
TraceInit == c = 0
TraceNext == UNCHANGED c
EmitBad == \A k \in BadLines : PrintT("BAD " \o ToJson([line |-> k, fails |-> Fails(Obs[k])]))
TraceChecked == EmitBad /\ PrintT("CHECKED " \o ToString(Len(Obs)))
=============================================================================
