---------------------------- MODULE ModeTrait ----------------------------
(***************************************************************************)
(* C20, modepb.Model + ModelServer.UpdateModeValues.  The model is built  *)
(* from a list of modes <<[name, values]>>; its state maps a mode name to *)
(* the selected value name, here a SET of [mode, value] pairs (at most    *)
(* one per mode).  A relative update steps a mode's selection by a signed *)
(* count through the mode's value list, wrapping in both directions.      *)
(*                                                                         *)
(* What happens to modes a request does not mention (a write without an   *)
(* update mask replaces the whole map), to a mode with no current value   *)
(* or with a value outside its list is not settled by the property text:  *)
(* modelled after the implementation, not asserted.                       *)
(***************************************************************************)
EXTENDS Integers, Sequences, FiniteSets

DefaultModes == << [name |-> "temperature", values |-> <<"delicates", "medium", "whites">>],
                   [name |-> "spin", values |-> <<"auto", "slow", "fast">>] >>

SetOf(s) == { s[k] : k \in 1..Len(s) }
ModeNames(ms) == { ms[k].name : k \in 1..Len(ms) }
ValuesOf(ms, n) == (ms[CHOOSE k \in 1..Len(ms) : ms[k].name = n /\ \A j \in 1..(k - 1) : ms[j].name # n]).values
HasValue(st, n) == \E p \in st : p.mode = n
ValueOf(st, n) == (CHOOSE p \in st : p.mode = n).value
IndexOf(vs, v) == CHOOSE k \in 1..Len(vs) : vs[k] = v /\ \A j \in 1..(k - 1) : vs[j] # v

\* the selection a constructor makes: the first value of every mode
InitialValues(ms) == { [mode |-> ms[k].name, value |-> ms[k].values[1]] : k \in 1..Len(ms) }

\* one wrapping step: position i (1-based) moved by adj in a list of n values
Wrap(i, adj, n) == ((i - 1 + adj) % n) + 1
Stepped(ms, st, n, adj) == LET vs == ValuesOf(ms, n) IN vs[Wrap(IndexOf(vs, ValueOf(st, n)), adj, Len(vs))]
\* the property settles a relative step exactly when the mode exists and its current value is in its list
StepSettled(ms, st, n) == n \in ModeNames(ms) /\ HasValue(st, n) /\ ValueOf(st, n) \in SetOf(ValuesOf(ms, n))

(* UpdateModeValues without an update mask: abs = the written pairs, rel = *)
(* sequence of [mode, adj]; relative adjustments win over written values. *)
Update(ms, st, abs, rel) ==
  LET relModes == { rel[k].mode : k \in 1..Len(rel) } \cap ModeNames(ms)
      adjOf(n) == (rel[CHOOSE k \in 1..Len(rel) : rel[k].mode = n]).adj
      stepped == { [mode |-> n, value |-> IF StepSettled(ms, st, n) THEN Stepped(ms, st, n, adjOf(n))
                                          ELSE ValuesOf(ms, n)[1]] : n \in { x \in relModes : ValuesOf(ms, x) # <<>> } }
      written == { p \in SetOf(abs) : p.mode \notin { q.mode : q \in stepped } }
  IN written \cup stepped
=============================================================================
