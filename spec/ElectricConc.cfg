SPECIFICATION Spec
INVARIANTS AtMostOneNormal ActiveExists LockDiscipline Serializable EmitCase
