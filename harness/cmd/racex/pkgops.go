package main

import (
	"context"
	"time"

	"google.golang.org/grpc"
	"google.golang.org/protobuf/proto"
	"google.golang.org/protobuf/types/known/durationpb"
	"google.golang.org/protobuf/types/known/fieldmaskpb"
	"google.golang.org/protobuf/types/known/timestamppb"

	"github.com/smart-core-os/sc-api/go/info"
	"github.com/smart-core-os/sc-api/go/traits"
	"github.com/smart-core-os/sc-golang/internal/testproto"
	"github.com/smart-core-os/sc-golang/pkg/cmp"
	"github.com/smart-core-os/sc-golang/pkg/masks"
	"github.com/smart-core-os/sc-golang/pkg/middleware/name"
	"github.com/smart-core-os/sc-golang/pkg/resource"
	sctime "github.com/smart-core-os/sc-golang/pkg/time"
	"github.com/smart-core-os/sc-golang/pkg/trait/electricpb/segmentpb"
	"github.com/smart-core-os/sc-golang/pkg/trait/modepb"
	"github.com/smart-core-os/sc-golang/pkg/trait/vendingpb/unitpb"
)

// The "pkg" family: package-level helpers and variables used from several goroutines at once.  None of them is
// supposed to write anything shared; the race detector says whether that is so.  The arguments are private to the
// calling process, so a report can only be about package-level state.
//
// comparers held by package-level variables of the harness stand for what the default model options do
// (electricpb/fanspeedpb/energystoragepb.DefaultModelOptions hold ONE comparer for every model)
var (
	sharedEqual  = cmp.Equal(cmp.FloatValueApprox(0, 0.01), cmp.TimeValueWithin(time.Second), cmp.DurationValueWithin(time.Second))
	sharedLogic  = cmp.Or(cmp.And(cmp.Equal(), cmp.Equal(cmp.FloatValueApprox(0.1, 0))), cmp.Equal(cmp.ValueOr(cmp.FloatValueApprox(0, 1), cmp.ValueAnd(cmp.TimeValueWithin(time.Minute)))))
	nameUnary    = name.IfAbsentUnaryInterceptor("dflt")
	nameStream   = name.IfAbsentStreamInterceptor("dflt")
	sharedFilter = masks.NewResponseFilter(masks.WithFieldMaskPaths("default_int32", "default_nested_message.a", "map_string_string"))
)

type nopServerStream struct {
	grpc.ServerStream
	msg proto.Message
}

func (s *nopServerStream) RecvMsg(m any) error {
	proto.Merge(m.(proto.Message), s.msg)
	return nil
}
func (s *nopServerStream) Context() context.Context { return context.Background() }

func init() {
	X := []string{"pkgvars"}

	reg("x.convert", X, func(w *world, pr *proc) error {
		v, err := unitpb.Convert(float64(pr.rnd.n(100)), traits.Consumable_LITER, traits.Consumable_CUP)
		useInt(int64(v))
		v32, _ := unitpb.Convert32(float32(pr.rnd.n(100)), traits.Consumable_KILOGRAM, traits.Consumable_Unit(1+pr.rnd.n(6)))
		useInt(int64(v32))
		return err
	})
	reg("x.period", X, func(w *world, pr *proc) error {
		t1, t2 := timestamppb.New(time.Unix(int64(pr.rnd.n(1000)), 0)), timestamppb.New(time.Unix(int64(1000+pr.rnd.n(1000)), 0))
		a, b := sctime.PeriodBetween(t1, t2), sctime.PeriodOnOrAfter(t1)
		useBool(sctime.PeriodsConnected(a, b))
		useBool(sctime.PeriodsIntersect(sctime.PeriodBefore(t2), sctime.AllTime()))
		useBool(sctime.PeriodsIntersect(a, sctime.AllTime()))
		useInt(int64(sctime.CompareAscending(t1, t2)))
		return nil
	})
	reg("x.segment", X, func(w *world, pr *proc) error {
		segs := []*traits.ElectricMode_Segment{
			{Magnitude: 1, Length: durationpb.New(time.Second)}, {Magnitude: float32(pr.rnd.n(9)), Length: durationpb.New(2 * time.Second)}, {Magnitude: 3}}
		d := time.Duration(pr.rnd.n(4000)) * time.Millisecond
		before, after, _ := segmentpb.Cut(d, segs[1])
		touch(before)
		touch(after)
		for _, s := range segmentpb.Shift(d, segs...) {
			touch(s)
		}
		for _, s := range segmentpb.Sum(segs, segs[:2]) {
			touch(s)
		}
		lvl, _ := segmentpb.MagnitudeAt(d, segs...)
		useInt(int64(lvl) + int64(segmentpb.MaxAfter(d, segs...)))
		return nil
	})
	reg("x.cmp", X, func(w *world, pr *proc) error {
		a, b := mkMsg(pr.rnd.n(3)), mkMsg(pr.rnd.n(3))
		a.DefaultFloat, b.DefaultFloat = 1, 1.001
		useBool(sharedEqual(a, b))
		useBool(sharedLogic(a, b))
		useBool(resource.ComparerFunc(sharedEqual).Compare(a, a))
		return nil
	})
	reg("x.tween", X, func(w *world, pr *proc) error {
		t := resource.NewTween() // DefaultTweenOptions
		for i := 0; i < 3; i++ {
			v, err := t.NextFrame()
			useInt(int64(v))
			if err != nil {
				break
			}
		}
		t2 := resource.NewTween(resource.WithBounds(0, float32(1+pr.rnd.n(9))), resource.WithDuration(time.Millisecond))
		_, _ = t2.NextFrame()
		return nil
	})
	reg("x.masks", X, func(w *world, pr *proc) error {
		u := masks.NewFieldUpdater(masks.WithUpdateMask(&fieldmaskpb.FieldMask{Paths: []string{"default_int32", "default_nested_message"}})) // DefaultFieldUpdateOptions
		src, dst := mkMsg(pr.rnd.n(9)), mkMsg(0)
		if err := u.Validate(src); err != nil {
			return err
		}
		u.Merge(dst, src)
		touch(sharedFilter.FilterClone(dst)) // one filter used by everybody
		touch(masks.NewResponseFilter().FilterClone(src))
		useAny(masks.RemovePrefix("default_nested_message", &fieldmaskpb.FieldMask{Paths: []string{"default_nested_message.a", "default_int32"}}))
		return nil
	})
	reg("x.name", X, func(w *world, pr *proc) error {
		req := &traits.GetOnOffRequest{}
		_, err := nameUnary(context.Background(), req, &grpc.UnaryServerInfo{}, func(ctx context.Context, r any) (any, error) {
			touch(r.(proto.Message))
			return nil, nil
		})
		_ = nameStream(nil, &nopServerStream{msg: &traits.PullOnOffRequest{}}, &grpc.StreamServerInfo{}, func(srv any, ss grpc.ServerStream) error {
			m := &traits.PullOnOffRequest{}
			if err := ss.RecvMsg(m); err != nil {
				return err
			}
			useString(m.Name)
			return nil
		})
		useString(req.Name)
		return err
	})
	reg("x.modes", X, func(w *world, pr *proc) error {
		touch(modepb.DefaultModes)
		m := modepb.NewModel() // stores the package-level DefaultModes
		touch(m.Modes())
		_, err := m.UpdateModeValues(&traits.ModeValues{Values: map[string]string{"temperature": "medium"}})
		touch(m.ModeValues())
		return err
	})
	reg("x.genid", X, func(w *world, pr *proc) error {
		// the package-level id helper with a reader of the caller's own
		id, err := resource.GenerateUniqueId(ownReader{pr}, func(candidate string) bool { return pr.rnd.n(3) == 0 })
		useString(id)
		return err
	})
	reg("x.newmodels", X, func(w *world, pr *proc) error {
		// construction itself goes through the package-level defaults: build a model of some type, use it once
		typ := simpleTypes[pr.rnd.n(len(simpleTypes))]
		m := simpleModels[typ].mk()
		useAny(m)
		useAny(resource.NewValue(resource.WithInitialValue(&testproto.TestAllTypes{})))
		useAny(resource.NewCollection())
		return nil
	})

	// ------------------------------------------------------------------ server.InfoServer (a device registry)
	I := []string{"info"}
	reg("i.add", I, func(w *world, pr *proc) error {
		useBool(w.info[pr.in].AddDevice(&info.Device{Name: []string{"d1", "d2", "d3"}[pr.rnd.n(3)], Traits: []*info.Trait{{Name: "t"}}}))
		return nil
	})
	reg("i.rem", I, func(w *world, pr *proc) error {
		useBool(w.info[pr.in].RemoveDevice(&info.Device{Name: []string{"d1", "d2", "d3"}[pr.rnd.n(3)]}))
		return nil
	})
	reg("i.list", I, func(w *world, pr *proc) error {
		res, err := w.info[pr.in].ListDevices(w.root, &info.ListDevicesRequest{})
		touch(res)
		return err
	})
}

type ownReader struct{ pr *proc }

func (r ownReader) Read(p []byte) (int, error) {
	for i := range p {
		p[i] = byte(r.pr.rnd.next())
	}
	return len(p), nil
}

// the types of the "dflt" family, in a fixed order
var simpleTypes = []string{"onoff", "light", "fanspeed", "mode", "enterleave", "airtemp", "airquality", "energy", "occupancy",
	"openclose", "meter", "access", "press", "vending", "waste", "metadata"}
