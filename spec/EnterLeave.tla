---------------------------- MODULE EnterLeave ----------------------------
(***************************************************************************)
(* C20, enterleavesensorpb.Model: two counters, enter total and leave     *)
(* total, each optional ([has, v]; an absent total counts as zero).       *)
(* CreateEnterLeaveEvent's doc comment gives the rules by which an event  *)
(* [direction, enter total?, leave total?] adjusts them; per counter (the *)
(* enter total counts ENTER events, the leave total LEAVE events):        *)
(*   R1  the event brings no total (nil)            -> counted: the total *)
(*       advances by one iff the direction is the counter's own;          *)
(*   R2  the event brings the CURRENT total (a device that builds the     *)
(*       next event from the last one it read)      -> counted, like R1;  *)
(*   R3  the event brings a total different from the current one          *)
(*       -> that total is taken as it is, whatever the direction.         *)
(* After any event both totals are present.  ResetTotals zeroes both.     *)
(***************************************************************************)
EXTENDS Integers, Sequences

None == [has |-> FALSE, v |-> 0]
Some(x) == [has |-> TRUE, v |-> x]
Cur(t) == IF t.has THEN t.v ELSE 0

Counted(cur, counts) == Some(Cur(cur) + (IF counts THEN 1 ELSE 0))
Rule(supplied, cur) == IF ~supplied.has THEN "R1-no-total" ELSE IF supplied.v = Cur(cur) THEN "R2-current-total" ELSE "R3-new-total"
Adjust(supplied, cur, counts) ==
  CASE Rule(supplied, cur) = "R1-no-total" -> Counted(cur, counts)
    [] Rule(supplied, cur) = "R2-current-total" -> Counted(cur, counts)
    [] Rule(supplied, cur) = "R3-new-total" -> Some(supplied.v)

\* dir \in {"ENTER", "LEAVE", "DIRECTION_UNSPECIFIED"}; se, sl = totals supplied with the event
Event(st, dir, se, sl) == [enter |-> Adjust(se, st.enter, dir = "ENTER"), leave |-> Adjust(sl, st.leave, dir = "LEAVE")]
Reset(st) == [enter |-> Some(0), leave |-> Some(0)]
DefaultInit == [enter |-> Some(0), leave |-> Some(0)]

(* Configuration = the SEQUENCE of options handed to NewModel, each kind at  *)
(* most once: [kind |-> "init", init |-> totals] (WithInitialEnterLeaveEvent *)
(* or a resource initial value), [kind |-> "clock"].  Whatever the order,    *)
(* the totals given are the initial totals.                                  *)
OptsOf(opts, kind) == SelectSeq(opts, LAMBDA o : o.kind = kind)
HasOpt(opts, kind) == OptsOf(opts, kind) # <<>>
ConfInit(opts) == IF HasOpt(opts, "init") THEN OptsOf(opts, "init")[1].init ELSE DefaultInit
=============================================================================
