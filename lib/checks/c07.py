"""C07: messages are isolated - no aliasing between callers and stored state.

spec/Isolation.tla: heap of message objects, one of them the stored state; a message crosses the API boundary
"in" (argument of a write) or "out" (result, list element, event value new/old) and is frozen at that moment.
  MC     the reference design (clone on write, replace the stored object) keeps HandedOutStable, StoreIsolated
         and ReadOnlyFrame on every behaviour over a small heap; each of the three deviations found in real
         code (keep the caller's object / write in place / a read that edits what it hands out) violates the
         matching statement (IsolationNeg*.cfg), so none of them is vacuous.
  Gen    TLC prints operation walks for a generic object with k operations (operation index, argument seed,
         delay after which the caller scribbles on what he handed in, pure rechecks).
  impl   harness `isolation` binds the indices to the real operations of resource.Value, resource.Collection and
         every trait model in its tables, registers every crossing message with a deep copy, re-compares every
         live handed-out message after EVERY step, digests the full read-back before/after every step and
         overwrites (in place, every field) the caller's messages after the write returned.
  Trace  spec/IsolationTrace.tla evaluates the three statements on every logged step.
The tables cannot rot silently: $VERIF_REPO/pkg/trait/*/model.go (and memory.go) is scanned and the exported
methods of every bound type are listed by reflection; models and methods without a binding are written to the
evidence (coverage.models_uncovered / coverage.methods_unbound)."""
import glob
import json
import os
import re
import time
from concurrent.futures import ThreadPoolExecutor

import vf

CLAUSES = {
    "handed-out-message-changed": "a message the library handed out earlier (read result, write result, list element, "
                                  "event value new/old) no longer equals the copy frozen when it was handed out",
    "read-only-op-changed-state": "the full read-back of the object differs before and after a read-only operation",
    "caller-scribble-changed-store": "overwriting the message handed to a write, after the write returned, changed "
                                     "the full read-back of the object",
    "too-many-live-handles": "the harness kept more live handles than Isolation.tla MaxLive (harness defect)",
}


def _parallel(jobs, width):
    with ThreadPoolExecutor(max_workers=max(1, width)) as ex:
        futs = [(k, ex.submit(f)) for k, f in jobs]
        return {k: f.result() for k, f in futs}


def scan_repo():
    """Model types in the tree: pkg/trait/<pkg>/model.go declares `type Model struct`, memory.go a MemoryDevice,
    model_server.go the ModelServer (RPC layer) of the model."""
    res = {"models": [], "memory_devices": [], "other_resource_holders": [], "servers": [], "hooks": []}
    root = os.path.join(vf.REPO, "pkg", "trait")
    for d in sorted(os.listdir(root)):
        p = os.path.join(root, d)
        if not os.path.isdir(p):
            continue
        if os.path.exists(os.path.join(p, "model.go")):
            res["models"].append(d)
        if os.path.exists(os.path.join(p, "model_server.go")):
            res["servers"].append(d)
        for f in sorted(glob.glob(os.path.join(p, "*.go"))):
            base = os.path.basename(f)
            if base.endswith("_test.go") or base.endswith(".pb.go"):
                continue
            txt = open(f, errors="replace").read()
            if re.search(r"Intercept(Before|After)\(|WithExpectedCheck\(|With(Created|ID)Callback\(", txt):
                res["hooks"].append(d + "/" + base)
            if base == "model.go":
                continue
            if re.search(r"resource\.New(Value|Collection)\(", txt):
                (res["memory_devices"] if base.startswith("memory") else res["other_resource_holders"]).append(d + "/" + base)
    return res


def run(ctx):
    thorough = ctx.tier == "thorough"
    phases, t0 = {}, time.time()

    def phase(name):
        nonlocal t0
        phases[name] = round(time.time() - t0, 1)
        t0 = time.time()
    ctx.cov["phase_s"] = phases
    only = [t for t in os.environ.get("C07_TARGETS", "").split(",") if t]

    # 1. MC: the design statements hold for the reference design and each deviation is caught
    mcc = {"NCells": 5 if thorough else 4, "NVals": 2}
    negs = (("IsolationNegStoreIn.cfg", "StoreIsolated"), ("IsolationNegInPlace.cfg", "HandedOutStable"),
            ("IsolationNegReadEdits.cfg", "ReadOnlyFrame"), ("IsolationNegFirstWrite.cfg", "StoreIsolated"),
            ("IsolationNegHookEditsOld.cfg", "HandedOutStable"), ("IsolationNegLendsOld.cfg", "HandedOutStable"),
            ("IsolationNegMergeFiltersSrc.cfg", "HandedOutStable"))
    small = {"NCells": 4, "NVals": 2}
    jobs = [("mc", lambda: ctx.mc("Isolation", "IsolationMC.cfg", consts=mcc, workers=4, timeout=1500)),
            # the first-write deviation cannot be reached from constructions that already hold a value: the walks
            # must (and do) carry the construction, "absent" included
            ("present", lambda: ctx.mc("Isolation", "IsolationFirstWritePresent.cfg", consts=small, workers=1, timeout=600))]
    for cfg, _ in negs:
        jobs.append((cfg, (lambda cfg: lambda: ctx.tlc("Isolation", cfg, consts=small, workers=1, timeout=600))(cfg)))
    res = _parallel(jobs, len(jobs))
    for cfg, must in negs:
        if must not in res[cfg].violated:
            raise vf.Inconclusive("Isolation.tla with the deviation of %s does not violate %s: the statement is vacuous\n%s"
                                  % (cfg, must, res[cfg].out[-2000:]))
    ctx.cov["design_variants_caught"] = ["StoreIn->StoreIsolated", "InPlace->HandedOutStable", "ReadEdits->ReadOnlyFrame",
                                         "FirstWriteKeeps(from an object holding nothing)->StoreIsolated",
                                         "HookEditsOld(interceptor/callback writes into the old value)->HandedOutStable",
                                         "LendsOld(the caller's message is left sharing memory with the old value)->HandedOutStable",
                                         "MergeFiltersSrc(a masked write cuts down the written message, which was read "
                                         "from this or another resource)->HandedOutStable"]

    phase("mc")
    # 2. Gen: walks for a generic object
    nwalks = int(os.environ.get("C07_WALKS", "0")) or (1000 if thorough else 30)
    gen = ctx.tlc("Isolation", "IsolationGen.cfg", workers=1, timeout=1500,
                  consts={"NCases": nwalks, "MinOps": 20, "MaxOps": 100 if thorough else 60})
    walks = gen.cases()
    if len(walks) < nwalks:
        raise vf.Inconclusive("Isolation Gen produced only %d of %d walks\n%s" % (len(walks), nwalks, gen.out[-2000:]))
    cpath = ctx.write_ndjson("walks.ndjson", walks)

    # 3. what is bound, what the tree contains
    p = ctx.run_harness(["-list"], cmd="isolation", timeout=300)
    try:
        listing = json.loads([l for l in p.stdout.splitlines() if l.startswith("[")][-1])
    except Exception:
        raise vf.Inconclusive("isolation -list did not print the target table:\n" + p.stdout[-2000:])
    tree = scan_repo()
    bound_pkgs = {t["pkg"] for t in listing if t["type"].endswith(".Model")}
    srv_pkgs = {t["pkg"] for t in listing if t.get("layer") == "server"}
    ctx.cov["servers_in_tree"] = tree["servers"]
    ctx.cov["servers_covered"] = sorted(d for d in tree["servers"] if d in srv_pkgs)
    ctx.cov["servers_uncovered"] = sorted(d for d in tree["servers"] if d not in srv_pkgs)
    # files that hand the live old value to an interceptor or callback; each must belong to a bound layer
    ctx.cov["files_with_write_hooks"] = {
        f: ("server target" if f.endswith("model_server.go") and f.split("/")[0] in srv_pkgs else
            "memory target" if f.split("/")[1].startswith("memory") else
            "model target" if f.split("/")[0] in bound_pkgs else "NOT BOUND")
        for f in tree["hooks"]}
    ctx.cov["targets"] = {t["name"]: {"type": t["type"], "operations": t["ops"]} for t in listing}
    ctx.cov["constructions"] = "every walk names its construction (Isolation.tla InitKinds): absent = Value without initial " \
                               "value / empty collection / package defaults, present = initial value / records / positions"
    ctx.cov["models_in_tree"] = tree["models"]
    ctx.cov["models_covered"] = sorted(d for d in tree["models"] if d in bound_pkgs)
    ctx.cov["models_uncovered"] = sorted(d for d in tree["models"] if d not in bound_pkgs)
    ctx.cov["methods_unbound"] = {t["name"]: sorted(set(t["methods"]) - set(t["bound"]) - set(t["not_ops"]))
                                  for t in listing if set(t["methods"]) - set(t["bound"]) - set(t["not_ops"])}
    ctx.cov["methods_not_operations_on_messages"] = {t["name"]: t["not_ops"] for t in listing if t["not_ops"]}
    mem_bound = {t["pkg"] for t in listing if t["type"].endswith("MemoryDevice")}
    ctx.cov["memory_devices_covered"] = sorted(x for x in tree["memory_devices"] if x.split("/")[0] in mem_bound)
    ctx.cov["memory_devices_uncovered"] = sorted(x for x in tree["memory_devices"] if x.split("/")[0] not in mem_bound)
    ctx.cov["other_resource_holders_uncovered"] = [x for x in tree["other_resource_holders"] if x != "metadatapb/collection.go"]
    names = [t["name"] for t in listing if not only or t["name"] in only]
    if not names:
        raise vf.Inconclusive("no target selected")

    phase("gen+build+list")
    # 4. the real objects
    outdir = ctx.path("obs")
    os.makedirs(outdir, exist_ok=True)
    args = ["-cases", cpath, "-outdir", outdir]
    if only:
        args += ["-targets", ",".join(names)]
    p = ctx.run_harness(args, timeout=3000, check=False, cmd="isolation")
    if p.crash:
        cur = p.crash.get("current") or {}
        ctx.violation("C07/%s/process/crash" % cur.get("target", "unknown"),
                      "the harness process died while running walks (last announced: %s): %s" % (cur, p.crash["message"]), p.crash)
        return
    if p.returncode != 0:
        raise vf.Inconclusive("harness isolation failed rc=%d:\n%s" % (p.returncode, p.stdout[-4000:]))
    for n in names:
        if not os.path.exists(os.path.join(outdir, n + ".ndjson")):
            raise vf.Inconclusive("harness wrote no observations for target %s" % n)

    phase("harness")
    # 5. every logged step against the statements of Isolation.tla
    # (a few TLC runs over concatenated observation files: one JVM start per group, not per target)
    ngroups = max(1, min(len(names), vf.NCPU // 2))
    groups = [names[g::ngroups] for g in range(ngroups)]
    placed = {}         # target -> (group, first line, number of lines)
    for g, members in enumerate(groups):
        at = 0
        with open(ctx.path("group-%d.ndjson" % g), "w") as f:
            for n in members:
                k = 0
                for line in open(os.path.join(outdir, n + ".ndjson")):
                    if line.strip():
                        f.write(line if line.endswith("\n") else line + "\n")
                        k += 1
                placed[n] = (g, at, k)
                at += k

    def trace(g):
        return lambda: ctx.tlc("IsolationTrace", "IsolationTrace.cfg", workers=1, timeout=3000,
                               files={"obs.ndjson": ctx.path("group-%d.ndjson" % g)})
    gtraces = _parallel([(g, trace(g)) for g in range(ngroups)], ngroups)
    gbad = {}
    for g in range(ngroups):
        total = sum(placed[n][2] for n in groups[g])
        if not any(l.startswith('"CHECKED %d"' % total) for l in gtraces[g].out.splitlines()):
            raise vf.Inconclusive("trace check of %s did not cover all %d observations:\n%s" % (groups[g], total, gtraces[g].out[-3000:]))
        gbad[g] = gtraces[g].cases("BAD ")
    phase("trace")
    per = {}
    panics = {}
    for n in names:
        lines = ctx.read_ndjson(os.path.join(outdir, n + ".ndjson"))
        g, first, k = placed[n]
        if k != len(lines):
            raise vf.Inconclusive("observation file of %s changed while it was being checked" % n)
        ctx.count(len(lines))
        ctx.cov["traces_validated_against_impl"] += nwalks
        bad = [{"line": b["line"] - first, "fails": b["fails"]} for b in gbad[g] if first < b["line"] <= first + k]
        st = {"walks": nwalks, "steps": len(lines), "bad_lines": len(bad), "crossings_in": 0, "crossings_out": 0,
              "handles_compared": 0, "scribbles": 0, "rechecks": 0, "max_live": 0, "ops_run": {}, "aliased_with_caller_message": 0}
        for b in bad:
            o = lines[b["line"] - 1]
            for clause in b["fails"]:
                if clause == "too-many-live-handles":
                    raise vf.Inconclusive("harness kept %d live handles (target %s)" % (o["nh"], n))
                where = ""
                if clause == "handed-out-message-changed":
                    where = "; changed: " + ", ".join("%s (handed out %d steps earlier) fields %s" % (c["from"], c["age"], c["fields"])
                                                      for c in o["changed"][:4])
                elif o["sdiff"]:
                    where = "; read-back differs in %s" % o["sdiff"]
                ctx.violation("C07/%s/%s/%s" % (n, o["op"].replace("/", "-"), clause),
                              "target %s walk %d step %d (%s of %s): %s%s" %
                              (n, o["walk"], o["step"], o["kind"], o["op"], CLAUSES.get(clause, clause), where), o)
        for o in lines:
            st["crossings_in"] += o["nin"] if o["kind"] == "call" else 0
            st["crossings_out"] += o["nout"]
            st["handles_compared"] += o["nh"]
            st["max_live"] = max(st["max_live"], o["nh"])
            st["aliased_with_caller_message"] += o["aliased"]
            if o["kind"] == "scribble":
                st["scribbles"] += 1
            elif o["kind"] == "recheck":
                st["rechecks"] += 1
            elif o["kind"] == "call":
                st["ops_run"][o["op"]] = st["ops_run"].get(o["op"], 0) + 1
                if o["nin"] + o["nout"] > 0:
                    ctx.distinct((n, o["op"], o["err"], o["nin"], min(o["nout"], 3), o["pre"] != o["post"], o["subs"]))
            if o["panic"]:
                panics.setdefault("%s/%s" % (n, o["op"]), o["panic"][:200])
        per[n] = st
        for o in [l for l in lines if l["kind"] == "call" and l["nout"] > 0][:1] + [l for l in lines if l["kind"] == "scribble"][:1]:
            ctx.sample(o, limit=8)
    phase("collect")
    ctx.cov["per_target"] = per
    ctx.cov["steps_validated"] = sum(v["steps"] for v in per.values())
    if panics:
        # a panic is not an isolation statement (C14/C20 judge those); recorded so that nothing is hidden
        ctx.cov["notes"].append({"panics_recovered_not_judged_here": panics})
    ctx.cov["rule"] = ("TLC prints %d walks of 20..%d steps from Isolation.tla (operation index, argument seed, scribble delay "
                       "0/1/2/5 steps, 10%% pure rechecks); every walk is run on each of the %d targets with the index reduced "
                       "modulo the target's operation table and random arguments from small domains (ids/names collide, masks on "
                       "25-35%% of the calls, up to 3 open subscriptions with and without backpressure); one line per step "
                       "(call, scribble or recheck) is judged on its own; non-trivial = a call through which at least one message "
                       "crossed the boundary; distinct = distinct (target, operation, result code, messages in, messages out, "
                       "state changed, open subscriptions)" % (nwalks, 100 if thorough else 60, len(names)))
    ctx.assumptions.append("messages passed to constructors (WithInitialValue, WithInitialChildren, WithPreset...) are not "
                           "'handed to a write': they are neither registered nor scribbled on")
    ctx.assumptions.append("a write may edit the caller's argument during the call (masks filter it); nothing is asserted about "
                           "'in' messages except that the store does not depend on them after the call returned")
    ctx.assumptions.append("the caller's scribble writes THROUGH the message in place (pointers of optional scalars, list elements, "
                           "map entries, bytes, oneof wrappers, nested messages) before setting every field; a handed-out handle "
                           "that IS one of the overwritten message objects is exempt from then on, any other handle that changes "
                           "with the scribble is reported as handed-out-message-changed at that scribble step")


MANIFEST = {
    'engine': "spec/Isolation.tla + spec/IsolationTrace.tla (TLC) + harness 'isolation'",
    'technique': 'TLA+ heap model of messages crossing the API boundary (frozen at the crossing); TLC model-checks the '
                 'reference design and three pinned deviations, prints operation walks for a generic object, the harness '
                 'binds them to the real operations of Value, Collection and every trait model with an isolation monitor '
                 '(deep copy at every crossing, re-comparison after every step, in-place scribbling of arguments after the '
                 'write returned, full read-back before/after), TLC evaluates the three statements on every logged step',
    'text': 'Isolation.tla models message objects as heap cells, one of them the stored state; TLC checks on every '
            'behaviour of a 5-6 cell heap, from both constructions (nothing stored yet / initial value), that '
            'clone-on-write keeps (1) every handed-out cell equal to the content frozen '
            'when it was handed out, (2) the stored content independent of later scribbles on cells the caller handed in, '
            '(3) reads, rechecks and forgets leaving the stored content untouched, and that each of seven deviations seen in '
            'real code (keep the caller\'s object always / only on the first write to an empty object, write in place, '
            'a read that edits its result, a write hook that edits the old value, a write that leaves the caller\'s '
            'message sharing memory with the old value, a masked write that cuts down the written message in place) violates the matching statement. TLC then prints 30 (quick) / 1000 (thorough) walks of 20-100 steps; '
            'each is executed on resource.Value, resource.Collection (Get/List/Add/Update/Delete/Pull/PullID, masks, '
            'interceptors, include, id interceptor, equivalence, expected value) and on the public methods of the trait '
            'models listed in the evidence (parent, metadata + its collection, enter/leave, waste, electric, vending, '
            'booking, hail, publication, fan speed, mode, on/off, light, open/close, meter, energy storage, air quality, '
            'air temperature, occupancy, access, press) and of the memory devices (air temperature, count, emergency, '
            'speaker, light: Get/Update/Pull through a fake server stream), and on the RPC layer: every ModelServer is '
            'driven reflectively through the grpc.ServiceDesc it registers (all unary and server-streaming methods, '
            'called through the generated handlers so that request and response objects are the ones the server '
            'sees, requests filled from the descriptor with ids/versions harvested from earlier responses), in the same '
            'walk as the operations of the model underneath - so snapshots from earlier results and events are '
            're-examined after ANY later RPC, including those that add interceptors or callbacks handed the live old '
            'value (relative mode/fan-speed updates, publication acknowledgement). Each walk names its construction '
            '(absent: Value without initial value, empty collection, package defaults; present: initial value / '
            'records), so the first write to an object that holds nothing is covered. The written message of a plain write is '
            'fresh or (spec: WriteFrom/WriteOther, walk field src) one the caller holds from an earlier read, result or '
            'event of the same or another resource, written with update masks, reset masks and writable fields (pair '
            'target: a Collection and two Values fed from one another; electric with writable paths on the active mode '
            'and modes resources, re-selecting the active mode). Every message crossing the boundary is cloned at that moment; '
            'after every later call, scribble or recheck all live handed-out messages (at most 200) are compared with their '
            'clones and the full read-back is digested. Conformance on the generated walks plus bounded model checking of '
            'the design; not a proof. Pointer identity is deliberately not asserted, only change over time.',
    'note': 'Trusted base: TLC 1.8.0; proto.Clone/proto.Equal/deterministic marshalling as the abstraction of a message; '
            'the harness tables (one closure per operation) registering every crossing. Events are collected by '
            'goroutines and the harness waits for them to go quiet after each step, so an event can occasionally be '
            'registered one step late (it is then frozen later; nothing is reported falsely). Messages given to '
            'constructors, the caller\'s argument during the call, exported ModelServer methods that are not RPCs of the '
            'registered service (listed under methods_unbound), presspb.ModelServer (implements no RPC of PressApi) and the '
            'tweening goroutine of the light memory device are out of scope; the read-back of a model is what its '
            'public API exposes (internal preset tables are seen through ListPresets / the preset reported by '
            'GetPositions).'}
