INIT TraceInit
NEXT TraceNext
INVARIANT TraceChecked
