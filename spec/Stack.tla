------------------------------- MODULE Stack -------------------------------
(***************************************************************************)
(* C14 - a trait server seen through the full client stack                *)
(*        Wrap(router{name -> Wrap(server)})                               *)
(* is one coherent register.                                               *)
(*                                                                         *)
(* The server's business rules are opaque (what an Update stores is up to *)
(* the server), so this module does not compute responses: it states the  *)
(* RELATIONS the property text demands between the things a client       *)
(* observes.  One observation = one client step:                          *)
(*                                                                         *)
(*   t.op      "Update" | "Get" | "OpenPull" | "CloseStream" | "Other"      *)
(*             | "TimedUpdate" | "Wait" | "Nudge"                           *)
(*   t.pre     unmasked Get immediately before the step [ok, v]           *)
(*   t.post    unmasked Get immediately after the step  [ok, v]           *)
(*   t.code    status of the step's RPC ("OK", an error code, "PANIC")    *)
(*   t.resp    the response message (Update, Get)                         *)
(*   t.mask    read mask (Get) / update mask (Update): [nil, paths, nested] *)
(*   t.sub     see Project                                                *)
(*   t.streams the Pull streams open during the step, each with what was  *)
(*             read from it during the step (see StackTrace / StackMC)    *)
(*                                                                         *)
(* A resource message is abstracted to the sequence of its top-level      *)
(* fields, each a natural number: 0 = not populated, otherwise the number *)
(* of that field's value among the distinct values seen (so equality of   *)
(* vectors is proto.Equal).  Masks list top-level fields by position;     *)
(* position 0 stands for a path that names no field.                      *)
(***************************************************************************)
EXTENDS Integers, Sequences, FiniteSets

Range(s) == { s[i] : i \in 1..Len(s) }

\* Get(mask) = Project(Get(), mask): absent mask = everything, empty mask = nothing.
\* mask.paths lists the top-level fields selected whole; mask.nested the top-level fields of which the
\* mask selects sub-fields only ("states.direction"): what remains of such a field is not computable from
\* its number, so the observation carries it: sub[i] is the number of (field i of the unmasked Get
\* restricted to the selected sub-fields), computed by the harness' own projection (abs.go), 0 if absent.
Project(v, mask, sub) ==
  IF mask.nil THEN v
  ELSE [ i \in 1..Len(v) |-> IF i \in Range(mask.paths) THEN v[i]
                              ELSE IF i \in Range(mask.nested) THEN sub[i] ELSE 0 ]

If(b, name) == IF b THEN {} ELSE {name}

\* "a successful Update that changes the value": the response differs from the value before.
\* (The generator only produces values that are far apart or identical, so an equivalence
\* tolerance configured in a model never decides this.)
Changes(t) == t.code = "OK" /\ t.pre.ok /\ t.resp # t.pre.v

(***************************************************************************)
(* Update.                                                                 *)
(***************************************************************************)
\* A stream opened with a read mask shows every value through that mask (s.mask; s.psub / s.rsub are, as
\* t.sub for Get, the sub-field selections of the unmasked Get before the step / of the response).
\* The Update must appear on the stream if what the stream shows changes.  Where the value changes but
\* not its projection the text does not settle whether a change is due: not asserted.
StreamFailsOnUpdate(t, s) ==
  LET want   == Project(t.resp, s.mask, s.rsub)
      before == Project(t.pre.v, s.mask, s.psub)
  IN
  IF ~(Changes(t) /\ want # before) THEN {}
  ELSE
    \* appears on every open stream whose reader keeps up (the harness reads everything at once
    \* and waits >= 3 s): a change carrying the response's value must have been read
    If(\E k \in 1..Len(s.msgs) : s.msgs[k].v = want, "update-missing-on-stream")
    \* ... and if changes were delivered but none of them is the response seen through this stream's mask
    \* (e.g. projected with another stream's mask, or not projected at all), say so
    \cup If((\E k \in 1..Len(s.msgs) : s.msgs[k].v = want) \/ s.msgs = <<>> \/ s.mask.nil,
            "stream-value-is-not-the-projection")
    \* ... every OPEN stream: the client has not closed this one and the record it addresses still exists
    \* (this Update of it succeeded), so the server must not have ended it - e.g. because some other
    \* record of the same collection was deleted
    \cup If(s.ended = "", "stream-ended-while-its-record-exists")
    \* ... carrying the name given in the Pull request (every change read while waiting for this
    \* update stems from an Update - the initial value was consumed when the stream was opened)
    \cup If(\A k \in 1..Len(s.msgs) : s.msgs[k].name = s.name, "stream-change-name")
    \* "unless updates-only": the first change ever read from an updates-only stream must stem from an
    \* Update made after the stream was opened, not be the value that was current when it was opened.
    \* A change says when it happened (change_time): one dated before the open is the initial value.
    \* Where a server does not date its changes (ct = "none") the first change carrying the value from
    \* before this Update, with no successful Update since the open, is taken for it.  (An aggregate
    \* resource may legitimately emit a dated intermediate change equal to the old value while it applies
    \* a multi-part Update; that is not asserted against.)
    \cup If(~(s.uo /\ s.fresh /\ s.msgs # <<>>
              /\ (s.msgs[1].ct = "before-open"
                  \/ (s.msgs[1].ct = "none" /\ s.quiet /\ s.msgs[1].v = before))),
            "updates-only-stream-started-with-current-value")
    \* a Pull that is not updates-only from which nothing could be read when it was opened (see
    \* OpenFails): the first change it ever delivers must still be the value current at the open
    \* (the harness knows the server had subscribed before it went on), not this Update's
    \cup If(~(~s.uo /\ s.fresh /\ s.msgs # <<>> /\ s.msgs[1].v # Project(s.vopen, s.mask, s.sub)),
            "pull-does-not-start-with-current-value")

UpdateFails(t) ==
  If(t.code # "PANIC", "panic")
  \cup (IF t.code = "OK"
          THEN If(t.post.ok /\ t.post.v = t.resp, "update-response-is-not-next-get")
               \cup UNION { StreamFailsOnUpdate(t, t.streams[j]) : j \in 1..Len(t.streams) }
          \* rejected with any error status (a crash is not a status, but Get must not move either)
          ELSE If(~t.pre.ok \/ (t.post.ok /\ t.post.v = t.pre.v), "rejected-update-changed-get")
               \* ... and a rejected Update is not an Update that appears on the streams: whatever the harness
               \* could read from an open stream shortly after the error (it does not wait for long, so this can
               \* only under-report) must end on the unchanged value seen through the stream's mask
               \cup UNION { LET s == t.streams[j] IN
                             If(~t.pre.ok \/ s.msgs = <<>> \/ s.msgs[Len(s.msgs)].v = Project(t.pre.v, s.mask, s.psub),
                                "rejected-update-appeared-on-stream") : j \in 1..Len(t.streams) })

(***************************************************************************)
(* Get with a read mask.  Not asserted when the unmasked Get itself fails. *)
(* One coherent register: only an Update moves it, so the unmasked Get      *)
(* after a step that is not an Update equals the one before it (and, by     *)
(* update-response-is-not-next-get, the last successful Update's response). *)
(***************************************************************************)
ReadOnlyFails(t) == IF t.pre.ok THEN If(t.post.ok /\ t.post.v = t.pre.v, "read-changed-register") ELSE {}

GetFails(t) ==
  If(t.code # "PANIC", "panic")
  \cup (IF t.code = "OK" /\ t.pre.ok THEN If(t.resp = Project(t.pre.v, t.mask, t.sub), "get-mask-is-not-projection") ELSE {})
  \cup (IF t.pre.ok THEN If(t.code = "OK", "masked-get-failed") ELSE {})
  \cup ReadOnlyFails(t)

(***************************************************************************)
(* A new Pull starts with the current value unless updates-only.  The     *)
(* text does not say that the initial change carries the name; that is    *)
(* not asserted.  For an updates-only Pull the absence of an initial      *)
(* value is checked at the next changing Update (see above).              *)
(***************************************************************************)
OpenFails(t) ==
  UNION { LET s == t.streams[j] IN
          IF s.opened /\ ~s.uo /\ t.pre.ok
            THEN IF s.msgs = <<>>
                   \* nothing arrived within the harness' timeout: by itself not a verdict (c14.py reports it
                   \* as inconclusive unless the stream later delivers something else first, see above)
                   THEN {"pull-initial-value-not-received-in-time"}
                   \* with a read mask in the Pull request (s.mask, s.sub as for Get): the current value seen
                   \* through that mask
                   ELSE If(s.msgs[1].v = Project(t.pre.v, s.mask, s.sub), "pull-does-not-start-with-current-value")
            ELSE {}
        : j \in 1..Len(t.streams) }

(***************************************************************************)
(* Time.  Some servers start timed behaviour on an Update (a brightness    *)
(* tween): "TimedUpdate" is an Update that carries a duration, and until   *)
(* that behaviour is over or superseded the register may move by itself,   *)
(* so nothing but the status is asserted about it.  A later successful     *)
(* plain Update supersedes it.  "Wait" lets time pass (longer than the     *)
(* timed behaviour): read-your-writes must hold after any delay, so when   *)
(* no timed behaviour is pending (t.armed = FALSE) the register must not   *)
(* have moved and an open stream on which changes arrived meanwhile must   *)
(* end on the value of the register seen through its mask (earlier ones    *)
(* may be intermediate changes of Updates that were not waited for).       *)
(***************************************************************************)
TimedFails(t) ==
  If(t.code # "PANIC", "panic")
  \cup (IF t.code # "OK" THEN If(~t.pre.ok \/ (t.post.ok /\ t.post.v = t.pre.v), "rejected-update-changed-get") ELSE {})

WaitFails(t) ==
  IF t.armed THEN {}
  ELSE ReadOnlyFails(t)
       \cup UNION { LET s == t.streams[j] IN
                     If(~t.pre.ok \/ s.msgs = <<>> \/ s.msgs[Len(s.msgs)].v = Project(t.pre.v, s.mask, s.psub),
                        "stream-change-without-update") : j \in 1..Len(t.streams) }

(***************************************************************************)
(* "Nudge": an Update that writes the current value with one number moved  *)
(* by less than any tolerance a model may be configured with (0.004).      *)
(* Whether such a change is due on the streams is exactly what the         *)
(* tolerance decides, so nothing is asserted about the streams; but a      *)
(* successful Update's response is the next Get however small the change.  *)
(***************************************************************************)
NudgeFails(t) ==
  If(t.code # "PANIC", "panic")
  \cup (IF t.code = "OK" THEN If(t.post.ok /\ t.post.v = t.resp, "update-response-is-not-next-get")
        ELSE If(~t.pre.ok \/ (t.post.ok /\ t.post.v = t.pre.v), "rejected-update-changed-get"))

Fails(t) ==
  CASE t.op = "Update"      -> UpdateFails(t)
    [] t.op = "Nudge"       -> NudgeFails(t)
    [] t.op = "TimedUpdate" -> TimedFails(t)
    [] t.op = "Wait"        -> WaitFails(t)
    [] t.op = "Get"         -> GetFails(t)
    [] t.op = "OpenPull"    -> OpenFails(t) \cup ReadOnlyFails(t)
    [] t.op = "CloseStream" -> ReadOnlyFails(t)
    \* "Other": another record of the collection that holds the addressed record was deleted or created
    \* (servers whose Get/Update/Pull address one record of a collection); the addressed record is a
    \* register of its own.  What this does to the open streams shows at the next Update.
    [] t.op = "Other"       -> ReadOnlyFails(t)
    [] OTHER                -> {"unknown-op"}

\* clauses that are not a verdict by themselves (see OpenFails)
Soft == {"pull-initial-value-not-received-in-time"}
Hard(t) == Fails(t) \ Soft
=============================================================================
