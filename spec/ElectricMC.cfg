SPECIFICATION Spec
INVARIANTS TypeOK AtMostOneNormal ActiveExistsOnceChanged ActiveNeverDeleted ClearSelectsNormal StartStampedOnSwitch DeleteAbsent RefusedIsNoop
