from checks import masks_common


def run(ctx):
    masks_common.run(ctx, "proj")
