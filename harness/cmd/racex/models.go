package main

import (
	"context"

	"github.com/smart-core-os/sc-api/go/traits"
	"github.com/smart-core-os/sc-golang/pkg/resource"
	"github.com/smart-core-os/sc-golang/pkg/trait/bookingpb"
	"github.com/smart-core-os/sc-golang/pkg/trait/electricpb"
	"github.com/smart-core-os/sc-golang/pkg/trait/hailpb"
	"github.com/smart-core-os/sc-golang/pkg/trait/publicationpb"
)

// Operations on the trait models (the data stores behind the trait servers).
func regModels() {
	E, P, M, H, K, U := []string{"el"}, []string{"par"}, []string{"md"}, []string{"hail"}, []string{"book"}, []string{"pub"}

	// ------------------------------------------------------------------ electricpb.Model
	reg("e.demand", E, func(w *world, pr *proc) error { touch(w.el[pr.in].Demand()); return nil })
	reg("e.upddemand", E, func(w *world, pr *proc) error {
		res, err := w.el[pr.in].UpdateDemand(&traits.ElectricDemand{Current: float32(pr.rnd.n(10))}, resource.WithUpdatePaths("current"))
		touch(res)
		return err
	})
	reg("e.active", E, func(w *world, pr *proc) error { touch(w.el[pr.in].ActiveMode()); return nil })
	reg("e.modes", E, func(w *world, pr *proc) error {
		for _, m := range w.el[pr.in].Modes() {
			touch(m)
		}
		return nil
	})
	reg("e.find", E, func(w *world, pr *proc) error {
		m, _ := w.el[pr.in].FindMode([]string{"m1", "m2"}[pr.rnd.n(2)])
		touch(m)
		n, _ := w.el[pr.in].NormalMode()
		touch(n)
		return nil
	})
	reg("e.create", E, func(w *world, pr *proc) error {
		res, err := w.el[pr.in].CreateMode(&traits.ElectricMode{Title: "made", Segments: []*traits.ElectricMode_Segment{{Magnitude: 4}}})
		touch(res)
		if res != nil {
			pr.lastID["el"] = res.Id
		}
		return err
	})
	reg("e.add", E, func(w *world, pr *proc) error {
		return w.el[pr.in].AddMode(&traits.ElectricMode{Id: pr.uniq("x"), Title: "added"})
	})
	reg("e.update", E, func(w *world, pr *proc) error {
		res, err := w.el[pr.in].UpdateMode(&traits.ElectricMode{Id: "m2", Title: pr.uniq("t")}, resource.WithUpdatePaths("title"))
		touch(res)
		return err
	})
	reg("e.delete", E, func(w *world, pr *proc) error {
		id := pr.lastID["el"]
		if id == "" {
			id = "m2"
		}
		return w.el[pr.in].DeleteMode(id, resource.WithAllowMissing(true))
	})
	reg("e.change", E, func(w *world, pr *proc) error {
		res, err := w.el[pr.in].ChangeActiveMode([]string{"m1", "m2"}[pr.rnd.n(2)])
		touch(res)
		return err
	})
	reg("e.normal", E, func(w *world, pr *proc) error {
		res, err := w.el[pr.in].ChangeToNormalMode()
		touch(res)
		return err
	})
	reg("e.pulldemand", E, func(w *world, pr *proc) error {
		ctx, cancel := context.WithCancel(w.root)
		consume(pr, w.el[pr.in].PullDemand(ctx, resource.WithBackpressure(true)), cancel, 2, func(c electricpb.PullDemandChange) {
			touch(c.Value)
			touchTime(c.ChangeTime)
		})
		return nil
	})
	reg("e.pullactive", E, func(w *world, pr *proc) error {
		ctx, cancel := context.WithCancel(w.root)
		consume(pr, w.el[pr.in].PullActiveMode(ctx), cancel, 2, func(c electricpb.PullActiveModeChange) {
			touch(c.ActiveMode)
			touchTime(c.ChangeTime)
		})
		return nil
	})
	reg("e.pullmodes", E, func(w *world, pr *proc) error {
		ctx, cancel := context.WithCancel(w.root)
		consume(pr, w.el[pr.in].PullModes(ctx, resource.WithBackpressure(true)), cancel, 3, func(c electricpb.PullModesChange) {
			// typed nil pointers are fine for touch
			if c.OldValue != nil {
				touch(c.OldValue)
			}
			if c.NewValue != nil {
				touch(c.NewValue)
			}
			touchTime(c.ChangeTime)
			useInt(int64(c.Type))
		})
		return nil
	})

	// ------------------------------------------------------------------ parentpb.Model
	reg("p.add", P, func(w *world, pr *proc) error {
		w.par[pr.in].AddChild(&traits.Child{Name: []string{"c1", "c2", "c3"}[pr.rnd.n(3)], Traits: []*traits.Trait{{Name: "a"}, {Name: "c"}}})
		return nil
	})
	reg("p.addtrait", P, func(w *world, pr *proc) error {
		c, created := w.par[pr.in].AddChildTrait([]string{"c1", "c2", "c3"}[pr.rnd.n(3)], pr.traitName(), pr.traitName())
		touch(c)
		useBool(created)
		return nil
	})
	reg("p.remtrait", P, func(w *world, pr *proc) error {
		c := w.par[pr.in].RemoveChildTrait([]string{"c1", "c2"}[pr.rnd.n(2)], pr.traitName())
		if c != nil {
			touch(c)
		}
		return nil
	})
	reg("p.remove", P, func(w *world, pr *proc) error {
		c, err := w.par[pr.in].RemoveChildByName([]string{"c2", "c3"}[pr.rnd.n(2)], resource.WithAllowMissing(true))
		if c != nil {
			touch(c)
		}
		return err
	})
	reg("p.list", P, func(w *world, pr *proc) error {
		for _, c := range w.par[pr.in].ListChildren() {
			touch(c)
		}
		return nil
	})
	reg("p.pull", P, func(w *world, pr *proc) error {
		ctx, cancel := context.WithCancel(w.root)
		consume(pr, w.par[pr.in].PullChildren(ctx, resource.WithBackpressure(true)), cancel, 3, func(c *traits.PullChildrenResponse_Change) { touch(c) })
		return nil
	})

	// ------------------------------------------------------------------ metadatapb.Model
	reg("m.get", M, func(w *world, pr *proc) error {
		res, err := w.md[pr.in].GetMetadata()
		touch(res)
		return err
	})
	reg("m.update", M, func(w *world, pr *proc) error {
		res, err := w.md[pr.in].UpdateMetadata(&traits.Metadata{Name: pr.uniq("dev"), Appearance: &traits.Metadata_Appearance{Title: "t"}},
			resource.WithUpdatePaths("name", "appearance"))
		touch(res)
		return err
	})
	reg("m.merge", M, func(w *world, pr *proc) error {
		res, err := w.md[pr.in].MergeMetadata(&traits.Metadata{
			More:   map[string]string{pr.uniq("k"): "v"},
			Traits: []*traits.TraitMetadata{{Name: []string{"t1", "t2", "t3"}[pr.rnd.n(3)], More: map[string]string{"m": pr.uniq("v")}}},
		})
		touch(res)
		return err
	})
	reg("m.trait", M, func(w *world, pr *proc) error {
		res, err := w.md[pr.in].UpdateTraitMetadata(&traits.TraitMetadata{Name: []string{"t1", "t2", "t0"}[pr.rnd.n(3)], More: map[string]string{"u": pr.uniq("v")}})
		touch(res)
		return err
	})
	reg("m.pull", M, func(w *world, pr *proc) error {
		ctx, cancel := context.WithCancel(w.root)
		consume(pr, w.md[pr.in].PullMetadata(ctx, resource.WithBackpressure(true)), cancel, 3, func(c *traits.PullMetadataResponse_Change) { touch(c) })
		return nil
	})

	// ------------------------------------------------------------------ hailpb.Model (generated ids without a model lock)
	reg("h.create", H, func(w *world, pr *proc) error {
		res, err := w.hail[pr.in].CreateHail(&traits.Hail{Origin: &traits.Hail_Location{DisplayName: pr.uniq("o")}})
		if res != nil {
			touch(res)
			pr.lastID["hail"] = res.Id
		}
		return err
	})
	reg("h.list", H, func(w *world, pr *proc) error {
		for _, h := range w.hail[pr.in].ListHails() {
			touch(h)
		}
		return nil
	})
	reg("h.update", H, func(w *world, pr *proc) error {
		id := pr.lastID["hail"]
		if id == "" {
			if hs := w.hail[pr.in].ListHails(); len(hs) > 0 {
				id = hs[0].Id
			}
		}
		res, err := w.hail[pr.in].UpdateHail(&traits.Hail{Id: id, State: traits.Hail_BOARDING}, resource.WithUpdatePaths("state"))
		if res != nil {
			touch(res)
		}
		return err
	})
	reg("h.delete", H, func(w *world, pr *proc) error {
		res, err := w.hail[pr.in].DeleteHail(pr.lastID["hail"], resource.WithAllowMissing(true))
		if res != nil {
			touch(res)
		}
		return err
	})
	reg("h.pull", H, func(w *world, pr *proc) error {
		ctx, cancel := context.WithCancel(w.root)
		consume(pr, w.hail[pr.in].PullHails(ctx, resource.WithBackpressure(true)), cancel, 3, func(c hailpb.HailsChange) {
			if c.OldValue != nil {
				touch(c.OldValue)
			}
			if c.NewValue != nil {
				touch(c.NewValue)
			}
			touchTime(c.ChangeTime)
		})
		return nil
	})

	// ------------------------------------------------------------------ bookingpb.Model
	reg("k.create", K, func(w *world, pr *proc) error {
		res, err := w.book[pr.in].CreateBooking(&traits.Booking{Title: pr.uniq("b"), OwnerName: "me"})
		if res != nil {
			touch(res)
			pr.lastID["book"] = res.Id
		}
		return err
	})
	reg("k.list", K, func(w *world, pr *proc) error {
		for _, b := range w.book[pr.in].ListBookings() {
			touch(b)
		}
		return nil
	})
	reg("k.update", K, func(w *world, pr *proc) error {
		id := pr.lastID["book"]
		if id == "" {
			id = "k1"
		}
		res, err := w.book[pr.in].UpdateBooking(&traits.Booking{Id: id, Title: pr.uniq("t")}, resource.WithUpdatePaths("title"))
		if res != nil {
			touch(res)
		}
		return err
	})
	reg("k.pull", K, func(w *world, pr *proc) error {
		ctx, cancel := context.WithCancel(w.root)
		consume(pr, w.book[pr.in].PullBookings(ctx, resource.WithBackpressure(true)), cancel, 3, func(c bookingpb.BookingChange) {
			if c.OldValue != nil {
				touch(c.OldValue)
			}
			if c.NewValue != nil {
				touch(c.NewValue)
			}
			touchTime(c.ChangeTime)
		})
		return nil
	})

	// ------------------------------------------------------------------ publicationpb.Model
	reg("u.create", U, func(w *world, pr *proc) error {
		res, err := w.pub[pr.in].CreatePublication(&traits.Publication{Body: []byte(pr.uniq("body")), Audience: &traits.Publication_Audience{Name: "aud"}},
			publicationpb.WithNewVersion(), publicationpb.WithNewPublishTime())
		if res != nil {
			touch(res)
			pr.lastID["pub"] = res.Id
		}
		return err
	})
	reg("u.get", U, func(w *world, pr *proc) error {
		res, _ := w.pub[pr.in].GetPublication("u1")
		if res != nil {
			touch(res)
		}
		return nil
	})
	reg("u.list", U, func(w *world, pr *proc) error {
		for _, p := range w.pub[pr.in].ListPublications() {
			touch(p)
		}
		return nil
	})
	reg("u.update", U, func(w *world, pr *proc) error {
		res, err := w.pub[pr.in].UpdatePublication("u1", &traits.Publication{Body: []byte(pr.uniq("b"))},
			resource.WithUpdatePaths("body"), publicationpb.WithNewVersion(), publicationpb.WithResetReceipt())
		if res != nil {
			touch(res)
		}
		return err
	})
	reg("u.delete", U, func(w *world, pr *proc) error {
		res, err := w.pub[pr.in].DeletePublication(pr.lastID["pub"], resource.WithAllowMissing(true))
		if res != nil {
			touch(res)
		}
		return err
	})
	reg("u.pull", U, func(w *world, pr *proc) error {
		ctx, cancel := context.WithCancel(w.root)
		consume(pr, w.pub[pr.in].PullPublications(ctx, resource.WithBackpressure(true)), cancel, 3, func(c publicationpb.PublicationsChange) {
			if c.OldValue != nil {
				touch(c.OldValue)
			}
			if c.NewValue != nil {
				touch(c.NewValue)
			}
			touchTime(c.ChangeTime)
		})
		return nil
	})
}
