SPECIFICATION Spec
CONSTRAINT Bounded
INVARIANTS StartNotAfterEnd EveryRecordOk
