---------------------------- MODULE ConcTrace ----------------------------
(***************************************************************************)
(* Trace use of ResourceConc.tla.  One line of obs.ndjson = one run of the *)
(* real code (a forced TLC schedule or a free-running stress run): the     *)
(* programs, the initial contents, the commits in the order they happened  *)
(* under the write lock (logged by the gau.saved / del.removed hooks), each *)
(* call's result, what each subscriber received, the final contents.  The  *)
(* C02 and C03 predicates are evaluated on that record.                    *)
(***************************************************************************)
EXTENDS Integers, Sequences, FiniteSets, TLC, Json

VARIABLE c
Obs == ndJsonDeserialize("obs.ndjson")

Absent == -1
NoExp == -2
NewValue(p, old) == IF p.inc THEN old + p.v ELSE p.v
\* the sequential meaning of a call on the contents v of its id (as in ResourceConc.tla)
SeqApply(p, v) ==
  IF p.op = "del"
    THEN IF v = Absent \/ (p.chk /\ v < 1) \/ (p.e # NoExp /\ p.e # v) THEN [ok |-> FALSE, post |-> v]
         ELSE [ok |-> TRUE, post |-> Absent]
    ELSE IF (v # Absent /\ p.xa) \/ (v = Absent /\ ~p.cia) THEN [ok |-> FALSE, post |-> v]
         ELSE LET old == IF v = Absent THEN 0 ELSE v IN
              IF (p.e # NoExp /\ p.e # old) \/ (p.chk /\ old < 1) THEN [ok |-> FALSE, post |-> v]
              ELSE [ok |-> TRUE, post |-> NewValue(p, old)]

\* contents after the first k commits
RECURSIVE After(_, _)
After(t, k) == IF k = 0 THEN t.init
               ELSE LET prev == After(t, k - 1)  e == t.commits[k] IN [prev EXCEPT ![e.id] = e.v]

If(b, name) == IF b THEN {} ELSE {name}
Allowed == {"OK", "Aborted", "AlreadyExists", "FailedPrecondition", "NotFound", "Unavailable", "PermissionDenied"}

C02Fails(t) ==
  LET n == Len(t.commits) IN
  UNION { LET e == t.commits[k]  pre == After(t, k - 1)[e.id]  r == SeqApply(t.progs[e.w], pre) IN
          If(r.ok /\ r.post = e.v,
             "C02:" \o (CASE ~r.ok /\ t.progs[e.w].xa -> "add-over-existing-item"
                          [] ~r.ok /\ t.progs[e.w].op = "del" -> "delete-precondition-not-true-at-commit"
                          [] ~r.ok -> "precondition-not-true-at-commit"
                          [] t.progs[e.w].inc -> "lost-increment"
                          [] OTHER -> "committed-value-differs"))
          \cup If(t.results[e.w].err = "OK", "C02:failed-call-took-effect")
          \cup If(t.results[e.w].err # "OK" \/ t.results[e.w].ret = (IF t.progs[e.w].op = "del" THEN pre ELSE e.v),
                  "C02:returned-value")
        : k \in 1..n }
  \cup UNION { LET mine == { k \in 1..n : t.commits[k].w = w } IN
               If(Cardinality(mine) <= 1, "C02:effect-more-than-once")
               \cup If(t.results[w].err # "OK" \/ Cardinality(mine) = 1
                       \/ (t.progs[w].op = "del" /\ t.progs[w].am /\ t.results[w].ret = Absent), "C02:success-without-effect")
               \cup If(t.results[w].err \in Allowed, "C02:loser-code")
             : w \in 1..Len(t.progs) }
  \cup If(t.final = After(t, n), "C02:final-contents")

\* the consumer's fold of what it received
RECURSIVE FoldRecv(_, _)
FoldRecv(view, evs) == IF evs = <<>> THEN view
                       ELSE FoldRecv([view EXCEPT ![Head(evs).id] = Head(evs).v], Tail(evs))
SeenIds(evs) == { evs[k].id : k \in 1..Len(evs) }
Count(evs, id, v, onlyUpdates) == Cardinality({ k \in 1..Len(evs) : evs[k].id = id /\ evs[k].v = v /\ (~onlyUpdates \/ ~evs[k].seed) })

\* (a subscriber that cancelled is no longer "a reader that keeps receiving": nothing is asserted about it)
C03Fails(t) ==
  UNION {
    IF t.cancelled[s] THEN {} ELSE
    LET evs == t.recv[s]
        view == FoldRecv([i \in 1..Len(t.init) |-> Absent], evs)
        ids == IF t.kinds[s].uo THEN SeenIds(evs) ELSE 1..Len(t.init)
        \* (a subscriber with the include predicate "the value is odd" holds the filtered collection)
        want == [i \in 1..Len(t.init) |-> IF t.kinds[s].inc /\ (t.final[i] = Absent \/ t.final[i] % 2 = 0) THEN Absent ELSE t.final[i]]
        stale == { i \in ids : view[i] # want[i] }
        n == Len(t.commits)
        after == { k \in 1..n : k > t.subAfter[s] }
    IN
    \* the view ends different from the store: either the final value did arrive and was then overwritten by
    \* the event of an earlier commit (overtaken), or it never arrived (missed)
    UNION { If(FALSE, IF \E k \in 1..Len(evs) : evs[k].id = i /\ evs[k].v = want[i]
                         THEN "C03:stale-view-event-overtook-later-commit"
                         ELSE "C03:stale-view-final-value-never-delivered") : i \in stale }
    \* with backpressure every commit made after the subscriber was registered is delivered
    \* (with an equivalence configured a commit of the value the subscriber holds is rightly not delivered)
    \* (a single-item subscription registers from a goroutine of its own: the instant is not recorded, so "after its
    \*  registration" is not decidable here -- its view is judged like everybody's)
    \cup (IF t.kinds[s].lossy \/ t.kinds[s].inc \/ t.kinds[s].pid \/ t.equiv \notin {"", "none"} THEN {}
          ELSE UNION { LET e == t.commits[k] IN
                       If(Cardinality({ j \in after : t.commits[j].id = e.id /\ t.commits[j].v = e.v })
                            <= Count(evs, e.id, e.v, TRUE), "C03:commit-not-delivered") : k \in after })
    \* what the subscriber holds outside the tracked field: the whole message without a read mask (also when
    \* another subscriber of the same resource has one), nothing of it with one
    \cup UNION { IF evs[k].v = Absent THEN {}
                ELSE IF t.kinds[s].masked THEN If(evs[k].rest = 0, "C06:read-mask-not-applied-to-event")
                ELSE If(evs[k].rest = 1, "C03:view-lost-fields-outside-another-subscribers-mask") : k \in 1..Len(evs) }
    \* seeds come first
    \cup If(\A j, k \in 1..Len(evs) : j < k /\ evs[k].seed => evs[j].seed, "C03:seed-after-update")
    \cup If(t.kinds[s].uo => \A k \in 1..Len(evs) : ~evs[k].seed, "C03:seed-on-updates-only")
  : s \in 1..Len(t.kinds) }

\* C04 under concurrency (EditScript of ResourceConc.tla): what a backpressured collection subscriber that takes
\* a seed receives is an edit script of that seed -- a removal is of an item it has, an add of one it has
\* not, an update of one it has
RECURSIVE EditBad(_, _, _)
EditBad(view, evs, k) ==
  IF k > Len(evs) THEN {}
  ELSE LET e == evs[k]  has == view[e.id] # Absent IN
       (IF e.type = "REMOVE" /\ ~has THEN {"C04:removal-of-an-item-the-subscriber-never-had"}
        ELSE IF e.type = "ADD" /\ has THEN {"C04:add-of-an-item-the-subscriber-already-has"}
        ELSE IF e.type = "UPDATE" /\ ~has THEN {"C04:update-of-an-item-the-subscriber-never-had"}
        ELSE {})
       \cup EditBad([view EXCEPT ![e.id] = e.v], evs, k + 1)
C04Fails(t) ==
  UNION { IF t.cancelled[s] \/ t.kinds[s].uo \/ t.kinds[s].lossy \/ t.res # "coll" THEN {}
          ELSE EditBad([i \in 1..Len(t.init) |-> Absent], t.recv[s], 1) : s \in 1..Len(t.kinds) }

Fails(t) == IF t.problem # "" THEN {} ELSE C02Fails(t) \cup C03Fails(t) \cup C04Fails(t)
BadLines == { k \in 1..Len(Obs) : Fails(Obs[k]) # {} }
TraceInit == c = 0
TraceNext == UNCHANGED c
EmitBad == \A k \in BadLines : PrintT("BAD " \o ToJson([line |-> k, fails |-> Fails(Obs[k])]))
TraceChecked == EmitBad /\ PrintT("CHECKED " \o ToString(Len(Obs)))
=============================================================================
