import vf


def gen(ctx, nl, ns, maxsends, simulate, maxcancels):
    cfg = """SPECIFICATION SpecGen
CONSTANTS
  Listeners = %s
  Senders = %s
  MaxSends = %d
  SendCtxMayEnd = TRUE
  ListenerLock = TRUE
  Eager = TRUE
  MaxCancels = %d
INVARIANT EmitCase
CHECK_DEADLOCK FALSE
""" % (nl, ns, maxsends, maxcancels)
    r = ctx.tlc("Bus", None, cfg_text=cfg, workers=1, timeout=1800, simulate=simulate, extra=["-depth", "150"])
    return r.cases()


def run(ctx):
    thorough = ctx.tier == "thorough"
    mccfg = """SPECIFICATION Spec
CONSTANTS
  Listeners = %s
  Senders = %s
  MaxSends = %d
  SendCtxMayEnd = TRUE
  ListenerLock = TRUE
  Eager = FALSE
  MaxCancels = 9
VIEW ViewNoHist
INVARIANTS ClosedOnlyWhenEmpty LockDiscipline AtMostOnce PerSenderFIFO LiveGetsAll
PROPERTIES NoSendOnClosed CancelCloses SenderNotStuck
CHECK_DEADLOCK FALSE
"""
    ctx.mc("Bus", None, cfg_text=mccfg % ("{1, 2}", "{1, 2}", 1), workers=vf.NCPU, timeout=3000)
    if thorough:
        # (3 listeners x 2 senders does not finish: > 10 M distinct states after 25 min; measured 2026-10-04)
        ctx.mc("Bus", None, cfg_text=mccfg % ("{1, 2, 3}", "{1}", 2), workers=vf.NCPU, timeout=3000)
        ctx.mc("Bus", None, cfg_text=mccfg % ("{1, 2}", "{1}", 2), workers=vf.NCPU, timeout=3000)
    n = 40000 if thorough else 1000
    cases = gen(ctx, "{1, 2}", "{1, 2}", 2, "num=%d" % n, 2)
    cases += gen(ctx, "{1, 2, 3}", "{1, 2}", 1, "num=%d" % n, 3)
    cases += gen(ctx, "{1, 2}", "{1, 2, 3}", 1, "num=%d" % (n // 2), 2)
    # with only some listeners cancelled the others are still owed every later event: listeners that
    # register while a send that will garbage-collect is under way, sends after a collection, ...
    cases += gen(ctx, "{1, 2, 3}", "{1, 2}", 3, "num=%d" % n, 1)
    cases += gen(ctx, "{1, 2, 3}", "{1, 2}", 2, "num=%d" % n, 2)
    # four listeners, one of them cancelled and not yet collected, registrations while a send is under way
    cases += gen(ctx, "{1, 2, 3, 4}", "{1}", 2, "num=%d" % n, 1)
    seen, uniq = set(), []
    for c in cases:
        k = repr(c["sched"])
        if k not in seen:
            seen.add(k)
            uniq.append(c)
    cases = uniq
    if len(cases) < 500:
        raise vf.Inconclusive("only %d behaviours generated" % len(cases))
    for c in cases:
        c["mode"] = "bus"
    storms = []
    for res in ("val", "coll"):
        for i in range(60 if not thorough else 1500):
            storms.append({"mode": "storm", "res": res, "subs": i % 9, "writers": 1 + i % 3, "iter": i,
                           "sched": [], "nl": 0, "ns": 0, "maxSends": 0, "expect": {}})
    allc = storms + cases       # (storms first: a tree on which the forced behaviours drift en masse still gets them)
    for k, c in enumerate(allc):
        c["n"] = k + 1
    import subprocess
    parts = 8
    binary = ctx.harness(cmd="busx")
    procs, outs = [], []
    for i in range(parts):
        cp = ctx.write_ndjson("cases-%d.ndjson" % i, allc[i::parts])
        op = ctx.path("obs-%d.ndjson" % i)
        outs.append(op)
        env = dict(vf.GOENV, VERIF_SEED=str(ctx.seed), VERIF_CURRENT=ctx.path("current-%d.json" % i))
        procs.append(subprocess.Popen([binary, "-cases", cp, "-out", op], cwd=ctx.scratch, env=env,
                                      stdout=subprocess.PIPE, stderr=subprocess.STDOUT, text=True))
    crashed = []
    for i, p in enumerate(procs):
        try:
            out, _ = p.communicate(timeout=3000)
        except subprocess.TimeoutExpired:
            p.kill()
            raise vf.Inconclusive("busx harness timed out")
        if p.returncode != 0:
            crashed.append((i, out))
    for i, out in crashed:
        # a send on a closed channel (or any other panic in a library goroutine) kills the process: that is
        # the very thing C10 forbids; attribute it to the case that was running
        import json
        import os
        import re
        if "panic:" in out or "fatal error:" in out:
            curp = ctx.path("current-%d.json" % i)
            current = json.load(open(curp)) if os.path.exists(curp) else None
            m = re.search(r"^(panic:.*|fatal error:.*)$", out, re.M)
            frames = [l.strip() for l in out.splitlines() if "sc-golang/internal" in l or "sc-golang/pkg" in l][:4]
            where = frames[0].split("(")[0].split("/")[-1] if frames else "?"
            ctx.violation("C10/%s/process-crashed/%s" % ((current or {}).get("mode", "?"), where),
                          "the harness process died: %s" % (m.group(1) if m else "?"),
                          {"case": current, "message": m.group(1) if m else "", "frames": frames, "trace": out[-2500:]})
        else:
            raise vf.Inconclusive("busx harness failed:\n" + out[-3000:])
    obs = []
    for op in outs:
        try:
            obs += ctx.read_ndjson(op)
        except Exception:
            pass
    obs.sort(key=lambda o: o["n"])
    opath = ctx.write_ndjson("obs.ndjson", obs)
    troubled = [o for o in obs if o.get("drift") or o.get("problem") or o.get("panics")]
    if not crashed and len(obs) != len(allc) and len(troubled) < 12:
        raise vf.Inconclusive("%d observations for %d cases" % (len(obs), len(allc)))
    if obs:
        tr = ctx.tlc("BusTrace", "BusTrace.cfg", workers=1, files={"obs.ndjson": opath}, timeout=3000)
        if not any(l.startswith('"CHECKED %d"' % len(obs)) for l in tr.out.splitlines()):
            raise vf.Inconclusive("trace check did not cover all %d runs:\n%s" % (len(obs), tr.out[-3000:]))
        for b in tr.cases("BAD "):
            o = obs[b["line"] - 1]
            for clause in b["fails"]:
                name = clause.split(":", 1)[1]
                site = o["mode"] + ("/" + o["res"] if o["mode"] == "storm" else "")
                ctx.violation("C10/%s/%s" % (site, name), "%s run %d: clause '%s' false on what the real code did%s" %
                              (o["mode"], o["n"], name, (" (" + o["problem"] + ")") if o.get("problem") else ""), o)
    ctx.count(len(obs))
    ctx.cov["traces_validated_against_impl"] += len(obs)
    drift = [o for o in obs if o.get("drift")]
    ctx.cov["behaviours_followed_to_the_end"] = len([o for o in obs if o["mode"] == "bus" and not o.get("drift")])
    if drift:
        ctx.cov["notes"].append({"model_drift_runs": len(drift), "example": drift[0]["drift"]})
        if len(drift) > len(obs) // 10 and not ctx.violations:
            raise vf.Inconclusive("the real bus left the specification's behaviour in %d of %d runs, e.g. %s" %
                                  (len(drift), len(obs), drift[0]["drift"]))
    for o in obs:
        if o["mode"] == "storm":
            if o["subscribers"] > 0:
                ctx.distinct(("storm", o["res"], o["n"]))
        elif any(s["a"] in ("Cancel", "SendCtxDone") for s in o["sched"]) and any(len(g) for g in o["got"]):
            ctx.distinct(o["sched"])
    for o in obs[:1] + obs[len(cases) // 2: len(cases) // 2 + 1] + obs[-1:]:
        ctx.sample(o)
    ctx.cov["rule"] = ("bus: simulated behaviours of spec/Bus.tla (2-3 listeners, 2-3 senders, cancel / watcher stop / "
                       "sender-context end at every yield point, consumers that receive or do not) forced onto the real "
                       "minibus.Bus through gates at send.each and stop.before; storm: 0-8 subscribers with mixed "
                       "options (backpressure, updates-only, PullID, consumers that stop receiving) on a real "
                       "Value/Collection with 1-3 active writers, cancelled at random instants. non-trivial = a cancel "
                       "or context end happened and something was delivered / a storm with subscribers; distinct = "
                       "distinct schedule / storm seed")


MANIFEST = {
    "engine": "spec/Bus.tla + BusTrace.tla (TLC) + harness cmd/busx",
    "technique": "TLA+ model of minibus (Send snapshot, per-listener shared lock + select, watcher stop with exclusive "
                 "lock, garbage collection); TLC checks safety and liveness over all interleavings incl. cancels; "
                 "simulated behaviours are forced onto the real bus; cancel storms on real subscriptions; TLC "
                 "validates every run",
    "text": "Bus.tla models listeners (Listen, cancel, watcher StopLock/StopClose under RWMutex semantics) and senders "
            "(copy of the listener list, Enter/Recv/Skip/Abandon per listener, Collect). TLC checks: the channel is "
            "never closed while a sender is inside (the Go panic), at-most-once and per-sender FIFO delivery, every "
            "listener live for the whole send gets the event, and under fairness a cancelled listener is closed and a "
            "sender never stays stuck on it; the variant without the listener lock is refuted. Behaviours are forced "
            "onto the real bus (senders parked before each listener, watchers parked before stop), the harness being "
            "every consumer; storms cancel real Value/Collection subscriptions (incl. PullID, lossy, consumers that "
            "stopped receiving) at random instants with writers running and check closure, writer progress, PullID "
            "ending on removal and goroutine termination. A process crash (send on closed channel) is attributed to the "
            "running case and reported as a violation. Storms also contain consumers that walk away after cancelling "
            "(goroutines must end, the channel is closed once they have) and a churn phase (subscribers cancelling and "
            "registering while a writer writes): whoever registered and never cancelled receives the last write.",
    "note": "Trusted base: TLC; hook placement; goroutine census by runtime.Stack (library frames only). Liveness is "
            "checked on the model; on the code it is observed with generous wall-clock bounds (5-8 s) whose expiry is a "
            "violation only for the clauses that say 'closes' / 'does not stall'.",
}
