INIT Init
NEXT Next
INVARIANT StoreIsolated
CONSTANTS
  StoreIn = TRUE
  InPlace = FALSE
  ReadEdits = FALSE
  NCases = 0
  MinOps = 1
  MaxOps = 1
  MaxLive = 200
