---------------------------- MODULE Msg ----------------------------
(***************************************************************************)
(* Abstract protobuf messages over a structurally complete miniature of   *)
(* internal/testproto.TestAllTypes, field masks, the read-mask projection *)
(* and the FieldMask update (merge) semantics that sc-golang's resources  *)
(* promise.  Everything in the Resource* specifications that talks about  *)
(* message contents goes through this module.                             *)
(*                                                                         *)
(* A message is a flat record (uniform shape, so TLC never compares       *)
(* values of different types):                                            *)
(*   i   default_int32            implicit-presence scalar, 0 = unset     *)
(*   s   default_string           0 = "", k = "s<k>"                      *)
(*   o   optional_int32           -1 = unset, 0 is a set value            *)
(*   n   default_nested_message   [p, a, cp, ci]: p presence, a = n.a,    *)
(*                                 cp/ci = n.corecursive{default_int32}   *)
(*   f   default_foreign_message  [p, c, d]                                *)
(*   r   repeated_int32           sequence of 1..2                        *)
(*   rm  repeated_foreign_message sequence of [c, d]                      *)
(*   m   map_string_string        [k1, k2], 0 = key absent                *)
(*   u   oneof_default            [k, ui, una]: k = 0 none, 1 = int32     *)
(*                                 member (ui), 2 = nested member (una)   *)
(* Paths are sequences of segments: <<"n","c","i">>.                      *)
(***************************************************************************)
EXTENDS Integers, Sequences, FiniteSets

NoN == [p |-> FALSE, a |-> 0, cp |-> FALSE, ci |-> 0]
NoF == [p |-> FALSE, c |-> 0, d |-> 0]
NoM == [k1 |-> 0, k2 |-> 0]
NoU == [k |-> 0, ui |-> 0, una |-> 0]
Empty == [i |-> 0, s |-> 0, o |-> -1, n |-> NoN, f |-> NoF,
          r |-> <<>>, rm |-> <<>>, m |-> NoM, u |-> NoU]

\* canonical forms (what protobuf can actually represent)
CanonN(n) == IF ~n.p THEN NoN ELSE IF ~n.cp THEN [n EXCEPT !.ci = 0] ELSE n
CanonF(f) == IF ~f.p THEN NoF ELSE f
CanonU(u) == CASE u.k = 0 -> NoU
               [] u.k = 1 -> [k |-> 1, ui |-> u.ui, una |-> 0]
               [] OTHER   -> [k |-> 2, ui |-> 0, una |-> u.una]
Canon(x) == [x EXCEPT !.n = CanonN(x.n), !.f = CanonF(x.f), !.u = CanonU(x.u)]

----------------------------------------------------------------------------
(* Paths and masks.  A mask is [nil : BOOLEAN, paths : Seq(Path)]; a nil  *)
(* mask is "no mask given", which differs from an empty one.              *)

ValidPaths == { <<"i">>, <<"s">>, <<"o">>, <<"n">>, <<"n","a">>, <<"n","c">>, <<"n","c","i">>,
                <<"f">>, <<"f","c">>, <<"f","d">>, <<"r">>, <<"rm">>, <<"m">>,
                <<"ui">>, <<"un">>, <<"un","a">> }
\* leaves: the finest paths; every valid path is a prefix of at least one
LeafPaths  == { <<"i">>, <<"s">>, <<"o">>, <<"n","a">>, <<"n","c","i">>,
                <<"f","c">>, <<"f","d">>, <<"r">>, <<"rm">>, <<"m">>, <<"ui">>, <<"un","a">> }
\* systematically corrupted paths: unknown segment, continuation through a
\* scalar, a map, a repeated scalar, a repeated message, unknown nested
InvalidPaths == { <<"zz">>, <<"i","x">>, <<"m","k1">>, <<"r","x">>, <<"rm","c">>, <<"n","zz">> }

NilMask == [nil |-> TRUE, paths |-> <<>>]
Mask(ps) == [nil |-> FALSE, paths |-> ps]

IsPrefixOf(p, q) == Len(p) <= Len(q) /\ \A k \in 1..Len(p) : p[k] = q[k]
PathSet(mask) == { mask.paths[k] : k \in 1..Len(mask.paths) }
MaskValid(mask) == mask.nil \/ PathSet(mask) \subseteq ValidPaths

\* path q is covered by the set of paths K: some member is q or an ancestor of q
Covered(q, K) == \E p \in K : IsPrefixOf(p, q)
\* K reaches into q: some member is q, an ancestor, or a descendant of q
Touched(q, K) == \E p \in K : IsPrefixOf(p, q) \/ IsPrefixOf(q, p)

----------------------------------------------------------------------------
(* Read-mask projection: exactly the populated fields selected by the     *)
(* mask.  nil = everything, empty = nothing.  A selected sub-message is   *)
(* kept whole; a sub-message that is only reached into keeps its presence *)
(* and the selected children.                                             *)

ProjN(n, K) ==
  IF Covered(<<"n">>, K) THEN n
  ELSE IF ~n.p \/ ~Touched(<<"n">>, K) THEN NoN
  ELSE CanonN([p  |-> TRUE,
               a  |-> IF Covered(<<"n","a">>, K) THEN n.a ELSE 0,
               cp |-> n.cp /\ Touched(<<"n","c">>, K),
               ci |-> IF Covered(<<"n","c","i">>, K) THEN n.ci ELSE 0])
ProjF(f, K) ==
  IF Covered(<<"f">>, K) THEN f
  ELSE IF ~f.p \/ ~Touched(<<"f">>, K) THEN NoF
  ELSE [p |-> TRUE,
        c |-> IF Covered(<<"f","c">>, K) THEN f.c ELSE 0,
        d |-> IF Covered(<<"f","d">>, K) THEN f.d ELSE 0]
ProjU(u, K) ==
  CASE u.k = 1 -> IF Covered(<<"ui">>, K) THEN u ELSE NoU
    [] u.k = 2 -> IF Covered(<<"un">>, K) THEN u
                  ELSE IF Touched(<<"un">>, K)
                       THEN [k |-> 2, ui |-> 0, una |-> IF Covered(<<"un","a">>, K) THEN u.una ELSE 0]
                       ELSE NoU
    [] OTHER   -> NoU

ProjectSet(x, K) ==
  [i  |-> IF Covered(<<"i">>, K) THEN x.i ELSE 0,
   s  |-> IF Covered(<<"s">>, K) THEN x.s ELSE 0,
   o  |-> IF Covered(<<"o">>, K) THEN x.o ELSE -1,
   n  |-> ProjN(x.n, K),
   f  |-> ProjF(x.f, K),
   r  |-> IF Covered(<<"r">>, K) THEN x.r ELSE <<>>,
   rm |-> IF Covered(<<"rm">>, K) THEN x.rm ELSE <<>>,
   m  |-> IF Covered(<<"m">>, K) THEN x.m ELSE NoM,
   u  |-> ProjU(x.u, K)]

Project(x, mask) == IF mask.nil THEN x ELSE ProjectSet(x, PathSet(mask))

----------------------------------------------------------------------------
(* Write semantics.  W = writable mask (nil: everything), M = update mask *)
(* (nil: all of W), R = reset mask (nil: none).                           *)

\* A path named by M is clearly writable when W covers it, clearly
\* read-only when W does not even reach into it; a parent of writable
\* fields is neither (the property does not settle it).
ClearlyWritable(p, W) == W.nil \/ Covered(p, PathSet(W))
ClearlyReadOnly(p, W) == ~W.nil /\ ~Touched(p, PathSet(W))

MustReject(M, W) == ~M.nil /\ (~MaskValid(M) \/ \E p \in PathSet(M) : ClearlyReadOnly(p, W))
MustAccept(M, W) == M.nil \/ (MaskValid(M) /\ \A p \in PathSet(M) : ClearlyWritable(p, W))

\* leaves a successful write is allowed to change: under M and under W
InScope(q, M, W) == (M.nil \/ Covered(q, PathSet(M))) /\ (W.nil \/ Covered(q, PathSet(W)))
\* the written message restricted to what may be written
Writable(src, W) == IF W.nil THEN src ELSE ProjectSet(src, PathSet(W))

MergeM(dm, sm) == [k1 |-> IF sm.k1 # 0 THEN sm.k1 ELSE dm.k1,
                   k2 |-> IF sm.k2 # 0 THEN sm.k2 ELSE dm.k2]

\* proto.Merge(dst, src): set scalars overwrite, messages merge recursively,
\* lists append, maps overwrite per key, a set oneof member displaces.
PMergeN(d, s) == IF ~s.p THEN d
                 ELSE CanonN([p  |-> TRUE,
                              a  |-> IF s.a # 0 THEN s.a ELSE d.a,
                              cp |-> d.cp \/ s.cp,
                              ci |-> IF s.cp /\ s.ci # 0 THEN s.ci ELSE d.ci])
PMergeF(d, s) == IF ~s.p THEN d
                 ELSE [p |-> TRUE, c |-> IF s.c # 0 THEN s.c ELSE d.c, d |-> IF s.d # 0 THEN s.d ELSE d.d]
PMergeU(d, s) == CASE s.k = 0 -> d
                   [] s.k = 1 -> s
                   [] OTHER   -> IF d.k = 2 THEN [k |-> 2, ui |-> 0, una |-> IF s.una # 0 THEN s.una ELSE d.una]
                                            ELSE s
PMerge(d, s) ==
  [i  |-> IF s.i # 0 THEN s.i ELSE d.i,
   s  |-> IF s.s # 0 THEN s.s ELSE d.s,
   o  |-> IF s.o # -1 THEN s.o ELSE d.o,
   n  |-> PMergeN(d.n, s.n),
   f  |-> PMergeF(d.f, s.f),
   r  |-> d.r \o s.r,
   rm |-> d.rm \o s.rm,
   m  |-> MergeM(d.m, s.m),
   u  |-> PMergeU(d.u, s.u)]

\* Clearing: remove from x everything covered by K (a covered sub-message
\* disappears, a sub-message only reached into keeps its presence).
ClearN(n, K) == IF Covered(<<"n">>, K) THEN NoN
                ELSE IF ~n.p THEN NoN
                ELSE CanonN([p  |-> TRUE,
                             a  |-> IF Covered(<<"n","a">>, K) THEN 0 ELSE n.a,
                             cp |-> n.cp /\ ~Covered(<<"n","c">>, K),
                             ci |-> IF Covered(<<"n","c","i">>, K) THEN 0 ELSE n.ci])
ClearF(f, K) == IF Covered(<<"f">>, K) THEN NoF
                ELSE IF ~f.p THEN NoF
                ELSE [p |-> TRUE, c |-> IF Covered(<<"f","c">>, K) THEN 0 ELSE f.c,
                                  d |-> IF Covered(<<"f","d">>, K) THEN 0 ELSE f.d]
ClearU(u, K) == CASE u.k = 1 -> IF Covered(<<"ui">>, K) THEN NoU ELSE u
                  [] u.k = 2 -> IF Covered(<<"un">>, K) THEN NoU
                                ELSE IF Covered(<<"un","a">>, K) THEN [u EXCEPT !.una = 0] ELSE u
                  [] OTHER -> NoU
ClearSet(x, K) ==
  [i  |-> IF Covered(<<"i">>, K) THEN 0 ELSE x.i,
   s  |-> IF Covered(<<"s">>, K) THEN 0 ELSE x.s,
   o  |-> IF Covered(<<"o">>, K) THEN -1 ELSE x.o,
   n  |-> ClearN(x.n, K),
   f  |-> ClearF(x.f, K),
   r  |-> IF Covered(<<"r">>, K) THEN <<>> ELSE x.r,
   rm |-> IF Covered(<<"rm">>, K) THEN <<>> ELSE x.rm,
   m  |-> IF Covered(<<"m">>, K) THEN NoM ELSE x.m,
   u  |-> ClearU(x.u, K)]

(* "A field mentioned by the mask that is absent in the written message   *)
(* is cleared": for each path p of the mask, if the written message does  *)
(* not have the thing p names, the stored one loses it.  For a nested     *)
(* path the test is applied at each level from the top: a missing parent  *)
(* in the written message clears the stored parent (FieldMask update      *)
(* semantics as implemented by sc-golang: masks.pruneEmpty).              *)
HasTop(x, seg) ==
  CASE seg = "i" -> x.i # 0 [] seg = "s" -> x.s # 0 [] seg = "o" -> x.o # -1
    [] seg = "n" -> x.n.p   [] seg = "f" -> x.f.p
    [] seg = "r" -> x.r # <<>> [] seg = "rm" -> x.rm # <<>>
    [] seg = "m" -> x.m # NoM
    [] seg = "ui" -> x.u.k = 1 [] seg = "un" -> x.u.k = 2
    [] OTHER -> FALSE
HasPath(x, p) ==
  IF Len(p) = 1 THEN HasTop(x, p[1])
  ELSE CASE p = <<"n","a">> -> x.n.p /\ x.n.a # 0
         [] p = <<"n","c">> -> x.n.p /\ x.n.cp
         [] p = <<"n","c","i">> -> x.n.p /\ x.n.cp /\ x.n.ci # 0
         [] p = <<"f","c">> -> x.f.p /\ x.f.c # 0
         [] p = <<"f","d">> -> x.f.p /\ x.f.d # 0
         [] p = <<"un","a">> -> x.u.k = 2 /\ x.u.una # 0
         [] OTHER -> FALSE
\* Reference: exactly the named paths that the written message lacks are cleared.
ClearedBy(src, K) == { p \in K : ~HasPath(src, p) }
\* What masks.pruneEmpty does instead when a *parent* of a named path is absent
\* from the written message: it clears the stored parent, siblings included
\* (kept as a named deviation; conformance decides which one the tree follows).
Prefixes(p) == { SubSeq(p, 1, k) : k \in 1..Len(p) }
MissingPrefix(src, p) ==
  LET miss == { q \in Prefixes(p) : ~HasPath(src, q) } IN
  IF miss = {} THEN {} ELSE { CHOOSE q \in miss : \A q2 \in miss : Len(q) <= Len(q2) }
ClearedByParentToo(src, K) == UNION { MissingPrefix(src, p) : p \in K }

\* FieldMask normal form: a path listed together with one of its sub-paths
\* stands for the whole field
NormSet(K) == { p \in K : ~\E q \in K : q # p /\ IsPrefixOf(q, p) }

(* The reference result of a successful write.                            *)
UpdateResult(old, written, M, W, R) ==
  LET ws == Writable(written, W)
      merged ==
        IF ~W.nil /\ W.paths = <<>> THEN old                \* nothing is writable
        ELSE IF M.nil
          THEN \* make the writable part of old look like written
               LET base == IF W.nil THEN Empty ELSE ClearSet(old, PathSet(W))
               IN  PMerge(base, ws)
        ELSE IF M.paths = <<>> THEN old                     \* empty mask: no change
        ELSE LET K == NormSet(PathSet(M))
                 src == ProjectSet(ws, K)
             IN  ClearSet(PMerge(old, src), ClearedBy(src, K))
  IN  IF R.nil \/ (~W.nil /\ W.paths = <<>>) \/ (~M.nil /\ M.paths = <<>>)
        THEN Canon(merged)
        ELSE Canon(ClearSet(merged, PathSet(R)))

----------------------------------------------------------------------------
(* Property-level predicates of C05, independent of the algorithm above.  *)

LeafVal(x, q) ==
  CASE q = <<"i">> -> <<x.i>> [] q = <<"s">> -> <<x.s>> [] q = <<"o">> -> <<x.o>>
    [] q = <<"n","a">> -> <<x.n.a>> [] q = <<"n","c","i">> -> <<x.n.ci>>
    [] q = <<"f","c">> -> <<x.f.c>> [] q = <<"f","d">> -> <<x.f.d>>
    [] q = <<"r">> -> <<x.r>> [] q = <<"rm">> -> <<x.rm>> [] q = <<"m">> -> <<x.m>>
    [] q = <<"ui">> -> <<x.u.k = 1, x.u.ui>> [] q = <<"un","a">> -> <<IF x.u.k = 2 THEN x.u.una ELSE 0>>
ScalarLeaves == { <<"i">>, <<"s">>, <<"o">>, <<"n","a">>, <<"n","c","i">>, <<"f","c">>, <<"f","d">> }
OneofLeaves == { <<"ui">>, <<"un","a">> }

\* every leaf outside M-intersect-W (and not named by the reset mask) keeps its
\* value; the members of a oneof are one unit
Resetting(q, R) == ~R.nil /\ Covered(q, PathSet(R))
Frame(old, new, M, W, R) ==
  /\ \A q \in LeafPaths \ OneofLeaves :
        ~InScope(q, M, W) /\ ~Resetting(q, R) => LeafVal(new, q) = LeafVal(old, q)
  /\ (\A q \in OneofLeaves : ~InScope(q, M, W) /\ ~Resetting(q, R)) => new.u = old.u
\* every scalar leaf inside equals the written message's
ScalarAssigned(new, written, M, W, R) ==
  \A q \in ScalarLeaves :
     (/\ (M.nil \/ q \in NormSet(PathSet(M)))  \* named directly (a named message merges instead)
     /\ InScope(q, M, W) /\ (R.nil \/ ~Covered(q, PathSet(R))))
     => LeafVal(new, q) = LeafVal(written, q)
ResetCleared(new, R) ==
  R.nil \/ \A q \in LeafPaths : Covered(q, PathSet(R)) => LeafVal(new, q) = LeafVal(Empty, q)
=============================================================================
