------------------------------ MODULE StackGen ------------------------------
(***************************************************************************)
(* Gen use for C14: random client histories printed as CASE lines.  A      *)
(* history is a sequence of                                                *)
(*   Update(value index, update mask)   Get(read mask)                     *)
(*   OpenPull(updates-only, name)       CloseStream(which)                 *)
(*   Other(delete | create): for servers whose triple addresses one record  *)
(*   of a collection, another record of that collection is deleted/created  *)
(*   (a no-op for the other servers)                                        *)
(* with 1..6 updates and 0..2 streams open at any time.  Values and masks  *)
(* are indices: the harness maps a value index to one of the 3-4 far-apart *)
(* well-formed values of the server's resource type (1-4, 7, 8; 5, 6: a    *)
(* value the server's business rules are expected to refuse, where the     *)
(* table has one), and a mask selector k to the top-level field number     *)
(* k mod n of that type (90: a path naming no field - update masks only;   *)
(* 20..59: one sub-field of a message-typed field - read masks).  About a  *)
(* quarter of the updates repeat the previous value with no mask           *)
(* ("identical" change).  The verdict is not taken here: StackTrace.tla    *)
(* checks what the real servers answered against Stack!Fails.              *)
(***************************************************************************)
EXTENDS Integers, Sequences, TLC, Json

CONSTANTS NCases, MaxOps
VARIABLE c

R(S) == RandomElement(S)
Flip(z, pct) == RandomElement(1..100) <= pct

NilM == [nil |-> TRUE, sel |-> <<>>]
\* 20..59: a sub-field selection (20 + 8*child + field): "field.child" where that field is a message
ReadMask(z) ==
  IF Flip(z, 25) THEN NilM
  ELSE [nil |-> FALSE, sel |-> R({ <<>>, <<R(0..7)>>, <<R(0..7)>>, <<R(0..7), R(0..7)>>, <<R(0..7), R(0..7), R(0..7)>>,
                                   <<R(20..59)>>, <<R(20..59)>>, <<R(20..59), R(20..59)>>, <<R(0..7), R(20..59)>> })]
UpdateMask(z) ==
  IF Flip(z, 45) THEN NilM
  ELSE [nil |-> FALSE, sel |-> R({ <<>>, <<R(0..7)>>, <<R(0..7)>>, <<R(0..7), R(0..7)>>, <<R(0..7), R(0..7), R(0..7)>>,
                                   <<90>>, <<R(0..7), 90>> })]

Blank == [op |-> "Get", uo |-> FALSE, name |-> 0, val |-> 0, mask |-> NilM, which |-> 0]

RECURSIVE Build(_, _, _, _, _, _)
\* z: salt, left: ops still to emit, open: streams open, upd: updates so far, last: previous value index
Build(z, left, open, upd, last, acc) ==
  IF left = 0
    THEN IF upd = 0 THEN Append(acc, [Blank EXCEPT !.op = "Update", !.val = R(1..4), !.name = R(0..1)]) ELSE acc
    ELSE
      LET d == R(1..100)
          kind == IF d <= 42 THEN "Update" ELSE IF d <= 58 THEN "Get" ELSE IF d <= 80 THEN "OpenPull"
                  ELSE IF d <= 90 THEN "CloseStream" ELSE "Other"
          k2 == IF kind = "OpenPull" /\ open >= 2 THEN "Update"
                ELSE IF kind = "CloseStream" /\ open = 0 THEN "OpenPull"
                ELSE kind
          k3 == IF k2 = "Update" /\ upd >= 6 THEN "Get" ELSE k2
      IN
      CASE k3 = "Update" ->
             LET same == last > 0 /\ Flip(z, 25)
                 v == IF same THEN last ELSE R({1, 2, 3, 4, 7, 8, 1, 2, 3, 4, 7, 8, 5, 6})
                 o == [Blank EXCEPT !.op = "Update", !.val = v, !.name = R(0..1),
                                    !.mask = IF same THEN NilM ELSE UpdateMask(z)]
             IN Build(z, left - 1, open, upd + 1, v, Append(acc, o))
        [] k3 = "Get" ->
             Build(z, left - 1, open, upd, last, Append(acc, [Blank EXCEPT !.name = R(0..1), !.mask = ReadMask(z)]))
        [] k3 = "OpenPull" ->
             Build(z, left - 1, open + 1, upd, last,
                   Append(acc, [Blank EXCEPT !.op = "OpenPull", !.uo = Flip(z, 50), !.name = R(0..1)]))
        [] k3 = "Other" ->   \* which = 0: delete the other record, 1: (re)create it
             Build(z, left - 1, open, upd, last, Append(acc, [Blank EXCEPT !.op = "Other", !.which = R({0, 0, 1})]))
        [] OTHER ->
             Build(z, left - 1, open - 1, upd, last, Append(acc, [Blank EXCEPT !.op = "CloseStream", !.which = R(0..1)]))

Hist(k) == [n |-> k, ops |-> Build(k, R(3..MaxOps), 0, 0, 0, <<>>)]

GenInit == c \in { Hist(k) : k \in 1..NCases }
GenNext == UNCHANGED c
EmitCase == PrintT("CASE " \o ToJson(c))
=============================================================================
