import random

import vf


def gen(ctx, kind, ids, maxsteps, simulate=None):
    cfg = """SPECIFICATION Spec
CONSTANTS
  Ids = %s
  MaxSteps = %d
  Kind = "%s"
INVARIANT EmitCase
CHECK_DEADLOCK FALSE
""" % (ids, maxsteps, kind)
    r = ctx.tlc("Lossy", None, cfg_text=cfg, workers=1 if simulate else min(vf.NCPU, 8), timeout=1800,
                simulate=simulate, extra=["-depth", "60"] if simulate else None)
    return r.cases()


def mc(ctx, kind, ids, maxsteps):
    cfg = """SPECIFICATION Spec
CONSTANTS
  Ids = %s
  MaxSteps = %d
  Kind = "%s"
VIEW ViewNoHist
INVARIANTS FoldPreserved OldChain KindsMakeSense QueueIsPending Latest Bounded
CHECK_DEADLOCK FALSE
""" % (ids, maxsteps, kind)
    ctx.mc("Lossy", None, cfg_text=cfg, workers=vf.NCPU, timeout=1800)


ST_MC = """SPECIFICATION Spec
CONSTANTS
  Writers = %s
  Limit = 5
  MaxTime = %d
  TimerFromStart = %s
  LeakOnTimeout = %s
VIEW ViewNoHist
INVARIANTS TypeOK NoHang ErrorOnlyAfterOwnLimit SerOnlyWhilePublishing WaitIsForAPublication NothingDropped
CHECK_DEADLOCK FALSE
"""
ST_GEN = """SPECIFICATION SpecGen
CONSTANTS
  Writers = {1, 2, 3}
  Limit = 5
  MaxTime = 12
  TimerFromStart = FALSE
  LeakOnTimeout = FALSE
INVARIANT EmitCase
CHECK_DEADLOCK FALSE
"""


def timed_cases(ctx, thorough):
    """spec/SendTimeout.tla: model-check the timed write path, show that the two named deviations break it, and pick
    behaviours to replay in real time (a Tick is a second: a behaviour lasts up to ~13 s, they run side by side)."""
    ctx.mc("SendTimeout", None, cfg_text=ST_MC % ("{1, 2, 3}", 12 if thorough else 8, "FALSE", "FALSE"),
           workers=vf.NCPU, timeout=1800)
    for dev, inv in (("TRUE", "FALSE"), ("FALSE", "TRUE")):
        r = ctx.tlc("SendTimeout", None, cfg_text=ST_MC % ("{1, 2, 3}", 12, dev, inv), workers=4, timeout=600)
        if not r.violated:
            raise vf.Inconclusive("SendTimeout.tla: deviation TimerFromStart=%s LeakOnTimeout=%s is not rejected" % (dev, inv))
    ctx.cov["notes"].append({"SendTimeout_deviations_rejected_by_TLC": ["TimerFromStart", "LeakOnTimeout"]})
    r = ctx.tlc("SendTimeout", None, cfg_text=ST_GEN, workers=1, timeout=900,
                simulate="num=%d" % (30000 if thorough else 6000), extra=["-depth", "70"])
    cases, seen = [], set()
    for c in r.cases():
        k = repr(c["sched"])
        if k not in seen:
            seen.add(k)
            cases.append(c)

    def shape(c):
        acts = [s["a"] for s in c["sched"]]
        to = [i for i, a in enumerate(acts) if a == "Timeout"]
        return (len(to),                                             # how many sends timed out
                bool(to) and "Begin" in acts[to[0]:],                # a write begins after a timeout
                bool(to) and "TakeSer" in acts[to[0]:],              # a write queued behind one that timed out
                any(acts[i] == "Begin" and "Tick" in acts[i:j] for i in range(len(acts)) for j in range(i, len(acts))
                    if acts[j] == "TakeSer" and c["sched"][j]["p"] == c["sched"][i]["p"] and acts[i] == "Begin"),
                "CancelReader" in acts, acts.count("Recv") > 1)
    rnd = random.Random(ctx.seed + 11)
    rnd.shuffle(cases)
    by = {}
    for c in cases:
        by.setdefault(shape(c), []).append(c)
    per = 12 if thorough else 3
    chosen = [c for k in sorted(by) for c in by[k][:per]]
    # behaviours whose last commit is a write that times out: nothing after it re-delivers the latest value to a
    # subscriber the timed-out send did not reach, so these are the ones that show it
    def last_commit_times_out(c):
        commits = [s["p"] for s in c["sched"] if s["a"] == "TakeSer"]
        return bool(commits) and any(s["a"] == "Timeout" and s["p"] == commits[-1] for s in c["sched"])
    extra = [c for c in cases if last_commit_times_out(c) and c not in chosen][:(24 if thorough else 8)]
    chosen += extra
    # every behaviour runs with the onlooker registered before and after the subscriber under test
    chosen = [dict(c, onlookerFirst=f) for c in chosen for f in (True, False)]
    ctx.cov["timed_behaviour_shapes"] = len(by)
    if len(chosen) < 10 or not any(shape(c)[0] for c in chosen):
        raise vf.Inconclusive("only %d timed behaviours (%d shapes) generated" % (len(chosen), len(by)))
    return chosen


def timed_check(ctx, cases, proc, opath):
    out, _ = proc.communicate(timeout=600)
    if proc.returncode != 0:
        raise vf.Inconclusive("timed replay failed rc=%d:\n%s" % (proc.returncode, out[-3000:]))
    obs = ctx.read_ndjson(opath)
    if len(obs) != len(cases):
        raise vf.Inconclusive("%d timed observations for %d behaviours" % (len(obs), len(cases)))
    tr = ctx.tlc("SendTimeoutTrace", "SendTimeoutTrace.cfg", workers=1, files={"obs.ndjson": opath}, timeout=900)
    if not any(l.startswith('"CHECKED %d"' % len(obs)) for l in tr.out.splitlines()):
        raise vf.Inconclusive("timed trace check did not cover all %d runs:\n%s" % (len(obs), tr.out[-3000:]))
    ctx.count(len(obs))
    ctx.cov["traces_validated_against_impl"] += len(obs)
    ctx.cov["timed_behaviours_replayed"] = len(obs)
    for b in tr.cases("BAD "):
        o = obs[b["line"] - 1]
        acts = [s["a"] for s in o["sched"]]
        cls = "after-a-timeout" if "Timeout" in acts else ("queued" if acts.count("Begin") > 1 else "single")
        for clause in b["fails"]:
            name = clause.split(":", 1)[1]
            ctx.violation("C09/val/timed/%s/%s" % (name, cls),
                          "timed run %d: clause '%s' false on what the real code did" % (o["n"], name), o)
    for o in obs:
        ctx.distinct(("timed", o["sched"]))
    ctx.sample(obs[0])


def run(ctx):
    thorough = ctx.tier == "thorough"
    rnd = random.Random(ctx.seed)
    import subprocess
    tcases = timed_cases(ctx, thorough)
    for n, c in enumerate(tcases):
        c["n"] = n + 1
    tpath = ctx.write_ndjson("tcases.ndjson", tcases)
    topath = ctx.path("tobs.ndjson")
    tproc = subprocess.Popen([ctx.harness(cmd="lossy"), "-tscript", tpath, "-out", topath], cwd=ctx.scratch,
                             env=dict(vf.GOENV), stdout=subprocess.PIPE, stderr=subprocess.STDOUT, text=True)
    mc(ctx, "coll", "{1, 2}", 8 if thorough else 7)
    mc(ctx, "coll", "{1, 2, 3}", 7 if thorough else 5)
    mc(ctx, "val", "{1}", 8)
    # behaviours: bounded-exhaustive for two ids (sequences longer than any merge window), sampled beyond
    cases = gen(ctx, "coll", "{1, 2}", 6 if thorough else 5)
    cases += gen(ctx, "coll", "{1, 2, 3}", 6, simulate="num=%d" % (20000 if thorough else 1500))
    cases += gen(ctx, "coll", "{1, 2}", 9, simulate="num=%d" % (20000 if thorough else 1500))
    cases += gen(ctx, "val", "{1}", 6 if thorough else 5)
    seen, uniq = set(), []
    for c in cases:
        k = repr(c)
        if k not in seen:
            seen.add(k)
            uniq.append(c)
    cases = uniq
    if len(cases) < 1000:
        raise vf.Inconclusive("only %d behaviours generated" % len(cases))
    run_cases = []
    for c in cases:
        run_cases.append(dict(c, mode="stage"))
    e2e = cases if thorough else rnd.sample(cases, min(len(cases), 1500))
    for c in e2e:
        run_cases.append(dict(c, mode="e2e"))
    for kind in ("val", "coll"):
        for _ in range(3 if not thorough else 20):
            run_cases.append({"kind": kind, "mode": "blocking", "steps": [], "truth": []})
    if thorough:
        run_cases.append({"kind": "val", "mode": "timeout", "steps": [], "truth": []})
    for n, c in enumerate(run_cases):
        c["n"] = n + 1
    cpath = ctx.write_ndjson("cases.ndjson", run_cases)
    opath = ctx.path("obs.ndjson")
    # split over processes: the cases are independent
    parts = 8
    procs = []
    import subprocess
    import os
    chunks = [run_cases[i::parts] for i in range(parts)]
    outs = []
    binary = ctx.harness(cmd="lossy")
    for i, ch in enumerate(chunks):
        cp = ctx.write_ndjson("cases-%d.ndjson" % i, ch)
        op = ctx.path("obs-%d.ndjson" % i)
        outs.append(op)
        procs.append(subprocess.Popen([binary, "-cases", cp, "-out", op], cwd=ctx.scratch, env=dict(vf.GOENV),
                                      stdout=subprocess.PIPE, stderr=subprocess.STDOUT, text=True))
    for p in procs:
        out, _ = p.communicate(timeout=3000)
        if p.returncode != 0:
            raise vf.Inconclusive("lossy harness failed rc=%d:\n%s" % (p.returncode, out[-3000:]))
    obs = []
    for op in outs:
        obs += ctx.read_ndjson(op)
    obs.sort(key=lambda o: o["n"])
    ctx.write_ndjson("obs.ndjson", obs)
    if len(obs) != len(run_cases):
        troubled = [o for o in obs if o["problem"] or o["panic"] or any(m < 0 for m in o["writeMs"])
                    or any(g["type"] in ("PRODUCER-BLOCKED", "NOTHING-TO-RECEIVE") for g in o["got"])]
        if len(troubled) < 10:
            raise vf.Inconclusive("%d observations for %d cases" % (len(obs), len(run_cases)))
        ctx.cov["notes"].append({"harness_stopped_early_after_many_failing_runs": len(run_cases) - len(obs)})
    tr = ctx.tlc("LossyTrace", "LossyTrace.cfg", workers=1, files={"obs.ndjson": opath}, timeout=3000)
    if not any(l.startswith('"CHECKED %d"' % len(obs)) for l in tr.out.splitlines()):
        raise vf.Inconclusive("trace check did not cover all %d runs:\n%s" % (len(obs), tr.out[-3000:]))
    ctx.count(len(obs))
    ctx.cov["traces_validated_against_impl"] += len(obs)
    problems = [o for o in obs if o["problem"]]
    if len(problems) > 5 and not tr.cases("BAD "):
        raise vf.Inconclusive("%d runs could not be completed, e.g. %s" % (len(problems), problems[0]["problem"]))
    drift_notes = {}
    for b in tr.cases("BAD "):
        o = obs[b["line"] - 1]
        for clause in b["fails"]:
            name = clause.split(":", 1)[1]
            if clause.startswith("NOTE:"):
                drift_notes[name] = drift_notes.get(name, 0) + 1
                continue
            ins = [s["e"]["type"] for s in o["steps"] if s["a"] == "in"]
            shape = "+".join(sorted(set(ins))) if ins else "-"
            ctx.violation("C09/%s/%s/%s/%s" % (o["kind"], o["mode"], name, shape),
                          "%s run %d: clause '%s' false on what the real code did" % (o["mode"], o["n"], name), o)
    if drift_notes:
        ctx.cov["notes"].append({"model_drift_not_judged": drift_notes})
    for o in obs:
        outs_n = len([s for s in o["steps"] if s["a"] == "out"])
        ins_n = len([s for s in o["steps"] if s["a"] == "in"])
        if o["mode"] in ("blocking", "timeout") or ins_n > outs_n:
            ctx.distinct((o["kind"], o["mode"], o["steps"]))
    for o in obs[:1] + obs[len(obs) // 2: len(obs) // 2 + 1] + obs[-1:]:
        ctx.sample(o)
    timed_check(ctx, tcases, tproc, topath)
    ctx.cov["rule"] = ("behaviours of spec/Lossy.tla enumerated by TLC: every API-legal change sequence over 2 ids up to "
                       "5 (quick) / 6 (thorough) changes x every placement of consumer receives, plus simulated longer "
                       "ones over 2-3 ids; each replayed on the real stage (rendezvous makes the receive pattern exact) "
                       "and as real writes through a lossy Pull; plus blocking scenarios. non-trivial = something was "
                       "merged or dropped (more inputs than deliveries) or a blocking scenario; distinct = distinct "
                       "behaviour")


MANIFEST = {
    "engine": "spec/Lossy.tla + LossyTrace.tla (TLC) + harness cmd/lossy",
    "technique": "TLA+ model of the lossy stages (merge table transcribed); TLC checks fold preservation, old-value "
                 "chaining, latest-value and boundedness over all histories x receive patterns; every behaviour is "
                 "replayed on the real stage and end to end; TLC validates what was really received",
    "text": "Lossy.tla models mergeCollectionExcess (pending change per id + FIFO queue + merge table) and DropExcess "
            "(single slot) with a producer of API-legal histories and a consumer that receives at arbitrary points; the "
            "stage's input is unconditionally enabled. TLC proves FoldPreserved/OldChain/Latest/Bounded for histories "
            "longer than any merge window, and enumerates the behaviours; the harness replays each one on the real "
            "goroutine (sends and receives are rendezvous, so the pattern is exact) and through Collection/Value.Pull "
            "without backpressure with real writes (each write must return although the reader is idle); backpressure "
            "scenarios check that the writer waits and nothing is dropped; the 5 s Value send timeout is exercised once "
            "in the thorough tier. spec/SendTimeout.tla models the timed write path of Value.Set (publication mutex, a "
            "fresh timer per send, the forwarder's one-event slot, consumer receives, cancel, ticks; TimerFromStart and "
            "LeakOnTimeout refuted); its behaviours are replayed in real time (one tick = one second) side by side and "
            "validated by TLC (no hang, error only after the write's own five seconds, nothing dropped, a lossy onlooker "
            "ends with the latest value).",
    "note": "Trusted base: TLC; the harness's channel choreography; bodies abstracted to default_int32. The wall-clock "
            "assertions are one-sided with wide margins (a blocked write is observed for 150 ms; the timeout must fall "
            "in 4-9 s).",
}
