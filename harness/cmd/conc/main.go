// Command conc replays TLC-generated schedules of spec/ResourceConc.tla on
// the real Value / Collection: every writer call and every subscription runs
// in its own goroutine, parked at the verif hook points that end the
// specification's actions and released one action at a time; and it runs
// the same programs free-running (stress) with the hooks recording only.
// Either way it logs what the C02 / C03 predicates talk about: the commits in
// the order they happened under the write lock, each call's result, what
// every subscriber received, and the final contents.
package main

import (
	"bytes"
	"context"
	"fmt"
	"github.com/smart-core-os/sc-api/go/traits"
	"google.golang.org/protobuf/types/known/timestamppb"
	"os"
	"runtime"
	"strconv"
	"sync"
	"sync/atomic"
	"time"

	"google.golang.org/grpc/codes"
	"google.golang.org/grpc/status"
	"google.golang.org/protobuf/proto"

	"github.com/smart-core-os/sc-api/go/types"
	"github.com/smart-core-os/sc-golang/internal/minibus"
	"github.com/smart-core-os/sc-golang/internal/testproto"
	"github.com/smart-core-os/sc-golang/pkg/resource"
	"github.com/smart-core-os/sc-golang/verifharness/hx"
)

const absent = -1
const noExp = -2

type callT struct {
	Op  string `json:"op"`
	ID  int    `json:"id"`
	V   int    `json:"v"`
	E   int    `json:"e"`
	Chk bool   `json:"chk"`
	Xa  bool   `json:"xa"`
	Cia bool   `json:"cia"`
	Inc bool   `json:"inc"`
	Am  bool   `json:"am"`
}
type kindT struct {
	Uo    bool `json:"uo"`
	Lossy bool `json:"lossy"` // without backpressure
	// Masked: the subscription has a read mask that keeps the tracked field (default_int32) and drops the
	// rest of the message (default_string, which every written message carries)
	Masked bool `json:"masked"`
	// Inc: the subscription carries the include predicate "the value is odd"
	Inc bool `json:"inc"`
	// Pid: a single-item subscription (PullID) on the first id
	Pid bool `json:"pid"`
}
type stepT struct {
	A string `json:"a"`
	P int    `json:"p"`
}
type caseT struct {
	N     int     `json:"n"`
	Res   string  `json:"res"` // "val" | "coll"
	Init  []int   `json:"init"`
	Progs []callT `json:"progs"`
	Kinds []kindT `json:"kinds"`
	Sched []stepT `json:"sched"`
	// Equiv: "" / "none", or "coll" / "val": the resource is built WithNoDuplicates (see ResourceConc.tla)
	Equiv string `json:"equiv"`
	// Payload: "" = the all-kinds test message; "change" = a message shaped like a Pull response's Change
	Payload string `json:"payload"`
	Stress  int    `json:"stress"` // >0: run free-running this many times instead of following sched
	// Attack marks a schedule taken from a named-deviation variant of the specification (a behaviour the
	// repaired design forbids): where the real code refuses a step (a goroutine blocks on the lock that
	// forbids it) the run is finished free-running after a short wait instead of a long one.
	Attack bool `json:"attack"`
}

type commitT struct {
	W  int `json:"w"`
	ID int `json:"id"`
	V  int `json:"v"`
}
type resultT struct {
	Err string `json:"err"`
	Ret int    `json:"ret"`
}
type recvT struct {
	ID   int  `json:"id"`
	V    int  `json:"v"`
	Seed bool `json:"seed"`
	Rest int  `json:"rest"`
	// Type: "ADD" | "UPDATE" | "REMOVE" for a collection change, "" for a Value's
	Type string `json:"type"`
	// the message as the subscriber holds it: looked at again when the run is over (a subscriber may look at
	// what it was handed at any later time, see lookAgain)
	src proto.Message
}

// lookAgain re-reads every message the subscribers were handed, now that the run is over.
func (lg *runLog) lookAgain() {
	for i := range lg.Recv {
		for k := range lg.Recv[i] {
			if e := &lg.Recv[i][k]; e.src != nil {
				e.V, e.Rest = val(e.src), rest(e.src)
			}
		}
	}
}

type runLog struct {
	N         int       `json:"n"`
	Mode      string    `json:"mode"` // "forced" | "stress"
	Res       string    `json:"res"`
	Equiv     string    `json:"equiv"`
	Init      []int     `json:"init"`
	Progs     []callT   `json:"progs"`
	Kinds     []kindT   `json:"kinds"`
	Commits   []commitT `json:"commits"`
	Results   []resultT `json:"results"`
	Recv      [][]recvT `json:"recv"`
	Cancelled []bool    `json:"cancelled"` // per subscriber: its context was cancelled during the run
	SubAfter  []int     `json:"subAfter"`  // per subscriber: number of commits that had happened when it was registered on the bus
	Final     []int     `json:"final"`
	Steps     int       `json:"steps"`
	Problem   string    `json:"problem"` // the run could not be completed at all (inconclusive, not a verdict)
	Drift     string    `json:"drift"`   // the real code left the specification's behaviour at this point (the run was finished free-running)
	Sched     []stepT   `json:"sched"`
}

var ids = []string{"", "aaaaaaaa", "bbbbbbbb"}

// every message carries, next to the tracked integer, a constant untracked part
const restText = "rest"

// payloadChange: the resource holds messages shaped like a Pull response's Change (name, change_time, ...),
// the tracked integer lives in change_time.seconds.  Nothing in pkg/resource may treat that field specially
// (pkg/cmp's default comparer does, for subscribers' duplicate suppression only).
var payloadChange bool

func msg(v int) proto.Message {
	if payloadChange {
		return &traits.PullOnOffResponse_Change{Name: restText, ChangeTime: &timestamppb.Timestamp{Seconds: int64(v)}}
	}
	return &testproto.TestAllTypes{DefaultInt32: int32(v), DefaultString: restText}
}

func emptyMsg() proto.Message {
	if payloadChange {
		return &traits.PullOnOffResponse_Change{}
	}
	return &testproto.TestAllTypes{}
}

func trackedPath() string {
	if payloadChange {
		return "change_time"
	}
	return "default_int32"
}

// addTracked adds d to the tracked integer of m in place (the delta interceptor)
func addTracked(m proto.Message, d int) {
	if c, ok := m.(*traits.PullOnOffResponse_Change); ok {
		if c.ChangeTime == nil {
			c.ChangeTime = &timestamppb.Timestamp{}
		}
		c.ChangeTime.Seconds += int64(d)
		return
	}
	m.(*testproto.TestAllTypes).DefaultInt32 += int32(d)
}

// rest says what a received message has outside the tracked field: 1 the untracked part as written, 0 nothing
// (what a masked subscriber is to be handed), 2 anything else, -1 no message (a removal).
func rest(m proto.Message) int {
	if m == nil || !m.ProtoReflect().IsValid() {
		return -1
	}
	text := ""
	if c, ok := m.(*traits.PullOnOffResponse_Change); ok {
		text = c.Name
	} else {
		text = m.(*testproto.TestAllTypes).DefaultString
	}
	switch text {
	case restText:
		return 1
	case "":
		return 0
	}
	return 2
}
func val(m proto.Message) int {
	if m == nil || !m.ProtoReflect().IsValid() {
		return absent
	}
	if c, ok := m.(*traits.PullOnOffResponse_Change); ok {
		return int(c.GetChangeTime().GetSeconds())
	}
	return int(m.(*testproto.TestAllTypes).DefaultInt32)
}

// ---- goroutine identity ------------------------------------------------------

func goid() int64 {
	var buf [64]byte
	n := runtime.Stack(buf[:], false)
	f := bytes.Fields(buf[:n])
	id, _ := strconv.ParseInt(string(f[1]), 10, 64)
	return id
}

// ---- the scheduler -------------------------------------------------------------

type proc struct {
	name    string
	release chan struct{} // the scheduler lets the process take one more action
	arrived chan string   // the process reports the gate it parked at, or "done"
}

type world struct {
	mu       sync.Mutex
	forced   bool
	procs    map[int64]*proc // by goroutine id
	commits  []commitT
	writerOf map[int64]int
	progs    []callT
	nlisten  int
	subAfter map[int64]int // goroutine of a subscriber -> commits at registration
	snaps    int           // listener copies taken by writers so far (one per commit, in commit order)
	lsnOf    map[int64]any // goroutine of a subscriber -> its bus listener
	stopped  map[any]bool  // bus listeners whose watcher has closed them
	// dsnap: the schedule comes from the variant whose Delete unlocks before it sends (it has DSnap steps):
	// deleting writers also park where the send begins
	dsnap bool
}

// the world of the run in progress; goroutines left over from an earlier run (listener watchers
// ending after their context was cancelled) may still call the hook and must see one consistent world
var cur atomic.Pointer[world]

// gates at which a scheduled process parks (each ends one action of the specification)
var gates = map[string]bool{"gau.read": true, "gau.changed": true, "pub.before": true, "send.each": true,
	"del.read": true, "del.checked": true, "sub.snap": true}

func hook(point string, obj any, args ...any) {
	g := goid()
	w := cur.Load()
	if w == nil {
		return
	}
	w.mu.Lock()
	switch point {
	case "gau.saved":
		if wi, ok := w.writerOf[g]; ok {
			w.commits = append(w.commits, commitT{W: wi, ID: w.progs[wi-1].ID, V: val(args[0].(proto.Message))})
		}
	case "del.removed":
		if wi, ok := w.writerOf[g]; ok {
			w.commits = append(w.commits, commitT{W: wi, ID: w.progs[wi-1].ID, V: absent})
		}
	case "send.snap.begin":
		// a writer is about to copy the listeners its change will be sent to (while it still holds the write
		// lock): this, not the moment the commit is logged, decides whether a subscriber registered "before" it
		if _, ok := w.writerOf[g]; ok {
			w.snaps++
		}
	case "listen.added":
		w.subAfter[g] = w.snaps
		if len(args) > 0 {
			w.lsnOf[g] = args[0]
		}
	case "stop.closed":
		if len(args) > 0 {
			w.stopped[args[0]] = true
		}
	}
	p := w.procs[g]
	forced := w.forced
	gate := gates[point]
	if point == "send.snap.begin" && w.dsnap {
		if wi, ok := w.writerOf[g]; ok && w.progs[wi-1].Op == "del" {
			gate = true
		}
	}
	w.mu.Unlock()
	if !forced || p == nil || !gate {
		return
	}
	p.arrived <- point
	<-p.release
}

func (w *world) spawn(name string, body func()) *proc {
	p := &proc{name: name, release: make(chan struct{}), arrived: make(chan string, 1)}
	ready := make(chan struct{})
	go func() {
		g := goid()
		w.mu.Lock()
		w.procs[g] = p
		w.mu.Unlock()
		close(ready)
		if w.forced {
			<-p.release // the first action has to be scheduled too
		}
		body()
		w.mu.Lock()
		delete(w.procs, g)
		w.mu.Unlock()
		p.arrived <- "done"
	}()
	<-ready
	return p
}

// ---- the calls ----------------------------------------------------------------------

func writeOpts(c callT) []resource.WriteOption {
	var o []resource.WriteOption
	if c.E != noExp {
		o = append(o, resource.WithExpectedValue(msg(c.E)))
	}
	if c.Chk {
		o = append(o, resource.WithExpectedCheck(func(old proto.Message) error {
			if val(old) < 1 {
				return status.Error(codes.PermissionDenied, "stored value must be >= 1")
			}
			return nil
		}))
	}
	if c.Xa {
		o = append(o, resource.WithExpectAbsent())
	}
	if c.Cia {
		o = append(o, resource.WithCreateIfAbsent())
	}
	if c.Am {
		o = append(o, resource.WithAllowMissing(true))
	}
	if c.Inc {
		o = append(o, resource.InterceptBefore(func(old, change proto.Message) {
			ov := val(old)
			if ov == absent {
				ov = 0
			}
			addTracked(change, ov)
		}))
	}
	return o
}

type target struct {
	val  *resource.Value
	coll *resource.Collection
}

func (t target) do(c callT) resultT {
	var res proto.Message
	var err error
	switch {
	case t.val != nil:
		res, err = t.val.Set(msg(c.V), writeOpts(c)...)
	case c.Op == "del":
		res, err = t.coll.Delete(ids[c.ID], writeOpts(c)...)
	default:
		res, err = t.coll.Update(ids[c.ID], msg(c.V), writeOpts(c)...)
	}
	r := resultT{Err: hx.Code(err), Ret: val(res)}
	if err != nil && c.Op != "del" {
		r.Ret = absent
	}
	return r
}

func (t target) contents(n int) []int {
	out := make([]int, n)
	for i := 1; i <= n; i++ {
		if t.val != nil {
			out[i-1] = val(t.val.Get())
		} else if m, ok := t.coll.Get(ids[i]); ok {
			out[i-1] = val(m)
		} else {
			out[i-1] = absent
		}
	}
	return out
}

type subscription struct {
	vch <-chan *resource.ValueChange
	cch <-chan *resource.CollectionChange
}

func (t target) pull(ctx context.Context, k kindT) subscription {
	ro := []resource.ReadOption{resource.WithBackpressure(!k.Lossy), resource.WithUpdatesOnly(k.Uo)}
	if k.Masked {
		ro = append(ro, resource.WithReadPaths(emptyMsg(), trackedPath()))
	}
	if k.Inc {
		ro = append(ro, resource.WithInclude(func(_ string, m proto.Message) bool { v := val(m); return v != absent && v%2 == 1 }))
	}
	if t.val != nil {
		return subscription{vch: t.val.Pull(ctx, ro...)}
	}
	if k.Pid {
		return subscription{vch: t.coll.PullID(ctx, ids[1], ro...)}
	}
	return subscription{cch: t.coll.Pull(ctx, ro...)}
}

func idIndex(id string) int {
	for i, s := range ids {
		if s == id && i > 0 {
			return i
		}
	}
	return 0
}

// recv takes one event from the subscription (the consumer's Recv action).
func (s subscription) recv(d time.Duration) (recvT, bool) {
	select {
	case e, ok := <-s.vch:
		if !ok {
			return recvT{}, false
		}
		return recvT{ID: 1, V: val(e.Value), Seed: e.SeedValue, Rest: rest(e.Value), src: e.Value}, true
	case e, ok := <-s.cch:
		if !ok {
			return recvT{}, false
		}
		r := recvT{ID: idIndex(e.Id), V: val(e.NewValue), Seed: e.SeedValue, Rest: rest(e.NewValue), src: e.NewValue,
			Type: e.ChangeType.String()}
		if e.ChangeType == types.ChangeType_REMOVE {
			r.V, r.Rest, r.src = absent, -1, nil
		}
		return r, true
	case <-time.After(d):
		return recvT{}, false
	}
}

func build(c caseT) target {
	var ro []resource.Option
	if c.Equiv != "" && c.Equiv != "none" {
		ro = append(ro, resource.WithNoDuplicates())
	}
	if c.Res == "val" {
		if c.Init[0] == absent {
			return target{val: resource.NewValue(ro...)} // nothing stored until the first Set
		}
		return target{val: resource.NewValue(append(ro, resource.WithInitialValue(msg(c.Init[0])))...)}
	}
	for i, v := range c.Init {
		if v != absent {
			ro = append(ro, resource.WithInitialRecord(ids[i+1], msg(v)))
		}
	}
	return target{coll: resource.NewCollection(ro...)}
}

func newWorld(c caseT, forced bool) *world {
	payloadChange = c.Payload == "change"
	w := &world{forced: forced, procs: map[int64]*proc{}, writerOf: map[int64]int{}, progs: c.Progs, subAfter: map[int64]int{},
		lsnOf: map[int64]any{}, stopped: map[any]bool{}}
	for _, st := range c.Sched {
		if st.A == "DSnap" {
			w.dsnap = true
		}
	}
	cur.Store(w)
	return w
}

// ---- forced schedules -----------------------------------------------------------------

func runForced(c caseT) runLog {
	w := newWorld(c, true)
	t := build(c)
	lg := runLog{N: c.N, Mode: "forced", Res: c.Res, Equiv: c.Equiv, Init: c.Init, Progs: c.Progs, Kinds: c.Kinds, Sched: c.Sched,
		Results: make([]resultT, len(c.Progs)), Recv: make([][]recvT, len(c.Kinds)), SubAfter: make([]int, len(c.Kinds)),
		Commits: []commitT{}, Cancelled: make([]bool, len(c.Kinds))}
	for i := range lg.Recv {
		lg.Recv[i] = []recvT{}
	}
	ctx, cancel := context.WithCancel(context.Background())
	defer cancel()
	subCtx := make([]context.Context, len(c.Kinds))
	subCancel := make([]context.CancelFunc, len(c.Kinds))
	for i := range c.Kinds {
		subCtx[i], subCancel[i] = context.WithCancel(ctx)
	}
	writers := make([]*proc, len(c.Progs))
	for i := range c.Progs {
		i := i
		writers[i] = w.spawn(fmt.Sprintf("w%d", i+1), func() {
			w.mu.Lock()
			w.writerOf[goid()] = i + 1
			w.mu.Unlock()
			lg.Results[i] = t.do(c.Progs[i])
		})
	}
	subs := make([]subscription, len(c.Kinds))
	subProcs := make([]*proc, len(c.Kinds))
	subLsn := make([]any, len(c.Kinds))
	for i := range c.Kinds {
		i := i
		subProcs[i] = w.spawn(fmt.Sprintf("s%d", i+1), func() {
			g := goid()
			subs[i] = t.pull(subCtx[i], c.Kinds[i])
			w.mu.Lock()
			lg.SubAfter[i] = w.subAfter[g]
			subLsn[i] = w.lsnOf[g]
			w.mu.Unlock()
		})
	}
	stepWait := 5 * time.Second
	if c.Attack {
		stepWait = 40 * time.Millisecond
	}
	finished := map[*proc]bool{}
	advance := func(p *proc, d time.Duration) bool {
		if finished[p] {
			return false
		}
		// an arrival left over from a step that timed out (the process got there later)
		select {
		case at := <-p.arrived:
			if at == "done" {
				finished[p] = true
				return true
			}
		default:
		}
		select {
		case p.release <- struct{}{}:
		case <-time.After(d):
			return false
		}
		select {
		case at := <-p.arrived:
			if at == "done" {
				finished[p] = true
			}
			return true
		case <-time.After(d):
			return false
		}
	}
	for _, st := range c.Sched {
		ok := true
		switch st.A {
		case "Read", "Change", "Commit", "PubSnap", "Deliver", "DRead", "DCheck", "DLock", "DSnap":
			ok = advance(writers[st.P-1], stepWait)
		case "SubSnap", "SubListen":
			ok = advance(subProcs[st.P-1], stepWait)
		case "SubCancel":
			lg.Cancelled[st.P-1] = true
			subCancel[st.P-1]()
			// Between the cancel and the moment the listener's watcher has closed it, a publication finding the
			// forwarder still receiving may hand the event over instead of skipping the listener (Go's select
			// picks either): wait for the watcher, after that the listener is skipped for sure.
			for deadline := time.Now().Add(stepWait); ; {
				w.mu.Lock()
				done := subLsn[st.P-1] == nil || w.stopped[subLsn[st.P-1]]
				w.mu.Unlock()
				if done || time.Now().After(deadline) {
					break
				}
				time.Sleep(20 * time.Microsecond)
			}
		case "Recv":
			var e recvT
			if c.Kinds[st.P-1].Lossy {
				// how the lossy stage groups changes depends on when its goroutine runs: there may be
				// nothing to take at this step (it was merged into an earlier or a later delivery)
				if e, got := subs[st.P-1].recv(2 * time.Millisecond); got {
					lg.Recv[st.P-1] = append(lg.Recv[st.P-1], e)
				}
				break
			}
			e, ok = subs[st.P-1].recv(stepWait)
			if ok {
				lg.Recv[st.P-1] = append(lg.Recv[st.P-1], e)
			}
		default:
			lg.Problem = "unknown action " + st.A
			return lg
		}
		if !ok {
			// the code did not do what the specification's behaviour does at this step; the rest of the
			// schedule is meaningless, finish the run free-running so that it can still be judged
			lg.Drift = fmt.Sprintf("step %d (%s %d) was not possible on the real code", lg.Steps+1, st.A, st.P)
			break
		}
		lg.Steps++
	}
	// whatever is still parked is released until every process has finished; subscribers keep receiving
	all := append(append([]*proc{}, writers...), subProcs...)
	deadline := time.Now().Add(15 * time.Second)
	for {
		pending := 0
		for _, p := range all {
			if !finished[p] {
				pending++
			}
		}
		if pending == 0 {
			break
		}
		if pending > 0 && lg.Drift == "" {
			names := ""
			for _, p := range all {
				if !finished[p] {
					names += " " + p.name
				}
			}
			lg.Drift = "processes unfinished after the schedule:" + names
		}
		if time.Now().After(deadline) {
			lg.Problem = fmt.Sprintf("%d processes cannot finish after the schedule (%s)", pending, lg.Drift)
			break
		}
		progressed := false
		for _, p := range all {
			if advance(p, 50*time.Millisecond) {
				progressed = true
			}
		}
		for i := range subs {
			if subs[i].vch == nil && subs[i].cch == nil {
				continue
			}
			if e, ok := subs[i].recv(time.Millisecond); ok {
				lg.Recv[i] = append(lg.Recv[i], e)
				progressed = true
			}
		}
		_ = progressed
	}
	lossyAny := false
	for _, k := range c.Kinds {
		lossyAny = lossyAny || k.Lossy
	}
	// (a schedule of a deviation variant may end where the real code still has something to hand over)
	if (lg.Drift != "" || lossyAny || c.Attack) && lg.Problem == "" {
		// drain what the forwarders still hold so that the received sequences are complete
		for i := range subs {
			if subs[i].vch == nil && subs[i].cch == nil {
				continue
			}
			for {
				e, ok := subs[i].recv(20 * time.Millisecond)
				if !ok {
					break
				}
				lg.Recv[i] = append(lg.Recv[i], e)
			}
		}
	}
	w.mu.Lock()
	lg.Commits = append(lg.Commits, w.commits...)
	w.mu.Unlock()
	lg.Final = t.contents(len(c.Init))
	// Quiet for 20 ms is not "nothing more will come" on a loaded machine (the lossy stage and the forwarder are
	// goroutines of their own).  A subscriber that would be judged behind -- by the very comparison the trace
	// specification makes -- is given real time to catch up before the run is written; on a tree that does lose
	// the event this costs the wait, which is why the number of such waits per process is bounded.
	if lg.Problem == "" {
		for i := range subs {
			if (subs[i].vch == nil && subs[i].cch == nil) || lg.Cancelled[i] {
				continue
			}
			for deadline := time.Now().Add(4 * time.Second); behind(&lg, c, i) && longWaits < 25; {
				if time.Now().After(deadline) {
					longWaits++
					break
				}
				if e, ok := subs[i].recv(50 * time.Millisecond); ok {
					lg.Recv[i] = append(lg.Recv[i], e)
				}
			}
		}
	}
	return lg
}

var longWaits int

// behind: the subscriber's folded view differs from the final contents (as C03Fails of ConcTrace.tla compares
// them), or a plain backpressured subscriber has received fewer updates than commits were made after its
// registration
func behind(lg *runLog, c caseT, i int) bool {
	k := c.Kinds[i]
	view := make([]int, len(c.Init))
	seen := make([]bool, len(c.Init))
	for j := range view {
		view[j] = absent
	}
	updates := 0
	for _, e := range lg.Recv[i] {
		if e.ID >= 1 && e.ID <= len(view) {
			view[e.ID-1], seen[e.ID-1] = e.V, true
		}
		if !e.Seed {
			updates++
		}
	}
	if k.Pid {
		return false // ends with its item; what it misses is judged, not waited for
	}
	for j, f := range lg.Final {
		want := f
		if k.Inc && (f == absent || f%2 == 0) {
			want = absent
		}
		if k.Uo && !seen[j] {
			continue
		}
		if view[j] != want {
			return true
		}
	}
	if !k.Lossy && !k.Inc && (c.Equiv == "" || c.Equiv == "none") {
		after := 0
		for n := range lg.Commits {
			if n+1 > lg.SubAfter[i] {
				after++
			}
		}
		return updates < after
	}
	return false
}

// ---- free-running (stress) ---------------------------------------------------------------

// runStress runs the same programs without gates; subscribers are opened at a random moment and
// receive until a sentinel write made after all writers returned comes through.
func runStress(c caseT, iter int) runLog {
	w := newWorld(c, false)
	t := build(c)
	rnd := hx.Rand(int64(c.N)*7919 + int64(iter))
	lg := runLog{N: c.N, Mode: "stress", Res: c.Res, Equiv: c.Equiv, Init: c.Init, Progs: c.Progs, Kinds: c.Kinds, Sched: []stepT{},
		Results: make([]resultT, len(c.Progs)), Recv: make([][]recvT, len(c.Kinds)), SubAfter: make([]int, len(c.Kinds)),
		Commits: []commitT{}, Cancelled: make([]bool, len(c.Kinds))}
	ctx, cancel := context.WithCancel(context.Background())
	defer cancel()
	var wg sync.WaitGroup
	start := make(chan struct{})
	for i := range c.Progs {
		i := i
		wg.Add(1)
		go func() {
			defer wg.Done()
			w.mu.Lock()
			w.writerOf[goid()] = i + 1
			w.mu.Unlock()
			<-start
			lg.Results[i] = t.do(c.Progs[i])
		}()
	}
	subs := make([]subscription, len(c.Kinds))
	var swg sync.WaitGroup
	delays := make([]int, len(c.Kinds))
	for i := range c.Kinds {
		delays[i] = rnd.Intn(3)
	}
	const sentinel = 99
	subDone := make([]chan struct{}, len(c.Kinds))
	for i := range c.Kinds {
		i := i
		swg.Add(1)
		subDone[i] = make(chan struct{})
		go func() {
			defer close(subDone[i])
			<-start
			for k := 0; k < delays[i]*50; k++ {
				runtime.Gosched()
			}
			g := goid()
			subs[i] = t.pull(ctx, c.Kinds[i])
			w.mu.Lock()
			lg.SubAfter[i] = w.subAfter[g]
			w.mu.Unlock()
			swg.Done()
			for {
				e, ok := subs[i].recv(20 * time.Second)
				if !ok {
					lg.Problem = "subscriber starved waiting for the sentinel"
					return
				}
				lg.Recv[i] = append(lg.Recv[i], e)
				if e.V == sentinel {
					return
				}
			}
		}()
	}
	close(start)
	wg.Wait()
	swg.Wait()
	// quiescence by sentinel, not by sleeping: one more write on id 1, made after all writers returned,
	// that every subscriber must see.  It is an ordinary call of the run (the last program), so that a
	// lossy stage merging it with an earlier change of the same id is accounted for.
	if len(c.Kinds) > 0 {
		sent := callT{Op: "upd", ID: 1, V: sentinel, E: noExp, Cia: true}
		lg.Progs = append(append([]callT{}, c.Progs...), sent)
		w.mu.Lock()
		w.progs = lg.Progs
		w.writerOf[goid()] = len(lg.Progs)
		w.mu.Unlock()
		r := t.do(sent)
		lg.Results = append(lg.Results, r)
		if r.Err != "OK" {
			lg.Problem = "sentinel write failed: " + r.Err
		}
		for i := range subDone {
			<-subDone[i]
		}
	}
	w.mu.Lock()
	lg.Commits = append(lg.Commits, w.commits...)
	w.mu.Unlock()
	lg.Final = t.contents(len(c.Init))
	for i := range lg.Recv {
		if lg.Recv[i] == nil {
			lg.Recv[i] = []recvT{}
		}
	}
	return lg
}

func main() {
	resource.VerifHook = hook
	minibus.VerifHook = hook
	cases := hx.ReadCases[caseT](hx.Arg("-cases", "cases.ndjson"))
	out := hx.NewOut(hx.Arg("-out", "obs.ndjson"))
	defer out.Close()
	// (attack schedules are expected to drift on a correct tree; for the others see busx: fail fast)
	bad := 0
	for _, c := range cases {
		if bad >= 40 {
			break
		}
		hx.Current(c)
		if c.Stress > 0 {
			for it := 0; it < c.Stress; it++ {
				o := runStress(c, it)
				o.lookAgain()
				out.Write(o)
			}
		} else {
			o := runForced(c)
			o.lookAgain()
			pid := false
			for _, k := range c.Kinds {
				pid = pid || k.Pid
			}
			// (a single-item subscription subscribes from a goroutine of its own, which the gates do not hold:
			//  its runs leave the schedule by construction and are judged free-running)
			if !c.Attack && !pid && (o.Drift != "" || o.Problem != "") {
				bad++
			}
			out.Write(o)
		}
	}
	_ = os.Stdout
}
