package main

import (
	"context"
	"encoding/json"

	"google.golang.org/protobuf/proto"

	"github.com/smart-core-os/sc-api/go/traits"
	"github.com/smart-core-os/sc-golang/pkg/resource"
	"github.com/smart-core-os/sc-golang/pkg/trait/enterleavesensorpb"
	"github.com/smart-core-os/sc-golang/verifharness/hx"
)

// ---- EnterLeave.tla: [enter, leave], each [has, v] --------------------------

type optInt struct {
	Has bool `json:"has"`
	V   int  `json:"v"`
}
type elState struct {
	Enter optInt `json:"enter"`
	Leave optInt `json:"leave"`
}

func optIntOf(p *int32) optInt {
	if p == nil {
		return optInt{}
	}
	return optInt{Has: true, V: int(*p)}
}
func concOptInt(o optInt) *int32 {
	if !o.Has {
		return nil
	}
	v := int32(o.V)
	return &v
}
func elRead(m *enterleavesensorpb.Model) elState {
	e, _ := m.GetEnterLeaveEvent()
	return elState{Enter: optIntOf(e.EnterTotal), Leave: optIntOf(e.LeaveTotal)}
}

// relTotal: a supplied total given relative to the model's counter when the event is sent
type relTotal struct {
	How string `json:"how"` // absent | current | current+1 | current-1 | far | abs
	V   int    `json:"v"`
}

func (r relTotal) resolve(cur optInt) optInt {
	c := 0
	if cur.Has {
		c = cur.V
	}
	switch r.How {
	case "absent":
		return optInt{}
	case "current":
		return optInt{Has: true, V: c}
	case "current+1":
		return optInt{Has: true, V: c + 1}
	case "current-1":
		if c == 0 {
			return optInt{Has: true, V: 0}
		}
		return optInt{Has: true, V: c - 1}
	case "far":
		return optInt{Has: true, V: c + 7}
	case "abs":
		return optInt{Has: true, V: r.V}
	}
	hx.Fatal("enterleave: unknown total kind %q", r.How)
	return optInt{}
}

type elOp struct {
	Op   string   `json:"op"`
	Dir  string   `json:"dir"`
	Echo bool     `json:"echo"`
	Se   relTotal `json:"se"`
	Sl   relTotal `json:"sl"`
}
type elOpt struct {
	Kind string  `json:"kind"` // init | clock
	Init elState `json:"init"`
	Via  string  `json:"via"` // init: WithInitialEnterLeaveEvent ("model") or WithEnterLeaveEventOption(resource.WithInitialValue) ("resource")
}
type elWalk struct {
	N   int `json:"n"`
	Cfg struct {
		Opts    []elOpt `json:"opts"`
		HasInit bool    `json:"hasInit"`
		Init    elState `json:"init"`
	} `json:"cfg"`
	Ops []elOp `json:"ops"`
}
type elObs struct {
	Model   string  `json:"model"`
	Walk    int     `json:"walk"`
	Step    int     `json:"step"`
	Op      string  `json:"op"`
	HasInit bool    `json:"hasInit"`
	Dir     string  `json:"dir"`
	How     string  `json:"how"` // how the totals were drawn: "echo" or "<enter kind>/<leave kind>"
	Se      optInt  `json:"se"`
	Sl      optInt  `json:"sl"`
	Pre     elState `json:"pre"`
	Post    elState `json:"post"`
	Opts    []elOpt `json:"opts"` // New: the option sequence
	Seed    elState `json:"seed"` // New: the totals of the PullEnterLeaveEvents seed
	Err     string  `json:"err"`
	Panic   string  `json:"panic"`
}

func init() { register("enterleave", runEnterLeave) }

func runEnterLeave(raw json.RawMessage, out *hx.Out) {
	w := decode[elWalk](raw)
	var m *enterleavesensorpb.Model
	o := elObs{Model: "enterleave", Walk: w.N, Op: "New", HasInit: w.Cfg.HasInit, Dir: "DIRECTION_UNSPECIFIED",
		Pre: w.Cfg.Init, Err: "OK", Opts: w.Cfg.Opts}
	o.Panic = hx.Catch(func() {
		var opts []resource.Option
		for _, co := range w.Cfg.Opts {
			switch co.Kind {
			case "init":
				ev := &traits.EnterLeaveEvent{EnterTotal: concOptInt(co.Init.Enter), LeaveTotal: concOptInt(co.Init.Leave)}
				if co.Via == "resource" {
					opts = append(opts, enterleavesensorpb.WithEnterLeaveEventOption(resource.WithInitialValue(ev)))
				} else {
					opts = append(opts, enterleavesensorpb.WithInitialEnterLeaveEvent(ev))
				}
			case "clock":
				opts = append(opts, resource.WithClock(scriptedClock()))
			default:
				hx.Fatal("enterleave: unknown option kind %q", co.Kind)
			}
		}
		m = enterleavesensorpb.NewModel(opts...)
		o.Post = elRead(m)
		seed, _ := pullSeed(func(ctx context.Context) <-chan enterleavesensorpb.EnterLeaveEventChange {
			return m.PullEnterLeaveEvents(ctx)
		}, 1)
		o.Seed = elState{Enter: optInt{Has: true, V: -7777}}
		if len(seed) == 1 {
			o.Seed = elState{Enter: optIntOf(seed[0].Value.EnterTotal), Leave: optIntOf(seed[0].Value.LeaveTotal)}
		}
	})
	out.Write(o)
	if m == nil {
		return
	}
	for i, op := range w.Ops {
		o := elObs{Model: "enterleave", Walk: w.N, Step: i + 1, Op: op.Op, HasInit: w.Cfg.HasInit, Dir: op.Dir, Err: "OK", Opts: []elOpt{}}
		o.Pre = elRead(m)
		event := &traits.EnterLeaveEvent{Occupant: &traits.EnterLeaveEvent_Occupant{Name: "someone"}}
		if op.Op == "Event" {
			if op.Echo { // the last event read, with only the direction set
				// (a copy: without a read mask the model hands out the stored message itself, and for a default
				// model that is the package-level initial event shared by every default model)
				last, _ := m.GetEnterLeaveEvent()
				event = proto.Clone(last).(*traits.EnterLeaveEvent)
				o.How = "echo"
			} else {
				event.EnterTotal, event.LeaveTotal = concOptInt(op.Se.resolve(o.Pre.Enter)), concOptInt(op.Sl.resolve(o.Pre.Leave))
				o.How = op.Se.How + "/" + op.Sl.How
			}
			o.Se, o.Sl = optIntOf(event.EnterTotal), optIntOf(event.LeaveTotal) // what the event actually carries
		}
		o.Panic = hx.Catch(func() {
			switch op.Op {
			case "Event":
				dir, ok := traits.EnterLeaveEvent_Direction_value[op.Dir]
				if !ok {
					hx.Fatal("enterleave: unknown direction %q", op.Dir)
				}
				event.Direction = traits.EnterLeaveEvent_Direction(dir)
				o.Err = hx.Code(m.CreateEnterLeaveEvent(event))
			case "Reset":
				o.Err = hx.Code(m.ResetTotals())
			default:
				hx.Fatal("enterleave: unknown op %q", op.Op)
			}
		})
		o.Post = elRead(m)
		out.Write(o)
	}
}
