INIT MCInit
NEXT MCNext
INVARIANTS LawDefault LawReflSym LawOwnKind LawExact LawAndOr
