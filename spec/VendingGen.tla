---------------------------- MODULE VendingGen ----------------------------
(***************************************************************************)
(* Gen use of Vending.tla: a random configuration (initial stock with any *)
(* subset of used/remaining present and random unit pairs, initial        *)
(* consumables, handed over either by WithInitialStock /                  *)
(* WithInitialConsumable or by WithInventoryOption / WithConsumablesOption*)
(* carrying initial records) followed by 10..MaxOps operations: dispenses *)
(* in the stock's own unit family, in a convertible one, in another       *)
(* category; stock creation/deletion; unit conversions there and back.    *)
(* Some records mix categories between used and remaining (with used at   *)
(* exactly 0), so that a dispense fails on the second conversion after    *)
(* the first has succeeded: the failed call must still change nothing.    *)
(***************************************************************************)
EXTENDS Vending, TLC, Json

CONSTANTS NCases, MaxOps
VARIABLE c

R(S) == RandomElement(S)
Flip(z, pct) == RandomElement(1..100) <= pct
Pick(z, seq) == seq[RandomElement(1..Len(seq))]

\* unit families inside which every conversion is exact
Families == << {"LITER", "CUBIC_METER"}, {"LITER", "CUBIC_METER"}, {"LITER"}, {"CUP"}, {"METER"}, {"KILOGRAM"}, {"NO_UNIT"}, {"NO_UNIT"} >>
\* k eighths of a cubic metre / k halves of any other unit, in thousandths of u
Amount(u, k) == CASE u = "LITER" -> 125000 * k [] u = "CUBIC_METER" -> 125 * k [] OTHER -> 500 * k

UnitIn(z, fam) == IF Flip(z, 90) THEN R(fam) ELSE R(Units)
\* amounts: exactly zero fairly often (a fresh counter; proto3 treats a zero scalar as unpopulated)
K(z, maxk) == IF Flip(z, 20) THEN 0 ELSE R(0..maxk)
OptQ(z, fam, maxk) == IF Flip(z, 70) THEN LET u == UnitIn(z, fam) IN Q(u, Amount(u, K(z, maxk))) ELSE NoQ
OtherCat(z, fam) == R({ u \in Units : \A f \in fam : Cat(u) # Cat(f) })
\* one record in six is "mixed": used in the family's unit (mostly a fresh 0), remaining in another category, so
\* that a dispense in the family's unit converts for the first quantity and fails for the second
StockRec(z, n, fam) ==
  IF Flip(z, 16)
  THEN LET u == R(fam)
           r == OtherCat(z, fam)
       IN IF Flip(z, 75) THEN [name |-> n, used |-> Q(u, IF Flip(z, 65) THEN 0 ELSE Amount(u, R(1..40))), remaining |-> Q(r, Amount(r, K(z, 40)))]
          ELSE [name |-> n, used |-> Q(r, Amount(r, K(z, 40))), remaining |-> Q(u, Amount(u, K(z, 40)))]
  ELSE [name |-> n, used |-> OptQ(z, fam, 40), remaining |-> OptQ(z, fam, 40)]

Op(z, fams) ==
  LET op == Pick(z, <<"Dispense", "Dispense", "Dispense", "Dispense", "Dispense", "Dispense", "CreateStock", "DeleteStock", "Convert">>)
      k == RandomElement(1..Len(NameOrder))
      n == NameOrder[k]
      \* a dispense whose quantity has the unit left out (UNIT_UNSPECIFIED) is a request clients do send
      u == IF op = "Convert" THEN R(Units) ELSE IF Flip(z, 8) THEN "UNIT_UNSPECIFIED"
           ELSE IF Flip(z, 80) THEN R(fams[k]) ELSE R(Units)
      u2 == IF Flip(z, 70) THEN R({x \in Units : Cat(x) = Cat(u)}) ELSE R(Units)
  IN [op |-> op, name |-> n, q |-> [unit |-> u, m |-> Amount(u, R(0..12))], unit2 |-> u2,
      stock |-> StockRec(z, n, fams[k])]

SweepOp(k) ==
  LET n == Len(UnitOrder)
      u == UnitOrder[((k - 1) % n) + 1]
      u2 == UnitOrder[(((k - 1) \div n) % n) + 1]
  IN [op |-> "Convert", name |-> NameOrder[1], q |-> [unit |-> u, m |-> Amount(u, R(1..12))], unit2 |-> u2,
      stock |-> [name |-> NameOrder[1], used |-> NoQ, remaining |-> NoQ]]

\* a random permutation of a sequence
RECURSIVE Shuffle(_, _)
Shuffle(z, s) == IF s = <<>> THEN <<>>
                 ELSE LET i == RandomElement(1..Len(s))
                      IN <<s[i]>> \o Shuffle(z, [j \in 1..(Len(s) - 1) |-> IF j < i THEN s[j] ELSE s[j + 1]])
\* the items of one kind spread over options: all in one, one each, or split in two
Groups(z, items) ==
  IF items = <<>> THEN <<>>
  ELSE LET how == Pick(z, <<"one", "each", "split">>)
           i == RandomElement(1..Len(items))
       IN IF how = "one" \/ (how = "split" /\ i = Len(items)) THEN <<items>>
          ELSE IF how = "each" THEN [j \in 1..Len(items) |-> <<items[j]>>]
          ELSE <<SubSeq(items, 1, i), SubSeq(items, i + 1, Len(items))>>

Prog(k) ==
  \* tuples, not [j \in .. |-> ..]: TLC re-evaluates a function body at every application
  LET fams == <<Pick(k, Families), Pick(k, Families), Pick(k, Families)>>
      keep == <<Flip(k, 65), Flip(k, 65), Flip(k, 65)>>
      ckeep == <<Flip(k, 35), Flip(k, 35), Flip(k, 35)>>
      idx == SelectSeq(<<1, 2, 3>>, LAMBDA j : keep[j])
      cidx == SelectSeq(<<1, 2, 3>>, LAMBDA j : ckeep[j])
      stocks == SelectSeq([j \in 1..Len(idx) |-> StockRec(k, NameOrder[idx[j]], fams[idx[j]])], LAMBDA x : TRUE)
      sg == Groups(k, stocks)
      cg == Groups(k, [j \in 1..Len(cidx) |-> NameOrder[cidx[j]]])
      none == [kind |-> "clock", stocks |-> <<>>, cons |-> <<>>, via |-> "initial"]
      \* stock, consumables and a plain resource option, spread over several options, in a random order
      opts == Shuffle(k, [j \in 1..Len(sg) |-> [none EXCEPT !.kind = "stock", !.stocks = sg[j], !.via = Pick(k, <<"initial", "initial", "option">>)]]
                         \o [j \in 1..Len(cg) |-> [none EXCEPT !.kind = "cons", !.cons = cg[j], !.via = Pick(k, <<"initial", "initial", "option">>)]]
                         \o (IF Flip(k, 40) THEN <<none>> ELSE <<>>))
  IN [model |-> "vending", n |-> k,
      cfg |-> [opts |-> opts, stocks |-> ConfState(opts).inv, cons |-> ConfState(opts).cons],
      \* every walk starts with one Convert of the all-pairs sweep (walk k takes pair k of the |Units|^2 pairs)
      ops |-> <<SweepOp(k)>> \o [j \in 1..R(10..MaxOps) |-> Op(k, fams)]]

GenInit == c \in { Prog(k) : k \in 1..NCases }
GenNext == UNCHANGED c
EmitCase == PrintT("CASE " \o ToJson(c))
=============================================================================
