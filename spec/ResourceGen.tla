---------------------------- MODULE ResourceGen ----------------------------
(***************************************************************************)
(* Gen use of Resource.tla: random programs (initial contents, resource   *)
(* configuration, subscribers, a sequence of calls with option records)   *)
(* printed as CASE lines for the harness.  The verdict is not taken here: *)
(* the harness logs what the real code did and ResourceTrace.tla checks   *)
(* every logged step against Resource.tla's step functions.               *)
(***************************************************************************)
EXTENDS Resource, Json

CONSTANTS NCases, MaxCalls, Focus   \* Focus: "c01" | "c04" | "c08" (what to vary most)
VARIABLE c

R(S) == RandomElement(S)
Flip(z, pct) == RandomElement(1..100) <= pct

\* message bodies: i drives include classes and the interceptors, the other
\* fields give the masks something to bite on
Body(z) == [Empty EXCEPT !.i = R(0..2), !.s = R({0, 0, 1}),
                         !.f = R({NoF, NoF, [p |-> TRUE, c |-> 1, d |-> 0], [p |-> TRUE, c |-> 2, d |-> 1]}),
                         !.o = R({-1, -1, 0, 1}),
                         !.r = R({<<>>, <<>>, <<1>>})]

WMasks == { NilMask, NilMask, NilMask, Mask(<<<<"i">>>>), Mask(<<<<"f","c">>>>), Mask(<<<<"i">>, <<"f">>>>),
            Mask(<<>>), Mask(<<<<"s">>, <<"r">>>>), Mask(<<<<"zz">>>>), Mask(<<<<"i","x">>>>) }
RMasks == { NilMask, NilMask, NilMask, Mask(<<<<"s">>>>), Mask(<<<<"f","d">>, <<"o">>>>) }
ReadMasks == { NilMask, NilMask, Mask(<<<<"i">>>>), Mask(<<>>), Mask(<<<<"f","c">>, <<"s">>>>), Mask(<<<<"f">>, <<"i">>>>) }

Classes == {"none", "i0", "i1", "i2"}
TrueTable == [id \in AllIds |-> [cl \in Classes |-> TRUE]]
NoInc == [nil |-> TRUE, t |-> TrueTable]
RandInc(z) == [nil |-> FALSE, t |-> [id \in AllIds |-> [cl \in Classes |-> R(BOOLEAN)]]]
\* predicates that depend on the value only (the common case in the trait servers)
ValueInc(z) == LET row == [cl \in Classes |-> R(BOOLEAN)] IN [nil |-> FALSE, t |-> [id \in AllIds |-> row]]

Opts(z, store) ==
  [M |-> R(WMasks), R |-> R(RMasks), mm |-> R({NilMask, NilMask, Mask(<<<<"s">>>>), Mask(<<<<"f","d">>, <<"i">>>>)}),
   W |-> NilMask,   \* (the resource's; filled in by Prog)
   mw |-> R({NilMask, NilMask, NilMask, Mask(<<<<"s">>>>), Mask(<<<<"f","d">>, <<"i">>>>)}), aw |-> Flip(z, 8),
   ev |-> IF Flip(z, 25) THEN Some(IF Flip(z, 50) /\ store # <<>> THEN R({store[k].body : k \in 1..Len(store)}) ELSE Body(z)) ELSE NoMsg,
   chk |-> R({0, 0, 0, 1}), xa |-> Flip(z, 15), cia |-> Flip(z, 50), am |-> Flip(z, 40),
   gen |-> Flip(z, 60), first |-> R({"g", "g", "a", "b", "A"}),
   ib |-> R({0, 0, 1}), ia |-> R({0, 0, 1, 2}), wt |-> R({-1, -1, -1, 7, 9, 11, 12})]   \* (11 = Go's zero time, 12 = the Unix epoch: write times like any other)
PlainOpts == [M |-> NilMask, R |-> NilMask, mm |-> NilMask, W |-> NilMask, mw |-> NilMask, aw |-> FALSE, ev |-> NoMsg, chk |-> 0, xa |-> FALSE, cia |-> FALSE, am |-> FALSE,
              gen |-> FALSE, first |-> "g", ib |-> 0, ia |-> 0, wt |-> -1]

RawIds(icpt) == {"A", "a", "b", "g", "g2"}
StoreIds(icpt) == CASE icpt = "none" -> {"A", "a", "b", "g2"} [] icpt = "lower" -> {"a", "b", "g", "g2"} [] OTHER -> {"a"}

CollCall(z, icpt, store) ==
  LET op == IF Focus = "c01" THEN R({"Update", "Update", "Add", "Delete", "Get", "List", "Tick"})
            ELSE R({"Update", "Update", "Update", "Add", "Delete", "Delete", "Tick"})
      o  == IF Focus = "c01" \/ Flip(z, 30) THEN Opts(z, store) ELSE [PlainOpts EXCEPT !.cia = Flip(z, 60), !.wt = R({-1, -1, 7, 11})]
      \* an empty id always comes with id generation (an item stored under "" is legal
      \* for the code but outside the id alphabet of the model)
      noid == op \in {"Update", "Add"} /\ Flip(z, 20)
  IN [op |-> op, id |-> IF noid THEN "" ELSE R(RawIds(icpt)),
      \* (a fifth of the writes repeat a message that is stored somewhere: a write that "changes nothing" still
      \*  goes through the masks, the reset mask in particular)
      msg |-> IF Flip(z, 20) /\ store # <<>> THEN R({store[k].body : k \in 1..Len(store)}) ELSE Body(z),
      o |-> IF noid THEN [o EXCEPT !.gen = TRUE] ELSE o, mask |-> R(ReadMasks),
      inc |-> IF Flip(z, 50) THEN NoInc ELSE RandInc(z)]

ValCall(z, val) ==
  LET op == IF Focus = "c01" THEN R({"Set", "Set", "Set", "VGet", "Tick"}) ELSE R({"Set", "Set", "Set", "Set", "Tick"})
      o0 == Opts(z, IF val.has THEN <<[id |-> "a", body |-> val.v, ct |-> 0]>> ELSE <<>>)
      o  == IF Focus = "c01" \/ Flip(z, 30) THEN o0 ELSE PlainOpts
  IN [op |-> op, id |-> "", msg |-> IF Flip(z, 20) /\ val.has THEN val.v ELSE Body(z), o |-> o, mask |-> R(ReadMasks), inc |-> NoInc]

Sub(z) == [pid |-> IF Focus = "c04" /\ Flip(z, 35) THEN R({"a", "b", "g2"}) ELSE "",
           updatesOnly |-> Flip(z, 30), mask |-> R(ReadMasks \ {Mask(<<<<"f">>, <<"i">>>>)}),
           inc |-> IF Focus = "c08" THEN (IF Flip(z, 50) THEN RandInc(z) ELSE ValueInc(z))
                   ELSE IF Focus = "c04" THEN NoInc ELSE (IF Flip(z, 70) THEN NoInc ELSE RandInc(z))]

RandStore(z, icpt) ==
  LET ids == { id \in StoreIds(icpt) : Flip(z, 50) }
      items == { [id |-> id, body |-> Body(z), ct |-> R(0..2)] : id \in ids }
      RECURSIVE Build(_, _)
      Build(S, acc) == IF S = {} THEN acc ELSE LET it == CHOOSE x \in S : TRUE IN Build(S \ {it}, Put(acc, it))
  IN Build(items, <<>>)

Prog(k) ==
  LET isVal == (k % 3 = 0)
      icpt == IF isVal THEN "none" ELSE R({"none", "none", "lower", "fold"})
      store == IF isVal THEN <<>> ELSE RandStore(k, icpt)
      val == IF Flip(k, 80) THEN [has |-> TRUE, v |-> Body(k), ct |-> R(0..2)] ELSE [has |-> FALSE, v |-> Empty, ct |-> 0]
      nc == R(1..MaxCalls)
      \* writable fields of the resource (mostly: everything)
      W == IF Focus = "c01" /\ Flip(k, 35)
           THEN R({Mask(<<<<"i">>>>), Mask(<<<<"f">>>>), Mask(<<<<"s">>, <<"r">>>>), Mask(<<<<"i">>, <<"f","c">>>>), Mask(<<>>)})
           ELSE NilMask
      ns == IF Focus = "c01" THEN R(0..1) ELSE R(1..3)
  IN [n |-> k, res |-> IF isVal THEN "val" ELSE "coll", icpt |-> icpt, equiv |-> Flip(k, 30), now |-> R(3..5),
      init |-> store, vinit |-> val,
      subs |-> [j \in 1..ns |-> Sub(k)],
      W |-> W,
      calls |-> [j \in 1..nc |-> LET cl == IF isVal THEN ValCall(k, val) ELSE CollCall(k, icpt, store)
                                 IN [cl EXCEPT !.o.W = W]]]

GenInit == c \in { Prog(k) : k \in 1..NCases }
GenNext == UNCHANGED c
EmitCase == PrintT("CASE " \o ToJson(c))
=============================================================================
