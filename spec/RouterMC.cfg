INIT MCInit
NEXT MCNext
INVARIANTS EveryReportIsATransition OneRemoveReturnsTheClient SingleCommit ReturnedWasRegistered NotFoundOnlyWithoutSource ChangeLogMatches RegistryIsFold MapReturns
CONSTANTS
  NCases = 0
  Precheck = FALSE
