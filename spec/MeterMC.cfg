SPECIFICATION Spec
INVARIANTS StartNotAfterEnd StartKept EndNotInFuture
