SPECIFICATION Spec
CONSTRAINT Bounded
INVARIANTS SortedMap FoldMatches FailureIsNoop OnePerSuccess GenIdFresh OldChains LastNewIsStore
VIEW ViewNoHist
