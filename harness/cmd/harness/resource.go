package main

import (
	"context"
	"encoding/base64"
	"fmt"
	"reflect"
	"strings"
	"sync"
	"time"

	"google.golang.org/grpc/codes"
	"google.golang.org/grpc/status"
	"google.golang.org/protobuf/proto"

	"github.com/smart-core-os/sc-api/go/types"
	"github.com/smart-core-os/sc-golang/internal/testproto"
	"github.com/smart-core-os/sc-golang/pkg/cmp"
	"github.com/smart-core-os/sc-golang/pkg/resource"
	"github.com/smart-core-os/sc-golang/verifharness/hx"
	"github.com/smart-core-os/sc-golang/verifharness/mini"
)

// ---- abstraction: ids, time, optional messages, events ---------------------

// abstract id -> concrete id; "g<k>" is what the scripted random source yields on attempt k
// (6+k-1 random bytes -> that many base64 characters, all 'g' = sextet 100000)
var concID = func() map[string]string {
	m := map[string]string{"": "", "A": "AAAAAAAA", "a": "aaaaaaaa", "b": "bbbbbbbb", "g": "gggggggg"}
	for k := 2; k <= 10; k++ {
		m[fmt.Sprintf("g%d", k)] = strings.Repeat("g", base64.RawURLEncoding.EncodedLen(6+k-1))
	}
	return m
}()
var idOrder = []string{"A", "a", "b", "g", "g2", "g3", "g4", "g5", "g6", "g7", "g8", "g9", "g10"}
var absIDm = func() map[string]string {
	m := map[string]string{}
	for k, v := range concID {
		m[v] = k
	}
	return m
}()

func absID(c string) string {
	if a, ok := absIDm[c]; ok {
		return a
	}
	return "?" + c
}

var epoch = time.Unix(1_700_000_000, 0)

// tick 11 is Go's zero time.Time and tick 12 the Unix epoch: both are write times like any other
func concTime(t int) time.Time {
	switch t {
	case 11:
		return time.Time{}
	case 12:
		return time.Unix(0, 0)
	}
	return epoch.Add(time.Duration(t) * time.Second)
}
func absTime(t time.Time) int {
	if t.Equal(time.Time{}) {
		return 11
	}
	if t.Equal(time.Unix(0, 0)) {
		return 12
	}
	d := t.Sub(epoch)
	if d%time.Second != 0 || d < 0 || d > 1000*time.Second {
		return -7 // not a time the harness clock or a write time ever produced
	}
	return int(d / time.Second)
}

type optMsg struct {
	Has bool     `json:"has"`
	V   mini.Msg `json:"v"`
}

func absOpt(m proto.Message) optMsg {
	if m == nil || !m.ProtoReflect().IsValid() {
		return optMsg{V: mini.Empty()}
	}
	return optMsg{Has: true, V: mini.Abs(m)}
}

type absEvent struct {
	ID       string `json:"id"`
	Type     string `json:"type"`
	Old      optMsg `json:"old"`
	New      optMsg `json:"new"`
	Ct       int    `json:"ct"`
	Seed     bool   `json:"seed"`
	LastSeed bool   `json:"lastSeed"`
}

func absCollEvent(e *resource.CollectionChange) absEvent {
	t := e.ChangeType.String()
	return absEvent{ID: absID(e.Id), Type: t, Old: absOpt(e.OldValue), New: absOpt(e.NewValue),
		Ct: absTime(e.ChangeTime), Seed: e.SeedValue, LastSeed: e.LastSeedValue}
}
func absValEvent(e *resource.ValueChange) absEvent {
	return absEvent{ID: "", Type: "UPDATE", Old: optMsg{V: mini.Empty()}, New: absOpt(e.Value),
		Ct: absTime(e.ChangeTime), Seed: e.SeedValue, LastSeed: e.LastSeedValue}
}

type absItem struct {
	ID   string   `json:"id"`
	Body mini.Msg `json:"body"`
	Ct   int      `json:"ct"`
}
type absVal struct {
	Has bool     `json:"has"`
	V   mini.Msg `json:"v"`
	Ct  int      `json:"ct"`
}

// ---- program format --------------------------------------------------------

type incT struct {
	Nil bool                       `json:"nil"`
	T   map[string]map[string]bool `json:"t"`
}

// allInc is the "no predicate" value with a fully populated table (TLC reads uniform records).
func allInc() incT {
	t := map[string]map[string]bool{}
	for _, id := range idOrder {
		t[id] = map[string]bool{"none": true, "i0": true, "i1": true, "i2": true}
	}
	return incT{Nil: true, T: t}
}

type subOpts struct {
	Pid         string    `json:"pid"` // single-item subscription (PullID) to this abstract id; "" = Pull
	UpdatesOnly bool      `json:"updatesOnly"`
	Mask        mini.Mask `json:"mask"`
	Inc         incT      `json:"inc"`
}

type wopts struct {
	M     mini.Mask `json:"M"`
	R     mini.Mask `json:"R"`
	Mm    mini.Mask `json:"mm"`
	W     mini.Mask `json:"W"`  // the resource's writable fields (echoed; set from program.W)
	Mw    mini.Mask `json:"mw"` // WithMoreWritableFields
	Aw    bool      `json:"aw"` // WithAllFieldsWritable
	Ev    optMsg    `json:"ev"`
	Chk   int       `json:"chk"`
	Xa    bool      `json:"xa"`
	Cia   bool      `json:"cia"`
	Am    bool      `json:"am"`
	Gen   bool      `json:"gen"`
	First string    `json:"first"`
	Ib    int       `json:"ib"`
	Ia    int       `json:"ia"`
	Wt    int       `json:"wt"`
}

type call struct {
	Op   string    `json:"op"` // Update Add Delete Get List | Set VGet | Tick
	ID   string    `json:"id"`
	Msg  mini.Msg  `json:"msg"`
	O    wopts     `json:"o"`
	Mask mini.Mask `json:"mask"`
	Inc  incT      `json:"inc"`
}

type program struct {
	N     int       `json:"n"`
	Res   string    `json:"res"` // "coll" | "val"
	Icpt  string    `json:"icpt"`
	Equiv bool      `json:"equiv"`
	W     mini.Mask `json:"W"`
	Now   int       `json:"now"`
	Init  []absItem `json:"init"`
	VInit absVal    `json:"vinit"`
	Subs  []subOpts `json:"subs"`
	Calls []call    `json:"calls"`
}

// one observation line
type obsLine struct {
	Prog  int       `json:"prog"`
	Step  int       `json:"step"`
	Res   string    `json:"res"`
	Op    string    `json:"op"`
	Icpt  string    `json:"icpt"`
	Equiv bool      `json:"equiv"`
	Now   int       `json:"now"`
	Pre   []absItem `json:"pre"`
	VPre  absVal    `json:"vpre"`
	ID    string    `json:"id"`
	Msg   mini.Msg  `json:"msg"`
	O     wopts     `json:"o"`
	Mask  mini.Mask `json:"mask"`
	Inc   incT      `json:"inc"`

	Err   string     `json:"err"`
	Ret   optMsg     `json:"ret"`
	Found bool       `json:"found"`
	List  []mini.Msg `json:"list"`
	Post  []absItem  `json:"post"`
	VPost absVal     `json:"vpost"`
	Idcb  []string   `json:"idcb"`
	Ccb   int        `json:"ccb"`
	Panic string     `json:"panic"`
	// the callee wrote into the spare capacity of the option slice it was handed
	OptsTouched bool `json:"optsTouched"`

	Subs         []subOpts    `json:"subs"`
	ClosedBefore []bool       `json:"closedBefore"` // per subscriber: its channel had been closed by the library before the call
	ClosedAfter  []bool       `json:"closedAfter"`
	Held         []optMsg     `json:"held"`  // Value subscribers: what each holds before the call
	Deliv        [][]absEvent `json:"deliv"` // per subscriber: what it was handed because of this call
}

// ---- scripted environment --------------------------------------------------

type hclock struct {
	mu  sync.Mutex
	now int
}

func (c *hclock) Now() time.Time { c.mu.Lock(); defer c.mu.Unlock(); return concTime(c.now) }
func (c *hclock) set(t int)      { c.mu.Lock(); c.now = t; c.mu.Unlock() }

type scriptRNG struct {
	mu    sync.Mutex
	first string
	calls int
}

func (r *scriptRNG) arm(first string) { r.mu.Lock(); r.first, r.calls = first, 0; r.mu.Unlock() }
func (r *scriptRNG) Read(p []byte) (int, error) {
	r.mu.Lock()
	defer r.mu.Unlock()
	r.calls++
	id := concID[fmt.Sprintf("g%d", r.calls)]
	if r.calls == 1 {
		id = concID[r.first]
	}
	b, err := base64.RawURLEncoding.DecodeString(id)
	if err != nil || len(b) != len(p) || id == "" {
		hx.Fatal("scripted rng: attempt %d wants %d bytes, id %q does not fit", r.calls, len(p), id)
	}
	copy(p, b)
	return len(p), nil
}

func icptFunc(kind string) resource.IDInterceptor {
	switch kind {
	case "lower":
		return strings.ToLower
	case "fold":
		return func(id string) string {
			if id == "" {
				return ""
			}
			return concID["a"]
		}
	}
	return nil
}

func intOf(m proto.Message) int32 {
	if t, ok := m.(*testproto.TestAllTypes); ok && t != nil {
		return t.DefaultInt32
	}
	return 0
}

type cbCount struct {
	ids     []string
	created int
}

// optFlip alternates between the two spellings of an option (mask / paths) from one call to the next, so
// that the convenience wrappers are exercised as much as the options they wrap.
var optFlip int

// roomy hands the options over in a slice with spare capacity, the way a caller that builds several option
// lists from one base does; touched tells afterwards whether the callee wrote into that spare room (it then
// overwrote what a sibling list of the caller shares).
func roomy(ws []resource.WriteOption) []resource.WriteOption {
	buf := make([]resource.WriteOption, len(ws), len(ws)+4)
	copy(buf, ws)
	return buf
}
func touched(buf []resource.WriteOption) bool {
	for _, o := range buf[len(buf):cap(buf)] {
		if o != nil {
			return true
		}
	}
	return false
}

func writeOptions(o wopts, cb *cbCount) []resource.WriteOption {
	var ws []resource.WriteOption
	optFlip++
	paths := optFlip%2 == 0
	if !o.M.Nil {
		if paths {
			ws = append(ws, resource.WithUpdatePaths(mini.ConcMask(o.M).Paths...))
		} else {
			ws = append(ws, resource.WithUpdateMask(mini.ConcMask(o.M)))
		}
	}
	if !o.R.Nil {
		if paths {
			ws = append(ws, resource.WithResetPaths(mini.ConcMask(o.R).Paths...))
		} else {
			ws = append(ws, resource.WithResetMask(mini.ConcMask(o.R)))
		}
	}
	if !o.Mm.Nil {
		if paths {
			ws = append(ws, resource.WithMoreUpdatePaths(mini.ConcMask(o.Mm).Paths...))
		} else {
			ws = append(ws, resource.WithMoreUpdateMask(mini.ConcMask(o.Mm)))
		}
	}
	if !o.Mw.Nil {
		if paths {
			ws = append(ws, resource.WithMoreWritablePaths(mini.ConcMask(o.Mw).Paths...))
		} else {
			ws = append(ws, resource.WithMoreWritableFields(mini.ConcMask(o.Mw)))
		}
	}
	if o.Aw {
		ws = append(ws, resource.WithAllFieldsWritable())
	}
	if o.Ev.Has {
		ws = append(ws, resource.WithExpectedValue(mini.Conc(o.Ev.V)))
	}
	if o.Chk == 1 {
		ws = append(ws, resource.WithExpectedCheck(func(old proto.Message) error {
			if intOf(old) < 1 {
				return status.Error(codes.PermissionDenied, "stored i must be >= 1")
			}
			return nil
		}))
	}
	if o.Xa {
		ws = append(ws, resource.WithExpectAbsent())
	}
	if o.Cia {
		ws = append(ws, resource.WithCreateIfAbsent())
	}
	if o.Am {
		ws = append(ws, resource.WithAllowMissing(true))
	}
	if o.Gen {
		ws = append(ws, resource.WithGenIDIfAbsent())
	}
	if cb != nil {
		ws = append(ws, resource.WithIDCallback(func(id string) { cb.ids = append(cb.ids, absID(id)) }))
		ws = append(ws, resource.WithCreatedCallback(func() { cb.created++ }))
	}
	if o.Ib == 1 {
		ws = append(ws, resource.InterceptBefore(func(old, change proto.Message) {
			change.(*testproto.TestAllTypes).DefaultInt32 += intOf(old)
		}))
	}
	if o.Ia == 1 {
		ws = append(ws, resource.InterceptAfter(func(old, new proto.Message) {
			if intOf(old) != intOf(new) {
				new.(*testproto.TestAllTypes).DefaultString = "s1"
			}
		}))
	}
	if o.Ia == 2 {
		// a stamp on every successful write, whether or not the write changed anything
		ws = append(ws, resource.InterceptAfter(func(old, new proto.Message) {
			k := 0
			if t, ok := old.(*testproto.TestAllTypes); ok && t != nil {
				fmt.Sscanf(t.DefaultString, "s%d", &k)
			}
			new.(*testproto.TestAllTypes).DefaultString = fmt.Sprintf("s%d", k%3+1)
		}))
	}
	if o.Wt >= 0 {
		ws = append(ws, resource.WithWriteTime(concTime(o.Wt)))
	}
	return ws
}

func incClass(m proto.Message) string {
	if m == nil || !m.ProtoReflect().IsValid() {
		return "none"
	}
	switch intOf(m) {
	case 0:
		return "i0"
	case 1:
		return "i1"
	}
	return "i2"
}

func includeFunc(inc incT) resource.FilterFunc {
	if inc.Nil {
		return nil
	}
	return func(id string, item proto.Message) bool {
		return inc.T[absID(id)][incClass(item)]
	}
}

func readOptions(s subOpts) []resource.ReadOption {
	ro := []resource.ReadOption{resource.WithBackpressure(true), resource.WithUpdatesOnly(s.UpdatesOnly)}
	if !s.Mask.Nil {
		ro = append(ro, resource.WithReadMask(mini.ConcMask(s.Mask)))
	}
	if f := includeFunc(s.Inc); f != nil {
		ro = append(ro, resource.WithInclude(f))
	}
	return ro
}

// ---- subscriptions driven by the main goroutine ---------------------------

// subState tracks one open Pull: the forwarder's progress is reported by the
// verif hooks (got / skip / sent / seeded / exit), the harness itself is the
// receiver, so an event counted as sent has already been received here.
type subState struct {
	ch     reflect.Value // the channel returned by Pull
	got    int
	done   int
	seeded bool
	exited bool
	base   int // pump.published when the subscription was opened
	events []absEvent
	isVal  bool
	// PullID: the forwarder of the Pull it wraps reports on its own channel (inner); the PullID goroutine
	// itself reports through the pid.* hooks on ours
	inner     *subState
	key       uintptr // the channel address it is tracked under
	seedsSent int     // fwd.seed count (inner)
	sentLoop  int     // fwd.sent count (inner)
	closedLib bool
}

type pump struct {
	orphans   []*subState // entries created by hooks for channels nobody has adopted (yet)
	mu        sync.Mutex
	published int // events handed to the bus so far (all resources; programs run one at a time)
	byChan    map[uintptr]*subState
	dead      map[uintptr]bool // channels of forgotten subscriptions whose forwarder has not said goodbye yet
	wake      chan struct{}
}

var thePump = &pump{byChan: map[uintptr]*subState{}, dead: map[uintptr]bool{}, wake: make(chan struct{}, 1)}

func (p *pump) hook(point string, obj any, args ...any) {
	if point == "pub.before" || point == "del.removed" {
		// one event is about to be sent on the bus: every open subscription's forwarder must take it
		p.mu.Lock()
		p.published++
		p.mu.Unlock()
		return
	}
	if !strings.HasPrefix(point, "fwd.") && !strings.HasPrefix(point, "pid.") {
		return
	}
	key := reflect.ValueOf(obj).Pointer()
	p.mu.Lock()
	s := p.byChan[key]
	if s == nil && p.dead[key] {
		// a forwarder of a subscription we have forgotten, still going about its last event: not the start of a
		// new subscription (its channel is alive until its goroutine has said goodbye, so the address is its own)
		if point == "fwd.exit" || point == "pid.exit" {
			delete(p.dead, key)
		}
		p.mu.Unlock()
		return
	}
	if s == nil { // Pull has not returned the channel to us yet
		if point == "fwd.exit" || point == "pid.exit" {
			// a forwarder we no longer track; its channel is alive during this call,
			// so the address cannot belong to a newer subscription yet
			p.mu.Unlock()
			return
		}
		s = &subState{key: key}
		p.byChan[key] = s
		p.orphans = append(p.orphans, s)
	}
	switch point {
	case "fwd.got", "pid.got":
		s.got++
	case "fwd.skip", "pid.skip", "pid.sent":
		s.done++
	case "fwd.sent":
		s.done++
		s.sentLoop++
	case "fwd.seed":
		s.seedsSent++
	case "fwd.seeded":
		s.seeded = true
	case "fwd.exit", "pid.exit":
		// the goroutine's last word: its channel's address may be reused from now on
		s.exited = true
		if p.byChan[key] == s {
			delete(p.byChan, key)
		}
	}
	p.mu.Unlock()
	select {
	case p.wake <- struct{}{}:
	default:
	}
}

func (p *pump) poke() {
	select {
	case p.wake <- struct{}{}:
	default:
	}
}

func (p *pump) adopt(ch any, isVal bool) *subState {
	v := reflect.ValueOf(ch)
	key := v.Pointer()
	p.mu.Lock()
	defer p.mu.Unlock()
	s := p.byChan[key]
	if s == nil || s.exited || s.ch.IsValid() { // nothing yet, or a stale entry of a dead subscription at the same address
		s = &subState{key: key}
		p.byChan[key] = s
	}
	s.ch = v
	s.isVal = isVal
	s.base = p.published
	for i, o := range p.orphans {
		if o == s {
			p.orphans = append(p.orphans[:i], p.orphans[i+1:]...)
			break
		}
	}
	return s
}

// adoptPid adopts the channel PullID returned and binds the forwarder of the Pull it started (which shows up
// in the hooks under a channel we never see) to it.  Subscriptions are opened one at a time.
func (p *pump) adoptPid(open func() any) *subState {
	// whatever is unadopted now is a leftover of an earlier subscription (a forwarder reporting once more after
	// it was forgotten): what shows up from here on is the Pull that PullID starts
	p.mu.Lock()
	p.orphans = nil
	p.mu.Unlock()
	s := p.adopt(open(), true)
	s.seeded = true // the wrapper itself has no seed phase of its own
	deadline := time.Now().Add(10 * time.Second)
	for {
		p.mu.Lock()
		for len(p.orphans) > 0 && p.orphans[0] == s {
			p.orphans = p.orphans[1:]
		}
		if len(p.orphans) > 0 {
			s.inner = p.orphans[0]
			s.inner.base = s.base
			p.orphans = p.orphans[1:]
			p.mu.Unlock()
			return s
		}
		p.mu.Unlock()
		if time.Now().After(deadline) {
			p.mu.Lock()
			n, m := len(p.byChan), len(p.orphans)
			p.mu.Unlock()
			hx.Fatal("pump: the Pull inside PullID never showed up (%d tracked channels, %d orphans, outer got=%d done=%d exited=%v)", n, m, s.got, s.done, s.exited)
		}
		time.Sleep(20 * time.Microsecond)
	}
}

func (p *pump) forget(s *subState) {
	p.mu.Lock()
	delete(p.byChan, s.ch.Pointer())
	if p.byChan[s.key] == s {
		delete(p.byChan, s.key)
	}
	if !s.exited {
		p.dead[s.key] = true
	}
	if s.inner != nil {
		if p.byChan[s.inner.key] == s.inner {
			delete(p.byChan, s.inner.key)
		}
		if !s.inner.exited {
			p.dead[s.inner.key] = true
		}
	}
	p.mu.Unlock()
}

// run receives from all subs until done() holds and every forwarder is idle.
func (p *pump) run(subs []*subState, done func() bool, what string) {
	deadline := time.After(20 * time.Second)
	for {
		// read "the call has returned" BEFORE looking at the counters: once it has returned, published is
		// final, so an idle verdict computed afterwards cannot be stale
		finished := done()
		p.mu.Lock()
		idle := true
		for _, s := range subs {
			if s.inner != nil {
				in := s.inner
				innerIdle := in.exited || (in.seeded && in.got == in.done && in.got == p.published-s.base)
				// everything the inner forwarder handed over has been taken and dealt with by the wrapper
				if !s.exited && (!innerIdle || s.got != s.done || s.got != in.seedsSent+in.sentLoop) {
					idle = false
				}
				if s.exited && !s.closedLib {
					idle = false // the wrapper has said goodbye: its channel is about to close, see it close
				}
				continue
			}
			if !s.exited && (!s.seeded || s.got != s.done || s.got != p.published-s.base) {
				idle = false
			}
		}
		p.mu.Unlock()
		if idle && finished {
			return
		}
		cases := make([]reflect.SelectCase, 0, len(subs)+2)
		for _, s := range subs {
			cases = append(cases, reflect.SelectCase{Dir: reflect.SelectRecv, Chan: s.ch})
		}
		cases = append(cases, reflect.SelectCase{Dir: reflect.SelectRecv, Chan: reflect.ValueOf(p.wake)})
		cases = append(cases, reflect.SelectCase{Dir: reflect.SelectRecv, Chan: reflect.ValueOf(deadline)})
		i, v, ok := reflect.Select(cases)
		switch {
		case i < len(subs):
			if !ok {
				p.mu.Lock()
				subs[i].exited = true
				subs[i].closedLib = true
				p.mu.Unlock()
				subs[i].ch = reflect.ValueOf((chan struct{})(nil)) // never ready again
				continue
			}
			if subs[i].isVal {
				subs[i].events = append(subs[i].events, absValEvent(v.Interface().(*resource.ValueChange)))
			} else {
				subs[i].events = append(subs[i].events, absCollEvent(v.Interface().(*resource.CollectionChange)))
			}
		case i == len(subs): // woken by a hook
		default:
			p.mu.Lock()
			dump := fmt.Sprintf("published=%d", p.published)
			for i, s := range subs {
				dump += fmt.Sprintf(" | sub%d got=%d done=%d seeded=%v exited=%v base=%d", i, s.got, s.done, s.seeded, s.exited, s.base)
				if s.inner != nil {
					in := s.inner
					dump += fmt.Sprintf(" inner[got=%d done=%d seeded=%v exited=%v seeds=%d sent=%d]", in.got, in.done, in.seeded, in.exited, in.seedsSent, in.sentLoop)
				}
			}
			p.mu.Unlock()
			hx.Fatal("pump: no quiescence within 20s while %s: %s", what, dump)
		}
	}
}

// ---- running programs -------------------------------------------------------

func init() { register("resource", runResource) }

func runResource() {
	resource.VerifHook = thePump.hook
	progs := hx.ReadCases[program](hx.Arg("-cases", "cases.ndjson"))
	out := hx.NewOut(hx.Arg("-out", "obs.ndjson"))
	defer out.Close()
	for _, p := range progs {
		hx.Current(p)
		if p.Res == "val" {
			runValProgram(p, out)
		} else {
			runCollProgram(p, out)
		}
	}
}

func resOptions(p program, clk *hclock, rng *scriptRNG) []resource.Option {
	ro := []resource.Option{resource.WithClock(clk), resource.WithRNG(rng)}
	if f := icptFunc(p.Icpt); f != nil {
		ro = append(ro, resource.WithIDInterceptor(f))
	}
	if p.Equiv {
		ro = append(ro, resource.WithMessageEquivalence(cmp.Equal()))
	}
	if !p.W.Nil {
		if p.N%2 == 0 {
			ro = append(ro, resource.WithWritablePaths(&testproto.TestAllTypes{}, mini.ConcMask(p.W).Paths...))
		} else {
			ro = append(ro, resource.WithWritableFields(mini.ConcMask(p.W)))
		}
	}
	return ro
}

func collSnapshot(c *resource.Collection) []absItem {
	ctx, cancel := context.WithCancel(context.Background())
	defer cancel()
	s := thePump.adopt(c.Pull(ctx, resource.WithBackpressure(true)), false)
	defer thePump.forget(s)
	thePump.run([]*subState{s}, func() bool { return true }, "reading the collection through a Pull seed")
	items := make([]absItem, 0, len(s.events))
	for _, e := range s.events {
		items = append(items, absItem{ID: e.ID, Body: e.New.V, Ct: e.Ct})
		if !e.Seed || e.Type != "ADD" || !e.New.Has {
			items[len(items)-1].ID = "?bad-seed"
		}
	}
	// cross-check with List: same number of items, same bodies
	l := c.List()
	if len(l) != len(items) {
		items = append(items, absItem{ID: fmt.Sprintf("?list-len-%d", len(l)), Body: mini.Empty()})
	} else {
		for k := range l {
			if !proto.Equal(l[k], mini.Conc(items[k].Body)) {
				items[k].ID = "?list-differs"
			}
		}
	}
	return items
}

func runCollProgram(p program, out *hx.Out) {
	clk := &hclock{now: p.Now}
	rng := &scriptRNG{}
	c := resource.NewCollection(resOptions(p, clk, rng)...)
	for _, it := range p.Init {
		if _, err := c.Add(concID[it.ID], mini.Conc(it.Body), resource.WithWriteTime(concTime(it.Ct))); err != nil {
			hx.Fatal("program %d: cannot build the initial store: %v", p.N, err)
		}
	}
	ctx, cancel := context.WithCancel(context.Background())
	defer cancel()
	pre := collSnapshot(c)
	subs := make([]*subState, len(p.Subs))
	subCancel := make([]context.CancelFunc, len(p.Subs))
	for k, so := range p.Subs {
		var sctx context.Context
		sctx, subCancel[k] = context.WithCancel(ctx)
		if so.Pid != "" {
			so := so
			subs[k] = thePump.adoptPid(func() any { return c.PullID(sctx, concID[so.Pid], readOptions(so)...) })
		} else {
			subs[k] = thePump.adopt(c.Pull(sctx, readOptions(so)...), false)
		}
	}
	closedNow := func() []bool {
		b := make([]bool, len(subs))
		for k, s := range subs {
			b[k] = s.closedLib
		}
		return b
	}
	// a single-item subscription that the library has ended still has its inner Pull registered on the bus
	// until its context ends (with backpressure it would hold up every later write): end it now
	reap := func() {
		for k, s := range subs {
			if s.closedLib {
				subCancel[k]()
			}
		}
	}
	// the program's subscriptions are forgotten when it ends: an entry left behind could be mistaken for
	// a later subscription whose channel happens to get the same address
	defer func() {
		cancel()
		for _, s := range subs {
			thePump.forget(s)
		}
	}()
	thePump.run(subs, func() bool { return true }, "collecting seeds")
	base := obsLine{Prog: p.N, Res: "coll", Icpt: p.Icpt, Equiv: p.Equiv, Subs: p.Subs, Msg: mini.Empty(),
		List: []mini.Msg{}, Idcb: []string{}, Ret: optMsg{V: mini.Empty()}, Inc: allInc(), Mask: mini.Mask{Nil: true},
		VPre: absVal{V: mini.Empty()}, VPost: absVal{V: mini.Empty()}, Held: []optMsg{}, O: zeroOpts(),
		ClosedBefore: make([]bool, len(p.Subs)), ClosedAfter: make([]bool, len(p.Subs))}
	take := func() [][]absEvent {
		d := make([][]absEvent, len(subs))
		for k, s := range subs {
			d[k] = append([]absEvent{}, s.events...)
			s.events = nil
		}
		return d
	}
	if len(subs) > 0 {
		l := base
		l.Op, l.Step, l.Now, l.Pre, l.Post, l.Deliv = "Subscribe", 0, clk.now, pre, pre, take()
		l.ClosedBefore, l.ClosedAfter = make([]bool, len(subs)), closedNow()
		reap()
		out.Write(l)
	}
	for k, cl := range p.Calls {
		if cl.Op == "Tick" {
			clk.set(clk.now + 1)
			continue
		}
		l := base
		l.ClosedBefore = closedNow()
		l.Op, l.Step, l.Now, l.Pre, l.ID, l.O, l.Mask, l.Inc = cl.Op, k+1, clk.now, pre, cl.ID, cl.O, cl.Mask, cl.Inc
		l.Msg = cl.Msg
		cb := &cbCount{}
		rng.arm(cl.O.First)
		finished := make(chan struct{})
		go func() {
			defer close(finished)
			l.Panic = hx.Catch(func() {
				switch cl.Op {
				case "Update", "Add":
					var res proto.Message
					var err error
					ws := roomy(writeOptions(cl.O, cb))
					if cl.Op == "Add" {
						res, err = c.Add(concID[cl.ID], mini.Conc(cl.Msg), ws...)
					} else {
						res, err = c.Update(concID[cl.ID], mini.Conc(cl.Msg), ws...)
					}
					l.Err, l.Ret, l.OptsTouched = hx.Code(err), absOpt(res), touched(ws)
				case "Delete":
					ws := roomy(writeOptions(cl.O, nil))
					res, err := c.Delete(concID[cl.ID], ws...)
					l.Err, l.Ret, l.OptsTouched = hx.Code(err), absOpt(res), touched(ws)
				case "Get":
					var ro []resource.ReadOption
					if !cl.Mask.Nil {
						ro = append(ro, resource.WithReadMask(mini.ConcMask(cl.Mask)))
					}
					res, found := c.Get(concID[cl.ID], ro...)
					l.Err, l.Ret, l.Found = "OK", absOpt(res), found
				case "List":
					var ro []resource.ReadOption
					if !cl.Mask.Nil {
						ro = append(ro, resource.WithReadMask(mini.ConcMask(cl.Mask)))
					}
					if f := includeFunc(cl.Inc); f != nil {
						ro = append(ro, resource.WithInclude(f))
					}
					l.Err = "OK"
					for _, m := range c.List(ro...) {
						l.List = append(l.List, mini.Abs(m))
					}
				default:
					hx.Fatal("unknown op %q", cl.Op)
				}
			})
		}()
		isDone := func() bool {
			select {
			case <-finished:
				return true
			default:
				return false
			}
		}
		go func() { <-finished; thePump.poke() }()
		thePump.run(subs, isDone, fmt.Sprintf("program %d call %d (%s)", p.N, k+1, cl.Op))
		l.Idcb, l.Ccb = append([]string{}, cb.ids...), cb.created
		l.ClosedAfter = closedNow()
		reap()
		l.Post = collSnapshot(c)
		l.Deliv = take()
		pre = l.Post
		out.Write(l)
	}
}

func zeroOpts() wopts {
	return wopts{M: mini.Mask{Nil: true}, R: mini.Mask{Nil: true}, Mm: mini.Mask{Nil: true}, W: mini.Mask{Nil: true}, Mw: mini.Mask{Nil: true}, Ev: optMsg{V: mini.Empty()}, First: "g", Wt: -1}
}

func valSnapshot(v *resource.Value) absVal {
	ctx, cancel := context.WithCancel(context.Background())
	defer cancel()
	s := thePump.adopt(v.Pull(ctx, resource.WithBackpressure(true)), true)
	defer thePump.forget(s)
	thePump.run([]*subState{s}, func() bool { return true }, "reading the value through a Pull seed")
	got := v.Get()
	switch {
	case len(s.events) == 0 && (got == nil || !got.ProtoReflect().IsValid()):
		return absVal{V: mini.Empty(), Ct: 0}
	case len(s.events) == 1 && got != nil && s.events[0].Seed && s.events[0].LastSeed && proto.Equal(got, mini.Conc(s.events[0].New.V)):
		return absVal{Has: true, V: mini.Abs(got), Ct: s.events[0].Ct}
	}
	a := absVal{Has: true, V: mini.Abs(got), Ct: -9}
	a.V.X = append(a.V.X, "?seed-and-get-disagree")
	return a
}

func runValProgram(p program, out *hx.Out) {
	clk := &hclock{now: p.VInit.Ct}
	ro := resOptions(p, clk, &scriptRNG{})
	if p.VInit.Has {
		ro = append(ro, resource.WithInitialValue(mini.Conc(p.VInit.V)))
	}
	v := resource.NewValue(ro...) // stamps the change time with the clock's now
	clk.set(p.Now)
	ctx, cancel := context.WithCancel(context.Background())
	defer cancel()
	pre := valSnapshot(v)
	if !pre.Has {
		pre.Ct = 0
	}
	subs := make([]*subState, len(p.Subs))
	held := make([]optMsg, len(p.Subs))
	for k, so := range p.Subs {
		so.Inc = allInc()
		p.Subs[k].Pid = ""
		subs[k] = thePump.adopt(v.Pull(ctx, readOptions(so)...), true)
		held[k] = optMsg{V: mini.Empty()}
	}
	defer func() {
		cancel()
		for _, s := range subs {
			thePump.forget(s)
		}
	}()
	thePump.run(subs, func() bool { return true }, "collecting seeds")
	base := obsLine{Prog: p.N, Res: "val", Icpt: "none", Equiv: p.Equiv, Subs: p.Subs, Msg: mini.Empty(),
		List: []mini.Msg{}, Idcb: []string{}, Ret: optMsg{V: mini.Empty()}, Inc: allInc(), Mask: mini.Mask{Nil: true},
		Pre: []absItem{}, Post: []absItem{}, O: zeroOpts(),
		ClosedBefore: make([]bool, len(p.Subs)), ClosedAfter: make([]bool, len(p.Subs))}
	take := func() [][]absEvent {
		d := make([][]absEvent, len(subs))
		for k, s := range subs {
			d[k] = append([]absEvent{}, s.events...)
			for _, e := range s.events {
				held[k] = e.New
			}
			s.events = nil
		}
		return d
	}
	if len(subs) > 0 {
		l := base
		l.Op, l.Step, l.Now, l.VPre, l.VPost = "Subscribe", 0, clk.now, pre, pre
		l.Held = append([]optMsg{}, held...)
		l.Deliv = take()
		out.Write(l)
	}
	for k, cl := range p.Calls {
		if cl.Op == "Tick" {
			clk.set(clk.now + 1)
			continue
		}
		l := base
		l.Op, l.Step, l.Now, l.VPre, l.O, l.Mask, l.Msg = cl.Op, k+1, clk.now, pre, cl.O, cl.Mask, cl.Msg
		l.Held = append([]optMsg{}, held...)
		finished := make(chan struct{})
		go func() {
			defer close(finished)
			l.Panic = hx.Catch(func() {
				switch cl.Op {
				case "Set":
					ws := roomy(writeOptions(cl.O, nil))
					res, err := v.Set(mini.Conc(cl.Msg), ws...)
					l.OptsTouched = touched(ws)
					l.Err, l.Ret = hx.Code(err), absOpt(res)
				case "VGet":
					var ro []resource.ReadOption
					if !cl.Mask.Nil {
						ro = append(ro, resource.WithReadMask(mini.ConcMask(cl.Mask)))
					}
					l.Err, l.Ret = "OK", absOpt(v.Get(ro...))
				default:
					hx.Fatal("unknown op %q", cl.Op)
				}
			})
		}()
		isDone := func() bool {
			select {
			case <-finished:
				return true
			default:
				return false
			}
		}
		go func() { <-finished; thePump.poke() }()
		thePump.run(subs, isDone, fmt.Sprintf("program %d call %d (%s)", p.N, k+1, cl.Op))
		l.VPost = valSnapshot(v)
		if !l.VPost.Has {
			l.VPost.Ct = 0
		}
		l.Deliv = take()
		pre = l.VPost
		out.Write(l)
	}
}

var _ = types.ChangeType_ADD
