SPECIFICATION Spec
INVARIANTS TypeOK MsgsPrefix OkMeansAll TerminalUnique TermSource HeaderReads HeaderFrozen TrailerReads ServerGotClientMsgs PendingIsBlocked NoDeadEnd QuietAfterSeenCancel
CONSTANT HandsOverSendersMessage = FALSE
CONSTANT LateSetHeaderJoins = TRUE
