---------------------------- MODULE IsolationTrace ----------------------------
(***************************************************************************)
(* Trace use of Isolation.tla.  One line of obs.ndjson = one step of a walk *)
(* on the real object under test (harness/cmd/isolation):                   *)
(*   kind     "new" (construction), "call" (one operation), "scribble" (the *)
(*            caller overwrote every field of the messages he handed to the *)
(*            write named by op), "recheck" (nothing called)                *)
(*   ro       the operation is read-only (Get, List, Pull + seed, Describe) *)
(*   nh       live handed-out handles compared after the step               *)
(*   changed  the handles among them whose content differs from the copy    *)
(*            frozen when they crossed the boundary: [h, from, was, now,    *)
(*            fields] with was/now = content digests (never scribbled on by *)
(*            the caller: those handles are exempt)                         *)
(*   pre/post digest of the full read-back of the object (Get / List of     *)
(*            everything, without masks) before and after the step          *)
(* The three statements of Isolation.tla are evaluated on every line.       *)
(* Deliberately not asserted: what happens to the caller's own argument     *)
(* during the call (masks filter it in place); messages passed to           *)
(* constructors (not a write); pointer identity of a read result with the   *)
(* stored message (only change over time counts); handles that ARE the      *)
(* message objects the caller scribbled on (on a "scribble" line the caller  *)
(* writes through his message in place: every other handle that changes     *)
(* with it is listed in changed and judged by HandedOutStable);             *)
(* the read-back changing during a "recheck" (no operation to blame).       *)
(***************************************************************************)
EXTENDS Isolation

Obs == ndJsonDeserialize("obs.ndjson")
If(b, name) == IF b THEN {} ELSE {name}

Fails(t) ==
  If(ObsHandedOutStable(t), "handed-out-message-changed")
  \cup If(ObsReadOnlyFrame(t), "read-only-op-changed-state")
  \cup If(ObsStoreIsolated(t), "caller-scribble-changed-store")
  \cup If(t.nh <= MaxLive, "too-many-live-handles")

BadLines == { k \in 1..Len(Obs) : Fails(Obs[k]) # {} }
TraceInit == GenInit
TraceNext == GenNext
EmitBad == \A k \in BadLines : PrintT("BAD " \o ToJson([line |-> k, fails |-> Fails(Obs[k])]))
TraceChecked == EmitBad /\ PrintT("CHECKED " \o ToString(Len(Obs)))
=============================================================================
