// Command lossy replays behaviours of spec/Lossy.tla on the real lossy
// stages: directly on resource.mergeCollectionExcess / minibus.DropExcess
// (sends and receives are rendezvous with the stage's goroutine, so the
// consumer's receive pattern is exactly the one prescribed) and end to end
// through Collection.Pull / Value.Pull without backpressure, and it checks
// the blocking side of C09 (backpressure: the writer waits for delivery;
// Value.Set gives up after its send timeout).
package main

import (
	"context"
	"fmt"
	"time"

	"google.golang.org/protobuf/proto"

	"github.com/smart-core-os/sc-api/go/types"
	"github.com/smart-core-os/sc-golang/internal/minibus"
	"github.com/smart-core-os/sc-golang/internal/testproto"
	"github.com/smart-core-os/sc-golang/pkg/resource"
	"github.com/smart-core-os/sc-golang/verifharness/hx"
)

type chg struct {
	Type string `json:"type"`
	ID   int    `json:"id"`
	Old  int    `json:"old"`
	New  int    `json:"new"`
}
type stepT struct {
	A string `json:"a"` // "in" | "out"
	E chg    `json:"e"`
}
type caseT struct {
	N     int     `json:"n"`
	Kind  string  `json:"kind"`
	Mode  string  `json:"mode"` // "stage" | "e2e" | "blocking" | "timeout"
	Steps []stepT `json:"steps"`
	Truth []int   `json:"truth"`
}
type obsT struct {
	N        int     `json:"n"`
	Kind     string  `json:"kind"`
	Mode     string  `json:"mode"`
	Steps    []stepT `json:"steps"`
	Truth    []int   `json:"truth"`
	Got      []chg   `json:"got"`      // what the consumer received, in order ("stage": one per out step)
	WriteMs  []int   `json:"writeMs"`  // e2e: how long each write took (ms)
	Closed   bool    `json:"closed"`   // the stage's output closed after its input closed / the context ended
	Problem  string  `json:"problem"`  // the harness could not run the case (inconclusive)
	Blocked  bool    `json:"blocked"`  // blocking: the second write was still waiting while the consumer did not receive
	Released bool    `json:"released"` // blocking: it returned once the consumer received
	SetErr   string  `json:"setErr"`   // timeout: what Value.Set returned
	SetMs    int     `json:"setMs"`
	Panic    string  `json:"panic"`
}

var ids = []string{"", "aaaaaaaa", "bbbbbbbb", "cccccccc", "zzzzzzzz"}

func msg(v int) proto.Message {
	if v == 0 {
		return nil
	}
	return &testproto.TestAllTypes{DefaultInt32: int32(v)}
}
func val(m proto.Message) int {
	if m == nil || !m.ProtoReflect().IsValid() {
		return 0
	}
	return int(m.(*testproto.TestAllTypes).DefaultInt32)
}
func idOf(s string) int {
	for i, x := range ids {
		if x == s && i > 0 {
			return i
		}
	}
	return -1
}

var typeOf = map[string]types.ChangeType{"ADD": types.ChangeType_ADD, "UPDATE": types.ChangeType_UPDATE,
	"REMOVE": types.ChangeType_REMOVE, "REPLACE": types.ChangeType_REPLACE}

func absColl(c *resource.CollectionChange) chg {
	return chg{Type: c.ChangeType.String(), ID: idOf(c.Id), Old: val(c.OldValue), New: val(c.NewValue)}
}

// ---- the stage on its own -----------------------------------------------------

func runStage(c caseT) obsT {
	o := obsT{N: c.N, Kind: c.Kind, Mode: "stage", Steps: c.Steps, Truth: c.Truth, Got: []chg{}, WriteMs: []int{}}
	in := make(chan any)
	var out <-chan any
	if c.Kind == "val" {
		out = minibus.DropExcess(in)
	} else {
		out = resource.VerifMergeCollectionExcess(in)
	}
	for k, st := range c.Steps {
		switch st.A {
		case "in":
			var ev any
			if c.Kind == "val" {
				ev = &resource.ValueChange{Value: msg(st.E.New)}
			} else {
				ev = &resource.CollectionChange{Id: ids[st.E.ID], ChangeType: typeOf[st.E.Type], OldValue: msg(st.E.Old), NewValue: msg(st.E.New)}
			}
			select {
			case in <- ev:
			case <-time.After(5 * time.Second):
				// the stage does not take input although nothing else is asked of it: the producer is blocked
				o.Got = append(o.Got, chg{Type: "PRODUCER-BLOCKED", ID: k})
				return o
			}
		case "out":
			select {
			case ev, ok := <-out:
				if !ok {
					o.Got = append(o.Got, chg{Type: "CLOSED"})
					return o
				}
				if c.Kind == "val" {
					o.Got = append(o.Got, chg{Type: "UPDATE", ID: 1, Old: st.E.Old, New: val(ev.(*resource.ValueChange).Value)})
				} else {
					o.Got = append(o.Got, absColl(ev.(*resource.CollectionChange)))
				}
			case <-time.After(5 * time.Second):
				o.Got = append(o.Got, chg{Type: "NOTHING-TO-RECEIVE", ID: k})
				return o
			}
		}
	}
	// nothing may be pending now (the behaviour is complete) ...
	select {
	case ev, ok := <-out:
		if ok {
			_ = ev
			o.Got = append(o.Got, chg{Type: "EXTRA"})
		}
	case <-time.After(2 * time.Millisecond):
	}
	// ... and the stage ends when its input does
	close(in)
	select {
	case _, ok := <-out:
		o.Closed = !ok
	case <-time.After(5 * time.Second):
	}
	return o
}

// ---- end to end ---------------------------------------------------------------------

// odd reports whether the item's value is odd: the include predicate of the "e2e-inc" mode
// (C08: a lossy, include-filtered Pull still folds to the filtered collection).
func odd(_ string, m proto.Message) bool { return m != nil && val(m)%2 == 1 }

func runE2E(c caseT) obsT {
	o := obsT{N: c.N, Kind: c.Kind, Mode: c.Mode, Steps: c.Steps, Truth: c.Truth, Got: []chg{}, WriteMs: []int{}}
	ctx, cancel := context.WithCancel(context.Background())
	defer cancel()
	timed := func(f func() error) bool {
		t0 := time.Now()
		done := make(chan error, 1)
		go func() { done <- f() }()
		select {
		case err := <-done:
			o.WriteMs = append(o.WriteMs, int(time.Since(t0)/time.Millisecond))
			if err != nil {
				o.Problem = "write failed: " + err.Error()
				return false
			}
			return true
		case <-time.After(3 * time.Second):
			// the write is waiting for the slow reader
			o.WriteMs = append(o.WriteMs, -1)
			return false
		}
	}
	if c.Kind == "val" {
		v := resource.NewValue(resource.WithInitialValue(msg(100)))
		ch := v.Pull(ctx, resource.WithBackpressure(false), resource.WithUpdatesOnly(true))
		recv := func(d time.Duration) (chg, bool) {
			select {
			case e, ok := <-ch:
				if !ok {
					return chg{}, false
				}
				return chg{Type: "UPDATE", ID: 1, New: val(e.Value)}, true
			case <-time.After(d):
				return chg{}, false
			}
		}
		for _, st := range c.Steps {
			if st.A == "in" {
				if !timed(func() error { _, err := v.Set(msg(st.E.New)); return err }) {
					return o
				}
			} else if e, ok := recv(5 * time.Second); ok {
				o.Got = append(o.Got, e)
			}
		}
		// drain: a last write whose value must come through
		if !timed(func() error { _, err := v.Set(msg(999)); return err }) {
			return o
		}
		o.WriteMs = o.WriteMs[:len(o.WriteMs)-1]
		for {
			e, ok := recv(5 * time.Second)
			if !ok {
				o.Problem = "sentinel never arrived"
				return o
			}
			o.Got = append(o.Got, e)
			if e.New == 999 {
				break
			}
		}
		// for a Value the drain write is part of the history (the single slot may merge it with the last value)
		o.Truth = []int{999}
		return o
	}
	// every third run the collection already holds an item (under an id the behaviours never touch) and the
	// subscription takes its seed: the consumer is idle while the seed is still waiting for it, and the writes go
	// through all the same
	seeded := c.Mode == "e2e" && c.N%3 == 0
	var col *resource.Collection
	ro := []resource.ReadOption{resource.WithBackpressure(false), resource.WithUpdatesOnly(!seeded)}
	if seeded {
		col = resource.NewCollection(resource.WithInitialRecord("seedseed", msg(500)))
	} else {
		col = resource.NewCollection()
	}
	if c.Mode == "e2e-inc" {
		ro = append(ro, resource.WithInclude(odd))
	}
	ch := col.Pull(ctx, ro...)
	outWait := 5 * time.Second
	if c.Mode == "e2e-inc" {
		outWait = 2 * time.Millisecond // the pending change may be one the predicate excludes: nothing to receive then
	}
	recv := func(d time.Duration) (chg, bool) {
		select {
		case e, ok := <-ch:
			if !ok {
				return chg{}, false
			}
			if e.SeedValue {
				// (the seed of the item the behaviour does not know about: take the next one)
				select {
				case e, ok = <-ch:
					if !ok {
						return chg{}, false
					}
				case <-time.After(d):
					return chg{}, false
				}
			}
			return absColl(e), true
		case <-time.After(d):
			return chg{}, false
		}
	}
	for _, st := range c.Steps {
		if st.A == "in" {
			f := func() error {
				var err error
				switch st.E.Type {
				case "ADD":
					_, err = col.Add(ids[st.E.ID], msg(st.E.New))
				case "UPDATE":
					// (every other run writes its updates as upserts: an upsert of an existing item is an update too)
					if c.N%2 == 0 {
						_, err = col.Update(ids[st.E.ID], msg(st.E.New), resource.WithCreateIfAbsent())
					} else {
						_, err = col.Update(ids[st.E.ID], msg(st.E.New))
					}
				case "REMOVE":
					_, err = col.Delete(ids[st.E.ID])
				}
				return err
			}
			if !timed(f) {
				return o
			}
		} else if e, ok := recv(outWait); ok {
			o.Got = append(o.Got, e)
		}
	}
	if !timed(func() error { _, err := col.Add(ids[4], msg(999)); return err }) {
		return o
	}
	o.WriteMs = o.WriteMs[:len(o.WriteMs)-1]
	for {
		e, ok := recv(5 * time.Second)
		if !ok {
			o.Problem = "sentinel never arrived"
			return o
		}
		if e.ID == 4 {
			break
		}
		o.Got = append(o.Got, e)
	}
	return o
}

// ---- backpressure: the writer waits for delivery ---------------------------------------------

func runBlocking(c caseT) obsT {
	o := obsT{N: c.N, Kind: c.Kind, Mode: "blocking", Steps: []stepT{}, Truth: []int{}, Got: []chg{}, WriteMs: []int{}}
	ctx, cancel := context.WithCancel(context.Background())
	defer cancel()
	var write func(v int) error
	var recv func() (int, bool)
	if c.Kind == "val" {
		v := resource.NewValue(resource.WithInitialValue(msg(100)))
		ch := v.Pull(ctx, resource.WithBackpressure(true), resource.WithUpdatesOnly(true))
		write = func(x int) error { _, err := v.Set(msg(x)); return err }
		recv = func() (int, bool) {
			select {
			case e := <-ch:
				return val(e.Value), true
			case <-time.After(5 * time.Second):
				return 0, false
			}
		}
	} else {
		col := resource.NewCollection()
		ch := col.Pull(ctx, resource.WithBackpressure(true), resource.WithUpdatesOnly(true))
		write = func(x int) error { _, err := col.Update(ids[1], msg(x), resource.WithCreateIfAbsent()); return err }
		recv = func() (int, bool) {
			select {
			case e := <-ch:
				return val(e.NewValue), true
			case <-time.After(5 * time.Second):
				return 0, false
			}
		}
	}
	// the first write is taken by the forwarding goroutine; the second has nobody to hand its event to
	if err := write(1); err != nil {
		o.Problem = err.Error()
		return o
	}
	done := make(chan error, 1)
	go func() { done <- write(2) }()
	select {
	case <-done:
		o.Blocked = false // it did not wait for the reader
		return o
	case <-time.After(150 * time.Millisecond):
		o.Blocked = true
	}
	// every write is delivered, in order, once the reader receives
	for want := 1; want <= 2; want++ {
		got, ok := recv()
		o.Got = append(o.Got, chg{Type: "UPDATE", ID: 1, New: got})
		if !ok {
			return o
		}
	}
	select {
	case <-done:
		o.Released = true
	case <-time.After(4 * time.Second):
	}
	return o
}

// ---- Value.Set gives up after its send timeout ---------------------------------------------------

func runTimeout(c caseT) obsT {
	o := obsT{N: c.N, Kind: "val", Mode: "timeout", Steps: []stepT{}, Truth: []int{}, Got: []chg{}, WriteMs: []int{}}
	ctx, cancel := context.WithCancel(context.Background())
	defer cancel()
	v := resource.NewValue(resource.WithInitialValue(msg(100)))
	_ = v.Pull(ctx, resource.WithBackpressure(true), resource.WithUpdatesOnly(true)) // a reader that never receives
	if _, err := v.Set(msg(1)); err != nil {
		o.Problem = "first write: " + err.Error()
		return o
	}
	t0 := time.Now()
	done := make(chan error, 1)
	go func() { _, err := v.Set(msg(2)); done <- err }()
	select {
	case err := <-done:
		o.SetMs = int(time.Since(t0) / time.Millisecond)
		if err == nil {
			o.SetErr = "OK"
		} else {
			o.SetErr = "error"
		}
	case <-time.After(12 * time.Second):
		o.SetMs = -1
		o.SetErr = "hung"
	}
	return o
}

func main() {
	if hx.Arg("-tscript", "") != "" {
		runTScripts(hx.Arg("-tscript", ""), hx.Arg("-out", "tobs.ndjson"))
		return
	}
	cases := hx.ReadCases[caseT](hx.Arg("-cases", "cases.ndjson"))
	out := hx.NewOut(hx.Arg("-out", "obs.ndjson"))
	defer out.Close()
	bad := 0
	for _, c := range cases {
		if bad >= 25 {
			break // judged on the first failing runs: every further one costs seconds of timeouts
		}
		hx.Current(c)
		var o obsT
		p := hx.Catch(func() {
			switch c.Mode {
			case "e2e", "e2e-inc":
				o = runE2E(c)
			case "blocking":
				o = runBlocking(c)
			case "timeout":
				o = runTimeout(c)
			default:
				o = runStage(c)
			}
		})
		if p != "" {
			o = obsT{N: c.N, Kind: c.Kind, Mode: c.Mode, Steps: c.Steps, Truth: c.Truth, Got: []chg{}, WriteMs: []int{}, Panic: p}
		}
		if o.Steps == nil {
			o.Steps = []stepT{}
		}
		if o.Truth == nil {
			o.Truth = []int{}
		}
		if o.Problem != "" || o.Panic != "" || !o.Closed && o.Mode == "stage" {
			bad++
		}
		for _, ms := range o.WriteMs {
			if ms < 0 {
				bad++
			}
		}
		for _, g := range o.Got {
			if g.Type == "PRODUCER-BLOCKED" || g.Type == "NOTHING-TO-RECEIVE" {
				bad++
			}
		}
		out.Write(o)
	}
	_ = fmt.Sprint
}
