---------------------------- MODULE Paging ----------------------------
(***************************************************************************)
(* C15: paged List RPCs.  A listing is a sequence of distinct keys (held  *)
(* fixed while paging); a request carries a page size and a page token;   *)
(* an answer is an error status or a page (items, next token, total).     *)
(* Two token schemes occur in the library:                                 *)
(*   "lastkey"  token = key of the last item of the previous page, the     *)
(*              next page starts at the first key greater than it          *)
(*              (electric, hail, parent, publication, vending x2)          *)
(*   "index"    token = number of items still to be delivered, counting    *)
(*              down from the newest record (waste)                        *)
(* Three uses:                                                             *)
(*   MC    (PagingMC.cfg)    the (items, token) state machine over every    *)
(*                           small listing, page size and start token      *)
(*   Gen   (PagingGen.cfg)   the property's (n, size, ids) grid printed as  *)
(*                           CASE lines with the reference page boundaries *)
(*   Trace (PagingTrace.tla) the property predicates evaluated on the      *)
(*                           pages the real servers returned               *)
(***************************************************************************)
EXTENDS Integers, Sequences, FiniteSets, TLC, Json, Randomization

CONSTANTS Default,    \* page size used when the request says 0   (library: 50;   MC: 2)
          Max,        \* largest page ever returned                (library: 1000; MC: 4)
          Scope       \* 1 = quick domain / grid, 2 = thorough

VARIABLE c

Min(a, b) == IF a < b THEN a ELSE b
Cap(size) == IF size = 0 THEN Default ELSE IF size > Max THEN Max ELSE size
\* the property's wording, stated without Cap: "no larger than requested (default, capped)"
Allowed(size, len) == len <= Max /\ (size = 0 => len <= Default) /\ (size > 0 => len <= size)

----------------------------------------------------------------------------
(* Keys are non-empty sequences of naturals ordered lexicographically, a    *)
(* proper prefix first: the order of Go strings when every number stands   *)
(* for one character of an ascending alphabet.                             *)
KeyLt(a, b) ==
  IF Len(a) = 1 /\ Len(b) = 1 THEN a[1] < b[1]
  ELSE LET d == { i \in 1..Min(Len(a), Len(b)) : a[i] # b[i] } IN
       IF d = {} THEN Len(a) < Len(b)
       ELSE LET i == CHOOSE i \in d : \A j \in d : i <= j IN a[i] < b[i]

RECURSIVE KeysOfLen(_, _)
KeysOfLen(A, l) == IF l = 0 THEN {<<>>} ELSE { Append(k, a) : k \in KeysOfLen(A, l - 1), a \in 1..A }
Keys(A, L) == UNION { KeysOfLen(A, l) : l \in 1..L }

\* the listing of a set of keys
Sorted(S) == LET rank(k) == 1 + Cardinality({ j \in S : KeyLt(j, k) })
             IN [i \in 1..Cardinality(S) |-> CHOOSE k \in S : rank(k) = i]
Ranks(n) == [i \in 1..n |-> <<i>>]          \* the listing 1, 2, .., n

----------------------------------------------------------------------------
(* Tokens and answers                                                      *)
NoTok      == [kind |-> "none",    key |-> <<>>, idx |-> 0]
KeyTok(k)  == [kind |-> "key",     key |-> k,    idx |-> 0]
IdxTok(i)  == [kind |-> "idx",     key |-> <<>>, idx |-> i]
Garbage    == [kind |-> "garbage", key |-> <<>>, idx |-> 0]   \* does not decode

Err   == [status |-> "InvalidArgument", items |-> <<>>, next |-> NoTok, total |-> 0]
Panic == [status |-> "Panic",           items |-> <<>>, next |-> NoTok, total |-> 0]

\* what the property text settles: these requests are answered with an error status
Rejected(sch, tok, size) ==
  \/ size < 0
  \/ tok.kind = "garbage"
  \/ sch = "lastkey" /\ tok.kind = "idx"
  \/ sch = "index"   /\ tok.kind = "key"

\* items[first..last] is taken the way a slice expression does it: out of range is a panic
InRange(items, first, last) == 1 <= first /\ first <= last + 1 /\ last <= Len(items)

(* "last key" scheme.  keep = TRUE is the variant the library implements:  *)
(* the token is dropped only when the page would reach beyond the end, so  *)
(* a listing that ends exactly on a page boundary is followed by one empty *)
(* page; keep = FALSE drops it as soon as the page reaches the end.  The   *)
(* property allows both.  A token naming an absent (deleted) key continues *)
(* after the place where it would be.                                      *)
PageLK(items, tok, size, keep) ==
  IF Rejected("lastkey", tok, size) THEN Err
  ELSE LET n     == Len(items)
           cap   == Cap(size)
           first == IF tok.kind = "none" THEN 1
                    ELSE 1 + Cardinality({ i \in 1..n : ~KeyLt(tok.key, items[i]) })
           upper == first + cap - 1
           last  == Min(upper, n)
           more  == IF keep THEN upper <= n ELSE upper < n
       IN IF ~InRange(items, first, last) THEN Panic
          ELSE [status |-> "OK", items |-> SubSeq(items, first, last), total |-> n,
                next |-> IF more THEN KeyTok(items[last]) ELSE NoTok]

(* "index" scheme over a listing that is newest first: the token is the    *)
(* number of (oldest) items not yet delivered.  The specification refuses  *)
(* a count outside 0..n; the property text only demands that it is not a   *)
(* panic (see PagingTrace).                                                *)
PageIdx(items, tok, size) ==
  IF Rejected("index", tok, size) THEN Err
  ELSE LET n   == Len(items)
           rem == IF tok.kind = "none" THEN n ELSE tok.idx
       IN IF rem < 0 \/ rem > n THEN Err
          ELSE LET cap   == Cap(size)
                   first == n - rem + 1
                   last  == Min(first + cap - 1, n)
                   left  == rem - cap
               IN IF ~InRange(items, first, last) THEN Panic
                  ELSE [status |-> "OK", items |-> SubSeq(items, first, last), total |-> n,
                        next |-> IF left > 0 THEN IdxTok(left) ELSE NoTok]

Page(sch, items, tok, size, keep) ==
  IF sch = "lastkey" THEN PageLK(items, tok, size, keep) ELSE PageIdx(items, tok, size)

RECURSIVE Flat(_)
Flat(ps) == IF ps = <<>> THEN <<>> ELSE Head(ps) \o Flat(Tail(ps))
Range(s) == { s[i] : i \in 1..Len(s) }

----------------------------------------------------------------------------
(* Writes.  The collection under a listing is not static: between building *)
(* it and walking the pages, and between two walks, the trait's write      *)
(* operations run.  A write names a key; it is either refused (and then    *)
(* the listing must be what it was) or it changes the key set in a known   *)
(* way.  Kinds:                                                            *)
(*   create   add key            refused if the key exists                 *)
(*   update   rewrite the item   refused if the key is absent              *)
(*   delete   remove key         an absent key: refused, or with           *)
(*                               allow-missing accepted without effect     *)
(*   badmask  update through a field mask naming an unknown field: refused *)
(*   refuse   a trait-specific write the server must refuse (dispense in   *)
(*            an inconvertible unit, acknowledge with a stale version,     *)
(*            select an unknown mode, ...)                                 *)
(*   use      a trait-specific accepted write on an existing item          *)
(*            (dispense, acknowledge, select mode): contents change, the   *)
(*            key set does not                                             *)
WriteKinds == {"create", "update", "delete", "badmask", "refuse", "use"}
Refuses(K, op) == CASE op.kind = "create"  -> op.key \in K
                    [] op.kind = "update"  -> op.key \notin K
                    [] op.kind = "delete"  -> op.key \notin K /\ ~op.am
                    [] op.kind = "use"     -> op.key \notin K
                    [] OTHER               -> TRUE
Apply(K, op) == IF Refuses(K, op) THEN K
                ELSE IF op.kind = "create" THEN K \cup {op.key}
                ELSE IF op.kind = "delete" THEN K \ {op.key}
                ELSE K
RECURSIVE History(_, _)
History(K, ops) == IF ops = <<>> THEN K ELSE History(Apply(K, Head(ops)), Tail(ops))

----------------------------------------------------------------------------
(* MC: the state machine (items, token) with the pages delivered so far.   *)
(* Stage "pick" spreads the choice of scheme / size / start token over     *)
(* TLC's workers.                                                          *)
NMax   == IF Scope >= 2 THEN 7 ELSE 6
MCKeys == IF Scope >= 2 THEN Keys(2, 3) ELSE Keys(2, 2) \cup {<<1, 1, 1>>}    \* prefixes of each other
MCSizes == (0 - 2)..(Max + 2)
StartToks(sch) ==
  IF sch = "lastkey" THEN {NoTok, Garbage, IdxTok(1)} \cup { KeyTok(k) : k \in MCKeys }
  ELSE {NoTok, Garbage, KeyTok(<<1>>)} \cup { IdxTok(i) : i \in (0 - 1)..(NMax + 1) }

MCInit == c \in { [st |-> "pick", sch |-> "lastkey", keep |-> FALSE, items |-> Sorted(S), size |-> 0, sizes |-> <<0>>,
                   start |-> NoTok, tok |-> NoTok, pages |-> <<>>, totals |-> <<>>, writes |-> 0]
                  : S \in { T \in SUBSET MCKeys : Cardinality(T) <= NMax } }
(* The page size of a chain is a schedule: call i asks for sizes[i], going   *)
(* round when the schedule is shorter than the chain (a client may change   *)
(* the page size from call to call: grow, shrink, 0 = default, larger than  *)
(* the collection).  c.size is the first entry; a constant walk has a       *)
(* schedule of length one.  The token alone says where the next page        *)
(* starts, whatever the size of this or of earlier calls.                   *)
SizeOfCall(sizes, i) == sizes[((i - 1) % Len(sizes)) + 1]
\* Walk: one request with the token of the previous answer
Walk ==
  /\ c.st = "paging"
  /\ LET p == Page(c.sch, c.items, c.tok, SizeOfCall(c.sizes, Len(c.pages) + 1), c.keep) IN
     c' = IF p.status = "Panic" THEN [c EXCEPT !.st = "panic"]
          ELSE IF p.status # "OK" THEN [c EXCEPT !.st = "error"]
          ELSE [c EXCEPT !.pages = Append(@, p.items), !.totals = Append(@, p.total), !.tok = p.next,
                         !.st = IF p.next.kind = "none" THEN "done" ELSE "paging"]
\* MC of writes: after a finished walk from the first page a write may happen and the listing
\* is walked again from the first page (the number of writes per behaviour is bounded; only
\* walks with the default page size over listings of at most 4 items continue, to keep the
\* state space small)
MCWrites == IF Scope >= 2 THEN 2 ELSE 1
MCOps == { [kind |-> k, key |-> key, am |-> am] : k \in WriteKinds, key \in MCKeys, am \in BOOLEAN }
WriteThenWalkAgain ==
  /\ c.st = "done" /\ c.start = NoTok /\ c.sizes = <<0>> /\ c.writes < MCWrites /\ Len(c.items) <= 4
  /\ \E op \in MCOps :
       /\ (op.am => op.kind = "delete")
       /\ c' = [c EXCEPT !.items = Sorted(Apply(Range(c.items), op)), !.writes = @ + 1, !.st = "paging",
                          !.tok = NoTok, !.pages = <<>>, !.totals = <<>>]
MCNext ==
  \/ WriteThenWalkAgain
  \/ /\ c.st = "pick"
     /\ \E sch \in {"lastkey", "index"}, keep \in BOOLEAN, size \in MCSizes :
          \E t \in StartToks(sch) :
            /\ sch = "index" => keep
            /\ c' = [c EXCEPT !.st = "paging", !.sch = sch, !.keep = keep, !.size = size, !.sizes = <<size>>,
                               !.start = t, !.tok = t]
  \* a walk from the first page whose page size changes from call to call (every pair of
  \* non-negative sizes, alternating; listings of at most 5 items to bound the state space)
  \/ /\ c.st = "pick" /\ Len(c.items) <= 5
     /\ \E sch \in {"lastkey", "index"}, keep \in BOOLEAN, s1 \in 0..(Max + 1), s2 \in 0..(Max + 1) :
          /\ sch = "index" => keep
          /\ s1 # s2
          /\ c' = [c EXCEPT !.st = "paging", !.sch = sch, !.keep = keep, !.size = s1, !.sizes = <<s1, s2>>]
  \/ Walk

\* what a walk from the start token has to deliver
After(items, k) == SelectSeq(items, LAMBDA x : KeyLt(k, x))
Refused == \/ Rejected(c.sch, c.start, c.size)
           \/ c.sch = "index" /\ c.start.kind = "idx" /\ (c.start.idx < 0 \/ c.start.idx > Len(c.items))
Wanted == IF Refused THEN <<>>
          ELSE IF c.start.kind = "none" THEN c.items
          ELSE IF c.start.kind = "key" THEN After(c.items, c.start.key)
          ELSE SubSeq(c.items, Len(c.items) - c.start.idx + 1, Len(c.items))

NeverPanics   == c.st # "panic"
\* a state that is still paging always has a successor, so a bound on the
\* number of pages is termination of the token chain
Terminates    == Len(c.pages) <= Len(c.items) + 2
PageSizes     == \A i \in 1..Len(c.pages) : Allowed(SizeOfCall(c.sizes, i), Len(c.pages[i]))
TotalSize     == \A i \in 1..Len(c.totals) : c.totals[i] = Len(c.items)
NoDuplicate   == LET f == Flat(c.pages) IN Cardinality(Range(f)) = Len(f)
InOrder       == LET f == Flat(c.pages) IN Len(f) <= Len(Wanted) /\ f = SubSeq(Wanted, 1, Len(f))   \* a prefix of what is wanted
Complete      == c.st = "done" => Flat(c.pages) = Wanted
ErrorsExactly == /\ c.st = "error" => Refused /\ c.pages = <<>>
                 /\ Refused /\ c.st # "pick" => c.st \in {"paging", "error"} /\ c.pages = <<>>
\* the last-key scheme searches the listing by key order: every history of writes keeps it sorted
ListingSorted == \A i \in 1..(Len(c.items) - 1) : KeyLt(c.items[i], c.items[i + 1])
\* laws of the write operations (stated on the listing of the state)
WriteLaws == c.st = "pick" => LET K == Range(c.items) IN       \* (once per listing)
  \A op \in MCOps :
    /\ Refuses(K, op) => Apply(K, op) = K
    /\ op.kind \in {"update", "badmask", "refuse", "use"} => Apply(K, op) = K
    /\ op.kind = "create" /\ op.key \notin K => Apply(K, op) = K \cup {op.key}
    /\ op.kind = "delete" => Apply(K, op) = K \ {op.key}
OnlyLastEmpty == \A i \in 1..Len(c.pages) : c.pages[i] = <<>> => i = Len(c.pages) /\ c.st = "done"

----------------------------------------------------------------------------
(* Gen: the property's grid, walked by the same state machine with the     *)
(* library's constants over the listing 1..n (page boundaries do not       *)
(* depend on the ids).  Every finished walk is printed as a CASE line with *)
(* the reference page lengths and a random id set (dense enough that many  *)
(* ids are prefixes of each other); the harness turns every number of an   *)
(* id into a character of an ascending alphabet.                           *)
\* (the alphabet of the harness mixes a digit, upper and lower case, an accented and a CJK
\*  character, so the byte order of the ids is not the order after case folding or collation)
SmallKeys == Keys(5, 3)       \* 155 keys for n <= 60
BigKeys   == Keys(6, 4)       \* 1554 keys for n around 1000
Ids(n) == RandomSubset(n, IF n <= 60 THEN SmallKeys ELSE BigKeys)
RandSize(z) == RandomElement({4, 5, 6} \cup 8..49 \cup 51..70 \cup {999, 1001})

GridSizes == {0 - 5, 0 - 4, 0 - 3, 0 - 2, 0 - 1, 0, 1, 2, 3, 7, 50, 1000, 5000}
BigN   == {999, 1000, 1001}
GridN  == IF Scope >= 2 THEN 0..60
          ELSE 0..12 \cup {24, 25, 49, 50, 51, 60} \cup { RandomElement(13..59) : j \in 1..3 }
\* quick tier: the boundary sizes around 1000 only with page sizes that need few calls
SizesFor(n) == IF n \in BigN /\ Scope < 2
               THEN (IF n = 1000 THEN {0 - 1, 0, 7, 50, 1000, 5000} ELSE {0 - 5, 0, 50, 1000, 5000})
               ELSE GridSizes
RepsFor(n) == IF Scope < 2 THEN 1 ELSE IF n \in BigN THEN 2 ELSE 3      \* id sets per (n, size)
Schemes == {"lastkey", "index"}

GenWalk(sch, n, size, rep) ==
  [st |-> "paging", k |-> "walk", sch |-> sch, keep |-> TRUE, n |-> n, size |-> size, sizes |-> <<size>>,
   rep |-> rep, variant |-> 0,
   items |-> Ranks(n), start |-> NoTok, tok |-> NoTok, pages |-> <<>>, totals |-> <<>>, ids |-> {}, segs |-> <<>>]

(* chains whose page size changes from call to call: growing, shrinking,   *)
(* 0 = default in the middle, sizes at / just below / above the collection *)
(* size, sizes above the cap; plus random schedules                        *)
GenSched(sch, n, sizes, rep) == [GenWalk(sch, n, sizes[1], rep) EXCEPT !.k = "sched", !.sizes = sizes]
SchedPool(n) == {0, 1, 2, 3, 7, 50, 1000, 5000, n, n + 1} \cup (IF n > 1 THEN {n - 1} ELSE {})
RandSched(n, z) == [i \in 1..RandomElement(2..4) |-> RandomElement(SchedPool(n))]
Schedules(n) ==
  IF n \in BigN THEN { <<50, 5000>>, <<1000, 1>>, <<7, 1000>>, <<50, 0, n>> }
  ELSE { <<50, 7, 1>>, <<1, 2, 3, 7>>, <<3, 0>>, <<2, 1000>>, <<1, 5000>>, <<7, 50>>, <<2, 1>>, <<1, 0>>,
         <<1, n>>, <<1, n + 1>>, <<2, n>> } \cup (IF n > 1 THEN { <<1, n - 1>>, <<n - 1, n>> } ELSE {})
         \cup { RandSched(n, z) : z \in 1..(IF Scope >= 2 THEN 6 ELSE 2) }
\* corrupted / foreign tokens: variant 1..9 is mapped by the harness to a token class of
\* the server's scheme (PagingTrace!Malformed says which of them the property settles)
TokSizes == {0, 1, 2, 7, 50, 1000}
GenTok(sch, n, variant, rep) ==
  [st |-> "emit", k |-> "tok", sch |-> sch, keep |-> TRUE, n |-> n, size |-> RandomElement(TokSizes), sizes |-> <<0>>, rep |-> rep,
   variant |-> variant, items |-> <<>>, start |-> NoTok, tok |-> NoTok, pages |-> <<>>, totals |-> <<>>,
   ids |-> {}, segs |-> <<>>]

(* histories: a collection, then twice (some writes, a walk from the first *)
(* page).  Six of ten writes name a key that exists at that moment; the    *)
(* key space is small so that the others often do too.  listing is the     *)
(* key set the specification expects at each walk.                         *)
HistKeys == Keys(5, 2)        \* 30 keys
RandOp(K, z) ==
  LET existing == K # {} /\ RandomElement(1..10) <= 6 IN
  [kind |-> RandomElement(WriteKinds), key |-> IF existing THEN RandomElement(K) ELSE RandomElement(HistKeys),
   am |-> RandomElement(BOOLEAN)]
RECURSIVE RandOps(_, _, _)
RandOps(K, m, z) == IF m = 0 THEN <<>>
                    ELSE LET op == RandOp(K, z) IN <<op>> \o RandOps(Apply(K, op), m - 1, z + 1)
HistSizes == {0, 1, 2, 3, 7}
GenHist(sch, n, rep) ==
  LET K0   == RandomSubset(n, HistKeys)
      ops1 == RandOps(K0, RandomElement(1..3), rep)
      K1   == History(K0, ops1)
      ops2 == RandOps(K1, RandomElement(0..2), rep + 7)
      K2   == History(K1, ops2)
  IN [st |-> "emit", k |-> "hist", sch |-> sch, keep |-> TRUE, n |-> n, size |-> 0, sizes |-> <<0>>, rep |-> rep, variant |-> 0,
      items |-> <<>>, start |-> NoTok, tok |-> NoTok, pages |-> <<>>, totals |-> <<>>, ids |-> K0,
      segs |-> << [ops |-> ops1, size |-> RandomElement(HistSizes), listing |-> K1],
                  [ops |-> ops2, size |-> RandomElement(HistSizes), listing |-> K2] >>]
HistN == IF Scope >= 2 THEN 0..24 ELSE {0, 1, 2, 3, 5, 8, 12, 20}
HistReps == IF Scope >= 2 THEN 12 ELSE 6
TokN == IF Scope >= 2 THEN 0..12 \cup {49, 50, 51, 60, 1000} ELSE {0, 1, 2, 3, 5, 10, 50, 51}

Grid == { g \in (GridN \cup BigN) \X GridSizes : g[2] \in SizesFor(g[1]) }
GenInit == c \in UNION { { GenWalk(sch, g[1], g[2], r) : r \in 1..RepsFor(g[1]) } : sch \in Schemes, g \in Grid }
                 \cup UNION { { GenWalk(sch, n, RandSize(n + r), 10 + r) : r \in 1..RepsFor(n) } : sch \in Schemes, n \in GridN \cup BigN }
                 \cup UNION { { GenTok(sch, n, v, r) : r \in 1..RepsFor(n) } : sch \in Schemes, n \in TokN, v \in 1..9 }
                 \cup { GenHist(sch, n, r) : sch \in Schemes, n \in HistN, r \in 1..HistReps }
                 \cup UNION { { GenSched(sch, n, sz, 1) : sz \in Schedules(n) } : sch \in Schemes, n \in GridN \cup BigN }
GenNext == Walk
EmitCase ==
  c.st \in {"done", "error", "emit"} =>
    PrintT("CASE " \o ToJson(
      [k |-> c.k, sch |-> c.sch, n |-> c.n, size |-> IF c.k = "tok" THEN c.size ELSE c.sizes[1],
       sizes |-> IF c.k = "tok" THEN <<c.size>> ELSE c.sizes, rep |-> c.rep, variant |-> c.variant,
       ids |-> IF c.k = "hist" THEN c.ids ELSE Ids(c.n), segs |-> c.segs,
       expect |-> IF c.st = "error" THEN "error" ELSE IF c.st = "done" THEN "pages" ELSE "unsettled",
       lens |-> [i \in 1..Len(c.pages) |-> Len(c.pages[i])]]))
=============================================================================
