SPECIFICATION Spec
CONSTANTS
  Listeners = {1, 2}
  Senders = {1, 2}
  MaxSends = 1
  SendCtxMayEnd = TRUE
  ListenerLock = TRUE
  Eager = FALSE
  MaxCancels = 9
VIEW ViewNoHist
INVARIANTS ClosedOnlyWhenEmpty LockDiscipline AtMostOnce PerSenderFIFO LiveGetsAll
PROPERTIES NoSendOnClosed CancelCloses SenderNotStuck
CHECK_DEADLOCK FALSE
