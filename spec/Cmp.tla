---------------------------- MODULE Cmp ----------------------------
(***************************************************************************)
(* C16: message comparers (pkg/cmp) and their use as the equivalence of a  *)
(* resource (pkg/resource WithMessageEquivalence).                         *)
(*                                                                         *)
(* Three uses (see BUILDING.md):                                           *)
(*   MC    (CmpMC.cfg)    laws of the reference semantics defined here     *)
(*   Gen   (CmpGen.cfg)   pairs of messages + comparer configurations and  *)
(*                        write histories printed as CASE lines            *)
(*   Trace (CmpTrace.tla) the property clauses evaluated on what the real  *)
(*                        code returned                                    *)
(*                                                                         *)
(* Numbers are exact integers.  A float is [k, v]: k = "fin" stands for    *)
(* the dyadic rational v/8 (exact in float32 and float64), "nz" is -0.0,   *)
(* "nan", "pinf", "ninf" are symbolic.  Timestamps and durations are       *)
(* integers in an abstract unit; the harness maps unit u to u * scale ns   *)
(* (scale = 1 ns, 1 ms, 1 s, 1 h chosen per case) on top of a base instant,*)
(* so every comparison here is scale- and translation-invariant and stays  *)
(* far below 2^31.                                                         *)
(*                                                                         *)
(* An abstract message is one flat record (uniform shape):                 *)
(*   ty   "nil" untyped nil | "Tnil" typed nil *TestAllTypes |             *)
(*        "T" testproto.TestAllTypes | "F" testproto.ForeignMessage |      *)
(*        "P" traits.PullOnOffResponse | "A" types.AudioLevelChange |      *)
(*        "S" traits.ElectricMode.Segment (a float inside a real oneof)    *)
(*   i    T: default_int32, F: c           s   T: default_string, A: name  *)
(*   fl   T: default_float  (implicit presence)   db  T: default_double    *)
(*        S: magnitude (implicit presence)                                 *)
(*   of   T: optional_float [has, v]              rd  T: repeated_double   *)
(*        S: oneof shape { float fixed } (has = the member is set)         *)
(*   mf   T: map_int32_float keys 1, 2 -> [has, v]                         *)
(*   wk   T: default_well_known [p, ts, du, uk], ts/du = [has, t], uk =    *)
(*        unknown field 1000 carried by the nested message (0 none)        *)
(*   rw   T: repeated_well_known (elements have p = TRUE)                  *)
(*   mw   T: map_string_well_known["k"] (p = key present)                  *)
(*   nn   T: default_nested_message [p, a, fl, ts, uk]: a = .a, and inside *)
(*        .corecursive (present iff p): fl = default_float, ts =           *)
(*        default_well_known.default_timestamp (well_known present iff has)*)
(*        uk = unknown fields of .corecursive                              *)
(*   u    T: oneof_default [k, ui, una]                                     *)
(*   unk  unknown fields of the message, in wire order: a sequence of     *)
(*        entries 10*n + v = varint v (1..3) under unknown field number    *)
(*        1000 + n (n = 0, 1); one number may occur several times.  The    *)
(*        nested uk fields are such sequences too.                         *)
(*   ch   P: changes, each a message *named Change* [nm, ct, on, uk]:      *)
(*        name, change_time [has, t], on_off (0 unset, 1 ON, 2 OFF)        *)
(*   act  A: change_time [has, t] of a message NOT named Change            *)
(***************************************************************************)
EXTENDS Integers, Sequences, FiniteSets, TLC, Json

CONSTANTS NCases,      \* Gen: number of random comparer cases (stream cases: NCases \div 5)
          Scope        \* MC: 1 = quick domain, 2 = thorough domain

VARIABLE c

AbsI(n) == IF n < 0 THEN -n ELSE n
MinI(a, b) == IF a < b THEN a ELSE b
MaxI(a, b) == IF a < b THEN b ELSE a
MaxOf(S) == CHOOSE m \in S : \A n \in S : n <= m
Pick(seq) == seq[RandomElement(1..Len(seq))]          \* weighted choice

----------------------------------------------------------------------------
(* Values                                                                  *)
Fin(v) == [k |-> "fin", v |-> v]
NaN  == [k |-> "nan",  v |-> 0]
PInf == [k |-> "pinf", v |-> 0]
NInf == [k |-> "ninf", v |-> 0]
NZ   == [k |-> "nz",   v |-> 0]
F0   == Fin(0)
IsFinite(a) == a.k \in {"fin", "nz"}
\* "pbig" / "nbig": the greatest finite magnitude of the field's width (+-MaxFloat64 in a double field,
\* +-MaxFloat32 in a float field): a real number, farther from every other value than any tolerance
PBig == [k |-> "pbig", v |-> 0]
NBig == [k |-> "nbig", v |-> 0]
IsBig(a) == a.k \in {"pbig", "nbig"}
IsNum(a) == IsFinite(a) \/ IsBig(a)        \* a real number
IsInf(a) == a.k \in {"pinf", "ninf"}

NoOF == [has |-> FALSE, v |-> F0]
SomeF(a) == [has |-> TRUE, v |-> a]
\* A timestamp / duration is [has, t, e]: instant = anchor(e) + t units.  e = 0 is the ordinary range
\* (the case's base instant; base duration); the other e are extreme anchors supplied by the harness:
\*   timestamps  e = -1 time.Time{} (0001-01-01, the usual "never"), -2 the least UnixNano instant
\*               (1677-09-21), 2 the greatest (2262-04-11), 1 year 9999
\*   durations   e = 1: t = 12 is math.MaxInt64 ns exactly (anchor = MaxInt64 - 12 units),
\*               e = -1: t = -12 is math.MinInt64 ns exactly
\* TRUSTED (checked by the harness at start-up with exact big-integer arithmetic, abs.go checkAnchors):
\* two different anchors are farther apart than any tolerance this module generates plus all
\* offsets, so values with different e are never within tolerance, and within one e the distance is
\* |t1 - t2| units.  With that, every comparison here is exact although TLC's integers are 32 bit.
NoT == [has |-> FALSE, t |-> 0, e |-> 0]
SomeT(t) == [has |-> TRUE, t |-> t, e |-> 0]
FarT(t, e) == [has |-> TRUE, t |-> t, e |-> e]
\* uk = unknown fields carried by the NESTED message itself (a layout as described for unk)
NoWK == [p |-> FALSE, ts |-> NoT, du |-> NoT, uk |-> <<>>]
WK(ts, du) == [p |-> TRUE, ts |-> ts, du |-> du, uk |-> <<>>]
WKu(ts, du, uk) == [p |-> TRUE, ts |-> ts, du |-> du, uk |-> uk]
NoNN == [p |-> FALSE, a |-> 0, fl |-> F0, ts |-> NoT, uk |-> <<>>]
NoU == [k |-> 0, ui |-> 0, una |-> 0]
NoUnk == <<>>
\* Unknown fields (proto.Equal): for every field number, the values carried under that number, in
\* their wire order, are the same on both sides; how different numbers interleave does not matter.
UnkSel(s, n) == SelectSeq(s, LAMBDA e : e \div 10 = n)
UnkNorm(s) == <<UnkSel(s, 0), UnkSel(s, 1)>>
UnkEq(s, t) == UnkNorm(s) = UnkNorm(t)
NoMF == [k1 |-> NoOF, k2 |-> NoOF]

Empty(ty) == [ty |-> ty, i |-> 0, s |-> 0, fl |-> F0, db |-> F0, of |-> NoOF, rd |-> <<>>, mf |-> NoMF,
              wk |-> NoWK, rw |-> <<>>, mw |-> NoWK, nn |-> NoNN, u |-> NoU, unk |-> NoUnk,
              ch |-> <<>>, act |-> NoT]
Types == {"nil", "Tnil", "T", "F", "P", "A", "S"}
FieldsOf(ty) == CASE ty = "T" -> {"i", "s", "fl", "db", "of", "rd", "mf", "wk", "rw", "mw", "nn", "u", "unk"}
                  [] ty = "F" -> {"i", "unk"}
                  [] ty = "P" -> {"ch", "unk"}
                  [] ty = "A" -> {"s", "act", "unk"}
                  [] ty = "S" -> {"fl", "of", "unk"}
                  [] OTHER    -> {}

----------------------------------------------------------------------------
(* Protobuf equality of leaves (the documented meaning of proto.Equal):   *)
(* floats compare with == except that NaN equals NaN (so -0 == +0); a     *)
(* singular field without presence is populated iff it is not +0.         *)
FloatEq(a, b) == IF a.k = "nan" \/ b.k = "nan" THEN a.k = b.k
                 ELSE IF IsFinite(a) /\ IsFinite(b) THEN a.v = b.v
                 ELSE a.k = b.k
IntEq(a, b) == a = b

(* Unset versus default, per presence kind (what "populated" means):       *)
(*   implicit scalar (fl, db, nn.fl, i, s)   no presence: unset IS the zero *)
(*       value; populated iff not +0 (ImplEq).  Under a comparer of its    *)
(*       kind it is an ordinary leaf whose value is 0 when unset.          *)
(*   optional scalar (T.of)                   presence: unset differs from *)
(*       every set value, also from a set 0, under every comparer (OptEq)  *)
(*   member of a real oneof (S.of float, T.u int32 / message)  presence,   *)
(*       exactly like optional: a tolerance never bridges unset / set, nor *)
(*       two different members (OptEq; u compared whole)                   *)
(*   message field (wk, wk.ts, wk.du, nn, ...) presence: unset differs     *)
(*       from a present empty message (p / has flags)                      *)
(*   repeated, map                            compared by length / key set *)
(*       and elementwise; an element equal to 0 is a present element       *)
(*                                                                         *)
(* Structural comparison with pluggable leaf comparisons.                  *)
(*   FE, TE, DE  compare two present float / timestamp / duration leaves   *)
(*   fapp        a float comparer is configured                            *)
(*   iz          reading of an implicit-presence float field under a float *)
(*               comparer: TRUE = it is a float leaf whose value is 0 when *)
(*               unset (proto3: no presence, unset IS 0) -- the reference; *)
(*               FALSE = the comparer is consulted only when both sides    *)
(*               are populated (kept to classify deviations)               *)
OptEq(a, b, E(_, _)) == a.has = b.has /\ (a.has => E(a.v, b.v))
OptTEq(a, b, E(_, _)) == a.has = b.has /\ (a.has => E(a, b))     \* E gets the [has, t, e] records
SeqEq(s, t, E(_, _)) == Len(s) = Len(t) /\ \A k \in 1..Len(s) : E(s[k], t[k])
ImplEq(a, b, FE(_, _), fapp, iz) ==
  IF fapp /\ iz THEN FE(a, b)
  ELSE ((a = F0) = (b = F0)) /\ FE(a, b)
WkEq(a, b, TE(_, _), DE(_, _)) == a.p = b.p /\ UnkEq(a.uk, b.uk) /\ OptTEq(a.ts, b.ts, TE) /\ OptTEq(a.du, b.du, DE)
\* change_time inside a message named Change is ignored.  Present on one side
\* only: unequal here (this is what proto.Equal's set-of-populated-fields rule
\* gives); the property does not settle that case and Trace does not assert it.
ChEq(a, b) == a.nm = b.nm /\ a.on = b.on /\ UnkEq(a.uk, b.uk) /\ a.ct.has = b.ct.has

MsgEq(x, y, FE(_, _), fapp, iz, TE(_, _), DE(_, _)) ==
  IF x.ty = "nil" \/ y.ty = "nil" THEN x.ty = y.ty
  ELSE IF x.ty # y.ty THEN FALSE          \* different types; typed nil (invalid) vs valid
  ELSE
    /\ x.i = y.i /\ x.s = y.s /\ x.u = y.u
    /\ ImplEq(x.fl, y.fl, FE, fapp, iz) /\ ImplEq(x.db, y.db, FE, fapp, iz)
    /\ OptEq(x.of, y.of, FE)
    /\ SeqEq(x.rd, y.rd, FE)
    /\ OptEq(x.mf.k1, y.mf.k1, FE) /\ OptEq(x.mf.k2, y.mf.k2, FE)
    /\ WkEq(x.wk, y.wk, TE, DE)
    /\ SeqEq(x.rw, y.rw, LAMBDA a, b : WkEq(a, b, TE, DE))
    /\ WkEq(x.mw, y.mw, TE, DE)
    /\ x.nn.p = y.nn.p /\ x.nn.a = y.nn.a /\ UnkEq(x.nn.uk, y.nn.uk) /\ ImplEq(x.nn.fl, y.nn.fl, FE, fapp, iz) /\ OptTEq(x.nn.ts, y.nn.ts, TE)
    /\ UnkEq(x.unk, y.unk)
    /\ SeqEq(x.ch, y.ch, ChEq)
    /\ OptTEq(x.act, y.act, TE)

\* (a) the default comparer
DefaultEqual(x, y) == MsgEq(x, y, FloatEq, FALSE, TRUE, IntEq, IntEq)

\* the same thing said differently: equality of normal forms
NormF(a) == IF a.k = "nz" THEN F0 ELSE a          \* where a value is compared with ==
Norm(x) == [x EXCEPT !.of = [@ EXCEPT !.v = NormF(@)],
                     !.rd = [k \in 1..Len(@) |-> NormF(@[k])],
                     !.mf = [k1 |-> [@.k1 EXCEPT !.v = NormF(@)], k2 |-> [@.k2 EXCEPT !.v = NormF(@)]],
                     !.unk = UnkNorm(@),
                     !.wk = [@ EXCEPT !.uk = UnkNorm(@)], !.mw = [@ EXCEPT !.uk = UnkNorm(@)], !.nn = [@ EXCEPT !.uk = UnkNorm(@)],
                     !.rw = [k \in 1..Len(@) |-> [@[k] EXCEPT !.uk = UnkNorm(@)]],
                     !.ch = [k \in 1..Len(@) |-> [@[k] EXCEPT !.ct = [@ EXCEPT !.t = 0, !.e = 0], !.uk = UnkNorm(@)]]]

----------------------------------------------------------------------------
(* (b) tolerance comparers: partial functions (leaf kind, a, b) -> [ok, eq]*)
(* A comparer is [k, a, b]:                                                *)
(*   "float" FloatValueApprox(fraction = a/8, margin = b/8): "within       *)
(*           fraction or margin of each other" = |x-y| <= max(margin,      *)
(*           fraction * min(|x|,|y|))      (number.go states it so)        *)
(*   "time"  TimeValueWithin(a units)      |x-y| <= a                      *)
(*   "dur"   DurationValueWithin(a units)  |x-y| <= a                      *)
(*   "durp"  DurationValueWithinP(a/4)     "within p percent of each       *)
(*           other": the doc comment fixes neither whether p is a fraction *)
(*           or a percentage nor the reference value, so acceptance is     *)
(*           left unspecified (Unspec) and only reflexivity / symmetry are *)
(*           asserted for it                                               *)
FloatWithin(fr, mg, a, b) ==
  IF IsFinite(a) /\ IsFinite(b)
    THEN 8 * AbsI(a.v - b.v) <= MaxI(8 * mg, fr * MinI(AbsI(a.v), AbsI(b.v)))
  \* two real numbers one of which is the greatest magnitude: within tolerance only if identical (the
  \* generated fractions are < 2, so not even +big / -big, whose distance is twice their magnitude)
  ELSE IF IsNum(a) /\ IsNum(b) THEN a.k = b.k
  \* an infinity against a real number, or against the opposite infinity: the distance is infinite,
  \* beyond every finite tolerance
  ELSE IF (IsInf(a) /\ IsNum(b)) \/ (IsNum(a) /\ IsInf(b)) \/ (IsInf(a) /\ IsInf(b) /\ a.k # b.k) THEN FALSE
  \* NaN against anything, an infinity against itself: NOT asserted (placeholder; see PairJudged)
  ELSE FloatEq(a, b)
\* What the property settles for a pair of float leaves under a float tolerance.  Not settled: NaN
\* ("reflexive" and "exactly the pairs within tolerance" contradict each other), an infinity against
\* the same infinity (likewise), and +Inf against -Inf under a fraction > 0 (the stated relative
\* tolerance "fraction of the smaller magnitude" is itself infinite there).
PairJudged(frpos, a, b) ==
  \/ IsNum(a) /\ IsNum(b)
  \/ (IsInf(a) /\ IsNum(b)) \/ (IsNum(a) /\ IsInf(b))
  \/ IsInf(a) /\ IsInf(b) /\ a.k # b.k /\ ~frpos
IntWithin(d, a, b) == a.e = b.e /\ AbsI(a.t - b.t) <= d      \* different anchors: beyond every tolerance (see NoT)

NotOk == [ok |-> FALSE, eq |-> FALSE]
Apply(cm, kind, a, b) ==
  CASE cm.k = "float" -> IF kind = "float" THEN [ok |-> TRUE, eq |-> FloatWithin(cm.a, cm.b, a, b)] ELSE NotOk
    [] cm.k = "time"  -> IF kind = "time"  THEN [ok |-> TRUE, eq |-> IntWithin(cm.a, a, b)] ELSE NotOk
    [] cm.k = "dur"   -> IF kind = "dur"   THEN [ok |-> TRUE, eq |-> IntWithin(cm.a, a, b)] ELSE NotOk
    [] cm.k = "durp"  -> IF kind = "dur"   THEN [ok |-> TRUE, eq |-> a = b] ELSE NotOk    \* Unspec: see above
\* a term [op, cs]: ValueAnd / ValueOr over comparers (op = "one": a single one):
\* conjunction / disjunction over the comparers that apply to the leaf
TermApply(term, kind, a, b) ==
  LET oks == { j \in 1..Len(term.cs) : Apply(term.cs[j], kind, a, b).ok } IN
  [ok |-> oks # {},
   eq |-> IF term.op = "or" THEN \E j \in oks : Apply(term.cs[j], kind, a, b).eq
                            ELSE \A j \in oks : Apply(term.cs[j], kind, a, b).eq]
\* cmp.Equal(terms...): ValueAnd over the terms, default leaf equality where none applies
Leaf(terms, kind, a, b) ==
  LET oks == { j \in 1..Len(terms) : TermApply(terms[j], kind, a, b).ok } IN
  IF oks = {} THEN (IF kind = "float" THEN FloatEq(a, b) ELSE a = b)
  ELSE \A j \in oks : TermApply(terms[j], kind, a, b).eq
TermKinds(term) == { term.cs[j].k : j \in 1..Len(term.cs) }
Kinds(terms) == UNION { TermKinds(terms[j]) : j \in 1..Len(terms) }
HasFloat(terms) == "float" \in Kinds(terms)

EqualMZ(terms, x, y, iz) ==
  MsgEq(x, y, LAMBDA a, b : Leaf(terms, "float", a, b), HasFloat(terms), iz,
              LAMBDA a, b : Leaf(terms, "time", a, b), LAMBDA a, b : Leaf(terms, "dur", a, b))
EqualM(terms, x, y) == EqualMZ(terms, x, y, TRUE)

\* a configuration [mop, ms]: one cmp.Equal(ms[1]...), or cmp.And / cmp.Or over several
Combine(mop, bs) == IF mop = "or" THEN \E j \in 1..Len(bs) : bs[j] ELSE \A j \in 1..Len(bs) : bs[j]
Expected(cfg, x, y) == Combine(cfg.mop, [j \in 1..Len(cfg.ms) |-> EqualM(cfg.ms[j], x, y)])
CfgKinds(cfg) == UNION { Kinds(cfg.ms[j]) : j \in 1..Len(cfg.ms) }
One(terms) == [mop |-> "one", ms |-> <<terms>>]
T1(cm) == [op |-> "one", cs |-> <<cm>>]
NoCfg == One(<<>>)

----------------------------------------------------------------------------
(* Leaves of a kind: used to say "finite", "differences", "own kind".      *)
FloatLeaves(x) == {x.fl, x.db, x.of.v, x.mf.k1.v, x.mf.k2.v, x.nn.fl} \cup { x.rd[k] : k \in 1..Len(x.rd) }
AllFinite(x) == \A a \in FloatLeaves(x) : IsNum(a)        \* real numbers only (no NaN, no infinity)
FloatPairs(x, y) ==
  {<<x.fl, y.fl>>, <<x.db, y.db>>, <<x.nn.fl, y.nn.fl>>, <<x.of.v, y.of.v>>, <<x.mf.k1.v, y.mf.k1.v>>, <<x.mf.k2.v, y.mf.k2.v>>}
  \cup { <<x.rd[k], y.rd[k]>> : k \in 1..MinI(Len(x.rd), Len(y.rd)) }
TimePairs(x, y) ==
  {<<x.wk.ts, y.wk.ts>>, <<x.mw.ts, y.mw.ts>>, <<x.nn.ts, y.nn.ts>>, <<x.act, y.act>>}
  \cup { <<x.rw[k].ts, y.rw[k].ts>> : k \in 1..MinI(Len(x.rw), Len(y.rw)) }
DurPairs(x, y) ==
  {<<x.wk.du, y.wk.du>>, <<x.mw.du, y.mw.du>>}
  \cup { <<x.rw[k].du, y.rw[k].du>> : k \in 1..MinI(Len(x.rw), Len(y.rw)) }
FloatDiffs(x, y) == { AbsI(p[1].v - p[2].v) : p \in { q \in FloatPairs(x, y) : IsFinite(q[1]) /\ IsFinite(q[2]) } }
IntDiffs(P) == { AbsI(p[1].t - p[2].t) : p \in { q \in P : q[1].e = q[2].e } }

\* x with every leaf of the kinds in K replaced by a fixed value (presence and structure kept)
EraseWK(w, K) == [w EXCEPT !.ts = IF "time" \in K THEN [@ EXCEPT !.t = 0, !.e = 0] ELSE @,
                           !.du = IF "dur" \in K \/ "durp" \in K THEN [@ EXCEPT !.t = 0, !.e = 0] ELSE @]
Erase(x, K) ==
  LET y == IF "float" \in K
             THEN [x EXCEPT !.fl = F0, !.db = F0, !.of = [@ EXCEPT !.v = F0], !.rd = [k \in 1..Len(@) |-> F0],
                            !.mf = [k1 |-> [@.k1 EXCEPT !.v = F0], k2 |-> [@.k2 EXCEPT !.v = F0]],
                            !.nn = [@ EXCEPT !.fl = F0]]
             ELSE x
  IN [y EXCEPT !.wk = EraseWK(@, K), !.rw = [k \in 1..Len(@) |-> EraseWK(@[k], K)], !.mw = EraseWK(@, K),
               !.nn = IF "time" \in K THEN [@ EXCEPT !.ts = [@ EXCEPT !.t = 0, !.e = 0]] ELSE @,
               !.act = IF "time" \in K THEN [@ EXCEPT !.t = 0, !.e = 0] ELSE @]

\* change_time of corresponding Change messages differs / is present on one side only
CTDiff(x, y) == \E k \in 1..MinI(Len(x.ch), Len(y.ch)) : x.ch[k].ct # y.ch[k].ct
CTOneSided(x, y) == \E k \in 1..MinI(Len(x.ch), Len(y.ch)) : x.ch[k].ct.has # y.ch[k].ct.has

----------------------------------------------------------------------------
(* Generators: the value sets contain neighbours (8, 9, 10 ...) so that    *)
(* nearly-equal pairs are frequent.                                        *)
GFv == {-16, -8, -1, 0, 1, 2, 4, 8, 9, 10, 16, 18}
GFl == { Fin(v) : v \in GFv } \cup {NaN, PInf, NInf, NZ, PBig, NBig}
GFlFin == { Fin(v) : v \in GFv }
GTv == {-3, 0, 1, 2, 5, 6, 12}
GFarT == {FarT(0, -1), FarT(1, -1), FarT(0, 1), FarT(0, 2), FarT(0, -2)}      \* zero time, year 9999, UnixNano limits
GOT == {NoT} \cup { SomeT(t) : t \in GTv } \cup GFarT
GWK == {NoWK, WK(NoT, NoT), WK(SomeT(0), NoT), WK(SomeT(5), SomeT(2)), WK(SomeT(6), SomeT(2)), WK(SomeT(5), SomeT(-3)),
        WK(NoT, SomeT(0)), WK(NoT, SomeT(5)), WK(SomeT(12), SomeT(6)),
        WKu(SomeT(5), SomeT(2), <<1>>), WKu(SomeT(5), SomeT(2), <<2>>), WKu(NoT, NoT, <<1>>),
        \* one unknown number occurring twice / three times, differing in the first, middle, last occurrence
        WKu(SomeT(5), SomeT(2), <<1, 2>>), WKu(SomeT(5), SomeT(2), <<3, 2>>), WKu(SomeT(5), SomeT(2), <<1, 11, 2>>),
        WKu(SomeT(5), SomeT(2), <<3, 11, 2>>), WKu(SomeT(5), SomeT(2), <<11, 1, 2>>),
        \* extreme instants and durations (MaxInt64 / MinInt64 ns and their neighbours)
        WK(FarT(0, -1), SomeT(2)), WK(FarT(0, 1), SomeT(2)), WK(FarT(0, 2), FarT(12, 1)), WK(FarT(0, -2), FarT(-12, -1)),
        WK(SomeT(5), FarT(12, 1)), WK(SomeT(5), FarT(11, 1)), WK(SomeT(5), FarT(-12, -1)), WK(FarT(1, -1), FarT(-11, -1))}
GWKp == { w \in GWK : w.p }
\* unknown-field layouts: absent, single, two numbers in both wire orders, one number occurring 2-3
\* times differing in the first / middle / last occurrence or only in order, interleaved with the other
GUnk == {<<>>, <<1>>, <<2>>, <<11>>, <<1, 11>>, <<11, 1>>,
         <<1, 2>>, <<3, 2>>, <<1, 3>>, <<2, 1>>,
         <<1, 2, 3>>, <<2, 2, 3>>, <<1, 1, 3>>, <<1, 2, 2>>,
         <<1, 11, 2>>, <<3, 11, 2>>, <<11, 1, 2>>, <<1, 2, 11>>, <<1, 12, 2>>}
G(f) ==
  CASE f = "i"  -> 0..2
    [] f = "s"  -> 0..1
    [] f = "fl" -> GFl
    [] f = "db" -> GFl
    [] f = "of" -> {NoOF} \cup { SomeF(a) : a \in GFl }
    [] f = "rd" -> {<<PBig>>, <<NBig>>, <<NInf, Fin(1)>>, <<>>, <<F0>>, <<Fin(8)>>, <<Fin(9)>>, <<NZ>>, <<NaN>>, <<Fin(8), Fin(16)>>, <<Fin(8), Fin(18)>>,
                    <<Fin(16), Fin(8)>>, <<Fin(9), Fin(16), F0>>, <<PInf, Fin(1)>>}
    [] f = "mf" -> {NoMF, [k1 |-> SomeF(F0), k2 |-> NoOF], [k1 |-> SomeF(Fin(8)), k2 |-> NoOF], [k1 |-> NoOF, k2 |-> SomeF(Fin(8))],
                    [k1 |-> SomeF(Fin(9)), k2 |-> SomeF(Fin(-8))], [k1 |-> SomeF(Fin(8)), k2 |-> SomeF(Fin(-8))],
                    [k1 |-> SomeF(NaN), k2 |-> SomeF(NZ)], [k1 |-> SomeF(Fin(10)), k2 |-> SomeF(Fin(-1))]}
    [] f = "wk" -> GWK
    [] f = "rw" -> {<<>>} \cup { <<w>> : w \in GWKp } \cup { <<WK(SomeT(5), SomeT(2)), w>> : w \in GWKp } \cup {<<WKu(SomeT(5), SomeT(2), <<1>>), WK(SomeT(5), SomeT(2))>>}
                   \cup {<<WK(SomeT(6), SomeT(1)), WK(SomeT(1), NoT)>>}
    [] f = "mw" -> GWK
    [] f = "nn" -> {NoNN} \cup { [p |-> TRUE, a |-> a, fl |-> F0, ts |-> NoT, uk |-> <<>>] : a \in 0..1 }
                   \cup { [p |-> TRUE, a |-> 0, fl |-> a, ts |-> NoT, uk |-> <<>>] : a \in {Fin(8), Fin(9), Fin(1), NZ, NaN} }
                   \cup { [p |-> TRUE, a |-> 0, fl |-> Fin(8), ts |-> t, uk |-> <<>>] : t \in GOT }
                   \cup { [p |-> TRUE, a |-> 0, fl |-> Fin(8), ts |-> SomeT(5), uk |-> k] : k \in {<<1>>, <<2>>, <<1, 2>>, <<3, 2>>, <<1, 3, 2>>, <<1, 1, 2>>} }
                   \cup { [p |-> TRUE, a |-> 0, fl |-> F0, ts |-> NoT, uk |-> <<1>>] }
    [] f = "u"  -> {NoU, [k |-> 1, ui |-> 0, una |-> 0], [k |-> 1, ui |-> 2, una |-> 0],
                    [k |-> 2, ui |-> 0, una |-> 0], [k |-> 2, ui |-> 0, una |-> 1]}
    [] f = "unk" -> GUnk
    [] f = "ch" -> LET C(nm, ct, on) == [nm |-> nm, ct |-> ct, on |-> on, uk |-> <<>>]
                       Cu(nm, ct, on, uk) == [nm |-> nm, ct |-> ct, on |-> on, uk |-> uk] IN
                   {<<>>, <<C(1, NoT, 1)>>, <<C(1, SomeT(5), 1)>>, <<C(1, SomeT(6), 1)>>, <<C(1, SomeT(12), 2)>>, <<C(0, SomeT(5), 0)>>,
                    <<C(1, SomeT(5), 1), C(0, SomeT(1), 2)>>, <<C(1, SomeT(2), 1), C(0, SomeT(6), 2)>>, <<C(1, SomeT(5), 1), C(0, NoT, 2)>>,
                    <<Cu(1, SomeT(5), 1, <<1>>)>>, <<Cu(1, SomeT(6), 1, <<2>>)>>, <<C(1, SomeT(5), 1), Cu(0, SomeT(1), 2, <<1>>)>>,
                    <<Cu(1, SomeT(5), 1, <<1, 2>>)>>, <<Cu(1, SomeT(5), 1, <<3, 2>>)>>, <<Cu(1, SomeT(5), 1, <<1, 11, 2>>)>>}
    [] f = "act" -> GOT

\* every message one replacement away from a (incl. becoming another type)
Mut1(a) == UNION { { [a EXCEPT ![f] = v] : v \in G(f) } : f \in FieldsOf(a.ty) } \cup { Empty(t) : t \in Types }
\* (the parameter only defeats TLC's caching of constant-level definitions)
RandMut(a, z) ==
  IF FieldsOf(a.ty) = {} \/ RandomElement(1..25) = 1 THEN Empty(RandomElement(Types))
  ELSE LET f == RandomElement(FieldsOf(a.ty)) IN [a EXCEPT ![f] = RandomElement(G(f))]
RandMutN(a, n, z) == CASE n = 0 -> a
                       [] n = 1 -> RandMut(a, z)
                       [] n = 2 -> RandMut(RandMut(a, z), z + 1)
                       [] OTHER -> RandMut(RandMut(RandMut(a, z), z + 1), z + 2)
RandT(z) == [ty |-> "T", i |-> RandomElement(G("i")), s |-> RandomElement(G("s")), fl |-> RandomElement(G("fl")),
             db |-> RandomElement(G("db")), of |-> RandomElement(G("of")), rd |-> RandomElement(G("rd")),
             mf |-> RandomElement(G("mf")), wk |-> RandomElement(G("wk")), rw |-> RandomElement(G("rw")),
             mw |-> RandomElement(G("mw")), nn |-> RandomElement(G("nn")), u |-> RandomElement(G("u")),
             unk |-> RandomElement(G("unk")), ch |-> <<>>, act |-> NoT]
\* the same with finite floats only (so that tolerance clauses are asserted on it)
Finite(x) == LET fx(a) == IF IsNum(a) THEN a ELSE Fin(4) IN
  [x EXCEPT !.fl = fx(@), !.db = fx(@), !.of = [@ EXCEPT !.v = fx(@)], !.rd = [k \in 1..Len(@) |-> fx(@[k])],
            !.mf = [k1 |-> [@.k1 EXCEPT !.v = fx(@)], k2 |-> [@.k2 EXCEPT !.v = fx(@)]], !.nn = [@ EXCEPT !.fl = fx(@)]]
RandAnc(z) == LET r == RandomElement(1..10) IN
  CASE r <= 4 -> RandT(z)
    [] r <= 6 -> RandMutN(Empty("T"), 2, z)
    [] r = 7  -> [Empty("P") EXCEPT !.ch = RandomElement(G("ch")), !.unk = RandomElement(G("unk"))]
    [] r = 8  -> [Empty("A") EXCEPT !.act = RandomElement(G("act")), !.s = RandomElement(G("s"))]
    [] r = 9  -> IF RandomElement(1..2) = 1 THEN [Empty("F") EXCEPT !.i = RandomElement(G("i"))]
                 ELSE [Empty("S") EXCEPT !.fl = RandomElement(G("fl")), !.of = RandomElement(G("of"))]
    [] OTHER  -> Empty(RandomElement(Types))

----------------------------------------------------------------------------
(* MC: laws of the reference semantics.                                    *)
Dense == [ty |-> "T", i |-> 1, s |-> 1, fl |-> Fin(8), db |-> Fin(16), of |-> SomeF(F0), rd |-> <<Fin(8), Fin(16)>>,
          mf |-> [k1 |-> SomeF(Fin(8)), k2 |-> NoOF], wk |-> WK(SomeT(5), SomeT(2)), rw |-> <<WK(SomeT(5), SomeT(2))>>,
          mw |-> WK(SomeT(5), NoT), nn |-> [p |-> TRUE, a |-> 0, fl |-> Fin(8), ts |-> SomeT(5), uk |-> <<>>],
          u |-> [k |-> 1, ui |-> 2, una |-> 0], unk |-> <<1, 2>>, ch |-> <<>>, act |-> NoT]
Ancestors == {Empty("T"), Dense,
              [Empty("P") EXCEPT !.ch = <<[nm |-> 1, ct |-> SomeT(5), on |-> 1, uk |-> <<>>], [nm |-> 0, ct |-> SomeT(1), on |-> 2, uk |-> <<>>]>>],
              [Empty("A") EXCEPT !.act = SomeT(5)],
              [Empty("S") EXCEPT !.fl = Fin(8), !.of = SomeF(Fin(1))]}
Cm(k, a, b) == [k |-> k, a |-> a, b |-> b]
MCTerms == {<<>>, <<T1(Cm("float", 0, 1)), T1(Cm("time", 1, 0)), T1(Cm("dur", 5, 0))>>}
           \cup (IF Scope >= 2 THEN
                 {<<T1(Cm("float", 0, 1))>>, <<T1(Cm("float", 1, 0)), T1(Cm("time", 1, 0)), T1(Cm("dur", 5, 0))>>, <<T1(Cm("float", 1, 0)), T1(Cm("time", 1, 0))>>, <<T1(Cm("dur", 5, 0))>>, <<T1(Cm("float", 1, 0))>>, <<T1(Cm("time", 1, 0))>>, <<T1(Cm("float", 0, 0))>>, <<T1(Cm("float", 0, 8))>>, <<T1(Cm("time", 0, 0))>>, <<T1(Cm("float", 2, 2))>>, <<T1(Cm("time", 7, 0))>>, <<T1(Cm("dur", 0, 0))>>,
                  <<T1(Cm("float", 0, 1)), T1(Cm("time", 1, 0))>>,
                  <<[op |-> "or", cs |-> <<Cm("float", 0, 1), Cm("float", 1, 0)>>]>>,
                  <<[op |-> "and", cs |-> <<Cm("float", 0, 2), Cm("float", 0, 1), Cm("dur", 1, 0)>>]>>,
                  <<[op |-> "or", cs |-> <<Cm("time", 1, 0), Cm("dur", 5, 0)>>], T1(Cm("float", 0, 1))>>}
                 ELSE {})

\* two stages so that TLC's workers share the enumeration
MCAnc == IF Scope >= 2 THEN Ancestors ELSE Ancestors \ {Empty("T")}
\* quick domain: x varies in the fields that carry compared kinds (y still varies in all)
MCX(a) == IF Scope >= 2 THEN Mut1(a)
          ELSE { x \in Mut1(a) : x.i = a.i /\ x.s = a.s /\ x.u = a.u /\ x.mw = a.mw /\ x.db = a.db /\ x.mf = a.mf /\ x.rw = a.rw }
MCInit == c \in UNION { [st : {0}, a : {a}, x : MCX(a), y : {a}, m1 : {<<>>}, m2 : {<<>>}] : a \in MCAnc }
MCM2 == IF Scope >= 2 THEN {<<T1(Cm("float", 0, 1))>>, <<T1(Cm("float", 1, 0)), T1(Cm("time", 1, 0))>>}
        ELSE {<<T1(Cm("float", 0, 1))>>}
MCNext == /\ c.st = 0
          /\ c' \in [st : {1}, a : {c.a}, x : {c.x},
                     y : {c.x} \cup Mut1(c.x) \cup (IF Scope >= 2 THEN Mut1(c.a) ELSE {}),
                     m1 : MCTerms, m2 : MCM2]

\* (laws that do not depend on the comparers are evaluated once per pair: Base)
Base == c.m1 = <<>>
LawDefault == Base =>
  /\ DefaultEqual(c.x, c.y) <=> Norm(c.x) = Norm(c.y)
  /\ DefaultEqual(c.x, c.y) = EqualM(<<>>, c.x, c.y)
  /\ DefaultEqual(c.x, c.x) /\ DefaultEqual(c.x, c.y) = DefaultEqual(c.y, c.x)
LawReflSym ==
  LET fin == ~HasFloat(c.m1) \/ (AllFinite(c.x) /\ AllFinite(c.y)) IN
  fin => /\ EqualM(c.m1, c.x, c.x)
         /\ EqualM(c.m1, c.x, c.y) = EqualM(c.m1, c.y, c.x)
\* comparers only affect leaves of their own kind, and (tolerances being >= 0) only widen equality
LawOwnKind ==
  LET K == Kinds(c.m1)  fin == ~HasFloat(c.m1) \/ (AllFinite(c.x) /\ AllFinite(c.y)) IN
  fin => /\ EqualM(c.m1, c.x, c.y) => DefaultEqual(Erase(c.x, K), Erase(c.y, K))
         /\ DefaultEqual(c.x, c.y) => EqualM(c.m1, c.x, c.y)
         /\ Erase(c.x, K) = c.x /\ Erase(c.y, K) = c.y => EqualM(c.m1, c.x, c.y) = DefaultEqual(c.x, c.y)
\* accepts exactly the pairs within tolerance: just below / at / above the actual difference
LawExact == Base =>
  /\ \A p \in FloatPairs(c.x, c.y) : IsFinite(p[1]) /\ IsFinite(p[2]) =>
       LET d == AbsI(p[1].v - p[2].v) IN
       /\ FloatWithin(0, d, p[1], p[2]) /\ FloatWithin(0, d + 1, p[1], p[2])
       /\ d > 0 => ~FloatWithin(0, d - 1, p[1], p[2])
       /\ \A fr \in 0..3, mg \in 0..3 :
            /\ FloatWithin(fr, mg, p[1], p[2]) = FloatWithin(fr, mg, p[2], p[1])
            /\ FloatWithin(fr, mg, p[1], p[2]) => FloatWithin(fr + 1, mg, p[1], p[2]) /\ FloatWithin(fr, mg + 1, p[1], p[2])
            /\ FloatWithin(fr, mg, p[1], p[1])
  /\ \A p \in TimePairs(c.x, c.y) \cup DurPairs(c.x, c.y) :
       LET d == AbsI(p[1].t - p[2].t) IN
       IF p[1].e = p[2].e
         THEN IntWithin(d, p[1], p[2]) /\ IntWithin(d + 1, p[2], p[1]) /\ (d > 0 => ~IntWithin(d - 1, p[1], p[2]))
         ELSE \A tol \in 0..13 : ~IntWithin(tol, p[1], p[2]) /\ ~IntWithin(tol, p[2], p[1])
  \* a single wk.ts difference: Equal(time d) accepts iff d >= the difference
  /\ \A d \in 0..3 :
       LET y == [Dense EXCEPT !.wk = WK(SomeT(5 + 2), SomeT(2))] IN
       EqualM(<<T1(Cm("time", d, 0))>>, Dense, y) = (d >= 2)
\* And / Or are conjunction / disjunction
LawAndOr ==
  LET fin == ~(HasFloat(c.m1) \/ HasFloat(c.m2)) \/ (AllFinite(c.x) /\ AllFinite(c.y))
      e1 == EqualM(c.m1, c.x, c.y)  e2 == EqualM(c.m2, c.x, c.y) IN
  /\ Expected([mop |-> "and", ms |-> <<c.m1, c.m2>>], c.x, c.y) = (e1 /\ e2)
  /\ Expected([mop |-> "or", ms |-> <<c.m1, c.m2>>], c.x, c.y) = (e1 \/ e2)
  /\ Expected(One(c.m1), c.x, c.y) = e1
  \* And of two Equals vs one Equal with all value comparers (ValueAnd): the same when both cover the
  \* same kinds; otherwise the default comparison of the uncovered kind is the stricter one
  /\ fin => ((e1 /\ e2) => EqualM(c.m1 \o c.m2, c.x, c.y))
  /\ Kinds(c.m1) = Kinds(c.m2) => (e1 /\ e2) = EqualM(c.m1 \o c.m2, c.x, c.y)
  \* ValueOr is at least as permissive as Or of the Equals
  /\ (Len(c.m1) = 1 /\ Len(c.m2) = 1 /\ (e1 \/ e2)) =>
        EqualM(<<[op |-> "or", cs |-> c.m1[1].cs \o c.m2[1].cs]>>, c.x, c.y)

----------------------------------------------------------------------------
(* Gen: comparer cases.  x = a random ancestor mutated in 0-2 places,      *)
(* y = x mutated in 0-3 places; tolerances are chosen around the actual    *)
(* differences of corresponding leaves (below, at, above).                 *)
Near(D, z) == LET d == RandomElement(D \cup {0, 1}) IN RandomElement({ t \in {d - 1, d, d + 1} : t >= 0 })
RandCm(x, y, z) ==
  LET r == RandomElement(1..10) IN
  CASE r <= 4 -> Cm("float", IF RandomElement(1..3) = 1 THEN RandomElement(1..3) ELSE 0, Near(FloatDiffs(x, y), z))
    [] r <= 6 -> Cm("time", Near(IntDiffs(TimePairs(x, y)), z), 0)
    [] r <= 8 -> Cm("dur", Near(IntDiffs(DurPairs(x, y)), z), 0)
    [] r = 9  -> Cm("durp", RandomElement({0, 1, 2, 4, 5, 40, 400}), 0)
    [] OTHER  -> Cm("float", RandomElement(0..3), 0)
RandTerm(x, y, z) ==
  LET r == RandomElement(1..6) IN
  CASE r <= 4 -> T1(RandCm(x, y, z))
    [] r = 5  -> [op |-> "and", cs |-> <<RandCm(x, y, z), RandCm(x, y, z + 1)>>]
    [] OTHER  -> [op |-> "or", cs |-> <<RandCm(x, y, z), RandCm(x, y, z + 1)>>]
RandTerms(x, y, z) ==
  LET r == RandomElement(1..8) IN
  CASE r = 1  -> <<>>
    [] r <= 6 -> <<RandTerm(x, y, z)>>
    [] OTHER  -> <<RandTerm(x, y, z), RandTerm(x, y, z + 1)>>
RandCfg(x, y, z) ==
  LET r == RandomElement(1..8) IN
  CASE r = 1  -> NoCfg
    [] r <= 6 -> One(RandTerms(x, y, z))
    [] r = 7  -> [mop |-> "and", ms |-> <<RandTerms(x, y, z), RandTerms(x, y, z + 1)>>]
    [] OTHER  -> [mop |-> "or", ms |-> <<RandTerms(x, y, z), RandTerms(x, y, z + 1)>>]
GenCmp(n) ==
  LET a0 == RandAnc(n)
      a  == IF n % 3 = 0 THEN a0 ELSE Finite(a0)
      x  == RandMutN(a, RandomElement(0..2), n)
      y0 == RandMutN(x, RandomElement(0..3), n + 7)
      y  == IF n % 3 = 0 THEN y0 ELSE Finite(y0)
      cfg == IF n % 4 = 0 THEN NoCfg ELSE RandCfg(x, y, n)
  IN [k |-> "cmp", n |-> n, x |-> x, y |-> y, cfg |-> cfg, sc |-> RandomElement(0..3), tb |-> RandomElement(0..3)]
\* a stratum for DurationValueWithinP alone: two messages that differ in one duration at most
GenDurP(n) ==
  LET ds == {-3, 0, 1, 2, 5, 6}
      x  == [Dense EXCEPT !.wk = WK(SomeT(5), SomeT(RandomElement(ds))), !.i = RandomElement(0..2)]
      y  == [x EXCEPT !.wk = WK(SomeT(5), SomeT(RandomElement(ds)))]
  IN [k |-> "cmp", n |-> n, x |-> x, y |-> y, cfg |-> One(<<T1(Cm("durp", RandomElement({0, 1, 2, 4, 5, 6, 40, 400}), 0))>>),
      sc |-> RandomElement(0..3), tb |-> RandomElement({0, 2})]
\* a stratum for extreme instants / durations: two messages that differ in one timestamp and one
\* duration at most, values taken across the anchors, small tolerances (both argument orders are run)
GenFar(n) ==
  LET ts == GFarT \cup {SomeT(5), SomeT(6), FarT(5, -1), FarT(1, 2)}
      ds == {SomeT(2), SomeT(-3), SomeT(0), FarT(12, 1), FarT(11, 1), FarT(0, 1), FarT(-12, -1), FarT(-11, -1)}
      x  == [Dense EXCEPT !.wk = WK(RandomElement(ts), RandomElement(ds))]
      y  == [x EXCEPT !.wk = WK(RandomElement(ts), RandomElement(ds))]
      tol == RandomElement({0, 1, 2, 13})
      cfg == Pick(<< One(<<T1(Cm("time", tol, 0)), T1(Cm("dur", tol, 0))>>), One(<<T1(Cm("time", tol, 0))>>),
                     One(<<T1(Cm("dur", tol, 0))>>) >>)
  IN [k |-> "cmp", n |-> n, x |-> x, y |-> y, cfg |-> cfg, sc |-> RandomElement(0..3), tb |-> RandomElement(0..3)]
\* a stratum for the ends of the float range: one double, one float and one list element taken from
\* infinities, greatest magnitudes and ordinary values, under a float tolerance
GenInf(n) ==
  LET vs == {Fin(8), Fin(9), PInf, NInf, PBig, NBig, F0}
      x  == [Dense EXCEPT !.db = RandomElement(vs), !.fl = RandomElement({Fin(8), PInf, PBig, NBig}), !.rd = <<RandomElement(vs), Fin(16)>>]
      y  == [x EXCEPT !.db = RandomElement(vs), !.rd = <<IF RandomElement(1..3) = 1 THEN RandomElement(vs) ELSE x.rd[1], Fin(16)>>]
  IN [k |-> "cmp", n |-> n, x |-> x, y |-> y,
      cfg |-> One(<<T1(Cm("float", Pick(<<0, 0, 1>>), RandomElement({0, 1, 8})))>>), sc |-> 1, tb |-> 0]
\* a stratum for the change_time exception: Change messages that differ in nothing but their
\* change_time, the two stamps taken across magnitudes and anchors (so that they encode to different
\* lengths: zero, ns-only, seconds-only, negative seconds, year 9999)
GenCT(n) ==
  LET cts == {SomeT(0), SomeT(1), SomeT(5), SomeT(12), FarT(0, -1), FarT(5, -1), FarT(0, 1), FarT(0, 2), FarT(0, -2)}
      C(nm, ct, on) == [nm |-> nm, ct |-> ct, on |-> on, uk |-> <<>>]
      two == RandomElement(1..2) = 1
      x  == [Empty("P") EXCEPT !.ch = IF two THEN <<C(1, RandomElement(cts), 1), C(0, RandomElement(cts), 2)>> ELSE <<C(1, RandomElement(cts), 1)>>]
      y  == [x EXCEPT !.ch = IF two THEN <<C(1, RandomElement(cts), 1), C(0, x.ch[2].ct, 2)>> ELSE <<C(1, RandomElement(cts), 1)>>]
  IN [k |-> "cmp", n |-> n, x |-> x, y |-> y, cfg |-> IF n % 4 = 0 THEN One(<<T1(Cm("float", 0, 1))>>) ELSE NoCfg,
      sc |-> RandomElement(0..3), tb |-> RandomElement(0..3)]
\* the exhaustive core: every single replacement against each ancestor, default comparer
ExhaustiveCmp == UNION { { [k |-> "cmp", n |-> 0, x |-> a, y |-> y, cfg |-> NoCfg, sc |-> 1, tb |-> 0] : y \in Mut1(a) } : a \in Ancestors }

(* Gen: stream cases.  A write history over one resource configured with a *)
(* tolerance equivalence; each written value is a small mutation of the    *)
(* previous one (random walk: drift away from what a subscriber holds is   *)
(* frequent; many writes touch only fields outside a subscriber's mask).   *)
(* Subscribers: seed / updates-only, opened before or between the writes,  *)
(* read mask nil / covering / not covering the written fields.             *)
(*                                                                         *)
(* frequent).  Only leaves the walk touches: fl, db, rd, wk, i.            *)
SG(f) == CASE f = "fl" -> { Fin(v) : v \in {0, 2, 4, 6, 8, 10, 12, 16} }
           [] f = "db" -> { Fin(v) : v \in {0, 4, 8} }
           [] f = "rd" -> {<<>>, <<Fin(8)>>, <<Fin(10)>>, <<Fin(8), Fin(16)>>}
           [] f = "wk" -> {NoWK, WK(SomeT(5), SomeT(2)), WK(SomeT(6), SomeT(2)), WK(SomeT(8), SomeT(4)), WK(SomeT(5), NoT), WKu(SomeT(5), SomeT(2), <<1>>), WKu(SomeT(5), SomeT(2), <<1, 2>>), WKu(SomeT(5), SomeT(2), <<3, 2>>),
                           WK(FarT(0, -1), SomeT(2)), WK(FarT(0, 2), SomeT(2))}
           [] OTHER    -> 0..1
StreamCfgs == {<<T1(Cm("float", 0, 4))>>, <<T1(Cm("float", 0, 2))>>, <<T1(Cm("float", 2, 0))>>, <<T1(Cm("time", 1, 0))>>,
               <<T1(Cm("float", 0, 4)), T1(Cm("time", 2, 0))>>, <<T1(Cm("dur", 2, 0)), T1(Cm("time", 3, 0))>>, <<>>}
\* fl moves in small steps (so a run of individually equivalent writes drifts away from what a
\* subscriber holds), the other fields are replaced
FlStep(a) == LET v == a.v + Pick(<<-4, -2, -2, 2, 2, 4>>) IN Fin(IF v < 0 THEN 0 ELSE IF v > 16 THEN 16 ELSE v)
SMut(a, z) == LET f == Pick(<<"fl", "fl", "fl", "fl", "db", "rd", "wk", "i">>) IN
              IF RandomElement(1..6) = 1 THEN a
              ELSE IF f = "fl" /\ RandomElement(1..4) # 1 THEN [a EXCEPT !.fl = FlStep(@)]
              ELSE [a EXCEPT ![f] = RandomElement(SG(f))]
\* read masks of stream subscribers: [nil, fs]; fs = top-level fields among those the walk touches
\* (fl default_float, db default_double, rd repeated_double, wk default_well_known, i default_int32).
\* Proj = what a subscriber with that mask is shown of x (the other fields read as unset).
NilMask == [nil |-> TRUE, fs |-> <<>>]
FMask(fs) == [nil |-> FALSE, fs |-> fs]
MaskSet(m) == { m.fs[k] : k \in 1..Len(m.fs) }
Proj(x, m) ==
  IF m.nil THEN x
  ELSE LET K == MaskSet(m) IN
       [Empty(x.ty) EXCEPT !.fl = IF "fl" \in K THEN x.fl ELSE @, !.db = IF "db" \in K THEN x.db ELSE @,
                           !.rd = IF "rd" \in K THEN x.rd ELSE @, !.wk = IF "wk" \in K THEN x.wk ELSE @,
                           !.i = IF "i" \in K THEN x.i ELSE @]
StreamMasks == <<NilMask, NilMask, FMask(<<"fl">>), FMask(<<"fl", "wk">>), FMask(<<"i", "db">>), FMask(<<"rd", "i">>), FMask(<<"wk">>),
                 FMask(<<"fl", "db", "rd", "wk", "i">>)>>
RECURSIVE Walk(_, _, _)
Walk(a, n, z) == IF n = 0 THEN <<>> ELSE LET b == SMut(a, z) IN <<b>> \o Walk(b, n - 1, z + 1)
GenStream(n) ==
  LET isVal == (n % 2 = 0)
      a   == [Empty("T") EXCEPT !.fl = RandomElement(SG("fl")), !.wk = RandomElement(SG("wk"))]
      len == RandomElement(3..8)
      vs  == Walk(a, len, n)
      ws  == [j \in 1..len |->
               IF isVal THEN [op |-> "set", id |-> "", v |-> vs[j]]
               ELSE [op |-> IF RandomElement(1..7) = 1 THEN "del" ELSE "put", id |-> Pick(<<"a", "a", "a", "b">>), v |-> vs[j]]]
      sub(z) == [uo |-> RandomElement(1..4) = 1, at |-> Pick(<<0, 0, 1, 2>>), mask |-> Pick(StreamMasks)]
  IN [k |-> "stream", n |-> n, res |-> IF isVal THEN "val" ELSE "coll", terms |-> RandomElement(StreamCfgs),
      init |-> IF isVal /\ RandomElement(1..3) # 1 THEN [has |-> TRUE, v |-> a] ELSE [has |-> FALSE, v |-> Empty("T")],
      writes |-> ws, subs |-> <<sub(1), sub(2), sub(3)>>, sc |-> RandomElement(0..3), tb |-> RandomElement(0..3)]

GenInit == c \in { GenCmp(n) : n \in 1..NCases } \cup { GenDurP(n) : n \in 1..(NCases \div 50) } \cup { GenFar(n) : n \in 1..(NCases \div 20) }
           \cup { GenInf(n) : n \in 1..(NCases \div 25) } \cup { GenCT(n) : n \in 1..(NCases \div 25) } \cup ExhaustiveCmp \cup { GenStream(n) : n \in 1..(NCases \div 5) }
GenNext == UNCHANGED c
EmitCase == PrintT("CASE " \o ToJson(c))
=============================================================================
