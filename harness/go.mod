module github.com/smart-core-os/sc-golang/verifharness

go 1.23

require (
	github.com/smart-core-os/sc-api/go v1.0.0-beta.51
	github.com/smart-core-os/sc-golang v0.0.0
	google.golang.org/grpc v1.67.1
	google.golang.org/protobuf v1.34.2
)

require (
	github.com/mennanov/fmutils v0.1.1 // indirect
	github.com/tanema/gween v0.0.0-20200427131925-c89ae23cc63c // indirect
	golang.org/x/net v0.29.0 // indirect
	golang.org/x/sys v0.25.0 // indirect
	golang.org/x/text v0.18.0 // indirect
	google.golang.org/genproto/googleapis/rpc v0.0.0-20240930140551-af27646dc61f // indirect
)

replace github.com/smart-core-os/sc-golang => /repo
