---------------------------- MODULE Booking ----------------------------
(***************************************************************************)
(* C08, booking part: the booking server's ListBookings / PullBookings     *)
(* with a booking_intersects period behave as the collection of the        *)
(* bookings whose booked period intersects it.                             *)
(*                                                                         *)
(* Time is a small integer grid 0..T.  A period is [s, e) with either      *)
(* bound possibly absent (None: open on that side); a booking may have no  *)
(* booked period at all (NoPeriod); a request without booking_intersects   *)
(* (NoPeriod) does not filter.  Intersects is written down from the        *)
(* documented meaning of pkg/time.PeriodsIntersect -- "there exists a      *)
(* non-empty Period that is enclosed by both" -- with a witness period,    *)
(* not from the code.                                                      *)
(*                                                                         *)
(* The booking API has no delete (bookingpb.Model: List, Create, Update,   *)
(* Pull), so the write paths are CreateBooking, UpdateBooking (with and    *)
(* without update mask), CheckInBooking and CheckOutBooking; a REMOVE      *)
(* only ever arises from a booking that stops matching.                    *)
(*                                                                         *)
(* Three uses:                                                             *)
(*   MC    (BookingMC.cfg)    store x subscribers state machine: fold of   *)
(*                            every stream = the filtered list, the text's *)
(*                            delivery table as an action property         *)
(*   Gen   (BookingGen.cfg)   programs of RPC-level steps as CASE lines    *)
(*   Trace (BookingTrace.tla) the clauses evaluated on what the real       *)
(*                            bookingpb.ModelServer did                    *)
(***************************************************************************)
EXTENDS Integers, Sequences, FiniteSets, TLC, Json, Randomization

CONSTANTS T,          \* times are 0..T
          NIds,       \* booking ids are 1..NIds (the harness calls them b1, b2, ..)
          MaxSubs,    \* open PullBookings streams at any time
          NCases,     \* Gen: number of random programs
          MaxSteps,   \* Gen: steps per random program
          Scope       \* Gen: 2 = also the exhaustive (old period, new period, request) grid over times 0..2
                      \* MC:  2 = also read masks and CheckOutBooking

VARIABLE c

None  == 0 - 1
Times == 0..T
Bound == {None} \cup Times
Ids   == 1..NIds

----------------------------------------------------------------------------
(* Periods                                                                 *)
Per(s, e)  == [has |-> TRUE, s |-> s, e |-> e]
NoPeriod   == [has |-> FALSE, s |-> None, e |-> None]
AllTime    == Per(None, None)
HasPeriods == { Per(s, e) : s \in Bound, e \in Bound }
Periods    == {NoPeriod} \cup HasPeriods

\* witnesses: far enough beyond the grid on both sides for the open-ended periods
Line == (0 - 2)..(T + 2)
\* p encloses [a, b)
Encloses(p, a, b) == (p.s = None \/ p.s <= a) /\ (p.e = None \/ b <= p.e)
\* "there exists a non-empty period enclosed by both"; an absent period encloses nothing
IntersectsW(p, q) ==
  p.has /\ q.has /\ \E a \in Line, b \in Line : a < b /\ Encloses(p, a, b) /\ Encloses(q, a, b)
\* (the same, tabulated once over the grid: TLC evaluates a constant definition a single time)
IntersectsTab == [p \in HasPeriods, q \in HasPeriods |-> IntersectsW(p, q)]
Intersects(p, q) == p.has /\ q.has /\ IntersectsTab[p, q]
\* "there exists a (possibly empty) period enclosed by both" (PeriodsConnected; used in the lemmas only)
Connected(p, q) ==
  p.has /\ q.has /\ \E a \in Line, b \in Line : a <= b /\ Encloses(p, a, b) /\ Encloses(q, a, b)

\* an empty [t, t) or inverted [t, u) with u < t period: it encloses no non-empty period
Degenerate(p) == p.has /\ p.s # None /\ p.e # None /\ p.s >= p.e
\* p ends exactly where q starts, or starts exactly where q ends
Touching(p, q) == p.has /\ q.has /\ ((p.e # None /\ p.e = q.s) \/ (p.s # None /\ p.s = q.e))

\* the usual closed form, for the lemma: latest start before earliest end
MaxB(a, b) == IF a > b THEN a ELSE b
MinB(a, b) == IF a < b THEN a ELSE b
LoOf(p, q) == IF p.s = None THEN q.s ELSE IF q.s = None THEN p.s ELSE MaxB(p.s, q.s)    \* None = no lower bound
HiOf(p, q) == IF p.e = None THEN q.e ELSE IF q.e = None THEN p.e ELSE MinB(p.e, q.e)    \* None = no upper bound
ClosedForm(p, q) == LoOf(p, q) = None \/ HiOf(p, q) = None \/ LoOf(p, q) < HiOf(p, q)

PeriodLemmas ==
  \A p \in HasPeriods, q \in HasPeriods :
    /\ Intersects(p, q) = Intersects(q, p)
    /\ (~Degenerate(p) /\ ~Degenerate(q)) => (Intersects(p, q) <=> ClosedForm(p, q))
    /\ Degenerate(p) => ~Intersects(p, q)                      \* [t, t) intersects nothing
    /\ Touching(p, q) => ~Intersects(p, q)                     \* back-to-back periods do not intersect
    /\ Intersects(p, q) => Connected(p, q)
    /\ (~Degenerate(p) /\ ~Degenerate(q) /\ Connected(p, q) /\ ~Intersects(p, q)) => Touching(p, q)
    /\ ~Degenerate(p) => Intersects(p, AllTime)
    /\ ~Intersects(NoPeriod, p) /\ ~Intersects(p, NoPeriod)
ASSUME PeriodLemmas

----------------------------------------------------------------------------
(* Bookings, requests, changes.  A booking value is flat, the way the      *)
(* harness logs it: id, booked period (has, s, e), check_in bounds.        *)
V(id, p, cs, ce) == [id |-> id, has |-> p.has, s |-> p.s, e |-> p.e, cs |-> cs, ce |-> ce]
Booked(v)  == [has |-> v.has, s |-> v.s, e |-> v.e]
NoV        == V(0, NoPeriod, None, None)
Some(v)    == [ok |-> TRUE, v |-> v]
Absent     == [ok |-> FALSE, v |-> NoV]

\* read masks of the requests (they all keep the id: a change without id cannot be folded)
ReadMasks == {"all", "id", "idb", "idc"}
Proj(v, rm) == CASE rm = "id"  -> V(v.id, NoPeriod, None, None)
                 [] rm = "idb" -> V(v.id, Booked(v), None, None)
                 [] rm = "idc" -> V(v.id, NoPeriod, v.cs, v.ce)
                 [] OTHER      -> v
ProjO(ov, rm) == IF ov.ok THEN Some(Proj(ov.v, rm)) ELSE Absent

\* the include predicate of a request period (NoPeriod: no filter) -- always on the stored booking,
\* never on its read-mask projection
Matches(v, req) == ~req.has \/ Intersects(Booked(v), req)
In(ov, req)     == ov.ok /\ Matches(ov.v, req)

Chg(type, id, onv) == [type |-> type, id |-> id, nok |-> onv.ok, nv |-> onv.v]

(* The step function: what a subscriber is sent when a booking goes from   *)
(* old to new (either may be absent), given whether old / new are part of  *)
(* its filtered collection.                                                *)
Translate(old, new, oi, ni, rm) ==
  IF ni /\ ~oi THEN <<Chg("ADD", new.v.id, ProjO(new, rm))>>
  ELSE IF oi /\ ~ni THEN <<Chg("REMOVE", old.v.id, Absent)>>
  ELSE IF oi /\ ni THEN <<Chg("UPDATE", new.v.id, ProjO(new, rm))>>
  ELSE <<>>
Deliver(old, new, sub) == Translate(old, new, In(old, sub.req), In(new, sub.req), sub.rm)

\* maps id -> optional booking
EmptyMap == [i \in Ids |-> Absent]
Filtered(st, req) == [i \in Ids |-> IF In(st[i], req) THEN st[i] ELSE Absent]
ProjMap(m, rm)    == [i \in Ids |-> ProjO(m[i], rm)]
Listing(m) == LET P == { i \in Ids : m[i].ok }
              IN [k \in 1..Cardinality(P) |-> m[CHOOSE i \in P : Cardinality({ j \in P : j < i }) = k - 1].v]
\* ListBookings(req, rm): the matching bookings in id order
ListOf(st, req, rm) == Listing(ProjMap(Filtered(st, req), rm))
\* the seed of PullBookings(req, rm): the filtered list as ADDs, nothing with updates_only
Adds(L) == [k \in 1..Len(L) |-> Chg("ADD", L[k].id, Some(L[k]))]
Seed(st, sub) == IF sub.uo THEN <<>> ELSE Adds(ListOf(st, sub.req, sub.rm))

\* folding a stream by id
Fold1(view, ch) == IF ch.id \notin Ids THEN view
                   ELSE IF ch.type = "REMOVE" THEN [view EXCEPT ![ch.id] = Absent]
                   ELSE IF ch.nok THEN [view EXCEPT ![ch.id] = Some(ch.nv)]
                   ELSE view
RECURSIVE Fold(_, _)
Fold(view, chs) == IF chs = <<>> THEN view ELSE Fold(Fold1(view, Head(chs)), Tail(chs))

----------------------------------------------------------------------------
(* MC: c = [store, subs, out].  subs[k] = request + the fold of everything *)
(* the stream delivered (an updates_only client starts from ListBookings   *)
(* with the same request taken when it subscribes); out[k] = what the last *)
(* step delivered to subs[k].                                              *)
\* what an UpdateBooking writes (only the model checker walks with it: the trace check takes the
\* written value from what the real server lists afterwards)
Apply(v, p, mask) ==
  CASE mask = "none"   -> V(v.id, p, None, None)
    [] mask = "booked" -> V(v.id, p, v.cs, v.ce)
    [] mask = "start"  -> IF p.has THEN V(v.id, Per(p.s, v.e), v.cs, v.ce) ELSE v
    [] mask = "end"    -> IF p.has THEN V(v.id, Per(v.s, p.e), v.cs, v.ce) ELSE v
    [] OTHER           -> IF p.has THEN V(v.id, p, v.cs, v.ce) ELSE v
MCMasks == {"none", "booked", "start", "end"}
MCReadMasks == IF Scope >= 2 THEN {"all", "id"} ELSE {"all"}

MCInit == c = [store |-> EmptyMap, subs |-> <<>>, out |-> <<>>]

Write(i, new) ==
  LET old == c.store[i] IN
  c' = [store |-> [c.store EXCEPT ![i] = new],
        subs  |-> [k \in DOMAIN c.subs |-> [c.subs[k] EXCEPT !.view = Fold(@, Deliver(old, new, c.subs[k]))]],
        out   |-> [k \in DOMAIN c.subs |-> Deliver(old, new, c.subs[k])]]

CreateBooking(i, p) == ~c.store[i].ok /\ Write(i, Some(V(i, p, None, None)))
UpdateBooking(i, p, mask) == c.store[i].ok /\ Write(i, Some(Apply(c.store[i].v, p, mask)))
\* CheckInBooking / CheckOutBooking: check_in changes, booked does not
CheckIn(i)  == c.store[i].ok /\ Write(i, Some([c.store[i].v EXCEPT !.cs = IF @ = 0 THEN 1 ELSE 0]))
CheckOut(i) == Scope >= 2 /\ c.store[i].ok /\ c.store[i].v.ce = None /\ Write(i, Some([c.store[i].v EXCEPT !.ce = 1]))
PullBookings(req, uo, rm) ==
  /\ Len(c.subs) < MaxSubs
  /\ LET sub  == [req |-> req, uo |-> uo, rm |-> rm]
         seed == Seed(c.store, sub)
         view == IF uo THEN ProjMap(Filtered(c.store, req), rm) ELSE Fold(EmptyMap, seed)
     IN c' = [store |-> c.store,
              subs  |-> Append(c.subs, [req |-> req, uo |-> uo, rm |-> rm, view |-> view]),
              out   |-> Append([k \in DOMAIN c.subs |-> <<>>], seed)]

MCNext ==
  \/ \E i \in Ids, p \in Periods : CreateBooking(i, p)
  \/ \E i \in Ids, p \in Periods, m \in MCMasks : UpdateBooking(i, p, m)
  \/ \E i \in Ids : CheckIn(i) \/ CheckOut(i)
  \/ \E req \in Periods, uo \in BOOLEAN, rm \in MCReadMasks : PullBookings(req, uo, rm)

\* folding a subscriber's stream always yields ListBookings with the same request
FoldEqualsList ==
  \A k \in DOMAIN c.subs :
    LET sub == c.subs[k] IN
    /\ sub.view = ProjMap(Filtered(c.store, sub.req), sub.rm)
    /\ Listing(sub.view) = ListOf(c.store, sub.req, sub.rm)
\* a booking that ends exactly at the request's start, starts exactly at its end, is empty or has
\* no period is not in the filtered collection; a period open on both sides holds every proper booking
Boundaries ==
  \A k \in DOMAIN c.subs, i \in Ids :
    LET sub == c.subs[k]
        b   == Booked(c.store[i].v) IN
    (c.store[i].ok /\ sub.req.has) =>
      /\ (Touching(b, sub.req) \/ Degenerate(b) \/ ~b.has) => ~sub.view[i].ok
      /\ (sub.req = AllTime /\ b.has /\ ~Degenerate(b)) => sub.view[i].ok
\* the listing is in id order and holds every id once
ListSorted ==
  \A k \in DOMAIN c.subs :
    LET L == Listing(c.subs[k].view) IN \A a \in 1..Len(L), b \in 1..Len(L) : a < b => L[a].id < L[b].id

\* the property text, step by step (checked on every transition)
Mine(o, i) == SelectSeq(o, LAMBDA ch : ch.id = i)
TextStep ==
  \A k \in DOMAIN c'.subs :
    LET sub == c'.subs[k]
        o   == c'.out[k] IN
    IF k > Len(c.subs)
    THEN \* the seed is the filtered list (nothing with updates_only); opening a stream writes nothing
         /\ c'.store = c.store
         /\ o = (IF sub.uo THEN <<>> ELSE Adds(ListOf(c.store, sub.req, sub.rm)))
    ELSE /\ Len(o) <= 1
         /\ \A i \in Ids :
              LET old == c.store[i]
                  new == c'.store[i]
                  oi  == In(old, sub.req)
                  ni  == In(new, sub.req) IN
              \* matches neither before nor after: never delivered
              /\ (~oi /\ ~ni) => Mine(o, i) = <<>>
              \* starts / stops matching: ADD / REMOVE
              /\ (~oi /\ ni) => Mine(o, i) = <<Chg("ADD", i, ProjO(new, sub.rm))>>
              /\ (oi /\ ~ni) => Mine(o, i) = <<Chg("REMOVE", i, Absent)>>
              \* between two matching versions: an update
              /\ (oi /\ ni /\ old # new) => Mine(o, i) = <<Chg("UPDATE", i, ProjO(new, sub.rm))>>
              \* a booking that was not written is not reported (a write that changes nothing may be)
              /\ (old = new) => (Mine(o, i) = <<>> \/ (oi /\ Mine(o, i) = <<Chg("UPDATE", i, ProjO(new, sub.rm))>>))
TextProp == [][TextStep]_c

----------------------------------------------------------------------------
(* Gen: programs for the harness.  A step is a flat record (every field    *)
(* always present).  Booked periods of creates / updates are drawn half of *)
(* the time around the bounds of an open request: ending exactly at its    *)
(* start, starting exactly at its end, empty at a bound, open-ended.       *)
R(S) == RandomElement(S)
Flip(z, pct) == RandomElement(1..100) <= pct

St(op, id, p, mask, t, req, uo, rm, sid) ==
  [op |-> op, id |-> id, has |-> p.has, s |-> p.s, e |-> p.e, mask |-> mask, t |-> t,
   rh |-> req.has, rs |-> req.s, re |-> req.e, uo |-> uo, rm |-> rm, sid |-> sid]

Proper(z) == LET s == R(0..(T - 1)) IN Per(s, R({ t \in Times : t > s }))
RandPeriod(z) == LET r == R(1..100) IN
                 IF r <= 8 THEN NoPeriod ELSE IF r <= 16 THEN AllTime
                 ELSE IF r <= 58 THEN Proper(z)
                 ELSE IF r <= 70 THEN Per(R(Times), None)
                 ELSE IF r <= 82 THEN Per(None, R(Times))
                 ELSE Per(R(Bound), R(Bound))
RandReq(z) == LET r == R(1..100) IN
              IF r <= 10 THEN NoPeriod ELSE IF r <= 18 THEN AllTime
              ELSE IF r <= 60 THEN Proper(z)
              ELSE IF r <= 72 THEN Per(R(Times), None)
              ELSE IF r <= 84 THEN Per(None, R(Times))
              ELSE Per(R(Bound), R(Bound))
\* periods at the bounds of request q
Around(q) ==
  (IF q.has /\ q.s # None
   THEN {Per(None, q.s), Per(q.s, q.s), Per(q.s, None)} \cup { Per(a, q.s) : a \in { t \in Times : t < q.s } }
        \cup { Per(q.s, b) : b \in { t \in Times : t > q.s } }
   ELSE {})
  \cup
  (IF q.has /\ q.e # None
   THEN {Per(q.e, None), Per(q.e, q.e), Per(None, q.e)} \cup { Per(q.e, b) : b \in { t \in Times : t > q.e } }
        \cup { Per(a, q.e) : a \in { t \in Times : t < q.e } }
   ELSE {})
BookedFor(z, open) ==
  IF open # <<>> /\ Flip(z, 50)
  THEN LET A == Around(open[R(1..Len(open))].req) IN IF A = {} THEN RandPeriod(z) ELSE R(A)
  ELSE RandPeriod(z)

GenMasks == {"none", "none", "booked", "booked", "start", "end", "startend"}
GenReadMasks == {"all", "all", "all", "id", "idb", "idc"}
Blank(op) == St(op, 0, NoPeriod, "none", 0, NoPeriod, FALSE, "all", 0)

\* one step, given the ids believed to exist and the open streams (<<[sid, req]>>)
GenStep(z, have, open, nsid, first) ==
  LET r   == R(1..100)
      id  == IF have # {} /\ Flip(z, 85) THEN R(have) ELSE R(Ids)
      nid == IF Ids \ have # {} /\ Flip(z, 75) THEN R(Ids \ have) ELSE R(Ids)
  IN IF Len(open) < MaxSubs /\ (first \/ r <= 16)
     THEN St("open", 0, NoPeriod, "none", 0, RandReq(z), Flip(z, 30), R(GenReadMasks), nsid)
     ELSE IF r <= 20 /\ open # <<>> THEN [Blank("close") EXCEPT !.sid = open[R(1..Len(open))].sid]
     ELSE IF r <= 28 THEN St("list", 0, NoPeriod, "none", 0, RandReq(z), FALSE, R(GenReadMasks), 0)
     ELSE IF r <= 40 THEN St("create", nid, BookedFor(z, open), "none", 0, NoPeriod, FALSE, "all", 0)
     ELSE IF r <= 84 THEN St("update", id, BookedFor(z, open), R(GenMasks), 0, NoPeriod, FALSE, "all", 0)
     ELSE IF r <= 93 THEN St("checkin", id, NoPeriod, "none", R(Times), NoPeriod, FALSE, "all", 0)
     ELSE St("checkout", id, NoPeriod, "none", R(Times), NoPeriod, FALSE, "all", 0)

RECURSIVE Build(_, _, _, _, _, _)
Build(z, n, have, open, nsid, acc) ==
  IF n = 0 THEN acc
  ELSE LET st == GenStep(z, have, open, nsid, acc = <<>> \/ (Len(acc) = 1 /\ Flip(z, 50)))
           have2 == IF st.op = "create" THEN have \cup {st.id} ELSE have
           open2 == IF st.op = "open" THEN Append(open, [sid |-> st.sid, req |-> [has |-> st.rh, s |-> st.rs, e |-> st.re]])
                    ELSE IF st.op = "close" THEN SelectSeq(open, LAMBDA x : x.sid # st.sid)
                    ELSE open
       IN Build(z, n - 1, have2, open2, IF st.op = "open" THEN nsid + 1 ELSE nsid, Append(acc, st))

InitOf(z, ids) == LET L == [i \in ids |-> V(i, RandPeriod(z), IF Flip(z, 20) THEN R(Times) ELSE None, None)]
                      RECURSIVE InOrder(_)
                      InOrder(S) == IF S = {} THEN <<>> ELSE LET m == CHOOSE x \in S : \A y \in S : x <= y IN <<L[m]>> \o InOrder(S \ {m})
                  IN InOrder(ids)
Prog(k) ==
  LET ids == { i \in Ids : Flip(k, 55) }
  IN [n |-> k, kind |-> "random", init |-> InitOf(k, ids),
      steps |-> Build(k, R((MaxSteps \div 2)..MaxSteps), ids, <<>>, 1, <<>>)]

(* The exhaustive grid over times 0..2: for every (old period, new period) *)
(* of booking 1 and every third of the request periods (incl. no filter),  *)
(* open one stream per request, rewrite the booking, check in, and write   *)
(* the old period back through an update mask.                             *)
GBound == {None, 0, 1, 2}
GPeriods == {NoPeriod} \cup { Per(s, e) : s \in GBound, e \in GBound }
GReqs == LET RECURSIVE AnyOrder(_)
             AnyOrder(S) == IF S = {} THEN <<>> ELSE LET m == CHOOSE x \in S : TRUE IN <<m>> \o AnyOrder(S \ {m})
         IN AnyOrder(GPeriods)
GridProg(n, p1, p2, g) ==
  LET reqs  == SelectSeq([j \in 1..Len(GReqs) |-> [j |-> j, req |-> GReqs[j]]], LAMBDA x : x.j % 3 = g)
      opens == [j \in 1..Len(reqs) |-> St("open", 0, NoPeriod, "none", 0, reqs[j].req, Flip(n, 25), R(GenReadMasks), j)]
  IN [n |-> n, kind |-> "grid",
      init |-> <<V(1, p1, None, None), V(2, RandPeriod(n), None, None)>>,
      steps |-> opens \o <<St("update", 1, p2, "none", 0, NoPeriod, FALSE, "all", 0),
                           St("checkin", 1, NoPeriod, "none", R(Times), NoPeriod, FALSE, "all", 0),
                           St("update", 1, p1, "booked", 0, NoPeriod, FALSE, "all", 0)>>]
GridProgs == IF Scope < 2 THEN {}
             ELSE { GridProg(NCases + 1, p1, p2, g) : p1 \in GPeriods, p2 \in GPeriods, g \in 0..2 }

GenInit == c \in { Prog(k) : k \in 1..NCases } \cup GridProgs
GenNext == UNCHANGED c
EmitCase == PrintT("CASE " \o ToJson(c))
=============================================================================
