SPECIFICATION SpecGen
CONSTANTS
  Listeners = {1, 2}
  Senders = {1, 2}
  MaxSends = 2
  SendCtxMayEnd = TRUE
  ListenerLock = TRUE
  Eager = TRUE
  MaxCancels = 2
INVARIANT EmitCase
CHECK_DEADLOCK FALSE
