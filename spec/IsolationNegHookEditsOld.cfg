INIT Init
NEXT Next
INVARIANT HandedOutStable
CONSTANTS
  StoreIn = FALSE
  InPlace = FALSE
  ReadEdits = FALSE
  FirstWriteKeeps = FALSE
  HookEditsOld = TRUE
  LendsOld = FALSE
  MergeFiltersSrc = FALSE
  InitKinds = {"absent", "present"}
  NCases = 0
  MinOps = 1
  MaxOps = 1
  MaxLive = 200
