INIT GenInit
NEXT GenNext
INVARIANT EmitCase
CONSTANTS
  NCells = 1
  NVals = 1
  StoreIn = FALSE
  InPlace = FALSE
  ReadEdits = FALSE
  MaxLive = 200
