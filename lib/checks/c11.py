"""C11 - concurrent use of the public API is free of data races.

Level claimed: exploration.  A TLA+ specification does not observe Go memory accesses, so it cannot by itself decide
a memory-model property of the code.  The specification contributes
  (1) spec/RaceModel.tla: a design-level happens-before check (vector clocks over the locking / channel discipline of
      every shared location, as read off the code) - TLC checks NoRace for the repaired discipline and finds the
      races of the disciplines the code was found with (rng under the read lock, stream metadata read after a
      client-side cancel, interceptors editing the stored message, ONE random source in the package-level default
      options feeding every instance) and of three seeded deviations;
  (2) spec/RaceGen.tla: the workloads - concurrent programs over the alphabet of spec/RaceOps.tla.
The code-level oracle is the Go race detector: harness/cmd/racex runs every program free-running in a -race build;
every report whose stacks contain sc-golang frames is a violation.  spec/RaceTrace.tla checks on what actually ran
that no program was vacuous (two processes in conflict on one object, all operations completed).
"""
import concurrent.futures
import json
import os
import re

import vf

LEVEL = "exploration"

MOD = "github.com/smart-core-os/sc-golang/"
GORACE = "halt_on_error=0 exitcode=66 history_size=5 atexit_sleep_ms=0"

REPAIRED = {"RngGuard": '"ownmutex"', "StreamGuard": '"mutex"', "OldMutated": "FALSE", "DefaultShared": '"none"', "Mutant": '"none"'}


def consts(n, family, **over):
    c = dict(REPAIRED, N=str(n), Family='"%s"' % family)
    c.update(over)
    return c


# ----------------------------------------------------------------------------------------------- model checking
def model_checks(ctx, thorough):
    base = open(os.path.join(vf.SPEC, "RaceMC.cfg")).read()
    must_hold = [(2, "val", {}), (2, "coll", {}), (2, "bus", {}), (2, "rtr", {}),
                 (2, "stream", {}), (3, "group", {}),
                 # two instances built from package-level defaults: nothing shared / an immutable initial message shared
                 (2, "dflt", {}), (2, "dflt", {"DefaultShared": '"message"'}),
                 # caller-owned option values shared between calls on two instances: the library only reads them
                 (2, "opt", {})]
    if thorough:
        must_hold += [(2, "coll", {"RngGuard": '"writelock"'}), (3, "val", {}), (3, "coll", {}), (3, "bus", {}), (3, "rtr", {})]
    # disciplines the code was found with, and seeded deviations: NoRace must FAIL, and only where expected
    pinned = [
        ("rng used under the read lock only (collection.go genID, as the code had it)", 2, "coll", {"RngGuard": '"readlock"'}, "OnlyRngRaces"),
        ("stream trailer/closeErr read after a client-side cancel without a lock (stream.go, as the code had it)", 2, "stream",
         {"StreamGuard": '"none"'}, "OnlyStreamRaces"),
        ("write interceptor edits the stored message in place (metadatapb merge, parentpb traitUnion/traitRemove, as the code had it)",
         2, "val", {"OldMutated": "TRUE"}, "OnlyMessageRaces"),
        ("package-level default options hold ONE random source for every instance; each instance generates ids under its "
         "own lock (electricpb.DefaultModelOptions, as the code had it before 9c6d9aa)", 2, "dflt", {"DefaultShared": '"rng"'}, "OnlyPkgRaces"),
        ("the initial message held by the package-level defaults is shared by the instances and a write interceptor of one "
         "instance edits it in place", 2, "dflt", {"DefaultShared": '"message"', "OldMutated": "TRUE"}, "OnlyMessageRaces"),
        ("seeded: Value.Get without RLock", 2, "val", {"Mutant": '"getNoRLock"'}, None),
        ("seeded: Bus.collect without listenerM", 2, "bus", {"Mutant": '"collectNoLock"'}, None),
        ("seeded: router.Has without lock", 2, "rtr", {"Mutant": '"hasNoLock"'}, None),
        ("seeded: a late SetHeader appends into the metadata map the client's Header() is cloning outside the lock", 2, "stream",
         {"Mutant": '"metadataAppendedInPlace"'}, None),
        ("seeded: the library normalises the caller's update mask in place when the shared option is applied", 2, "opt",
         {"Mutant": '"optionNormalisedInPlace"'}, "OnlyOptionRaces"),
    ]
    jobs = []
    for n, fam, over in must_hold:
        jobs.append(("hold", "repaired discipline", n, fam, over, base))
    for what, n, fam, over, only in pinned:
        jobs.append(("fail", what, n, fam, over, base))
        if only and (thorough or only in ("OnlyRngRaces", "OnlyPkgRaces")):
            jobs.append(("hold", what + " - nothing else races", n, fam, over, base.replace("NoRace", only)))

    def one(job):
        kind, what, n, fam, over, cfg = job
        return job, ctx.tlc("RaceModel", None, cfg_text=cfg, consts=consts(n, fam, **over), workers=4 if n > 2 else 2, timeout=900)

    with concurrent.futures.ThreadPoolExecutor(max_workers=4 if thorough else 8) as ex:
        results = list(ex.map(one, jobs))
    for (kind, what, n, fam, over, cfg), res in results:
        if kind == "hold":
            ctx.cov["states"] += res.distinct
            ctx.cov["transitions"] += res.states
            if res.violated or not res.ok:
                raise vf.Inconclusive("RaceModel (%s, N=%d, %s %s) must satisfy its invariants but: %s\n%s" %
                                      (fam, n, what, over, res.violated, res.out[-2500:]))
        else:
            if "NoRace" not in res.violated:
                raise vf.Inconclusive("RaceModel variant '%s' should violate NoRace but TLC found nothing:\n%s" % (what, res.out[-2000:]))
            m = None
            for m in re.finditer(r"/\\ races = (\{.*?\})\s*\n/\\", res.out, re.S):
                pass
            ctx.cov["notes"].append({"model_variant": what, "family": fam, "NoRace": "violated (expected)",
                                     "race_found_by_TLC": re.sub(r"\s+", " ", m.group(1)) if m else "?",
                                     "scenario": (re.findall(r"/\\ scen = (<<.*?>>)", res.out) or ["?"])[-1]})


# ----------------------------------------------------------------------------------------------- workloads
def gen(ctx, ncases):
    r = ctx.tlc("RaceGen", "RaceGen.cfg", consts={"NCases": ncases, "MinProcs": 4, "MaxProcs": 16, "MaxOps": 3}, workers=1, timeout=600)
    progs = r.cases()
    if len(progs) < ncases * 0.8:
        raise vf.Inconclusive("RaceGen produced only %d of %d programs:\n%s" % (len(progs), ncases, r.out[-2000:]))
    progs.sort(key=lambda c: c["n"])
    return progs


# ----------------------------------------------------------------------------------------------- race reports
def clean_fn(fn):
    fn = re.sub(r"\(\.\.\.\)$|\(\)$", "", fn)
    fn = fn.replace("(*", "").replace(")", "")
    fn = re.sub(r"\.func\d+(\.\d+)*", ".func", fn)
    fn = re.sub(r"\.gowrap\d+", ".go", fn)
    fn = re.sub(r"\[\.\.\.\]", "", fn)
    return fn


def split_reports(text):
    """-> list of (program n, [lines]) for every WARNING: DATA RACE block, in the order they were printed."""
    cur, blocks, inblk, blk = None, [], False, []
    for l in text.splitlines():
        if l.startswith("RACEX BEGIN "):
            cur = int(l.split()[2])
        if l.strip() == "==================":
            if inblk:
                if any("WARNING: DATA RACE" in x for x in blk):
                    blocks.append((cur, blk))
                inblk, blk = False, []
            else:
                inblk, blk = True, []
            continue
        if inblk:
            blk.append(l)
    return blocks


def sections(blk):
    """The two access stacks of a report: [{head, frames: [{fn, file}]}]."""
    secs, cur = [], None
    for l in blk:
        s = l.strip()
        if re.match(r"^(Read|Write|Previous read|Previous write|Atomic \w+|Previous atomic \w+) at ", s) and s.endswith(":"):
            cur = {"head": s, "frames": []}
            secs.append(cur)
            continue
        if l.startswith("Goroutine ") or l.startswith("Mutex "):
            cur = None
            continue
        if cur is None:
            continue
        if not s:
            if cur["frames"]:
                cur = None
            continue
        if s.startswith("[failed to restore"):
            cur["frames"].append({"fn": s, "file": ""})
        elif l.startswith("      "):
            if cur["frames"]:
                cur["frames"][-1]["file"] = s.split(" +")[0]
        else:
            cur["frames"].append({"fn": s, "file": ""})
    return secs


def is_repo_fn(fn):
    return fn.startswith(MOD + "pkg/") or fn.startswith(MOD + "internal/")


def top_frame(sec):
    """file:func of the innermost sc-golang frame (generated test messages are skipped: they are plain field access)."""
    for f in sec["frames"]:
        fn = f["fn"]
        if is_repo_fn(fn) and "/internal/testproto." not in fn:
            file = re.sub(r"^.*?/(pkg|internal)/", r"\1/", f["file"].rsplit(":", 1)[0])
            return "%s:%s" % (file, clean_fn(fn[len(MOD):].rsplit("/", 1)[-1])), True
    for f in sec["frames"]:
        if is_repo_fn(f["fn"]):
            return "internal/testproto:" + clean_fn(f["fn"].rsplit("/", 1)[-1]), True
    for f in sec["frames"]:
        if f["fn"].startswith("main."):
            return "caller:" + clean_fn(f["fn"])[5:], False
    return "unknown:" + (clean_fn(sec["frames"][0]["fn"]) if sec["frames"] else "no-stack").replace(" ", "-"), False


def last_open_program(text):
    cur = None
    for l in text.splitlines():
        if l.startswith("RACEX BEGIN "):
            cur = int(l.split()[2])
        elif l.startswith("RACEX END "):
            cur = None
    return cur


def run_shard(ctx, k, progs, budget_ms):
    """Runs the programs of one shard; restarts after a fatal runtime error (which kills the process) with the
    programs after the one that crashed.  -> (outputs, obs rows, crashes)"""
    outs, obs, crashes = [], [], []
    todo = list(progs)
    for attempt in range(25):
        if not todo:
            break
        cpath = ctx.write_ndjson("cases-%d-%d.ndjson" % (k, attempt), todo)
        opath = ctx.path("obs-%d-%d.ndjson" % (k, attempt))
        p = ctx.run_harness(["-cases", cpath, "-out", opath, "-budget-ms", str(budget_ms)], cmd="racex", race=True, check=False,
                            timeout=budget_ms / 1000 + 300,
                            env={"GORACE": GORACE, "VERIF_CURRENT": ctx.path("current-shard-%d.json" % k)})
        outs.append(p.stdout)
        if os.path.exists(opath):
            obs += ctx.read_ndjson(opath)
        if "RACEX DONE" in p.stdout and p.returncode in (0, 66):
            break
        m = re.search(r"^(fatal error:.*|panic:.*)$", p.stdout, re.M)
        n = last_open_program(p.stdout)
        if m and n is not None:
            frames = []
            tail = p.stdout[m.start():]
            for fm in re.finditer(r"^(\S+)\(.*\)\n\t(\S+):\d+", tail[:20000], re.M):
                frames.append((fm.group(1), fm.group(2)))
            crashes.append({"n": n, "message": m.group(1), "frames": frames[:40], "trace": tail[:6000]})
            todo = [c for c in todo if c["n"] > n]
            continue
        raise vf.Inconclusive("racex shard %d ended rc=%d without finishing:\n%s" % (k, p.returncode, p.stdout[-3000:]))
    else:
        raise vf.Inconclusive("racex shard %d crashed 25 times" % k)
    return outs, obs, crashes


def run(ctx):
    thorough = ctx.tier == "thorough"
    model_checks(ctx, thorough)

    ncases = 4800 if thorough else 480
    iters = 100 if thorough else 20
    shards = 8 if thorough else 4
    budget_ms = 560_000 if thorough else 60_000
    progs = gen(ctx, ncases)
    for c in progs:
        c["iters"] = iters
    byn = {c["n"]: c for c in progs}
    ctx.harness(race=True, cmd="racex")   # build once, before the threads
    parts = [progs[k::shards] for k in range(shards)]
    with concurrent.futures.ThreadPoolExecutor(max_workers=shards) as ex:
        results = list(ex.map(lambda kp: run_shard(ctx, kp[0], kp[1], budget_ms), enumerate(parts)))
    outs = [o for r in results for o in r[0]]
    obs = sorted([o for r in results for o in r[1]], key=lambda o: o["n"])
    crashes = [c for r in results for c in r[2]]
    if not obs:
        raise vf.Inconclusive("racex produced no observations")

    # ---- the verdict: race detector reports
    harness_only = []
    nreports = 0
    for text in outs:
        for n, blk in split_reports(text):
            nreports += 1
            secs = sections(blk)
            if len(secs) < 2:
                raise vf.Inconclusive("unparsed race report:\n" + "\n".join(blk[:40]))
            (a, ra), (b, rb) = top_frame(secs[0]), top_frame(secs[1])
            if not (ra or rb) and not any(is_repo_fn(f["fn"]) for s in secs for f in s["frames"]):
                harness_only.append("\n".join(blk[:60]))
                continue
            a, b = sorted([a, b])
            prog = byn.get(n, {})
            ctx.violation("C11/race/%s/%s" % (a, b),
                          "the race detector reported a data race between %s and %s while program %s (%s) was running" %
                          (a, b, n, prog.get("family", "?")),
                          {"program": prog, "access_1": secs[0], "access_2": secs[1], "report": "\n".join(blk)[:8000]})
    for cr in crashes:
        # the goroutine the runtime stopped is a victim, not necessarily the culprit: the signature names the program family
        prog = byn.get(cr["n"], {})
        slug = re.sub(r"[^a-z]+", "-", cr["message"].lower().replace("fatal error:", "")).strip("-")
        repo_frames = ["%s:%s" % (re.sub(r"^.*?/(pkg|internal)/", r"\1/", file), clean_fn(fn[len(MOD):].rsplit("/", 1)[-1]))
                       for fn, file in cr["frames"] if is_repo_fn(fn) and "/internal/testproto." not in fn]
        ctx.violation("C11/fatal/%s/%s" % (slug, prog.get("family", "unknown")),
                      "the Go runtime stopped the process (%s) while program %s was running: an unsynchronised map access" %
                      (cr["message"], cr["n"]), {"program": prog, "sc_golang_frames": repo_frames[:12], "trace": cr["trace"]})
    if harness_only:
        raise vf.Inconclusive("%d race reports lie entirely inside the harness (a harness bug, not a verdict), e.g.\n%s" %
                              (len(harness_only), harness_only[0]))

    # ---- non-vacuity: what ran, judged by the specification's table
    opath = ctx.write_ndjson("obs.ndjson", obs)
    tr = ctx.tlc("RaceTrace", "RaceTrace.cfg", workers=1, files={"obs.ndjson": opath}, timeout=900)
    if not any(l.startswith('"CHECKED %d"' % len(obs)) for l in tr.out.splitlines()):
        raise vf.Inconclusive("trace check did not cover all %d programs:\n%s" % (len(obs), tr.out[-3000:]))
    bad = tr.cases("BAD ")
    badn = {obs[b["line"] - 1]["n"] for b in bad}
    crashed = {c["n"] for c in crashes}
    good = [o for o in obs if o["n"] not in badn]
    for o in good:
        ctx.count(o["iters"])
        ctx.distinct((o["procs"], o["inst"], o["on"]))
    ctx.cov["traces_validated_against_impl"] += len(good)
    ctx.cov["programs_generated_by_tlc"] = len(progs)
    ctx.cov["programs_run"] = len(obs)
    ctx.cov["race_reports"] = nreports
    ctx.cov["operations_completed"] = sum(sum(o["done"]) for o in obs)
    ctx.cov["events_read_by_consumers"] = sum(o["events"] for o in obs)
    multi = [l for l in tr.out.splitlines() if l.startswith('"MULTI ')]
    ctx.cov["programs_with_2_or_3_instances_from_package_defaults"] = int(multi[0].strip('"').split()[1]) if multi else 0
    optl = [l for l in tr.out.splitlines() if l.startswith('"OPTS ')]
    ctx.cov["programs_with_two_processes_sharing_option_values"] = int(optl[0].strip('"').split()[1]) if optl else 0
    cover = tr.cases("COVER ")
    ctx.cov["model_disciplines_exercised"] = sorted(cover[0]) if cover else []
    kinds = {}
    for o in obs:
        for k, v in o["ops"].items():
            kinds[k] = kinds.get(k, 0) + v
    ctx.cov["operation_kinds_exercised"] = len(kinds)
    panics = sorted({re.sub(r"0x[0-9a-f]+", "0x", s)[:160] for o in obs for s in o["panics"]})
    if panics:
        # not C11's business (no race involved), but worth knowing
        ctx.cov["notes"].append({"operations_that_panicked_under_contention": panics[:6]})
    for o in good[:2] + good[len(good) // 2: len(good) // 2 + 1]:
        ctx.sample({k: o[k] for k in ("n", "family", "inst", "on", "procs", "iters", "ops", "errs", "events")})
    ctx.cov["rule"] = ("TLC (RaceGen.tla) draws programs of 4-16 processes, each 1-4 operation kinds of one family of the "
                       "alphabet in RaceOps.tla (Value, Collection, Bus, Router, wrapped clients with header/trailer and "
                       "streams, group strategies, electric/parent/metadata/hail/booking/publication models, mixed, "
                       "16 more trait models constructed from their package default options only, package-level helpers and "
                       "variables, InfoServer); two programs in three have 2-3 instances of every type (instances 2 and 3 built "
                       "with no options, so they share whatever the package-level defaults hold) with every process on one "
                       "instance; every program has one kit of option VALUES (write/read/resource/router/model options, the "
                       "masks and messages inside them, request messages) built once and handed to the calls of all processes "
                       "by the ...shared and o.new* kinds, "
                       "with interceptors/callbacks/consumers that read everything they are given; each program runs "
                       "%d times free-running under the race detector (evaluations = programs x iterations); "
                       "non-trivial = RaceTrace.tla confirms on what ran that all operations completed and two different "
                       "processes had operations on one object, one of them writing (several instances: two processes on "
                       "different instances of one type); distinct = distinct programs" % iters)
    not_run = len(progs) - len(obs) - len(crashed - {o["n"] for o in obs})
    if not_run > 0:
        ctx.cov["notes"].append({"programs_not_run_budget_reached": not_run})
    problems = [b for b in bad if obs[b["line"] - 1]["n"] not in crashed]
    if (problems or len(obs) < len(progs) // 2) and not ctx.violations:
        ex = problems[0] if problems else {}
        raise vf.Inconclusive("%d of %d programs were vacuous or incomplete (and %d not run), e.g. %s %s" %
                              (len(problems), len(obs), not_run, ex.get("fails"),
                               json.dumps(obs[ex["line"] - 1])[:600] if ex else ""))
    if problems:
        ctx.cov["notes"].append({"programs_vacuous_or_incomplete": len(problems), "example": problems[0]})


MANIFEST = {
    "level": "exploration",
    "engine": "spec/RaceModel.tla (TLC, vector clocks) + spec/RaceGen.tla + spec/RaceTrace.tla over spec/RaceOps.tla; "
              "harness cmd/racex in a -race build (Go race detector)",
    "technique": "design-level happens-before model checked by TLC; TLC-generated concurrent workloads run free-running "
                 "under the Go race detector; every report with sc-golang frames is a violation",
    "text": "A TLA+ specification does not observe Go memory accesses, so the level is exploration, not model checking of "
            "the code. RaceModel.tla writes down the locking/channel discipline of every shared location (Value value/"
            "changeTime under mu, Collection byId and rng, pubMu, Bus listeners under listenerM and listener.ch under "
            "listener.m, router registry, wrap stream header/trailer/closeErr, group results, messages handed to "
            "callbacks and consumers) with vector clocks as auxiliary variables; TLC checks NoRace over all interleavings "
            "of 2-3 processes for the repaired discipline and shows the race for the disciplines the code was found with "
            "(rng under the read lock, stream metadata after a client-side cancel, interceptors editing the stored "
            "message, a package-level default random source shared by two instances that each lock only themselves) and "
            "for three seeded deviations. RaceGen.tla draws programs of 4-16 processes over an alphabet of ~150 operation "
            "kinds; two programs in three have 2-3 instances of every type built from the package default options and "
            "used by different goroutines at once (package-level defaults are shared state); cmd/racex runs them with no harness synchronisation after the common start; reports are "
            "de-duplicated by the pair of innermost sc-golang frames. RaceTrace.tla rejects vacuous programs.",
    "note": "Trusted base: the Go race detector (it only sees races that happen in the runs; no report is not a proof), "
            "TLC, the table in RaceOps.tla (which object an operation touches). Harness callbacks never write shared "
            "state; a report entirely inside the harness makes the check inconclusive, never suppressed.",
}
