"""Per-property MANIFEST texts.  A property is only listed in MANIFEST.checks
once lib/checks/<id>.py exists."""

TLC_BASE = ("Trusted base: TLC 1.8.0 evaluating the TLA+ predicates; the Go abstraction function "
            "(harness/mini, Abs/Conc between spec messages and TestAllTypes); the harness reporting "
            "faithfully what the real code returned. ")

# per-property entries live in lib/checks/cNN.py as MANIFEST = {engine, technique, text, note[, level]}

NOT_APPLICABLE = []

ENGINES = [
    {"name": "tlc", "path": "/usr/local/bin/tlc", "serves_properties": [],
     "kind_free_text": "TLC 1.8.0 explicit-state model checker: MC of the specification library in spec/, case "
                       "generation (PrintT/ToJson) and trace validation (ndJsonDeserialize) against the real code"},
    {"name": "harness", "path": "harness/", "serves_properties": [],
     "kind_free_text": "Go program built on every check from /repo's working tree with -tags verif; replays "
                       "TLC-generated cases and records observations as ndjson"},
]

NOTES = ("Every check is ./bin/verif check <id> --tier quick|thorough; exit 0 = held, 1 = VIOLATION lines, "
         "2 = inconclusive (tool failure/timeout; never a violation). VERIF_REPO overrides /repo for scratch "
         "worktrees. Known findings: KNOWN_FINDINGS.txt.")
