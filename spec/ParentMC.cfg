SPECIFICATION Spec
INVARIANTS StateWellFormed ListIsSetAlgebra AbsentMeansNoChange ReturnIsStored
VIEW ViewNoHist
