---------------------------- MODULE GroupGen ----------------------------
(***************************************************************************)
(* Gen use of the C17 specification: the cases the harness replays on the *)
(* real group.Execute* functions.  A case fixes everything the property   *)
(* quantifies over: the strategy and entry point, the number of members,  *)
(* each member's planned outcome, which members are cancellation-aware,   *)
(* and the schedule: `order` is the sequence in which the harness lets    *)
(* the members return (0 = the caller cancels its own context).           *)
(*   Exhaustive: n in 0..MaxN x every outcome vector x every completion   *)
(*     order x 6 strategies x {Direct, Execute}; for n <= AwareN also     *)
(*     every set of cancellation-aware members x every position of a      *)
(*     caller-side cancel.                                                *)
(*   Random: NRand cases with up to MaxRandN members, random aware sets,  *)
(*     a caller-side cancel in about a third, also through the trait      *)
(*     group servers (api "OnOff", "Light").                              *)
(***************************************************************************)
EXTENDS GroupContract, Json

CONSTANTS MaxN, AwareN, NRand, MaxRandN
VARIABLE c

Plain(n) == [m \in 1..n |-> FALSE]
InsertAt(s, k, x) == SubSeq(s, 1, k) \o <<x>> \o SubSeq(s, k + 1, Len(s))

Exhaustive ==
  UNION { { [kind |-> "exhaustive", strat |-> s, api |-> a, n |-> n, plan |-> p, aware |-> Plain(n), order |-> o] :
              s \in Strategies, a \in {"Direct", "Execute"}, p \in [1..n -> BOOLEAN], o \in Permutations(1..n) }
          : n \in 0..MaxN }

ExhaustiveAware ==
  UNION { { [kind |-> "exhaustive-aware", strat |-> s, api |-> "Execute", n |-> n, plan |-> p, aware |-> w,
             order |-> IF k = -1 THEN o ELSE InsertAt(o, k, 0)] :
              s \in Strategies, p \in [1..n -> BOOLEAN], w \in [1..n -> BOOLEAN] \ {Plain(n)},
              o \in Permutations(1..n), k \in -1..n }
          : n \in 1..AwareN }

RECURSIVE RandPerm(_)
RandPerm(S) == IF S = {} THEN <<>> ELSE LET x == RandomElement(S) IN <<x>> \o RandPerm(S \ {x})

Rand(k) ==
  LET n == IF RandomElement(1..10) <= 6 THEN RandomElement(5..MaxRandN) ELSE RandomElement(0..4)
      o == RandPerm(1..n)
      pok == RandomElement({20, 50, 80})              \* per-case success rate
      pcan == RandomElement(1..3) = 1
  IN [kind |-> "random", strat |-> RandomElement(Strategies),
      api |-> RandomElement({"Direct", "Execute", "Execute", "OnOff", "Light"}), n |-> n,
      plan |-> [m \in 1..n |-> RandomElement(1..100) <= pok],
      aware |-> [m \in 1..n |-> RandomElement(BOOLEAN)],
      order |-> IF pcan THEN InsertAt(o, RandomElement(0..n), 0) ELSE o]

GenInit == c \in Exhaustive \cup ExhaustiveAware \cup { Rand(k) : k \in 1..NRand }
GenNext == UNCHANGED c
EmitCase == PrintT("CASE " \o ToJson(c))
=============================================================================
