// Command bookingx drives the real bookingpb.ModelServer with the programs printed by
// spec/Booking.tla (Gen) for the booking part of C08: ListBookings / PullBookings with a
// booking_intersects period.  Every step of a program (open a PullBookings stream, ListBookings,
// CreateBooking, UpdateBooking, CheckInBooking, CheckOutBooking, close a stream) is one JSON line:
// the contents before (ListBookings without filter), the call, what it returned, the contents
// after, and for every open stream what it received because of this step, its folded view before
// the step and ListBookings(same request) before and after.  Nothing is judged here:
// spec/BookingTrace.tla evaluates the C08 clauses on the lines.
//
// Deliveries are made deterministic without sleeping: the hook points of pkg/resource (build tag
// verif) tell for every open stream when the change of a write has been looked at by the
// collection's Pull ("fwd.skip": filtered out, "fwd.sent": handed on); the step ends when every
// open stream has looked at the change and every change handed on has reached the fake
// BookingApi_PullBookingsServer (bounded by a timeout, which is recorded in the line).
package main

import (
	"context"
	"sort"
	"sync"
	"time"

	"google.golang.org/grpc"
	"google.golang.org/protobuf/types/known/fieldmaskpb"
	"google.golang.org/protobuf/types/known/timestamppb"

	"github.com/smart-core-os/sc-api/go/traits"
	"github.com/smart-core-os/sc-api/go/types"
	scTime "github.com/smart-core-os/sc-api/go/types/time"
	"github.com/smart-core-os/sc-golang/pkg/resource"
	"github.com/smart-core-os/sc-golang/pkg/trait/bookingpb"
	"github.com/smart-core-os/sc-golang/verifharness/hx"
)

// ---- programs (Booking.tla, Gen) ---------------------------------------------------

// val is the abstraction of a traits.Booking: id rank (b1 -> 1), booked period (has = booked is
// present; s, e = bounds on the spec's time grid, -1 = absent), check_in bounds (-1 = absent).
type val struct {
	ID  int  `json:"id"`
	Has bool `json:"has"`
	S   int  `json:"s"`
	E   int  `json:"e"`
	Cs  int  `json:"cs"`
	Ce  int  `json:"ce"`
}

type step struct {
	Op   string `json:"op"` // open | close | list | create | update | checkin | checkout
	ID   int    `json:"id"`
	Has  bool   `json:"has"` // create/update: the booked period
	S    int    `json:"s"`
	E    int    `json:"e"`
	Mask string `json:"mask"` // update: none | booked | start | end | startend
	T    int    `json:"t"`    // checkin/checkout: the time
	Rh   bool   `json:"rh"`   // open/list: booking_intersects present
	Rs   int    `json:"rs"`
	Re   int    `json:"re"`
	Uo   bool   `json:"uo"`  // open: updates_only
	Rm   string `json:"rm"`  // open/list: read mask: all | id | idb | idc
	Sid  int    `json:"sid"` // open/close: the stream
}

type prog struct {
	N     int    `json:"n"`
	Kind  string `json:"kind"`
	Init  []val  `json:"init"`
	Steps []step `json:"steps"`
}

// ---- observations (BookingTrace.tla) ----------------------------------------------------

type chg struct {
	Type string `json:"type"` // ADD | UPDATE | REMOVE | other names of types.ChangeType
	ID   int    `json:"id"`   // rank of new_value.id, else of old_value.id, else 0
	Nok  bool   `json:"nok"`  // new_value present
	Nv   val    `json:"nv"`
	Ook  bool   `json:"ook"` // old_value present
	Ov   val    `json:"ov"`
	N    int    `json:"n"` // number of changes in the response that carried it
}

type obsStream struct {
	Sid    int    `json:"sid"`
	Rh     bool   `json:"rh"`
	Rs     int    `json:"rs"`
	Re     int    `json:"re"`
	Uo     bool   `json:"uo"`
	Rm     string `json:"rm"`
	Opened bool   `json:"opened"` // opened by this step
	Vb     []val  `json:"vb"`     // the fold of everything received before this step (updates_only: on top of ListBookings at open)
	Lbi    []int  `json:"lbi"`    // ids of ListBookings(same request) before the step
	Recv   []chg  `json:"recv"`   // what arrived because of this step, in order
	La     []val  `json:"la"`     // ListBookings(same request, same read mask) after the step
	Ended  bool   `json:"ended"`  // PullBookings returned although nobody cancelled it
	Lost   bool   `json:"lost"`   // the collection handed on a change that did not reach Send in time
}

type obs struct {
	Case    int         `json:"case"`
	Step    int         `json:"step"`
	Call    step        `json:"call"`
	Ret     string      `json:"ret"`
	Panic   string      `json:"panic"`
	Before  []val       `json:"before"`
	After   []val       `json:"after"`
	List    []val       `json:"list"` // op = list: what ListBookings returned
	Streams []obsStream `json:"streams"`
	Timeout bool        `json:"timeout"` // some stream did not settle in time
}

// ---- abstraction ------------------------------------------------------------------------

const base = 1000 // seconds of grid time 0; one grid unit is half a second so that nanos take part

func ts(t int) *timestamppb.Timestamp {
	if t < 0 {
		return nil
	}
	return &timestamppb.Timestamp{Seconds: int64(base + t/2), Nanos: int32(t%2) * 500000000}
}

func unts(t *timestamppb.Timestamp) int {
	if t == nil {
		return -1
	}
	return int(t.Seconds-base)*2 + int(t.Nanos/500000000)
}

func period(has bool, s, e int) *scTime.Period {
	if !has {
		return nil
	}
	return &scTime.Period{StartTime: ts(s), EndTime: ts(e)}
}

var idNames = []string{"", "b1", "b2", "b3", "b4", "b5", "b6"}

func idName(i int) string { return idNames[i] }
func idRank(s string) int {
	for i, n := range idNames {
		if i > 0 && n == s {
			return i
		}
	}
	return 0
}

func conc(v val) *traits.Booking {
	b := &traits.Booking{Id: idName(v.ID), Booked: period(v.Has, v.S, v.E)}
	if v.Cs >= 0 || v.Ce >= 0 {
		b.CheckIn = &scTime.Period{StartTime: ts(v.Cs), EndTime: ts(v.Ce)}
	}
	return b
}

func abs(b *traits.Booking) val {
	v := val{ID: idRank(b.GetId()), S: -1, E: -1, Cs: -1, Ce: -1}
	if b.GetBooked() != nil {
		v.Has = true
		v.S, v.E = unts(b.Booked.StartTime), unts(b.Booked.EndTime)
	}
	if b.GetCheckIn() != nil {
		v.Cs, v.Ce = unts(b.CheckIn.StartTime), unts(b.CheckIn.EndTime)
	}
	return v
}

func absList(bs []*traits.Booking) []val {
	res := make([]val, 0, len(bs))
	for _, b := range bs {
		res = append(res, abs(b))
	}
	return res
}

func readMask(rm string) *fieldmaskpb.FieldMask {
	switch rm {
	case "id":
		return &fieldmaskpb.FieldMask{Paths: []string{"id"}}
	case "idb":
		return &fieldmaskpb.FieldMask{Paths: []string{"id", "booked"}}
	case "idc":
		return &fieldmaskpb.FieldMask{Paths: []string{"id", "check_in"}}
	}
	return nil
}

func updateMask(m string) *fieldmaskpb.FieldMask {
	switch m {
	case "booked":
		return &fieldmaskpb.FieldMask{Paths: []string{"booked"}}
	case "start":
		return &fieldmaskpb.FieldMask{Paths: []string{"booked.start_time"}}
	case "end":
		return &fieldmaskpb.FieldMask{Paths: []string{"booked.end_time"}}
	case "startend":
		return &fieldmaskpb.FieldMask{Paths: []string{"booked.start_time", "booked.end_time"}}
	}
	return nil
}

func request(rh bool, rs, re int, uo bool, rm string) *traits.ListBookingsRequest {
	return &traits.ListBookingsRequest{Name: "room", BookingIntersects: period(rh, rs, re), UpdatesOnly: uo, ReadMask: readMask(rm)}
}

// ---- hooks and streams -------------------------------------------------------------------

var (
	mu      sync.Mutex
	byChan  = map[any]*stream{} // the send channel of Collection.Pull -> the stream it feeds
	opening *stream             // the stream being opened right now (streams are opened one at a time)
	poke    = make(chan struct{}, 1)
	hooked  bool
)

func nudge() {
	select {
	case poke <- struct{}{}:
	default:
	}
}

// waitFor waits until cond (evaluated under mu) holds, woken by hooks and Sends.
func waitFor(cond func() bool, d time.Duration) bool {
	deadline := time.NewTimer(d)
	defer deadline.Stop()
	for {
		mu.Lock()
		ok := cond()
		mu.Unlock()
		if ok {
			return true
		}
		select {
		case <-poke:
		case <-deadline.C:
			mu.Lock()
			ok = cond()
			mu.Unlock()
			return ok
		}
	}
}

func hook(point string, obj any, _ ...any) {
	switch point {
	case "fwd.seed", "fwd.seeded", "fwd.skip", "fwd.sent", "fwd.exit":
	default:
		return
	}
	mu.Lock()
	hooked = true
	st := byChan[obj]
	if st == nil && opening != nil && (point == "fwd.seed" || point == "fwd.seeded") {
		st = opening
		byChan[obj] = st
	}
	if st != nil {
		switch point {
		case "fwd.seed":
			st.seeds++
		case "fwd.seeded":
			st.seeded = true
		case "fwd.skip":
			st.looked++
		case "fwd.sent":
			st.looked++
			st.passed++
		case "fwd.exit":
			delete(byChan, obj)
		}
	}
	mu.Unlock()
	nudge()
}

// stream is one PullBookings call: the fake server side of the gRPC stream plus bookkeeping.
type stream struct {
	grpc.ServerStream
	ctx    context.Context
	cancel context.CancelFunc

	sid        int
	rh         bool
	rs, re     int
	uo         bool
	rm         string
	recv       []chg // everything Send was given (under mu)
	taken      int   // how much of recv earlier steps have reported
	seeds      int   // seed values the collection handed on
	seeded     bool
	looked     int // changes the collection's Pull has decided about
	passed     int // ... and handed on
	returned   bool
	retErr     string
	cancelled  bool
	view       map[int]val
	lastListed []int
}

func (s *stream) Context() context.Context { return s.ctx }

func (s *stream) Send(r *traits.PullBookingsResponse) error {
	// abstracted here and now: the harness keeps no reference to the message
	cs := make([]chg, 0, len(r.GetChanges()))
	for _, c := range r.GetChanges() {
		x := chg{Type: c.GetType().String(), N: len(r.GetChanges()),
			Nv: val{S: -1, E: -1, Cs: -1, Ce: -1}, Ov: val{S: -1, E: -1, Cs: -1, Ce: -1}}
		if c.GetOldValue() != nil {
			x.Ook, x.Ov = true, abs(c.OldValue)
			x.ID = x.Ov.ID
		}
		if c.GetNewValue() != nil {
			x.Nok, x.Nv = true, abs(c.NewValue)
			x.ID = x.Nv.ID
		}
		cs = append(cs, x)
	}
	mu.Lock()
	s.recv = append(s.recv, cs...)
	mu.Unlock()
	nudge()
	return nil
}

func sortedVals(m map[int]val) []val {
	res := make([]val, 0, len(m))
	for _, v := range m {
		res = append(res, v)
	}
	sort.Slice(res, func(i, j int) bool { return res[i].ID < res[j].ID })
	return res
}

func ids(vs []val) []int {
	res := make([]int, 0, len(vs))
	for _, v := range vs {
		res = append(res, v.ID)
	}
	return res
}

// ---- one program ----------------------------------------------------------------------------

// settle bounds the wait for a stream to deal with a step; after the first miss the process stops being patient
// (a server that drops changes would otherwise cost settle per step), after maxMisses it stops running programs.
const (
	settle    = 10 * time.Second
	impatient = 200 * time.Millisecond
	maxMisses = 8
)

var misses int

type session struct {
	srv      *bookingpb.ModelServer
	streams  []*stream // open, in opening order
	patience time.Duration
}

func (se *session) list(rh bool, rs, re int, rm string) ([]val, string, string) {
	var res []val
	code := ""
	p := hx.Catch(func() {
		r, err := se.srv.ListBookings(context.Background(), request(rh, rs, re, false, rm))
		code = hx.Code(err)
		res = absList(r.GetBookings())
	})
	if res == nil {
		res = []val{}
	}
	return res, code, p
}

func (se *session) contents() []val {
	v, _, _ := se.list(false, -1, -1, "all")
	return v
}

func (se *session) open(c step) (*stream, bool) {
	ctx, cancel := context.WithCancel(context.Background())
	st := &stream{ctx: ctx, cancel: cancel, sid: c.Sid, rh: c.Rh, rs: c.Rs, re: c.Re, uo: c.Uo, rm: c.Rm, view: map[int]val{}}
	mu.Lock()
	opening = st
	mu.Unlock()
	go func() {
		var err error
		p := hx.Catch(func() { err = se.srv.PullBookings(request(c.Rh, c.Rs, c.Re, c.Uo, c.Rm), st) })
		mu.Lock()
		st.returned = true
		st.retErr = hx.Code(err)
		if p != "" {
			st.retErr = "panic: " + p
		}
		mu.Unlock()
		nudge()
	}()
	ok := waitFor(func() bool { return st.returned || (st.seeded && len(st.recv) >= st.seeds) }, se.patience)
	mu.Lock()
	opening = nil
	if !hooked {
		mu.Unlock()
		hx.Fatal("pkg/resource hook points did not fire: the harness must be built with -tags verif")
	}
	mu.Unlock()
	se.streams = append(se.streams, st)
	return st, ok
}

func (se *session) closeStream(st *stream) bool {
	mu.Lock()
	st.cancelled = true
	mu.Unlock()
	st.cancel()
	return waitFor(func() bool { return st.returned }, se.patience)
}

func (se *session) run(caseIdx int, p prog, out *hx.Out) {
	var initial []*traits.Booking
	for _, v := range p.Init {
		initial = append(initial, conc(v))
	}
	se.srv = bookingpb.NewModelServer(bookingpb.NewModel(bookingpb.WithInitialBooking(initial...)))
	se.patience = settle
	if misses > 0 {
		se.patience = impatient
	}
	defer func() {
		for _, st := range se.streams {
			if !st.returned {
				se.closeStream(st)
			}
		}
	}()

	for k, c := range p.Steps {
		o := obs{Case: caseIdx, Step: k + 1, Call: c, Ret: "OK", List: []val{}, Streams: []obsStream{}}
		hx.Current(map[string]any{"case": p.N, "step": k + 1, "call": c})
		o.Before = se.contents()
		// ListBookings(same request) before the step, for every stream that is open
		for _, st := range se.streams {
			if st.lastListed == nil {
				l, _, _ := se.list(st.rh, st.rs, st.re, st.rm)
				st.lastListed = ids(l)
			}
		}
		var openedNow *stream
		wrote := false
		lookedBefore := map[*stream]int{}
		mu.Lock()
		for _, st := range se.streams {
			lookedBefore[st] = st.looked
		}
		mu.Unlock()
		switch c.Op {
		case "open":
			st, ok := se.open(c)
			openedNow = st
			if !ok {
				o.Timeout = true
				misses++
				se.patience = impatient
			}
		case "close":
			for i, st := range se.streams {
				if st.sid == c.Sid {
					if !se.closeStream(st) {
						o.Timeout = true
						misses++
						se.patience = impatient
					}
					se.streams = append(se.streams[:i:i], se.streams[i+1:]...)
					break
				}
			}
		case "list":
			o.List, o.Ret, o.Panic = se.list(c.Rh, c.Rs, c.Re, c.Rm)
		case "create":
			o.Panic = hx.Catch(func() {
				_, err := se.srv.CreateBooking(context.Background(), &traits.CreateBookingRequest{Name: "room",
					Booking: &traits.Booking{Id: idName(c.ID), Booked: period(c.Has, c.S, c.E)}})
				o.Ret = hx.Code(err)
			})
			wrote = true
		case "update":
			o.Panic = hx.Catch(func() {
				_, err := se.srv.UpdateBooking(context.Background(), &traits.UpdateBookingRequest{Name: "room",
					Booking:    &traits.Booking{Id: idName(c.ID), Booked: period(c.Has, c.S, c.E)},
					UpdateMask: updateMask(c.Mask)})
				o.Ret = hx.Code(err)
			})
			wrote = true
		case "checkin":
			o.Panic = hx.Catch(func() {
				_, err := se.srv.CheckInBooking(context.Background(), &traits.CheckInBookingRequest{Name: "room", BookingId: idName(c.ID), Time: ts(c.T)})
				o.Ret = hx.Code(err)
			})
			wrote = true
		case "checkout":
			o.Panic = hx.Catch(func() {
				_, err := se.srv.CheckOutBooking(context.Background(), &traits.CheckOutBookingRequest{Name: "room", BookingId: idName(c.ID), Time: ts(c.T)})
				o.Ret = hx.Code(err)
			})
			wrote = true
		default:
			hx.Fatal("unknown op %q", c.Op)
		}
		if o.Panic != "" {
			o.Ret = "Panic"
		}
		if wrote {
			// a successful write puts exactly one change on the collection's bus for every listener
			// (a failed one none): wait until every open stream has dealt with it
			okWrite := o.Ret == "OK"
			for _, st := range se.streams {
				st := st
				want := lookedBefore[st]
				if okWrite {
					want++
				}
				done := waitFor(func() bool {
					return st.returned || (st.looked >= want && len(st.recv) >= st.seeds+st.passed)
				}, se.patience)
				if !done {
					o.Timeout = true
					misses++
					se.patience = impatient
				}
			}
		}
		o.After = se.contents()
		for _, st := range se.streams {
			mu.Lock()
			got := append([]chg{}, st.recv[st.taken:]...)
			st.taken = len(st.recv)
			lost := len(st.recv) < st.seeds+st.passed
			ended := st.returned && !st.cancelled
			mu.Unlock()
			la, _, _ := se.list(st.rh, st.rs, st.re, st.rm)
			os := obsStream{Sid: st.sid, Rh: st.rh, Rs: st.rs, Re: st.re, Uo: st.uo, Rm: st.rm, Opened: st == openedNow,
				Vb: sortedVals(st.view), Lbi: st.lastListed, Recv: got, La: la, Ended: ended, Lost: lost}
			if os.Lbi == nil {
				os.Lbi = []int{}
			}
			if st == openedNow && st.uo {
				// an updates_only client starts from ListBookings(same request) taken when it opened the stream
				for _, v := range la {
					st.view[v.ID] = v
				}
			}
			for _, g := range got {
				switch g.Type {
				case types.ChangeType_REMOVE.String():
					delete(st.view, g.ID)
				default:
					if g.Nok {
						st.view[g.ID] = g.Nv
					}
				}
			}
			st.lastListed = ids(la)
			o.Streams = append(o.Streams, os)
		}
		out.Write(o)
	}
}

func main() {
	resource.VerifHook = hook
	cases := hx.ReadCases[prog](hx.Arg("-cases", "cases.ndjson"))
	out := hx.NewOut(hx.Arg("-out", "obs.ndjson"))
	defer out.Close()
	for i, p := range cases {
		if misses >= maxMisses {
			break // the lines written so far carry the evidence; the driver sees that programs are missing
		}
		(&session{}).run(i, p, out)
	}
}
