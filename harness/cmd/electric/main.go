// Command electric replays operation sequences printed by spec/ElectricGen.tla on the real
// electricpb.Model and its gRPC servers (property C19) and records what the code did, one JSON
// line per step (state before, call, error code, state after), for spec/ElectricTrace.tla.
//
//	electric seq  -cases progs.ndjson -out obs.ndjson     sequential replays (Model API and servers)
//	electric conc -out obs.ndjson -runs N -rounds R -ops K   goroutines on one model, state at quiescence
//	                                                          and everything the Pull streams delivered
package main

import (
	"context"
	"fmt"
	"math/rand"
	"os"
	"sort"
	"sync"
	"sync/atomic"
	"time"

	"google.golang.org/grpc/metadata"
	"google.golang.org/protobuf/proto"
	"google.golang.org/protobuf/types/known/fieldmaskpb"
	"google.golang.org/protobuf/types/known/timestamppb"

	"github.com/smart-core-os/sc-api/go/traits"
	"github.com/smart-core-os/sc-api/go/types"
	"github.com/smart-core-os/sc-golang/pkg/resource"
	"github.com/smart-core-os/sc-golang/pkg/time/clock"
	"github.com/smart-core-os/sc-golang/pkg/trait/electricpb"
	"github.com/smart-core-os/sc-golang/verifharness/hx"
)

// ---- abstraction -------------------------------------------------------------

var epoch = time.Unix(1_700_000_000, 0)

func concTime(t int) time.Time { return epoch.Add(time.Duration(t) * time.Second) }
func absTime(t time.Time) int {
	d := t.Sub(epoch)
	if d%time.Second != 0 || d < 0 || d > 100000*time.Second {
		return -7 // not a time the harness clock or a SetActiveMode start time ever produced
	}
	return int(d / time.Second)
}
func absStamp(ts *timestamppb.Timestamp) int {
	if ts == nil {
		return -1
	}
	return absTime(ts.AsTime())
}

// title index 0 is the proto default (empty title)
var titles = []string{"", "t1", "t2"}

func concTitle(k int) string {
	if k >= 0 && k < len(titles) {
		return titles[k]
	}
	return fmt.Sprintf("t%d", k)
}
func absTitle(s string) int {
	for k, t := range titles {
		if t == s {
			return k
		}
	}
	return -7
}

// hclock is the model clock: it only moves when the harness says so.
type hclock struct {
	mu     sync.Mutex
	now    int
	gate   chan struct{}
	parked chan struct{}
	rv     *rendezvous
}

func (c *hclock) meetAt(rv *rendezvous) { c.mu.Lock(); c.rv = rv; c.mu.Unlock() }

// rendezvous parks a caller until a second one has arrived too, or a timeout passes.  The callers
// arrive from inside the operation under test, between its check and its write: UpdateMode through
// the Model API carries a resource.InterceptBefore option (passed on to the modes collection, it
// runs after the model looked for another normal mode and before the mode is stored); every write
// reads the clock (change time) at the same place, which parks AddMode, CreateMode and the servers.
// Operations the model serialises never meet: the second one waits for the model lock, the first
// one's wait times out.
type rendezvous struct {
	mu      sync.Mutex
	n       int
	both    chan struct{}
	timeout time.Duration
}

func newRendezvous(timeout time.Duration) *rendezvous {
	return &rendezvous{both: make(chan struct{}), timeout: timeout}
}
func (r *rendezvous) arrive() {
	r.mu.Lock()
	r.n++
	if r.n == 2 {
		close(r.both)
	}
	r.mu.Unlock()
	select {
	case <-r.both:
	case <-time.After(r.timeout):
	}
}
func (r *rendezvous) arrivals() int { r.mu.Lock(); defer r.mu.Unlock(); return r.n }

func (c *hclock) Now() time.Time {
	c.mu.Lock()
	gate, parked := c.gate, c.parked
	c.gate, c.parked = nil, nil // only the first reader of the clock is held up
	t := concTime(c.now)
	rv := c.rv
	c.mu.Unlock()
	if rv != nil {
		rv.arrive()
	}
	if gate != nil {
		close(parked)
		<-gate
	}
	return t
}

// hold makes the next call of Now block (inside whatever lock its caller holds) until release is
// closed; parked is closed when that caller has arrived.
func (c *hclock) hold() (parked chan struct{}, release chan struct{}) {
	parked, release = make(chan struct{}), make(chan struct{})
	c.mu.Lock()
	c.gate, c.parked = release, parked
	c.mu.Unlock()
	return parked, release
}
func (c *hclock) Ticks() int    { c.mu.Lock(); defer c.mu.Unlock(); return c.now }
func (c *hclock) Advance(d int) { c.mu.Lock(); c.now += d; c.mu.Unlock() }
func closedCh() <-chan time.Time {
	ch := make(chan time.Time)
	close(ch)
	return ch
}
func (c *hclock) At(time.Time) <-chan time.Time        { return closedCh() }
func (c *hclock) After(time.Duration) <-chan time.Time { return closedCh() }
func (c *hclock) Every(time.Duration) clock.Ticker     { return nopTicker{} }

type nopTicker struct{}

func (nopTicker) C() <-chan time.Time { return closedCh() }
func (nopTicker) Stop()               {}

// idTable: "a".."d" are themselves; "g<k>" is the id the device allocated in the k-th successful
// CreateMode of this program/run.
type idTable struct {
	mu    sync.Mutex
	abs   map[string]string // concrete -> abstract
	conc  map[string]string // abstract -> concrete
	ngens int
}

func newIDTable() *idTable {
	t := &idTable{abs: map[string]string{}, conc: map[string]string{}}
	for _, id := range []string{"a", "b", "c", "d", "e"} {
		t.abs[id], t.conc[id] = id, id
	}
	return t
}
func (t *idTable) created(concrete string) string {
	t.mu.Lock()
	defer t.mu.Unlock()
	if a, ok := t.abs[concrete]; ok {
		return a
	}
	t.ngens++
	a := fmt.Sprintf("g%d", t.ngens)
	t.abs[concrete], t.conc[a] = a, concrete
	return a
}
func (t *idTable) toConc(abstract string) string {
	t.mu.Lock()
	defer t.mu.Unlock()
	if abstract == "" {
		return ""
	}
	if c, ok := t.conc[abstract]; ok {
		return c
	}
	c := "unborn-" + abstract // an id the device never allocated: absent
	t.abs[c], t.conc[abstract] = abstract, c
	return c
}
func (t *idTable) toAbs(concrete string) string {
	t.mu.Lock()
	defer t.mu.Unlock()
	if concrete == "" {
		return ""
	}
	if a, ok := t.abs[concrete]; ok {
		return a
	}
	return "?" + concrete
}

// toAbsOrSeen names a returned id: known ids keep their name, unknown ones get the next g<k>.
func (t *idTable) toAbsOrSeen(concrete string) string { return t.seen(concrete) }

// seen maps any id found in the table to an abstract id (concurrent part: ids created by other
// goroutines are named when first seen).
func (t *idTable) seen(concrete string) string {
	if concrete == "" {
		return ""
	}
	return t.created(concrete)
}

type modeA struct {
	ID     string `json:"id"`
	Normal bool   `json:"normal"`
	Title  int    `json:"title"`
	Start  int    `json:"start"` // start_time the stored mode carries (-1 = none)
}
type activeA struct {
	ID     string `json:"id"`
	Normal bool   `json:"normal"`
	Title  int    `json:"title"`
	Start  int    `json:"start"`
}
type normalA struct {
	Has bool   `json:"has"`
	ID  string `json:"id"`
}
type stateA struct {
	Modes  []modeA `json:"modes"`
	Active activeA `json:"active"`
	Normal normalA `json:"normal"`
}

func absModes(t *idTable, ms []*traits.ElectricMode, name func(string) string) []modeA {
	res := make([]modeA, 0, len(ms))
	for _, m := range ms {
		res = append(res, modeA{ID: name(m.GetId()), Normal: m.GetNormal(), Title: absTitle(m.GetTitle()), Start: absStamp(m.GetStartTime())})
	}
	sort.SliceStable(res, func(i, j int) bool { return res[i].ID < res[j].ID })
	return res
}
func absActive(m *traits.ElectricMode, name func(string) string) activeA {
	return activeA{ID: name(m.GetId()), Normal: m.GetNormal(), Title: absTitle(m.GetTitle()), Start: absStamp(m.GetStartTime())}
}

// ---- the system under test -----------------------------------------------------

type sut struct {
	m   *electricpb.Model
	srv *electricpb.ModelServer
	clk *hclock
	ids *idTable
	// extra write options for UpdateMode through the Model API (forced schedules)
	updOpts []resource.WriteOption
}

func newSUT(seed int64) *sut { return newSUTWith(seed, initT{Active: activeA{Start: -1}}, 0) }

// initT is the configuration a model is constructed with (StateFrom / WellFormedInit of Electric.tla).
type initT struct {
	Modes  []modeA `json:"modes"`
	Active activeA `json:"active"`
}

func concMode(id string, normal bool, title, start int) *traits.ElectricMode {
	m := &traits.ElectricMode{Id: id, Normal: normal, Title: concTitle(title)}
	if start >= 0 {
		m.StartTime = timestamppb.New(concTime(start))
	}
	return m
}

// newSUTWith constructs the model through the options that shape its initial state; variant picks
// among the equivalent ways model_opts.go offers: WithInitialMode with all modes at once / one call per
// mode (additive) / WithModeOption(resource.WithInitialRecord); WithInitialActiveMode /
// WithActiveModeOption(resource.WithInitialValue).
func newSUTWith(seed int64, ini initT, variant int) *sut {
	clk := &hclock{}
	opts := []resource.Option{electricpb.WithClock(clk), electricpb.WithRNG(rand.New(rand.NewSource(seed)))}
	var ms []*traits.ElectricMode
	for _, m := range ini.Modes {
		ms = append(ms, concMode(m.ID, m.Normal, m.Title, m.Start))
	}
	switch {
	case len(ms) == 0:
	case variant%3 == 0:
		opts = append(opts, electricpb.WithInitialMode(ms...))
	case variant%3 == 1:
		for _, m := range ms {
			opts = append(opts, electricpb.WithInitialMode(m))
		}
	default:
		for _, m := range ms {
			opts = append(opts, electricpb.WithModeOption(resource.WithInitialRecord(m.Id, m)))
		}
	}
	if ini.Active.ID != "" {
		a := concMode(ini.Active.ID, ini.Active.Normal, ini.Active.Title, ini.Active.Start)
		if variant%2 == 0 {
			opts = append(opts, electricpb.WithInitialActiveMode(a))
		} else {
			opts = append(opts, electricpb.WithActiveModeOption(resource.WithInitialValue(a)))
		}
	}
	m := electricpb.NewModel(opts...)
	return &sut{m: m, srv: electricpb.NewModelServer(m), clk: clk, ids: newIDTable()}
}

var bg = context.Background()

// listAll pages through ListModes with the default page size.
func (s *sut) listAll() ([]*traits.ElectricMode, error) {
	var all []*traits.ElectricMode
	tok := ""
	for i := 0; i < 1000; i++ {
		r, err := s.srv.ListModes(bg, &traits.ListModesRequest{Name: "dev", PageToken: tok})
		if err != nil {
			return all, err
		}
		all = append(all, r.Modes...)
		tok = r.NextPageToken
		if tok == "" {
			break
		}
	}
	return all, nil
}

// state reads Modes(), ActiveMode(), NormalMode(); through the servers when api == "server"
// (NormalMode has no RPC).  diff reports that the two ways of reading disagree.
func (s *sut) state(api string, name func(string) string) (st stateA, diff bool) {
	mm := absModes(s.ids, s.m.Modes(), name)
	ma := absActive(s.m.ActiveMode(), name)
	st = stateA{Modes: mm, Active: ma}
	if n, ok := s.m.NormalMode(); ok {
		st.Normal = normalA{Has: true, ID: name(n.GetId())}
	}
	if api == "server" {
		l, err := s.listAll()
		a, err2 := s.srv.GetActiveMode(bg, &traits.GetActiveModeRequest{Name: "dev"})
		sm := absModes(s.ids, l, name)
		sa := absActive(a, name)
		diff = err != nil || err2 != nil || fmt.Sprint(sm) != fmt.Sprint(mm) || sa != ma
		st.Modes, st.Active = sm, sa
	}
	return st, diff
}

type opT struct {
	Op     string `json:"op"`
	ID     string `json:"id"`
	Normal bool   `json:"normal"`
	Title  int    `json:"title"`
	Mask   string `json:"mask"`
	Am     bool   `json:"am"`
	Start  int    `json:"start"`
	Dt     int    `json:"dt"`
	Src    string `json:"src"` // "lit" | "active" | "listed": where the written message comes from
}

// retA is the mode a call returned.
type retA struct {
	Has bool    `json:"has"`
	M   activeA `json:"m"`
}

func noRet() retA { return retA{M: activeA{Start: -1}} }

func maskOf(m string) *fieldmaskpb.FieldMask {
	switch m {
	case "normal":
		return &fieldmaskpb.FieldMask{Paths: []string{"normal"}}
	case "title":
		return &fieldmaskpb.FieldMask{Paths: []string{"title"}}
	case "both":
		return &fieldmaskpb.FieldMask{Paths: []string{"normal", "title"}}
	}
	return nil
}

// call performs one operation; returns the error and the id of the returned mode (abstract).
func (s *sut) call(api string, op opT) (err error, rid string, got retA) {
	id := s.ids.toConc(op.ID)
	mode := &traits.ElectricMode{Id: id, Title: concTitle(op.Title), Normal: op.Normal}
	if op.Start >= 0 {
		mode.StartTime = timestamppb.New(concTime(op.Start))
	}
	var ret *traits.ElectricMode
	server := api == "server"
	got = noRet()
	defer func() {
		if err == nil && ret != nil {
			got = retA{Has: true, M: absActive(ret, s.ids.toAbsOrSeen)}
		}
	}()
	// write back what was read: the client's read-modify-write of the active mode / of a listed mode
	if op.Op == "Add" || op.Op == "Update" {
		switch op.Src {
		case "active":
			var a *traits.ElectricMode
			if server {
				a, _ = s.srv.GetActiveMode(bg, &traits.GetActiveModeRequest{Name: "dev"})
			} else {
				a = s.m.ActiveMode()
			}
			if a.GetId() != "" {
				mode = proto.Clone(a).(*traits.ElectricMode)
				mode.Title = concTitle(op.Title)
				if op.Op == "Add" {
					mode.Id = id
				}
				id = mode.Id
			}
		case "listed":
			var l []*traits.ElectricMode
			if server {
				l, _ = s.listAll()
			} else {
				l = s.m.Modes()
			}
			for _, m := range l {
				if m.GetId() == id {
					mode = proto.Clone(m).(*traits.ElectricMode)
					mode.Title = concTitle(op.Title)
				}
			}
		}
	}
	switch op.Op {
	case "Create":
		mode.Id = ""
		if server {
			ret, err = s.srv.CreateMode(bg, &electricpb.CreateModeRequest{Name: "dev", Mode: mode})
		} else {
			ret, err = s.m.CreateMode(mode)
		}
		if err == nil && ret != nil {
			return nil, s.ids.created(ret.GetId()), got
		}
		return err, "", got
	case "Add": // no RPC
		err = s.m.AddMode(mode)
	case "Update":
		if server {
			ret, err = s.srv.UpdateMode(bg, &electricpb.UpdateModeRequest{Name: "dev", Mode: mode, UpdateMask: maskOf(op.Mask)})
		} else if op.Mask == "nil" {
			ret, err = s.m.UpdateMode(mode, s.updOpts...) // "to modify all fields, pass a nil mask"
		} else {
			ret, err = s.m.UpdateMode(mode, append([]resource.WriteOption{resource.WithUpdateMask(maskOf(op.Mask))}, s.updOpts...)...)
		}
	case "Delete":
		if server {
			_, err = s.srv.DeleteMode(bg, &electricpb.DeleteModeRequest{Name: "dev", Id: id, AllowMissing: op.Am})
		} else {
			err = s.m.DeleteMode(id, resource.WithAllowMissing(op.Am))
		}
	case "SetActive": // no RPC
		err = s.m.SetActiveMode(mode)
	case "Change":
		if server {
			ret, err = s.srv.UpdateActiveMode(bg, &traits.UpdateActiveModeRequest{Name: "dev", ActiveMode: &traits.ElectricMode{Id: id}})
		} else {
			ret, err = s.m.ChangeActiveMode(id)
		}
	case "Clear":
		if server {
			ret, err = s.srv.ClearActiveMode(bg, &traits.ClearActiveModeRequest{Name: "dev"})
		} else {
			ret, err = s.m.ChangeToNormalMode()
		}
	default:
		hx.Fatal("unknown op %q", op.Op)
	}
	if err == nil && ret != nil {
		rid = s.ids.toAbs(ret.GetId())
	}
	return err, rid, got
}

// ---- sequential replays --------------------------------------------------------

type caseT struct {
	Init     initT `json:"init"`
	Ops      []opT `json:"ops"`
	LastOnly bool  `json:"lastOnly"`
}

type stepLine struct {
	Kind     string `json:"kind"`
	Prog     int    `json:"prog"`
	Step     int    `json:"step"`
	API      string `json:"api"`
	Op       opT    `json:"op"`
	Now      int    `json:"now"`
	Changed  bool   `json:"changed"`
	Pre      stateA `json:"pre"`
	Post     stateA `json:"post"`
	Err      string `json:"err"`
	Rid      string `json:"rid"`
	Ret      retA   `json:"ret"`
	Panic    string `json:"panic"`
	ReadDiff bool   `json:"readDiff"`
}

func runSeq() {
	cases := hx.ReadCases[caseT](hx.Arg("-cases", "progs.ndjson"))
	out := hx.NewOut(hx.Arg("-out", "obs.ndjson"))
	defer out.Close()
	// the replays are independent of each other: a few workers share them (lines carry prog/step)
	workers := hx.ArgInt("-workers", 6)
	var wg sync.WaitGroup
	for w := 0; w < workers; w++ {
		wg.Add(1)
		go func() {
			defer wg.Done()
			for n := w; n < len(cases); n += workers {
				replay(out, n, cases[n])
			}
		}()
	}
	wg.Wait()
}

func replay(out *hx.Out, n int, c caseT) {
	{
		for _, api := range []string{"model", "server"} {
			s := newSUTWith(int64(n)*7+hx.Seed(), c.Init, n)
			changed := false
			for k, op := range c.Ops {
				s.clk.Advance(op.Dt)
				logged := !c.LastOnly || k == len(c.Ops)-1
				line := stepLine{Kind: "step", Prog: n + 1, Step: k + 1, API: api, Op: op, Now: s.clk.Ticks(), Changed: changed}
				var d1, d2 bool
				if logged {
					line.Pre, d1 = s.state(api, s.ids.toAbs)
				}
				var err error
				line.Ret = noRet()
				line.Panic = hx.Catch(func() { err, line.Rid, line.Ret = s.call(api, op) })
				line.Err = hx.Code(err)
				if line.Panic != "" {
					line.Err = "Panic"
				}
				if line.Err == "OK" && (op.Op == "SetActive" || op.Op == "Change" || op.Op == "Clear") {
					changed = true
				}
				if logged {
					line.Post, d2 = s.state(api, s.ids.toAbs)
					line.ReadDiff = d1 || d2
					out.Write(line)
				}
			}
		}
	}
}

// ---- concurrent part -------------------------------------------------------------

// fakeStream is the server side of a server-streaming RPC, in process.
type fakeStream[T any] struct {
	ctx context.Context
	ch  chan *T
}

func (f *fakeStream[T]) Send(v *T) error {
	select {
	case f.ch <- v:
		return nil
	case <-f.ctx.Done():
		return f.ctx.Err()
	}
}
func (f *fakeStream[T]) SetHeader(metadata.MD) error  { return nil }
func (f *fakeStream[T]) SendHeader(metadata.MD) error { return nil }
func (f *fakeStream[T]) SetTrailer(metadata.MD)       {}
func (f *fakeStream[T]) Context() context.Context     { return f.ctx }
func (f *fakeStream[T]) SendMsg(any) error            { return nil }
func (f *fakeStream[T]) RecvMsg(any) error            { return nil }

type modesEvent struct {
	Type string
	Old  *traits.ElectricMode
	New  *traits.ElectricMode
}
type activeEvent struct {
	Mode *traits.ElectricMode
	Ct   time.Time
}

// subscribe opens PullModes and PullActiveMode (seed + updates) on the model or through the servers.
// The server streams run without backpressure (the RPCs have no such option): older changes may be
// dropped or merged, so only what they add up to at quiescence is meaningful (complete = false).
func (s *sut) subscribe(ctx context.Context, viaServer bool) (<-chan modesEvent, <-chan activeEvent) {
	mc := make(chan modesEvent, 1024)
	ac := make(chan activeEvent, 1024)
	if !viaServer {
		// with backpressure no change is dropped or merged: what arrives is the history of the resource
		pm := s.m.PullModes(ctx, resource.WithBackpressure(true))
		pa := s.m.PullActiveMode(ctx, resource.WithBackpressure(true))
		go func() {
			for e := range pm {
				mc <- modesEvent{Type: e.Type.String(), Old: e.OldValue, New: e.NewValue}
			}
		}()
		go func() {
			for e := range pa {
				ac <- activeEvent{Mode: e.ActiveMode, Ct: e.ChangeTime}
			}
		}()
		return mc, ac
	}
	ms := &fakeStream[traits.PullModesResponse]{ctx: ctx, ch: make(chan *traits.PullModesResponse)}
	as := &fakeStream[traits.PullActiveModeResponse]{ctx: ctx, ch: make(chan *traits.PullActiveModeResponse)}
	go func() { _ = s.srv.PullModes(&traits.PullModesRequest{Name: "dev"}, ms) }()
	go func() { _ = s.srv.PullActiveMode(&traits.PullActiveModeRequest{Name: "dev"}, as) }()
	go func() {
		for {
			select {
			case r := <-ms.ch:
				for _, c := range r.Changes {
					mc <- modesEvent{Type: c.Type.String(), Old: c.OldValue, New: c.NewValue}
				}
			case <-ctx.Done():
				return
			}
		}
	}()
	go func() {
		for {
			select {
			case r := <-as.ch:
				for _, c := range r.Changes {
					ac <- activeEvent{Mode: c.ActiveMode, Ct: c.ChangeTime.AsTime()}
				}
			case <-ctx.Done():
				return
			}
		}
	}()
	return mc, ac
}

type mstreamLine struct {
	Kind     string  `json:"kind"`
	Run      int     `json:"run"`
	Round    int     `json:"round"`
	K        int     `json:"k"`
	Ev       string  `json:"ev"`
	EvID     string  `json:"evid"`
	Modes    []modeA `json:"modes"`
	Reliable bool    `json:"reliable"`
}
type aeventLine struct {
	Kind     string  `json:"kind"`
	Run      int     `json:"run"`
	Round    int     `json:"round"`
	K        int     `json:"k"`
	Prev     activeA `json:"prev"`
	Cur      activeA `json:"cur"`
	Ct       int     `json:"ct"`
	Reliable bool    `json:"reliable"`
}
type quiesceLine struct {
	Kind      string  `json:"kind"`
	Run       int     `json:"run"`
	Round     int     `json:"round"`
	G         int     `json:"g"`
	ViaServer bool    `json:"viaServer"`
	Now       int     `json:"now"`
	Changed   bool    `json:"changed"`
	Calls     int     `json:"calls"`
	OKCalls   int     `json:"okCalls"`
	State     stateA  `json:"state"`
	Folded    []modeA `json:"folded"`
	LastAct   activeA `json:"lastActive"`
	Drained   bool    `json:"drained"`
	Panic     string  `json:"panic"`
}

// markers the harness pushes through the streams at quiescence (never part of the record)
const sentinelID = "zz-marker"
const sentinelStart = 5000

var sentinelSeq int

// setActiveStartBase marks start times handed to SetActiveMode in the concurrent part, so that the
// stream check can tell them from the stamps of ChangeActiveMode.
const setActiveStartBase = 900

func randOp(r *rand.Rand, s *sut) opT {
	kinds := []string{"Add", "Add", "Create", "Update", "Update", "Update", "Delete", "Delete", "SetActive", "Change", "Change", "Clear", "Clear"}
	kind := kinds[r.Intn(len(kinds))]
	present := s.m.Modes()
	if len(present) >= 4 && (kind == "Add" || kind == "Create") {
		kind = "Delete"
	}
	pool := []string{"a", "b", "c", "d"}
	id := pool[r.Intn(len(pool))]
	if len(present) > 0 && kind != "Add" && r.Intn(10) < 7 {
		id = s.ids.seen(present[r.Intn(len(present))].GetId())
	}
	op := opT{Op: kind, ID: id, Normal: r.Intn(10) < 4, Title: r.Intn(3), Mask: "nil", Am: r.Intn(2) == 0, Start: -1}
	op.Src = "lit"
	if kind == "Update" {
		op.Mask = []string{"nil", "normal", "title", "both"}[r.Intn(4)]
		if r.Intn(4) == 0 { // write back the active mode as read (carries its start_time)
			op.Src, op.Mask = "active", "nil"
		}
	}
	if kind == "SetActive" {
		op.Start = setActiveStartBase + r.Intn(3)
	}
	if kind == "Create" || kind == "Clear" {
		op.ID = ""
	}
	return op
}

func modesEqual(a, b []modeA) bool {
	if len(a) != len(b) {
		return false
	}
	for i := range a {
		if a[i] != b[i] {
			return false
		}
	}
	return true
}

// cclearLine is one response of ClearActiveMode / ChangeToNormalMode given while other goroutines
// were writing.
type cclearLine struct {
	Kind  string `json:"kind"`
	Part  string `json:"part"` // "mix" random operations | "mover" the normal flag is being moved | "forced" forced schedule
	Run   int    `json:"run"`
	Round int    `json:"round"`
	API   string `json:"api"`
	Err   string `json:"err"`
	Ret   retA   `json:"ret"`
}

// clearRaces: a table with two candidate normal modes N1, N2 and a third mode X.
//
//	"mover":  one goroutine moves the normal flag N1 -> N2 -> N1 ... with masked updates (flag off,
//	          then on: never two normal modes), three goroutines clear the active mode, free running.
//	"forced": a writer (ChangeActiveMode(X)) is parked INSIDE the model lock by a clock whose Now()
//	          blocks; a clear and then an updater moving the flag queue up behind it; the writer is
//	          released.  With lookup and switch in one critical section the clear sees either the old
//	          or the new normal mode; split in two, the updater gets in between.
//
// Every clear response is logged; ElectricTrace judges it (a successful clear returns a normal mode).
func clearRaces(out *hx.Out, movers, clearsPerMover, forced int) {
	flag := func(s *sut, id string, on bool) {
		_, err := s.m.UpdateMode(&traits.ElectricMode{Id: id, Normal: on}, resource.WithUpdateMask(maskOf("normal")))
		if err != nil {
			hx.Fatal("moving the normal flag of %s: %v", id, err)
		}
	}
	setup := func(seed int64) *sut {
		s := newSUT(seed)
		s.clk.Advance(1)
		for _, m := range []*traits.ElectricMode{{Id: "a", Normal: true, Title: "t1"}, {Id: "b", Title: "t2"}, {Id: "c"}} {
			if err := s.m.AddMode(m); err != nil {
				hx.Fatal("setup: %v", err)
			}
		}
		return s
	}
	clear := func(s *sut, api string) (string, retA) {
		var err error
		got := noRet()
		if p := hx.Catch(func() { err, _, got = s.call(api, opT{Op: "Clear", Src: "lit", Mask: "nil", Start: -1}) }); p != "" {
			return "Panic", noRet()
		}
		return hx.Code(err), got
	}
	for run := 1; run <= movers; run++ {
		hx.Current(map[string]any{"part": "clear-race mover", "run": run})
		s := setup(int64(run)*17 + hx.Seed())
		var stop atomic.Bool
		var wg, mv sync.WaitGroup
		mv.Add(1)
		go func() {
			defer mv.Done()
			from, to := "a", "b"
			for !stop.Load() {
				flag(s, from, false)
				flag(s, to, true)
				from, to = to, from
			}
		}()
		for w := 0; w < 3; w++ {
			wg.Add(1)
			api := []string{"server", "model", "server"}[w]
			go func() {
				defer wg.Done()
				for k := 1; k <= clearsPerMover; k++ {
					e, got := clear(s, api)
					out.Write(cclearLine{Kind: "cclear", Part: "mover", Run: run, Round: k, API: api, Err: e, Ret: got})
				}
			}()
		}
		wg.Wait()
		stop.Store(true)
		mv.Wait()
	}
	if forced == 0 {
		return
	}
	hx.Current(map[string]any{"part": "clear-race forced"})
	s := setup(hx.Seed() + 5)
	for round := 1; round <= forced; round++ {
		api := []string{"server", "model"}[round%2]
		// a, the normal mode, is not active: the clear is a real switch
		if _, err := s.m.ChangeActiveMode("b"); err != nil {
			hx.Fatal("forced setup: %v", err)
		}
		s.clk.Advance(1)
		parked, release := s.clk.hold()
		var wg sync.WaitGroup
		wg.Add(3)
		go func() { defer wg.Done(); _, _ = s.m.ChangeActiveMode("c") }() // reads the clock under the model lock
		<-parked
		var e string
		got := noRet()
		go func() { defer wg.Done(); e, got = clear(s, api) }()
		time.Sleep(300 * time.Microsecond) // let it queue up behind the parked writer
		go func() { defer wg.Done(); flag(s, "a", false); flag(s, "b", true) }()
		time.Sleep(300 * time.Microsecond)
		close(release)
		wg.Wait()
		out.Write(cclearLine{Kind: "cclear", Part: "forced", Run: 1, Round: round, API: api, Err: e, Ret: got})
		// back to a = normal
		flag(s, "b", false)
		flag(s, "a", true)
	}
}

// pairLine is one forced-schedule run of two calls that each make a different mode normal.
type pairLine struct {
	Kind     string   `json:"kind"`
	Case     int      `json:"case"`
	Rep      int      `json:"rep"`
	Init     string   `json:"init"` // "none" | "other": is another mode (c) normal beforehand
	Ops      []opT    `json:"ops"`
	APIs     []string `json:"apis"`
	Errs     []string `json:"errs"`
	Now      int      `json:"now"`
	Arrivals int      `json:"arrivals"` // callers that reached the point between check and write
	Pre      stateA   `json:"pre"`
	Post     stateA   `json:"post"`
	Panic    string   `json:"panic"`
}

type pairCase struct {
	Init string `json:"init"`
	Ops  []opT  `json:"ops"`
}

// normalPairs replays the cases printed by spec/ElectricConc.tla: modes a, b (not normal) and c
// (normal iff init = "other"), two goroutines each making a different mode normal, parked between
// check and write until both are there or the timeout passes (see rendezvous).
func normalPairs(out *hx.Out, path string, reps int, timeout time.Duration) {
	cases := hx.ReadCases[pairCase](path)
	variants := [][]string{{"model", "model"}, {"server", "server"}, {"model", "server"}, {"server", "model"}}
	for n, c := range cases {
		for rep := 1; rep <= reps; rep++ {
			apis := variants[(rep-1)%len(variants)]
			hx.Current(map[string]any{"part": "normal pairs", "case": c, "apis": apis})
			s := newSUT(int64(n)*31 + int64(rep) + hx.Seed())
			s.clk.Advance(1)
			// init "del" (a switch to a against DeleteMode(a)): a is the normal mode, c is active
			for _, m := range []*traits.ElectricMode{{Id: "a", Normal: c.Init == "del"}, {Id: "b"}, {Id: "c", Normal: c.Init == "other"}} {
				if err := s.m.AddMode(m); err != nil {
					hx.Fatal("pairs setup: %v", err)
				}
			}
			if c.Init == "del" {
				if _, err := s.m.ChangeActiveMode("c"); err != nil {
					hx.Fatal("pairs setup: %v", err)
				}
				s.clk.Advance(1)
			}
			line := pairLine{Kind: "pair", Case: n + 1, Rep: rep, Init: c.Init, Ops: c.Ops, APIs: apis, Errs: []string{"", ""}, Now: s.clk.Ticks()}
			line.Pre, _ = s.state("model", s.ids.toAbsOrSeen)
			rv := newRendezvous(timeout)
			s.updOpts = []resource.WriteOption{resource.InterceptBefore(func(_, _ proto.Message) { rv.arrive() })}
			s.clk.meetAt(rv)
			var wg sync.WaitGroup
			var pmu sync.Mutex
			var firstDone atomic.Bool
			for i := range c.Ops {
				wg.Add(1)
				go func() {
					defer wg.Done()
					var err error
					p := hx.Catch(func() { err, _, _ = s.call(apis[i], c.Ops[i]) })
					pmu.Lock()
					line.Errs[i] = hx.Code(err)
					if p != "" {
						line.Errs[i], line.Panic = "Panic", p
					}
					pmu.Unlock()
					if i == 0 {
						firstDone.Store(true)
					}
				}()
				if i == 0 {
					// the second call starts when the first one is parked between its check (lookup) and
					// its write (commit), or has answered
					for dl := time.Now().Add(timeout); rv.arrivals() == 0 && !firstDone.Load() && time.Now().Before(dl); {
						time.Sleep(20 * time.Microsecond)
					}
				}
			}
			wg.Wait()
			s.clk.meetAt(nil)
			s.updOpts = nil
			line.Arrivals = rv.arrivals()
			line.Post, _ = s.state("model", s.ids.toAbsOrSeen)
			out.Write(line)
		}
	}
}

// cnormalLine: the table a caller read right after its UpdateMode(normal = true) succeeded, while
// other goroutines do the same on other modes (free running).
type cnormalLine struct {
	Kind  string  `json:"kind"`
	Run   int     `json:"run"`
	Round int     `json:"round"`
	API   string  `json:"api"`
	ID    string  `json:"id"`
	Modes []modeA `json:"modes"`
}

// normalStress: three goroutines, each with its own mode, set normal = true (refused while another
// mode is normal), read the table, set normal = false again.
func normalStress(out *hx.Out, runs, iters int) {
	for run := 1; run <= runs; run++ {
		hx.Current(map[string]any{"part": "normal stress", "run": run})
		s := newSUT(int64(run)*37 + hx.Seed())
		s.clk.Advance(1)
		ids := []string{"a", "b", "c"}
		for _, id := range ids {
			if err := s.m.AddMode(&traits.ElectricMode{Id: id}); err != nil {
				hx.Fatal("stress setup: %v", err)
			}
		}
		var wg sync.WaitGroup
		for w, id := range ids {
			wg.Add(1)
			api := []string{"model", "server", "model"}[(w+run)%3]
			go func() {
				defer wg.Done()
				for k := 1; k <= iters; k++ {
					on := opT{Op: "Update", ID: id, Normal: true, Mask: "normal", Start: -1, Src: "lit"}
					if err, _, _ := s.call(api, on); err != nil {
						continue
					}
					out.Write(cnormalLine{Kind: "cnormal", Run: run, Round: k, API: api, ID: id, Modes: absModes(s.ids, s.m.Modes(), s.ids.toAbsOrSeen)})
					off := on
					off.Normal = false
					if err, _, _ := s.call(api, off); err != nil {
						hx.Fatal("taking the normal flag off %s: %v", id, err)
					}
				}
			}()
		}
		wg.Wait()
	}
}

func runConc() {
	out := hx.NewOut(hx.Arg("-out", "obs.ndjson"))
	defer out.Close()
	runs := hx.ArgInt("-runs", 50)
	rounds := hx.ArgInt("-rounds", 8)
	nops := hx.ArgInt("-ops", 4)
	top := hx.Rand(19)
	for run := 1; run <= runs; run++ {
		g := 2 + top.Intn(3)
		viaServer := run%2 == 0
		hx.Current(map[string]any{"part": "conc", "run": run, "goroutines": g, "viaServer": viaServer})
		// two runs in five start from a constructed model: a (normal) and b, a the active mode
		ini := initT{Active: activeA{Start: -1}}
		if run%5 < 2 {
			ini = initT{Modes: []modeA{{ID: "a", Normal: true, Title: 1, Start: -1}, {ID: "b", Title: 2, Start: -1}},
				Active: activeA{ID: "a", Normal: true, Title: 1, Start: -1}}
		}
		s := newSUTWith(int64(run)*13+hx.Seed(), ini, run)
		s.clk.Advance(1)
		ctx, cancel := context.WithCancel(bg)
		mc, ac := s.subscribe(ctx, viaServer)

		// collectors: fold the modes stream, remember the active stream
		var mu sync.Mutex
		arrived := sync.NewCond(&mu)
		view := map[string]*traits.ElectricMode{}
		var mlines []mstreamLine
		var alines []aeventLine
		var lastActive *traits.ElectricMode
		prev := activeA{Start: -1}
		afterSentinel := false
		mk, ak := 0, 0
		foldedNow := func() []modeA {
			l := make([]*traits.ElectricMode, 0, len(view))
			for _, m := range view {
				l = append(l, m)
			}
			return absModes(s.ids, l, s.ids.seen)
		}
		go func() {
			for {
				select {
				case e := <-mc:
					mu.Lock()
					evid := ""
					if e.Type == types.ChangeType_REMOVE.String() {
						evid = e.Old.GetId()
						delete(view, e.Old.GetId())
					} else {
						evid = e.New.GetId()
						view[e.New.GetId()] = e.New
					}
					if evid != sentinelID { // the harness's own marker (see drain) is not part of the record
						mk++
						mlines = append(mlines, mstreamLine{Kind: "mstream", Run: run, K: mk, Ev: e.Type, EvID: s.ids.seen(evid), Modes: foldedNow()})
					}
					mu.Unlock()
					arrived.Broadcast()
				case <-ctx.Done():
					return
				}
			}
		}()
		go func() {
			for {
				select {
				case e := <-ac:
					mu.Lock()
					cur := absActive(e.Mode, s.ids.seen)
					lastActive = e.Mode
					switch {
					case cur.Start >= sentinelStart: // the harness's own marker (see drain)
						afterSentinel = true
					case afterSentinel: // the marker being taken back: the active mode as it was
						afterSentinel = false
						prev = cur
					default:
						if ak == 0 {
							prev = cur // the seed value of the stream (the blank or the configured mode) is no switch
						}
						ak++
						alines = append(alines, aeventLine{Kind: "aevent", Run: run, K: ak, Prev: prev, Cur: cur, Ct: absTime(e.Ct)})
						prev = cur
					}
					mu.Unlock()
					arrived.Broadcast()
				case <-ctx.Done():
					return
				}
			}
		}()

		// "changed": the active mode is a real mode - set by an operation, or configured at construction
		// (that one, too, "is never deleted")
		var changed atomic.Bool
		changed.Store(ini.Active.ID != "")
		var calls, okCalls atomic.Int64
		for round := 1; round <= rounds; round++ {
			var wg sync.WaitGroup
			var pmu sync.Mutex
			panicked := ""
			start := make(chan struct{})
			for w := 0; w < g; w++ {
				wg.Add(1)
				r := hx.Rand(int64(run)*100003 + int64(round)*101 + int64(w))
				go func() {
					defer wg.Done()
					<-start
					for k := 0; k < nops; k++ {
						op := randOp(r, s)
						api := "model"
						if r.Intn(2) == 0 {
							api = "server"
						}
						var err error
						got := noRet()
						p := hx.Catch(func() { err, _, got = s.call(api, op) })
						calls.Add(1)
						if op.Op == "Clear" && p == "" {
							out.Write(cclearLine{Kind: "cclear", Part: "mix", Run: run, Round: round, API: api, Err: hx.Code(err), Ret: got})
						}
						if p != "" {
							pmu.Lock()
							panicked = fmt.Sprintf("%s %+v: %s", api, op, p)
							pmu.Unlock()
							continue
						}
						if err == nil {
							okCalls.Add(1)
							if op.Op == "SetActive" || op.Op == "Change" || op.Op == "Clear" {
								changed.Store(true)
							}
						}
					}
				}()
			}
			close(start)
			wg.Wait()
			// quiescence: nothing is writing.  Changes may still be on their way to the subscribers;
			// the harness pushes a marker through each stream and waits for it, after which everything
			// written before has arrived (or, on the server streams, been superseded).
			st, _ := s.state("model", s.ids.seen)
			waitFor := func(cond func() bool) bool {
				timedOut := false
				t := time.AfterFunc(10*time.Second, func() {
					mu.Lock()
					timedOut = true
					mu.Unlock()
					arrived.Broadcast()
				})
				defer t.Stop()
				mu.Lock()
				defer mu.Unlock()
				for !cond() && !timedOut {
					arrived.Wait() // the collectors signal every delivery
				}
				return cond()
			}
			drained := true
			// modes: add a marker mode, see it arrive, take it away again, see it leave
			if err := s.m.AddMode(&traits.ElectricMode{Id: sentinelID}); err != nil {
				drained = false
			} else {
				drained = waitFor(func() bool { return view[sentinelID] != nil }) && drained
				if err := s.m.DeleteMode(sentinelID); err != nil {
					hx.Fatal("cannot remove the marker mode: %v", err)
				}
				drained = waitFor(func() bool { return view[sentinelID] == nil }) && drained
			}
			// active mode: set it to itself with a marker start time, see that arrive, put it back
			if cur := s.m.ActiveMode(); cur.GetId() != "" {
				if _, exists := s.m.FindMode(cur.GetId()); exists {
					sentinelSeq++
					marked := proto.Clone(cur).(*traits.ElectricMode)
					marked.StartTime = timestamppb.New(concTime(sentinelStart + sentinelSeq))
					if err := s.m.SetActiveMode(marked); err != nil {
						hx.Fatal("cannot mark the active mode: %v", err)
					}
					drained = waitFor(func() bool { return proto.Equal(lastActive, marked) }) && drained
					if err := s.m.SetActiveMode(cur); err != nil {
						hx.Fatal("cannot restore the active mode: %v", err)
					}
					drained = waitFor(func() bool { return proto.Equal(lastActive, cur) && !afterSentinel }) && drained
				}
				// (an active mode that is not in the table cannot be set again: no marker; the state
				// clause on the model's own state already fails there)
			}
			if after, _ := s.state("model", s.ids.seen); !modesEqual(after.Modes, st.Modes) || after.Active != st.Active {
				hx.Fatal("the markers changed the state: %+v -> %+v", st, after)
			}
			mu.Lock()
			for i := range mlines {
				mlines[i].Round, mlines[i].Reliable = round, drained && !viaServer
				out.Write(mlines[i])
			}
			for i := range alines {
				alines[i].Round, alines[i].Reliable = round, drained && !viaServer
				out.Write(alines[i])
			}
			mlines, alines = nil, nil
			q := quiesceLine{Kind: "quiesce", Run: run, Round: round, G: g, ViaServer: viaServer, Now: s.clk.Ticks(),
				Changed: changed.Load(), Calls: int(calls.Load()), OKCalls: int(okCalls.Load()),
				State: st, Folded: foldedNow(), LastAct: prev, Drained: drained, Panic: panicked}
			mu.Unlock()
			out.Write(q)
			s.clk.Advance(1)
		}
		cancel()
	}
	clearRaces(out, hx.ArgInt("-movers", 4), hx.ArgInt("-clears", 500), hx.ArgInt("-forced", 50))
	if p := hx.Arg("-pairs", ""); p != "" {
		normalPairs(out, p, hx.ArgInt("-reps", 2), time.Duration(hx.ArgInt("-meet-ms", 100))*time.Millisecond)
	}
	normalStress(out, hx.ArgInt("-stress", 4), hx.ArgInt("-stress-iters", 300))
}

func main() {
	if len(os.Args) < 2 {
		hx.Fatal("usage: electric seq|conc ...")
	}
	switch os.Args[1] {
	case "seq":
		runSeq()
	case "conc":
		runConc()
	default:
		hx.Fatal("usage: electric seq|conc ...")
	}
}
