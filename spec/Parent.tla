---------------------------- MODULE Parent ----------------------------
(***************************************************************************)
(* C20, parentpb.Model: the children of a parent device, each with the    *)
(* list of traits it supports.  The model is a map  child name -> SET of  *)
(* trait names; AddChildTrait / RemoveChildTrait are set union / set      *)
(* difference and what is stored (and returned) is that set as a sorted   *)
(* duplicate-free list.                                                   *)
(*                                                                         *)
(* Trait and child names are small alphabets listed in the byte order of  *)
(* the concrete strings the harness uses (TLC cannot order strings).      *)
(***************************************************************************)
EXTENDS Integers, Sequences, FiniteSets

TraitOrder == <<"Air", "Light", "OnOff", "aux", "fan", "zone">>
ChildOrder == <<"c1", "c2", "c3">>
Traits == { TraitOrder[k] : k \in 1..Len(TraitOrder) }
ChildNames == { ChildOrder[k] : k \in 1..Len(ChildOrder) }
TRank(t) == CHOOSE k \in 1..Len(TraitOrder) : TraitOrder[k] = t
CRank(c) == CHOOSE k \in 1..Len(ChildOrder) : ChildOrder[k] = c

SetOf(s) == { s[k] : k \in 1..Len(s) }
\* the sorted duplicate-free list of a set of traits
SortedTraits(S) == SelectSeq(TraitOrder, LAMBDA t : t \in S)
IsSortedNoDup(s) == \A j, k \in 1..Len(s) : j < k => TRank(s[j]) < TRank(s[k])

\* state: sequence of [name, traits] in ascending name order (what ListChildren returns)
Names(st) == { st[k].name : k \in 1..Len(st) }
Has(st, n) == n \in Names(st)
Child(st, n) == st[CHOOSE k \in 1..Len(st) : st[k].name = n]
Put(st, ch) ==
  LET lo == SelectSeq(st, LAMBDA x : CRank(x.name) < CRank(ch.name))
      hi == SelectSeq(st, LAMBDA x : CRank(x.name) > CRank(ch.name))
  IN lo \o <<ch>> \o hi
Without(st, n) == SelectSeq(st, LAMBDA x : x.name # n)
WellFormed(st) == /\ \A j, k \in 1..Len(st) : j < k => CRank(st[j].name) < CRank(st[k].name)
                  /\ \A k \in 1..Len(st) : IsSortedNoDup(st[k].traits)

(* Configuration = the SEQUENCE of options handed to NewModel:               *)
(* [kind |-> "children", children |-> <<..>>] (WithInitialChildren, or       *)
(* resource initial records; may occur several times, "additive"), and       *)
(* [kind |-> "clock"].  Whatever the order and grouping, the children given  *)
(* are the initial children.                                                 *)
RECURSIVE PutAll(_, _)
PutAll(st, cs) == IF cs = <<>> THEN st ELSE PutAll(Put(st, Head(cs)), Tail(cs))
RECURSIVE ConfChildren(_)
ConfChildren(opts) == IF opts = <<>> THEN <<>>
                      ELSE PutAll(ConfChildren(Tail(opts)), IF Head(opts).kind = "children" THEN Head(opts).children ELSE <<>>)

NoChild == [has |-> FALSE, v |-> [name |-> "", traits |-> <<>>]]
Some(ch) == [has |-> TRUE, v |-> ch]

(* Step functions: [post, ret, created, err].  ts is the argument list of *)
(* trait names, in any order, possibly with repetitions.                   *)
AddChildTrait(st, n, ts) ==
  LET old == IF Has(st, n) THEN SetOf(Child(st, n).traits) ELSE {}
      ch == [name |-> n, traits |-> SortedTraits(old \cup SetOf(ts))]
  IN [post |-> Put(st, ch), ret |-> Some(ch), created |-> ~Has(st, n), err |-> "OK"]

RemoveChildTrait(st, n, ts) ==
  IF ~Has(st, n) THEN [post |-> st, ret |-> NoChild, created |-> FALSE, err |-> "OK"]
  ELSE LET ch == [name |-> n, traits |-> SortedTraits(SetOf(Child(st, n).traits) \ SetOf(ts))]
       IN [post |-> Put(st, ch), ret |-> Some(ch), created |-> FALSE, err |-> "OK"]

\* AddChild keeps an existing child of that name (documented: "no changes will be made")
AddChild(st, ch) ==
  [post |-> IF Has(st, ch.name) THEN st ELSE Put(st, ch), ret |-> NoChild, created |-> FALSE, err |-> "OK"]

RemoveChildByName(st, n) ==
  IF Has(st, n) THEN [post |-> Without(st, n), ret |-> Some(Child(st, n)), created |-> FALSE, err |-> "OK"]
  ELSE [post |-> st, ret |-> NoChild, created |-> FALSE, err |-> "NotFound"]

Step(st, op, n, ts) ==
  CASE op = "AddChildTrait" -> AddChildTrait(st, n, ts)
    [] op = "RemoveChildTrait" -> RemoveChildTrait(st, n, ts)
    [] op = "AddChild" -> AddChild(st, [name |-> n, traits |-> ts])
    [] op = "RemoveChildByName" -> RemoveChildByName(st, n)
=============================================================================
