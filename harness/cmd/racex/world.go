package main

import (
	"context"
	"strings"
	"time"

	"go.uber.org/zap"
	"google.golang.org/grpc"
	"google.golang.org/grpc/metadata"
	"google.golang.org/protobuf/proto"
	"google.golang.org/protobuf/types/known/timestamppb"

	"github.com/smart-core-os/sc-api/go/traits"
	"github.com/smart-core-os/sc-golang/internal/minibus"
	"github.com/smart-core-os/sc-golang/internal/testproto"
	"github.com/smart-core-os/sc-golang/pkg/resource"
	"github.com/smart-core-os/sc-golang/pkg/router"
	"github.com/smart-core-os/sc-golang/pkg/server"
	"github.com/smart-core-os/sc-golang/pkg/trait/bookingpb"
	"github.com/smart-core-os/sc-golang/pkg/trait/electricpb"
	"github.com/smart-core-os/sc-golang/pkg/trait/hailpb"
	"github.com/smart-core-os/sc-golang/pkg/trait/metadatapb"
	"github.com/smart-core-os/sc-golang/pkg/trait/onoffpb"
	"github.com/smart-core-os/sc-golang/pkg/trait/parentpb"
	"github.com/smart-core-os/sc-golang/pkg/trait/publicationpb"
)

// world holds the shared objects of one iteration of one program: up to three INSTANCES of every type.  It is built
// by the main goroutine before the processes are released and never written afterwards.  Instance 0 gets initial
// content through options on top of the package's default options; instances 1 and 2 are built with NO options at
// all (whatever the package-level defaults hold is then shared between them) and get their content through the
// public API, still before the processes start.
type world struct {
	root   context.Context
	cancel context.CancelFunc

	val  []*resource.Value
	coll []*resource.Collection
	bus  []*minibus.Bus

	rtr    []*onoffpb.ApiRouter
	rtrCli []traits.OnOffApiClient // the router itself behind wrap.ServerToClient

	wrapModel []*onoffpb.Model
	wrapCli   []traits.OnOffApiClient    // hdrServer behind wrap.ServerToClient
	chat      []grpc.ClientConnInterface // the hand-written bidi service behind wrap.ServerToClient (mdops.go)

	el   []*electricpb.Model
	par  []*parentpb.Model
	md   []*metadatapb.Model
	hail []*hailpb.Model
	book []*bookingpb.Model
	pub  []*publicationpb.Model

	kit *optKit // option values shared by all processes of the program (opts.go)

	simple map[string][]any // the default-constructed models of the "dflt" family, by type
	info   []*server.InfoServer
}

func (w *world) close() { w.cancel() }

var collIDs = []string{"A", "b", "C"}
var rtrNames = []string{"n1", "n2", "n3"}

func newWorld(need map[string]bool, inst int) *world {
	w := &world{simple: map[string][]any{}, kit: newOptKit()}
	w.root, w.cancel = context.WithCancel(context.Background())
	for i := 0; i < inst; i++ {
		plain := i > 0 // built with default options only
		if need["val"] {
			if plain {
				v := resource.NewValue()
				_, _ = v.Set(mkMsg(1))
				w.val = append(w.val, v)
			} else {
				w.val = append(w.val, resource.NewValue(resource.WithInitialValue(mkMsg(1))))
			}
		}
		if need["coll"] {
			if plain {
				c := resource.NewCollection()
				_, _ = c.Add("a", mkMsg(1))
				_, _ = c.Add("b", mkMsg(2))
				w.coll = append(w.coll, c)
			} else {
				w.coll = append(w.coll, resource.NewCollection(
					resource.WithInitialRecord("a", mkMsg(1)),
					resource.WithInitialRecord("b", mkMsg(2)),
					resource.WithIDInterceptor(strings.ToLower)))
			}
		}
		if need["bus"] {
			w.bus = append(w.bus, &minibus.Bus{})
		}
		if need["rtr"] {
			var r *onoffpb.ApiRouter
			if plain {
				r = onoffpb.NewApiRouter(onoffpb.WithOnOffApiClientFactory(func(name string) (traits.OnOffApiClient, error) {
					return newOnOffClient(), nil
				}))
			} else {
				r = onoffpb.NewApiRouter(
					onoffpb.WithOnOffApiClientFactory(func(name string) (traits.OnOffApiClient, error) {
						useString(name)
						return newOnOffClient(), nil
					}),
					router.WithOnChange(func(c router.Change) {
						// a callback that reads the change it is given
						useString(c.Name)
						useAny(c.Old)
						useAny(c.New)
						useBool(c.Auto)
					}))
			}
			r.Add("n1", newOnOffClient())
			w.rtr = append(w.rtr, r)
			w.rtrCli = append(w.rtrCli, onoffpb.WrapApi(r))
		}
		if need["wrap"] {
			var m *onoffpb.Model
			if plain {
				m = onoffpb.NewModel()
			} else {
				m = onoffpb.NewModel(onoffpb.WithInitialOnOff(&traits.OnOff{State: traits.OnOff_ON}))
			}
			w.wrapModel = append(w.wrapModel, m)
			w.wrapCli = append(w.wrapCli, onoffpb.WrapApi(&hdrServer{m: m}))
			w.chat = append(w.chat, newChatConn())
		}
		if need["el"] {
			m1 := &traits.ElectricMode{Id: "m1", Title: "one", Normal: true, Segments: []*traits.ElectricMode_Segment{{Magnitude: 1}}}
			m2 := &traits.ElectricMode{Id: "m2", Title: "two", Segments: []*traits.ElectricMode_Segment{{Magnitude: 2}, {Magnitude: 3}}}
			if plain {
				m := electricpb.NewModel()
				_ = m.AddMode(m1)
				_ = m.AddMode(m2)
				w.el = append(w.el, m)
			} else {
				w.el = append(w.el, electricpb.NewModel(
					electricpb.WithInitialMode(m1, m2),
					electricpb.WithInitialDemand(&traits.ElectricDemand{Current: 1, Voltage: proto.Float32(240), Rating: 13})))
			}
		}
		if need["par"] {
			c1 := &traits.Child{Name: "c1", Traits: []*traits.Trait{{Name: "b"}, {Name: "d"}, {Name: "f"}}}
			c2 := &traits.Child{Name: "c2", Traits: []*traits.Trait{{Name: "a"}}}
			if plain {
				m := parentpb.NewModel()
				m.AddChild(c1)
				m.AddChild(c2)
				w.par = append(w.par, m)
			} else {
				w.par = append(w.par, parentpb.NewModel(parentpb.WithInitialChildren(c1, c2)))
			}
		}
		if need["md"] {
			md := &traits.Metadata{
				Name:       "dev",
				Traits:     []*traits.TraitMetadata{{Name: "t1", More: map[string]string{"k": "v"}}, {Name: "t3"}},
				Appearance: &traits.Metadata_Appearance{Title: "title"},
				More:       map[string]string{"x": "y"},
			}
			if plain {
				m := metadatapb.NewModel()
				_, _ = m.UpdateMetadata(md)
				w.md = append(w.md, m)
			} else {
				w.md = append(w.md, metadatapb.NewModel(resource.WithInitialValue(md)))
			}
		}
		if need["hail"] {
			m := hailpb.NewModel()
			_, _ = m.CreateHail(&traits.Hail{Origin: &traits.Hail_Location{DisplayName: "o"}})
			w.hail = append(w.hail, m)
		}
		if need["book"] {
			if plain {
				m := bookingpb.NewModel()
				_, _ = m.CreateBooking(&traits.Booking{Id: "k1", Title: "one", OwnerName: "me"})
				w.book = append(w.book, m)
			} else {
				w.book = append(w.book, bookingpb.NewModel(bookingpb.WithInitialBooking(&traits.Booking{Id: "k1", Title: "one", OwnerName: "me"})))
			}
		}
		if need["pub"] {
			u1 := &traits.Publication{Id: "u1", Body: []byte("one"), Audience: &traits.Publication_Audience{Name: "aud"}}
			if plain {
				m := publicationpb.NewModel()
				_, _ = m.CreatePublication(u1)
				w.pub = append(w.pub, m)
			} else {
				w.pub = append(w.pub, publicationpb.NewModel(publicationpb.WithInitialPublication(u1)))
			}
		}
		if need["info"] {
			w.info = append(w.info, server.NewInfoServer(zap.NewNop()))
		}
		for typ, sm := range simpleModels {
			if need["d."+typ] {
				w.simple[typ] = append(w.simple[typ], sm.mk()) // always default options only
			}
		}
	}
	return w
}

func newOnOffClient() traits.OnOffApiClient {
	return onoffpb.WrapApi(onoffpb.NewModelServer(onoffpb.NewModel()))
}

// mkMsg builds a message with scalar, nested, repeated and map content so that a reader has memory to touch.
func mkMsg(v int) *testproto.TestAllTypes {
	return &testproto.TestAllTypes{
		DefaultInt32:          int32(v),
		DefaultString:         "s",
		DefaultBytes:          []byte{1, 2, 3},
		DefaultNestedMessage:  &testproto.TestAllTypes_NestedMessage{A: int32(v), Corecursive: &testproto.TestAllTypes{DefaultInt32: 7}},
		RepeatedInt32:         []int32{1, 2, int32(v)},
		RepeatedString:        []string{"x", "y"},
		RepeatedNestedMessage: []*testproto.TestAllTypes_NestedMessage{{A: 1}, {A: 2}},
		MapStringString:       map[string]string{"k": "v", "l": "w"},
		MapStringNestedMessage: map[string]*testproto.TestAllTypes_NestedMessage{
			"n": {A: int32(v)},
		},
	}
}

// ---- reading what we are given -------------------------------------------------------------

//go:noinline
func useString(s string) int { return len(s) }

//go:noinline
func useBool(b bool) bool { return b }

//go:noinline
func useAny(v any) bool { return v == nil }

//go:noinline
func useInt(v int64) int64 { return v }

// touch reads every field of m (clone + compare walk the whole message).  It never writes to m.
func touch(m proto.Message) {
	if m == nil {
		return
	}
	if !m.ProtoReflect().IsValid() {
		return
	}
	c := proto.Clone(m)
	useBool(proto.Equal(m, c))
}

func touchTime(t time.Time) { useInt(t.UnixNano()) }

func touchMD(md metadata.MD) {
	for k, vs := range md {
		useString(k)
		for _, v := range vs {
			useString(v)
		}
	}
}

// ---- a server whose handlers use header and trailer metadata --------------------------------

// hdrServer is an OnOffApi server backed by the library's own model; its handlers set and send header metadata and
// set trailer metadata the way a gRPC handler is allowed to.
type hdrServer struct {
	traits.UnimplementedOnOffApiServer
	m *onoffpb.Model
}

func (s *hdrServer) GetOnOff(ctx context.Context, req *traits.GetOnOffRequest) (*traits.OnOff, error) {
	touch(req)
	if req.Name == "busy" {
		s.busyUnary(ctx)
		return s.m.GetOnOff()
	}
	_ = grpc.SetHeader(ctx, metadata.Pairs("h", "get"))
	_ = grpc.SetTrailer(ctx, metadata.Pairs("t", "get"))
	return s.m.GetOnOff(resource.WithReadMask(req.ReadMask))
}

func (s *hdrServer) UpdateOnOff(ctx context.Context, req *traits.UpdateOnOffRequest) (*traits.OnOff, error) {
	touch(req)
	_ = grpc.SetHeader(ctx, metadata.Pairs("h", "upd"))
	_ = grpc.SendHeader(ctx, metadata.Pairs("h2", "upd"))
	res, err := s.m.UpdateOnOff(req.OnOff, resource.WithUpdateMask(req.UpdateMask))
	_ = grpc.SetTrailer(ctx, metadata.Pairs("t", "upd"))
	return res, err
}

func (s *hdrServer) PullOnOff(req *traits.PullOnOffRequest, srv traits.OnOffApi_PullOnOffServer) error {
	touch(req)
	if req.Name == "busy" {
		_ = srv.SetHeader(metadata.Pairs("h", "first"))
		srv.SetTrailer(metadata.Pairs("h", "first"))
		cur, _ := s.m.GetOnOff()
		if err := srv.Send(&traits.PullOnOffResponse{Changes: []*traits.PullOnOffResponse_Change{{Name: req.Name, OnOff: cur}}}); err != nil { // flushes the headers
			return err
		}
		keepSettingMetadata(srv.SetHeader, srv.SetTrailer)
		return nil
	}
	_ = srv.SetHeader(metadata.Pairs("h", "pull"))
	if req.Name != "lazy" {
		_ = srv.SendHeader(metadata.Pairs("h2", "pull"))
	}
	n := 0
	updates := s.m.PullOnOff(srv.Context(), resource.WithReadMask(req.ReadMask), resource.WithUpdatesOnly(req.UpdatesOnly))
	defer func() {
		// the model's forwarder sends without watching the context: keep receiving until it has closed the channel
		go func() {
			for range updates {
			}
		}()
	}()
	for update := range updates {
		change := &traits.PullOnOffResponse_Change{Name: req.Name, ChangeTime: timestamppb.New(update.ChangeTime), OnOff: update.Value}
		if err := srv.Send(&traits.PullOnOffResponse{Changes: []*traits.PullOnOffResponse_Change{change}}); err != nil {
			srv.SetTrailer(metadata.Pairs("t", "send-failed"))
			return err
		}
		n++
		srv.SetTrailer(metadata.Pairs("t", "sent"))
		if req.Name == "end" {
			// the handler ends the stream itself; the model's subscription ends with the stream's context
			return nil
		}
	}
	srv.SetTrailer(metadata.Pairs("t", "ended"))
	return srv.Context().Err()
}
