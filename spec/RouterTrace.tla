---------------------------- MODULE RouterTrace ----------------------------
(***************************************************************************)
(* Trace use of Router.tla.  Lines of kind "reg": one step of one process  *)
(* on the real router (router.NewRouter, or a generated router through its *)
(* typed Add<Client>/Remove<Client>/Get<Client> accessors) under a         *)
(* schedule generated from Router.tla: the registry read back before and   *)
(* after (Has + Get), the operation, where the process was (stage, the     *)
(* client its factory made, the change it has to report), where it got to  *)
(* (the gate it is parked in or the value returned) and the changes the    *)
(* callback reported.  Each line is compared with LocalStep.               *)
(* Lines of kind "stress": n free-running goroutines issuing the first Get *)
(* of a new name on a router with a counting factory; "rmstress": n        *)
(* free-running goroutines removing the same present name (equal outcomes  *)
(* logged once with their count).                                          *)
(***************************************************************************)
EXTENDS Router

Obs == ndJsonDeserialize("obs.ndjson")
If(b, name) == IF b THEN {} ELSE {name}

RegFails(ob) ==
  LET r == LocalStep(ob.cfg, ob.pre, ob.op, ob.stage, ob.made, ob.pend, ob.fresh)
      a == r.act \o ":"
  IN
  If(ob.panic = "", a \o "panic")
  \cup (IF ob.panic # "" THEN {} ELSE
     If(ob.post = r.reg, a \o "registry-after")
     \cup If(ob.stage2 = r.stage,
             a \o (IF r.stage = "idle" THEN "did-not-return" ELSE IF ob.stage2 = "idle" THEN "returned-early"
                   ELSE "wrong-next-step"))
     \cup (IF ob.stage2 # r.stage THEN {} ELSE
           (IF r.stage \in {"fb", "fac"} THEN If(ob.gn = ob.op.n, a \o "asked-for-another-name") ELSE {})
           \cup (IF r.stage = "cb" THEN If(ob.pend2 = r.pend, a \o "callback-change") ELSE {})
           \cup (IF ~r.ret.done THEN {} ELSE
                 If(ob.ret.code = r.ret.code, a \o (IF r.ret.code = "NotFound" THEN "NotFound-expected" ELSE "error-code"))
                 \cup If(ob.ret.c = r.ret.c,
                         a \o (CASE ob.op.op = "Add" -> "did-not-return-previous-client"
                                 [] ob.op.op = "Remove" -> "did-not-return-removed-client"
                                 [] OTHER -> "wrong-client"))
                 \cup If(ob.ret.b = r.ret.b, a \o "Has-disagrees-with-registry")))
     \cup If(ob.chg = r.chg, a \o "callbacks-reported"))

StressFails(ob) ==
  LET n == Len(ob.got) IN
  If(\A j \in 1..n : ob.codes[j] = "OK", "stress:Get-failed")
  \cup If(ob.has /\ ob.after # 0, "stress:nothing-committed")
  \cup If(\A j \in 1..n : ob.got[j] = ob.after, "stress:concurrent-first-Gets-returned-different-clients")
  \cup If(ob.chg = << Chg("dev/new", 0, ob.after, TRUE) >>,
          IF Len(ob.chg) # 1 THEN "stress:not-exactly-one-commit-reported" ELSE "stress:commit-report-wrong")
  \cup If(ob.faccalls >= 1 /\ ob.faccalls <= n, "stress:factory-calls")

\* n free-running goroutines Remove the same present name (client ob.c) at once: the map hands the client to
\* exactly one of them and reports exactly the one transition
RmStressFails(ob) ==
  LET n == Len(ob.got) IN
  If(Cardinality({ j \in 1..n : ob.got[j] = ob.c }) = 1 /\ \A j \in 1..n : ob.got[j] \in {0, ob.c},
     "rmstress:not-exactly-one-Remove-returned-the-client")
  \cup If(~ob.has, "rmstress:name-still-present")
  \cup If(ob.chg = << Chg("dev/x", ob.c, 0, FALSE) >>,
          IF \E j \in 1..Len(ob.chg) : ob.chg[j].old = 0 /\ ob.chg[j].new = 0 THEN "rmstress:reported-change-is-no-transition"
          ELSE IF Len(ob.chg) # 1 THEN "rmstress:not-exactly-one-removal-reported" ELSE "rmstress:removal-report-wrong")

Fails(ob) == CASE ob.kind = "stress" -> StressFails(ob) [] ob.kind = "rmstress" -> RmStressFails(ob) [] OTHER -> RegFails(ob)
BadLines == { l \in 1..Len(Obs) : Fails(Obs[l]) # {} }
TraceInit == st = 0
TraceNext == UNCHANGED st
EmitBad == \A l \in BadLines : PrintT("BAD " \o ToJson([line |-> l, fails |-> Fails(Obs[l])]))
TraceChecked == EmitBad /\ PrintT("CHECKED " \o ToString(Len(Obs)))
=============================================================================
