---------------------------- MODULE LossyTrace ----------------------------
(***************************************************************************)
(* Trace use of Lossy.tla: each line of obs.ndjson is one behaviour of the *)
(* specification replayed on the real stage (mode "stage": what each Out   *)
(* step received; mode "e2e": the same history as real writes on a         *)
(* Collection/Value with a lossy Pull, the consumer receiving where the    *)
(* behaviour has Out steps and draining at the end), or one of the         *)
(* blocking scenarios.  The C09 clauses are evaluated on what was really   *)
(* received.                                                               *)
(***************************************************************************)
EXTENDS Integers, Sequences, FiniteSets, TLC, Json
VARIABLE c
Obs == ndJsonDeserialize("obs.ndjson")
Absent == 0
If(b, name) == IF b THEN {} ELSE {name}

Outs(t) == SelectSeq(t.steps, LAMBDA s : s.a = "out")
NIds(t) == Len(t.truth)
RECURSIVE Fold(_, _)
Fold(v, evs) == IF evs = <<>> THEN v ELSE Fold([v EXCEPT ![Head(evs).id] = Head(evs).new], Tail(evs))
\* the consumer's view before it received got[k]
Before(t, k) == Fold([i \in 1..NIds(t) |-> Absent], SubSeq(t.got, 1, k - 1))
WellFormed(t) == \A k \in 1..Len(t.got) : t.got[k].id \in 1..NIds(t) /\ t.got[k].type \in {"ADD", "UPDATE", "REPLACE", "REMOVE"}

StageFails(t) ==
  IF ~WellFormed(t)
    THEN { "C09:" \o (IF \E k \in 1..Len(t.got) : t.got[k].type = "PRODUCER-BLOCKED" THEN "producer-blocked-by-idle-stage"
                      ELSE IF \E k \in 1..Len(t.got) : t.got[k].type = "NOTHING-TO-RECEIVE" THEN "pending-change-not-delivered"
                      ELSE IF \E k \in 1..Len(t.got) : t.got[k].type = "EXTRA" THEN "delivered-more-than-pending"
                      ELSE "malformed-delivery") }
  ELSE
    \* exactly what the specification's stage hands over at each Out step
    \* (exactly what the specification's stage hands over: the property fixes the fold, the old-value chain and what
    \*  cancels out, not the very table, so a difference is a note in the evidence -- model drift -- not a verdict)
    If(Len(t.got) = Len(Outs(t)) /\ \A k \in 1..Len(t.got) : t.got[k] = Outs(t)[k].e, "NOTE:differs-from-merge-table")
    \cup If(Fold([i \in 1..NIds(t) |-> Absent], t.got) = t.truth, "C09:folded-view-differs")
    \cup If(t.kind = "val" \/ \A k \in 1..Len(t.got) : t.got[k].old = Before(t, k)[t.got[k].id], "C09:old-value-chain-broken")
    \cup If(t.kind = "val" \/ \A k \in 1..Len(t.got) :
              LET e == t.got[k]  had == Before(t, k)[e.id] # Absent IN
              (e.type = "ADD" => ~had) /\ (e.type \in {"REMOVE", "UPDATE", "REPLACE"} => had), "C09:change-kind-inconsistent-with-view")
    \cup If(t.closed, "C09:stage-did-not-end-with-its-input")

\* the values a Value subscriber receives are some of the values written, in the order written
Ins(t) == SelectSeq(t.steps, LAMBDA s : s.a = "in")
RECURSIVE IsSubseq(_, _)
IsSubseq(a, b) == IF a = <<>> THEN TRUE ELSE IF b = <<>> THEN FALSE
                  ELSE IF Head(a) = Head(b) THEN IsSubseq(Tail(a), Tail(b)) ELSE IsSubseq(a, Tail(b))
E2EFails(t) ==
  If(\A k \in 1..Len(t.writeMs) : t.writeMs[k] >= 0, "C09:write-waited-for-slow-reader")
  \cup (IF t.problem # "" \/ ~WellFormed(t) \/ \E k \in 1..Len(t.writeMs) : t.writeMs[k] < 0 THEN {}
        ELSE If(Fold([i \in 1..NIds(t) |-> Absent], t.got) = t.truth, "C09:folded-view-differs")
             \cup If(t.kind = "val" \/ \A k \in 1..Len(t.got) : t.got[k].old = Before(t, k)[t.got[k].id], "C09:old-value-chain-broken")
             \cup If(t.kind = "coll" \/ IsSubseq([k \in 1..Len(t.got) |-> t.got[k].new],
                                                  [k \in 1..Len(Ins(t)) |-> Ins(t)[k].e.new] \o <<999>>),
                     "C09:received-values-not-a-subsequence-of-written-values")
             \cup If(t.kind = "val" \/ \A k \in 1..Len(t.got) :
                       LET e == t.got[k]  had == Before(t, k)[e.id] # Absent IN
                       (e.type = "ADD" => ~had) /\ (e.type \in {"REMOVE", "UPDATE", "REPLACE"} => had), "C09:change-kind-inconsistent-with-view"))

\* C08 with backpressure off: a lossy Pull with an include predicate (value is odd) still folds to the
\* filtered collection (merging happens before the include decision, so the merged change's old value matters)
E2EIncFails(t) ==
  IF t.problem # "" \/ ~WellFormed(t) \/ \E k \in 1..Len(t.writeMs) : t.writeMs[k] < 0 THEN {}
  ELSE If(Fold([i \in 1..NIds(t) |-> Absent], t.got) = [i \in 1..NIds(t) |-> IF t.truth[i] % 2 = 1 THEN t.truth[i] ELSE Absent],
          "C08:filtered-lossy-view-differs")
       \cup If(\A k \in 1..Len(t.got) : t.got[k].new = Absent \/ t.got[k].new % 2 = 1, "C08:excluded-value-delivered")

BlockingFails(t) ==
  If(t.blocked, "C09:backpressured-write-did-not-wait-for-delivery")
  \cup (IF ~t.blocked THEN {} ELSE
          If(Len(t.got) = 2 /\ t.got[1].new = 1 /\ t.got[2].new = 2, "C09:backpressured-change-dropped-or-reordered")
          \cup If(t.released, "C09:write-still-blocked-after-delivery"))

TimeoutFails(t) ==
  If(t.setErr # "hung", "C09:value-write-hangs-on-stuck-reader")
  \cup If(t.setErr # "OK", "C09:value-write-reported-success-without-delivery")
  \cup If(t.setErr # "error" \/ (t.setMs >= 4000 /\ t.setMs <= 9000), "C09:send-timeout-not-five-seconds")

Fails(t) ==
  IF t.panic # "" THEN {"C09:panic"}
  ELSE IF t.problem # "" /\ t.mode \notin {"e2e", "e2e-inc"} THEN {}
  ELSE CASE t.mode = "stage" -> StageFails(t)
         [] t.mode = "e2e" -> E2EFails(t)
         [] t.mode = "e2e-inc" -> E2EIncFails(t)
         [] t.mode = "blocking" -> BlockingFails(t)
         [] t.mode = "timeout" -> TimeoutFails(t)
         [] OTHER -> {}
BadLines == { k \in 1..Len(Obs) : Fails(Obs[k]) # {} }
TraceInit == c = 0
TraceNext == UNCHANGED c
EmitBad == \A k \in BadLines : PrintT("BAD " \o ToJson([line |-> k, fails |-> Fails(Obs[k])]))
TraceChecked == EmitBad /\ PrintT("CHECKED " \o ToString(Len(Obs)))
=============================================================================
