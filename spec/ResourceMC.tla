---------------------------- MODULE ResourceMC ----------------------------
(***************************************************************************)
(* MC use of Resource.tla: a collection driven by every call of a small   *)
(* alphabet, with four subscribers of different kinds folding what they   *)
(* are handed.  TLC checks on the specification itself that               *)
(*   - the store stays a sorted map,                                      *)
(*   - every subscriber's folded view always equals List with the same    *)
(*     read mask and include predicate (C04 ordered edit script, C08),    *)
(*   - a failed call changes nothing and emits nothing (C01),             *)
(*   - a generated id is fresh, non-empty, reported once and usable,      *)
(*   - each event's old value is the previous new value for that id.      *)
(***************************************************************************)
EXTENDS Resource

CONSTANTS MaxItems, MaxI

VARIABLES st, icpt, equiv, views, lastNew, last
vars == <<st, icpt, equiv, views, lastNew, last>>

B(i) == [Empty EXCEPT !.i = i]
B2 == [Empty EXCEPT !.i = 2, !.f = [p |-> TRUE, c |-> 1, d |-> 0]]
Bodies == { B(0), B(1), B2 }

Plain == [M |-> NilMask, R |-> NilMask, mm |-> NilMask, W |-> NilMask, mw |-> NilMask, aw |-> FALSE, ev |-> NoMsg, chk |-> 0, xa |-> FALSE, cia |-> FALSE, am |-> FALSE,
          gen |-> FALSE, first |-> "g", ib |-> 0, ia |-> 0, wt |-> -1]
UOpts == { Plain, [Plain EXCEPT !.cia = TRUE], [Plain EXCEPT !.cia = TRUE, !.xa = TRUE],
           [Plain EXCEPT !.ev = Some(B(1))], [Plain EXCEPT !.chk = 1, !.cia = TRUE],
           [Plain EXCEPT !.ib = 1, !.ia = 1], [Plain EXCEPT !.M = Mask(<<<<"i">>>>)], [Plain EXCEPT !.mm = Mask(<<<<"i">>>>), !.cia = TRUE],
           [Plain EXCEPT !.M = Mask(<<<<"f">>>>), !.mm = Mask(<<<<"i">>>>)],
           [Plain EXCEPT !.M = Mask(<<>>), !.cia = TRUE], [Plain EXCEPT !.M = Mask(<<<<"zz">>>>)],
           [Plain EXCEPT !.R = Mask(<<<<"f">>>>), !.wt = 7],
           [Plain EXCEPT !.gen = TRUE, !.cia = TRUE, !.first = "a"], [Plain EXCEPT !.gen = TRUE, !.cia = TRUE, !.xa = TRUE] }
DOpts == { Plain, [Plain EXCEPT !.am = TRUE], [Plain EXCEPT !.ev = Some(B(1))], [Plain EXCEPT !.chk = 1] }

Classes == {"none", "i0", "i1", "i2"}
ByValue == [nil |-> FALSE, t |-> [id \in AllIds |-> [cl \in Classes |-> cl \in {"i1", "i2"}]]]
ByIdAndAbsent == [nil |-> FALSE, t |-> [id \in AllIds |-> [cl \in Classes |-> (id # "b") /\ cl # "i2" ]]]
NoInc == [nil |-> TRUE, t |-> [id \in AllIds |-> [cl \in Classes |-> TRUE]]]
Subs == << [pid |-> "", updatesOnly |-> FALSE, mask |-> NilMask, inc |-> NoInc],
           [pid |-> "", updatesOnly |-> FALSE, mask |-> Mask(<<<<"i">>>>), inc |-> NoInc],
           [pid |-> "", updatesOnly |-> FALSE, mask |-> NilMask, inc |-> ByValue],
           [pid |-> "", updatesOnly |-> FALSE, mask |-> Mask(<<<<"f">>>>), inc |-> ByIdAndAbsent] >>

ListView(s) == LET l == CollList(st, Subs[s].mask, Subs[s].inc) IN [k \in 1..Len(l) |-> [id |-> l[k].id, body |-> l[k].body]]

Init == /\ st = <<>> /\ icpt \in {"none", "lower"} /\ equiv \in BOOLEAN
        /\ views = [s \in 1..Len(Subs) |-> <<>>]
        /\ lastNew = [id \in AllIds |-> NoMsg]
        /\ last = [call |-> "none", err |-> "OK", gen |-> FALSE, id |-> "", idcb |-> <<>>, pre |-> <<>>, ev |-> <<>>]

Apply(r, call, genned) ==
  /\ st' = r.post
  /\ views' = [s \in 1..Len(Subs) |->
                 IF r.ev = <<>> THEN views[s] ELSE Fold(views[s], CollDeliver(r.ev[1], Subs[s], equiv))]
  /\ lastNew' = IF r.ev = <<>> THEN lastNew ELSE [lastNew EXCEPT ![r.ev[1].id] = r.ev[1].new]
  /\ last' = [call |-> call, err |-> r.err, gen |-> genned, id |-> IF r.ev = <<>> THEN "" ELSE r.ev[1].id,
              idcb |-> r.idcb, pre |-> st, ev |-> r.ev]
  /\ UNCHANGED <<icpt, equiv>>

DoUpdate == \E rawid \in {"a", "b", "A", ""}, body \in Bodies, o \in UOpts :
              /\ rawid = "" => o.gen      \* (an item stored under "" is outside the id alphabet)
              /\ Apply(CollUpdate(st, 3, icpt, rawid, body, o), "Update", rawid = "" /\ o.gen)
DoDelete == \E rawid \in {"a", "b", "A"}, o \in DOpts :
              Apply(CollDelete(st, 3, icpt, rawid, o), "Delete", FALSE)
Next == DoUpdate \/ DoDelete
Spec == Init /\ [][Next]_vars

\* history (last) is excluded from the fingerprint
ViewNoHist == <<st, icpt, equiv, views, lastNew>>
Bounded == Len(st) <= MaxItems /\ \A k \in 1..Len(st) : st[k].body.i <= MaxI

----------------------------------------------------------------------------
SortedMap == Sorted(st)
FoldMatches == \A s \in 1..Len(Subs) : views[s] = ListView(s)
FailureIsNoop == last.err # "OK" => st = last.pre /\ last.ev = <<>>
OnePerSuccess == last.call # "none" /\ last.err = "OK" /\ ~(last.call = "Delete" /\ last.pre = st) => Len(last.ev) = 1
GenIdFresh == last.gen /\ last.err = "OK" =>
                /\ last.idcb = <<last.id>> /\ last.id # "" /\ ~Has(last.pre, last.id)
                /\ CollGet(st, icpt, last.id, NilMask).has
OldChains == last.ev # <<>> =>
               LET e == last.ev[1] IN e.old = (IF Has(last.pre, e.id) THEN Some(Item(last.pre, e.id).body) ELSE NoMsg)
LastNewIsStore == \A id \in AllIds : lastNew[id] = (IF Has(st, id) THEN Some(Item(st, id).body) ELSE NoMsg)
=============================================================================
