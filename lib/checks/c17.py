"""C17: group execution honours each strategy's contract.

spec/GroupContract.tla  the contract as predicates over an outcome record
spec/Group.tla          the design of pkg/group/exec.go as processes (members, closer, collector); MC
spec/GroupGen.tla       the cases (strategy x entry point x outcomes x completion order x aware/cancel)
spec/GroupTrace.tla     the contract evaluated on what the real code did
harness/cmd/group       replays every case on the real functions, one member return at a time
"""
import collections
import concurrent.futures

import vf


def design_variant(ctx, cfg, consts, expect):
    """The code as pinned (unbuffered channel, unguarded placement) in the model: TLC must refute `expect`."""
    res = ctx.tlc("Group", cfg, consts=consts, workers=4, deadlock=False, timeout=600)
    ok = expect in res.violated
    ctx.cov["notes"].append({"design_variant": consts, "cfg": cfg,
                             "tlc_refutes": res.violated, "as_expected": ok})
    if not ok:
        raise vf.Inconclusive("the model of the pinned design (%s) no longer refutes %s: the model and the "
                              "reading of the code have drifted\n%s" % (consts, expect, res.out[-1500:]))


def klass(o):
    """Input class of a signature: the group size class (details are in the witness)."""
    return "n=0" if o["n"] == 0 else ("n=1" if o["n"] == 1 else "n>1")


WHAT = {
    "panic": "the call panicked",
    "no-return": "the call did not come back although every member returned",
    "goroutines-remain": "goroutines started by the call are still parked after every member returned",
    "not-cancelled": "a member that returned after the outcome was decided saw a context that was not cancelled",
    "cancelled-early": "a member saw its context cancelled before the outcome was decided (and the caller had not cancelled)",
    "err-iff": "the call erred / did not err against the strategy's rule",
    "first-error": "the returned error is not the first one observed",
    "winner": "the single result is not the strategy's (first success / first response / first in order)",
    "one-order": "One did not try the members in order until the first success",
    "own-index": "a result sits at another member's index",
    "result-length": "the result slice does not have one slot per member",
    "result-missing": "a successful member's result is missing from a successful call",
}


def run(ctx):
    thorough = ctx.tier == "thorough"
    # The model checks, the design variants, the case generation and the harness build do not depend on
    # each other: they run side by side (each TLC in its own scratch directory).
    pool = concurrent.futures.ThreadPoolExecutor(max_workers=6)
    # 1. MC: the design (buffered response channel, guarded placement, member error kinds never read) satisfies
    #    the contract on every behaviour: n in 0..MaxN x outcome vectors x every interleaving x 6 strategies x
    #    entry points (x aware members, context-like member errors, a cancelling caller for small n)
    jobs = [pool.submit(ctx.mc, "Group", "GroupMC.cfg",
                        consts={"MaxN": 5 if thorough else 4, "AwareN": 3 if thorough else 1,
                                "KindN": 3 if thorough else 2, "Cap": '"n"', "Guard": "TRUE", "StopOnCtxErr": "FALSE"},
                        workers=vf.NCPU, deadlock=False, timeout=3000)]
    #    ... and the model explains the two defects of the code as pinned
    base = {"AwareN": 0, "KindN": 0, "Cap": '"n"', "Guard": "TRUE", "StopOnCtxErr": "FALSE"}
    jobs.append(pool.submit(design_variant, ctx, "GroupPinnedLeak.cfg", dict(base, MaxN=3, Cap='"zero"'),
                            "EndedWhenNothingMoves"))
    jobs.append(pool.submit(design_variant, ctx, "GroupPinnedPanic.cfg", dict(base, MaxN=1, Guard="FALSE"), "NoPanic"))
    #    ... and a design that lets the kind of a *member's* error (context-like) stop ExecuteOne breaks the contract
    jobs.append(pool.submit(design_variant, ctx, "GroupStopOnCtxErr.cfg",
                            dict(base, MaxN=2, KindN=2, StopOnCtxErr="TRUE"), "ContractHolds"))
    jobs.append(pool.submit(ctx.harness, cmd="group"))

    # 2. Gen
    nrand = 100000 if thorough else 400
    gen_job = pool.submit(ctx.tlc, "GroupGen", "GroupGen.cfg",
                          consts={"MaxN": 4, "AwareN": 3 if thorough else 2, "KindN": 3 if thorough else 2,
                                  "NRand": nrand, "MaxRandN": 8},
                          workers=4, timeout=3000)
    try:
        gen = gen_job.result()
        for j in jobs:
            j.result()      # a failed model check / build is raised here (Inconclusive)
    finally:
        pool.shutdown(wait=True)
    cases = gen.cases()
    if len(cases) < 5316:
        raise vf.Inconclusive("Gen produced only %d cases\n%s" % (len(cases), gen.out[-2000:]))
    for k, c in enumerate(cases):
        c["id"] = k + 1
    cpath = ctx.write_ndjson("cases.ndjson", cases)

    # 3. replay on the real code
    obs_path = ctx.path("obs.ndjson")
    p = ctx.run_harness(["-cases", cpath, "-out", obs_path], cmd="group", timeout=3000, check=False)
    if p.crash:
        cur = p.crash["current"] or {}
        ctx.violation("C17/crash/%s/%s/%s" % (cur.get("strat", "?"), cur.get("api", "?"),
                                               "n=0" if cur.get("n") == 0 else "n>0"),
                      "the process died while executing the case: " + p.crash["message"], p.crash)
        return
    if p.returncode != 0:
        raise vf.Inconclusive("harness failed rc=%d:\n%s" % (p.returncode, p.stdout[-3000:]))
    obs = ctx.read_ndjson(obs_path)
    if len(obs) != len(cases):
        raise vf.Inconclusive("harness produced %d observations for %d cases" % (len(obs), len(cases)))
    noisy = [o["id"] for o in obs if not o["quiet"]]
    if noisy:
        raise vf.Inconclusive("the call did not become quiescent within the bound in cases %s" % noisy[:10])

    # 4. Trace: the contract predicates evaluated by TLC on the observations
    tr = ctx.tlc("GroupTrace", "GroupTrace.cfg", workers=1, files={"obs.ndjson": obs_path}, timeout=3000)
    if not any(l.startswith('"CHECKED %d"' % len(obs)) for l in tr.out.splitlines()):
        raise vf.Inconclusive("trace check did not cover all %d observations:\n%s" % (len(obs), tr.out[-3000:]))
    ctx.count(len(obs))
    ctx.cov["traces_validated_against_impl"] += len(obs)
    per_kind = collections.Counter(o["kind"] for o in obs)
    ctx.cov["cases_by_kind"] = dict(per_kind)
    ctx.cov["cases_by_strategy"] = dict(collections.Counter(o["strat"] for o in obs))
    ctx.cov["cases_by_entry_point"] = dict(collections.Counter(o["api"] for o in obs))
    failing = collections.Counter()
    for b in tr.cases("BAD "):
        o = obs[b["line"] - 1]
        for clause in b["fails"]:
            sig = "C17/%s/%s/%s/%s" % (clause, o["strat"], o["api"], klass(o))
            failing[sig] += 1
            ctx.violation(sig, "%s %s, %d members (%s): %s" % (o["api"], o["strat"], o["n"], o["kind"],
                                                               WHAT.get(clause, clause)), o)
    if failing:
        ctx.cov["notes"].append({"cases_failing_by_signature": dict(failing)})
    for o in obs:
        if o["n"] > 0:
            ctx.distinct((o["strat"], o["api"], o["plan"], o["aware"], o["order"]))
    for o in obs[:1] + obs[len(obs) // 2: len(obs) // 2 + 2] + obs[-2:]:
        ctx.sample(o)
    ctx.cov["rule"] = ("cases generated by TLC from spec/GroupGen.tla: exhaustively 0..4 members x every "
                       "success/failure vector x every completion order x 6 strategies x {ExecuteXxx directly, "
                       "Execute(strategy)}; for up to AwareN members also every set of cancellation-aware members "
                       "x every position of a caller-side cancel; for up to KindN members every assignment of error "
                       "kinds (plain, context.Canceled/DeadlineExceeded bare, %w-wrapped, gRPC status) to the failing "
                       "members x the caller's context live / cancelled / expired at every position; plus random cases "
                       "with up to 8 members, aware members, error kinds, caller cancel or deadline, also through onoffpb.Group.GetOnOff and "
                       "lightpb.Group.UpdateBrightness.  Each case is one call of the real code driven one member "
                       "return at a time; non-trivial = at least one member; distinct = distinct (strategy, entry "
                       "point, outcomes, aware set, order)")
    ctx.assumptions.append("response order = release order: after each release the harness waits until every "
                           "goroutine of the call is parked (runtime.Stack under stop-the-world); Go readies a "
                           "parked goroutine in the same step that unblocks it, so nothing is in flight")


MANIFEST = {
    "engine": "spec/GroupContract.tla + Group.tla (MC) + GroupGen.tla + GroupTrace.tla (TLC) + harness 'group'",
    "technique": "TLA+ process model of executeEach/collector/closer model-checked against the strategy contract "
                 "(safety + liveness); TLC enumerates every (members, outcomes, completion order, strategy) case; "
                 "the harness replays each on the real Execute* with gated members released one at a time and "
                 "TLC evaluates the contract predicates on the recorded outcomes",
    "text": "GroupContract.tla states the property as predicates over one call's outcome: the error rule of each "
            "strategy, first error observed, result at the member's own index, single result of One/Fast/Race, "
            "contexts cancelled after the decision, no panic, the call returns and no goroutine of the call "
            "remains. Group.tla models members, the response channel, the closer goroutine, the collector loop "
            "of each strategy and Execute's placement; TLC checks all behaviours for 0..4 members (every outcome "
            "vector, every interleaving, cancellation-aware members and a cancelling caller for small groups) "
            "against those predicates plus liveness (the call ends, all goroutines end), and refutes the leak / "
            "panic for the design parameters of the code as pinned. TLC then enumerates the same space as "
            "concrete cases (5 316 exhaustive + aware/cancel variants + random up to 8 members); the Go harness "
            "runs each on the real functions (and through the OnOff/Light group servers), releasing member "
            "gates in the chosen order and waiting for quiescence of the call's goroutines in between, and "
            "records return values, member context observations, recovered panics and left-over goroutines; "
            "TLC evaluates the contract on every record. Exhaustive for the listed bounds, not a proof for "
            "larger groups.",
    "note": "Trusted base: TLC 1.8.0; the harness's quiescence detection (goroutine dump filtered to pkg/group "
            "and harness frames, all parked) which makes the response order equal the release order without "
            "hooks in pkg/group; members are synthetic functions (gate, optional ctx.Done select). Not asserted "
            "because the text does not settle it: Any / One / Fast / Race results for zero members (only no "
            "panic, no left-over goroutine), cancellation when a success of Most/Any is already certain, the "
            "index returned together with an error.",
}
