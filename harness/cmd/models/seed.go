package main

import (
	"context"
	"time"
)

// pullSeed reads the first n messages of a Pull stream (the seed values a new subscriber is sent) and cancels
// the subscription.  ok = false: fewer than n arrived within the time limit.
func pullSeed[T any](open func(ctx context.Context) <-chan T, n int) (got []T, ok bool) {
	ctx, cancel := context.WithCancel(context.Background())
	defer cancel()
	ch := open(ctx)
	for len(got) < n {
		select {
		case v, more := <-ch:
			if !more {
				return got, false
			}
			got = append(got, v)
		case <-time.After(3 * time.Second):
			return got, false
		}
	}
	return got, true
}

// scriptedClock is what a {kind: "clock"} option of a configuration installs in models whose walk is not
// otherwise driven by a clock.
func scriptedClock() *tickClock { return &tickClock{now: 10} }
