// Command timeline replays the cases printed by spec/Timeline.tla (C18) on the
// real pkg/time, electricpb/segmentpb and electricpb/modepb functions and logs
// what they returned, one JSON line per case, for spec/TimelineTrace.tla.
//
// Abstraction (the trusted part):
//   - spec tick = 500 ms; a spec length of n ticks is durationpb.New(n*500ms), inf = nil Length;
//     magnitudes are small integers stored as float32
//   - a mode start of T ticks is base + T*500ms (base = 2023-11-14T22:13:20Z)
//   - results are converted back the same way; a value that is not a whole number
//     of ticks / not an integral magnitude sets exact=false (the trace check reports it)
//   - every argument message is cloned before the call and compared with
//     proto.Equal afterwards, and the argument slices are compared element by
//     element (pointer identity): the names of the calls that changed an argument go to "mut"
//   - random 64-bit timestamps are generated here (hx.Rand) and logged as three limbs of the
//     offset-binary seconds (22+21+21 bits, most significant first) plus nanos, because TLC
//     integers are 32 bit; the order on timestamps is the lexicographic order on these 4-tuples
package main

import (
	"fmt"
	"math"
	"time"

	"google.golang.org/protobuf/proto"
	"google.golang.org/protobuf/types/known/durationpb"
	"google.golang.org/protobuf/types/known/timestamppb"

	"github.com/smart-core-os/sc-api/go/traits"
	typestime "github.com/smart-core-os/sc-api/go/types/time"
	sctime "github.com/smart-core-os/sc-golang/pkg/time"
	"github.com/smart-core-os/sc-golang/pkg/trait/electricpb/modepb"
	"github.com/smart-core-os/sc-golang/pkg/trait/electricpb/segmentpb"
	"github.com/smart-core-os/sc-golang/verifharness/hx"
)

const tick = 500 * time.Millisecond

var base = time.Unix(1_700_000_000, 0).UTC()

// ---- spec-side shapes -------------------------------------------------------

type Ts struct {
	S int64 `json:"s"`
	N int32 `json:"n"`
}
type End struct {
	Has bool `json:"has"`
	T   Ts   `json:"t"`
}
type Period struct {
	S End `json:"s"`
	E End `json:"e"`
}
type Seg struct {
	M   int  `json:"m"`
	Inf bool `json:"inf"`
	Len int  `json:"len"`
}
type Mode struct {
	Nil  bool  `json:"nil"`
	Has  bool  `json:"has"`
	St   int   `json:"st"`
	Segs []Seg `json:"segs"`
}

type Case struct {
	K  string  `json:"k"`
	N  int     `json:"n"`
	P  *Period `json:"p,omitempty"`
	Q  *Period `json:"q,omitempty"`
	A  *Ts     `json:"a,omitempty"`
	B  *Ts     `json:"b,omitempty"`
	Sg *Seg    `json:"sg,omitempty"`
	L  []Seg   `json:"l,omitempty"`
	Ls [][]Seg `json:"ls,omitempty"`
	M  *Mode   `json:"m,omitempty"`
	Ms []Mode  `json:"ms,omitempty"`
	Ds []int   `json:"ds,omitempty"`
	Ts []int   `json:"ts,omitempty"`
}

// ---- observations -----------------------------------------------------------

type Act struct {
	El  int `json:"el"`
	Idx int `json:"idx"`
}
type MagOk struct {
	M  int  `json:"m"`
	Ok bool `json:"ok"`
}
type Dur struct {
	Total int  `json:"total"`
	Inf   bool `json:"inf"`
}
type SegCut struct {
	B       []Seg `json:"b"` // nil result = empty list
	A       []Seg `json:"a"`
	Outside bool  `json:"outside"`
}
type ModeCut struct {
	B       Mode `json:"b"`
	A       Mode `json:"a"`
	Outside bool `json:"outside"`
}

type PerObs struct {
	K     string   `json:"k"`
	P     Period   `json:"p"`
	Q     Period   `json:"q"`
	Ipq   bool     `json:"ipq"`
	Iqp   bool     `json:"iqp"`
	Cpq   bool     `json:"cpq"`
	Cqp   bool     `json:"cqp"`
	Mut   []string `json:"mut"`
	Panic string   `json:"panic"`
}
type CmpObs struct {
	K     string   `json:"k"`
	A     Ts       `json:"a"`
	B     Ts       `json:"b"`
	Rab   int      `json:"rab"`
	Rba   int      `json:"rba"`
	Mut   []string `json:"mut"`
	Panic string   `json:"panic"`
}
type Big struct {
	L   []int  `json:"l"` // limbs of seconds+2^63, most significant first
	N   int    `json:"n"`
	Txt string `json:"txt"` // for the witness only
}
type Cmp64Obs struct {
	K     string `json:"k"`
	Cls   string `json:"cls"`
	A     Big    `json:"a"`
	B     Big    `json:"b"`
	C     Big    `json:"c"`
	Rab   int    `json:"rab"`
	Rba   int    `json:"rba"`
	Rbc   int    `json:"rbc"`
	Rac   int    `json:"rac"`
	Panic string `json:"panic"`
}
type ListObs struct {
	K        string   `json:"k"`
	N        int      `json:"n"`
	L        []Seg    `json:"l"`
	Ds       []int    `json:"ds"`
	Act      []Act    `json:"act"`
	Mag      []MagOk  `json:"mag"`
	MaxAfter []int    `json:"maxafter"`
	Dur      Dur      `json:"dur"`
	Max      int      `json:"max"`
	MaxMag   int      `json:"maxmag"`
	Sh       [][]Seg  `json:"sh"`
	Mut      []string `json:"mut"`
	Exact    bool     `json:"exact"`
	Panic    string   `json:"panic"`
}
type CutObs struct {
	K     string   `json:"k"`
	Sg    Seg      `json:"sg"`
	Ds    []int    `json:"ds"`
	Res   []SegCut `json:"res"`
	Mut   []string `json:"mut"`
	Exact bool     `json:"exact"`
	Panic string   `json:"panic"`
}
type SumObs struct {
	K     string   `json:"k"`
	N     int      `json:"n"`
	Ls    [][]Seg  `json:"ls"`
	Out   []Seg    `json:"out"`
	Mut   []string `json:"mut"`
	Exact bool     `json:"exact"`
	Panic string   `json:"panic"`
}
type ModeObs struct {
	K        string    `json:"k"`
	N        int       `json:"n"`
	M        Mode      `json:"m"`
	Ts       []int     `json:"ts"`
	Ds       []int     `json:"ds"`
	Act      []Act     `json:"act"`
	Mag      []MagOk   `json:"mag"`
	MaxAfter []int     `json:"maxafter"`
	Cuts     []ModeCut `json:"cuts"`
	Sh       []Mode    `json:"sh"`
	Mut      []string  `json:"mut"`
	Exact    bool      `json:"exact"`
	Panic    string    `json:"panic"`
}
type MSumObs struct {
	K     string   `json:"k"`
	N     int      `json:"n"`
	Ms    []Mode   `json:"ms"`
	Out   Mode     `json:"out"`
	Mut   []string `json:"mut"`
	Exact bool     `json:"exact"`
	Panic string   `json:"panic"`
}

// ---- abstraction functions ----------------------------------------------------

func concTs(t Ts) *timestamppb.Timestamp { return &timestamppb.Timestamp{Seconds: t.S, Nanos: t.N} }

func concPeriod(p Period) *typestime.Period {
	r := &typestime.Period{}
	if p.S.Has {
		r.StartTime = concTs(p.S.T)
	}
	if p.E.Has {
		r.EndTime = concTs(p.E.T)
	}
	return r
}

func concSeg(s Seg) *traits.ElectricMode_Segment {
	r := &traits.ElectricMode_Segment{Magnitude: float32(s.M)}
	if !s.Inf {
		r.Length = durationpb.New(time.Duration(s.Len) * tick)
	}
	return r
}

func concList(l []Seg) []*traits.ElectricMode_Segment {
	r := make([]*traits.ElectricMode_Segment, 0, len(l))
	for _, s := range l {
		r = append(r, concSeg(s))
	}
	return r
}

func absTime(T int) time.Time { return base.Add(time.Duration(T) * tick) }

func concMode(m Mode) *traits.ElectricMode {
	r := &traits.ElectricMode{Id: "m", Title: "mode", Segments: concList(m.Segs)}
	if m.Has {
		r.StartTime = timestamppb.New(absTime(m.St))
	}
	return r
}

// exactness collector for one case
type ex struct{ ok bool }

const lim = 1 << 20

func (e *ex) ticks(d time.Duration) int {
	if d%tick != 0 || d/tick > lim || d/tick < -lim {
		e.ok = false
		q := d / tick
		if q > lim {
			q = lim
		}
		if q < -lim {
			q = -lim
		}
		return int(q)
	}
	return int(d / tick)
}

func (e *ex) mag(f float32) int {
	if math.IsNaN(float64(f)) || f != float32(math.Trunc(float64(f))) || f > lim || f < -lim {
		e.ok = false
		if f > lim {
			return lim
		}
		if f < -lim || math.IsNaN(float64(f)) {
			return -lim
		}
		return int(f)
	}
	return int(f)
}

func (e *ex) seg(s *traits.ElectricMode_Segment) Seg {
	if s == nil {
		e.ok = false
		return Seg{}
	}
	r := Seg{M: e.mag(s.Magnitude)}
	if s.Length == nil {
		r.Inf = true
	} else {
		if s.Length.CheckValid() != nil {
			e.ok = false
		}
		r.Len = e.ticks(s.Length.AsDuration())
	}
	return r
}

func (e *ex) list(l []*traits.ElectricMode_Segment) []Seg {
	r := make([]Seg, 0, len(l))
	for _, s := range l {
		r = append(r, e.seg(s))
	}
	return r
}

func (e *ex) one(s *traits.ElectricMode_Segment) []Seg {
	if s == nil {
		return []Seg{}
	}
	return []Seg{e.seg(s)}
}

func (e *ex) mode(m *traits.ElectricMode) Mode {
	if m == nil {
		return Mode{Nil: true, Segs: []Seg{}}
	}
	r := Mode{Segs: e.list(m.Segments)}
	if m.StartTime != nil {
		r.Has = true
		if m.StartTime.CheckValid() != nil {
			e.ok = false
		}
		r.St = e.ticks(m.StartTime.AsTime().Sub(base))
	}
	return r
}

// ---- argument mutation detection ------------------------------------------------

type guard struct {
	name  string
	check []func() bool
}

func newGuard(name string) *guard { return &guard{name: name} }

func (g *guard) msg(m proto.Message) {
	c := proto.Clone(m)
	g.check = append(g.check, func() bool { return proto.Equal(m, c) })
}

func (g *guard) segs(l []*traits.ElectricMode_Segment) {
	ptrs := append([]*traits.ElectricMode_Segment(nil), l...)
	full := l[:cap(l)] // a write beyond len into the caller's backing array is a mutation too
	fullPtrs := append([]*traits.ElectricMode_Segment(nil), full...)
	for _, s := range l {
		if s != nil {
			g.msg(s)
		}
	}
	g.check = append(g.check, func() bool {
		if len(l) != len(ptrs) {
			return false
		}
		for i := range ptrs {
			if l[i] != ptrs[i] {
				return false
			}
		}
		for i := range fullPtrs {
			if full[i] != fullPtrs[i] {
				return false
			}
		}
		return true
	})
}

// done appends the guard's name to mut if any argument changed
func (g *guard) done(mut *[]string) {
	for _, f := range g.check {
		if !f() {
			for _, n := range *mut {
				if n == g.name {
					return
				}
			}
			*mut = append(*mut, g.name)
			return
		}
	}
}

func clampR(r int) int {
	const c = 1 << 30
	if r > c {
		return c
	}
	if r < -c {
		return -c
	}
	return r
}

// ---- the cases -----------------------------------------------------------------

func runPer(c Case, out *hx.Out) {
	o := PerObs{K: "per", P: *c.P, Q: *c.Q, Mut: []string{}}
	o.Panic = hx.Catch(func() {
		p, q := concPeriod(*c.P), concPeriod(*c.Q)
		g := newGuard("PeriodsIntersect")
		g.msg(p)
		g.msg(q)
		o.Ipq = sctime.PeriodsIntersect(p, q)
		o.Iqp = sctime.PeriodsIntersect(q, p)
		g.done(&o.Mut)
		g = newGuard("PeriodsConnected")
		g.msg(p)
		g.msg(q)
		o.Cpq = sctime.PeriodsConnected(p, q)
		o.Cqp = sctime.PeriodsConnected(q, p)
		g.done(&o.Mut)
	})
	out.Write(o)
}

func runCmp(c Case, out *hx.Out) {
	o := CmpObs{K: "cmp", A: *c.A, B: *c.B, Mut: []string{}}
	o.Panic = hx.Catch(func() {
		a, b := concTs(*c.A), concTs(*c.B)
		g := newGuard("CompareAscending")
		g.msg(a)
		g.msg(b)
		o.Rab = clampR(sctime.CompareAscending(a, b))
		o.Rba = clampR(sctime.CompareAscending(b, a))
		g.done(&o.Mut)
	})
	out.Write(o)
}

func big(s int64, n int32) Big {
	u := uint64(s) ^ (1 << 63) // offset binary: order preserving
	return Big{L: []int{int(u >> 42), int((u >> 21) & (1<<21 - 1)), int(u & (1<<21 - 1))}, N: int(n),
		Txt: fmt.Sprintf("%d.%09d", s, n)}
}

func runCmp64(n int, out *hx.Out) {
	r := hx.Rand(18)
	nanos := func() int32 {
		switch r.Intn(4) {
		case 0:
			return 0
		case 1:
			return 999999999
		}
		return int32(r.Intn(1000000000))
	}
	const minValid, maxValid = -62135596800, 253402300799 // 0001-01-01 .. 9999-12-31
	for i := 0; i < n; i++ {
		var s [3]int64
		cls := ""
		switch i % 5 {
		case 0:
			cls = "uniform64"
			for j := range s {
				s[j] = int64(r.Uint64())
			}
		case 1:
			cls = "extremes64"
			for j := range s {
				switch r.Intn(4) {
				case 0:
					s[j] = math.MinInt64 + int64(r.Intn(3))
				case 1:
					s[j] = math.MaxInt64 - int64(r.Intn(3))
				case 2:
					s[j] = int64(r.Intn(5)) - 2
				default:
					s[j] = int64(r.Uint64())
				}
			}
		case 2:
			cls = "valid-range"
			for j := range s {
				s[j] = minValid + r.Int63n(maxValid-minValid+1)
			}
		case 3:
			cls = "valid-near"
			b := r.Int63n(maxValid - 10)
			for j := range s {
				s[j] = b + int64(r.Intn(7))
			}
		default:
			cls = "same-second"
			b := int64(r.Uint64())
			if i%2 == 0 {
				b = r.Int63n(maxValid)
			}
			for j := range s {
				s[j] = b
			}
		}
		var ts [3]*timestamppb.Timestamp
		var bs [3]Big
		for j := range s {
			nn := nanos()
			ts[j] = &timestamppb.Timestamp{Seconds: s[j], Nanos: nn}
			bs[j] = big(s[j], nn)
		}
		o := Cmp64Obs{K: "cmp64", Cls: cls, A: bs[0], B: bs[1], C: bs[2]}
		o.Panic = hx.Catch(func() {
			o.Rab = clampR(sctime.CompareAscending(ts[0], ts[1]))
			o.Rba = clampR(sctime.CompareAscending(ts[1], ts[0]))
			o.Rbc = clampR(sctime.CompareAscending(ts[1], ts[2]))
			o.Rac = clampR(sctime.CompareAscending(ts[0], ts[2]))
		})
		out.Write(o)
	}
}

func runList(c Case, out *hx.Out) {
	o := ListObs{K: "list", N: c.N, L: orEmpty(c.L), Ds: orEmptyI(c.Ds), Act: []Act{}, Mag: []MagOk{}, MaxAfter: []int{},
		Sh: [][]Seg{}, Mut: []string{}}
	e := &ex{ok: true}
	o.Panic = hx.Catch(func() {
		l := concList(c.L)
		g := newGuard("segmentpb.ActiveAt")
		g.segs(l)
		for _, d := range c.Ds {
			el, idx := segmentpb.ActiveAt(time.Duration(d)*tick, l...)
			o.Act = append(o.Act, Act{El: e.ticks(el), Idx: idx})
		}
		g.done(&o.Mut)
		g = newGuard("segmentpb.MagnitudeAt")
		g.segs(l)
		for _, d := range c.Ds {
			m, ok := segmentpb.MagnitudeAt(time.Duration(d)*tick, l...)
			o.Mag = append(o.Mag, MagOk{M: e.mag(m), Ok: ok})
		}
		g.done(&o.Mut)
		g = newGuard("segmentpb.MaxAfter")
		g.segs(l)
		for _, d := range c.Ds {
			o.MaxAfter = append(o.MaxAfter, segmentpb.MaxAfter(time.Duration(d)*tick, l...))
		}
		g.done(&o.Mut)
		g = newGuard("segmentpb.Duration")
		g.segs(l)
		tot, inf := segmentpb.Duration(l...)
		o.Dur = Dur{Total: e.ticks(tot), Inf: inf}
		g.done(&o.Mut)
		g = newGuard("segmentpb.Max")
		g.segs(l)
		o.Max = segmentpb.Max(l...)
		o.MaxMag = e.mag(segmentpb.MaxMagnitude(l...))
		g.done(&o.Mut)
		g = newGuard("segmentpb.Shift")
		g.segs(l)
		for _, d := range c.Ds {
			res := segmentpb.Shift(time.Duration(d)*tick, l...)
			o.Sh = append(o.Sh, e.list(res))
			g.done(&o.Mut)
		}
	})
	o.Exact = e.ok
	out.Write(o)
}

func runCut(c Case, out *hx.Out) {
	o := CutObs{K: "cut", Sg: *c.Sg, Ds: orEmptyI(c.Ds), Res: []SegCut{}, Mut: []string{}}
	e := &ex{ok: true}
	o.Panic = hx.Catch(func() {
		s := concSeg(*c.Sg)
		g := newGuard("segmentpb.Cut")
		g.msg(s)
		for _, d := range c.Ds {
			b, a, outside := segmentpb.Cut(time.Duration(d)*tick, s)
			o.Res = append(o.Res, SegCut{B: e.one(b), A: e.one(a), Outside: outside})
			g.done(&o.Mut)
		}
	})
	o.Exact = e.ok
	out.Write(o)
}

func runSum(c Case, out *hx.Out) {
	o := SumObs{K: "sum", N: c.N, Ls: c.Ls, Out: []Seg{}, Mut: []string{}}
	for i := range o.Ls {
		o.Ls[i] = orEmpty(o.Ls[i])
	}
	e := &ex{ok: true}
	o.Panic = hx.Catch(func() {
		ls := make([][]*traits.ElectricMode_Segment, len(c.Ls))
		g := newGuard("segmentpb.Sum")
		for i := range c.Ls {
			ls[i] = concList(c.Ls[i])
			g.segs(ls[i])
		}
		outer := append([][]*traits.ElectricMode_Segment(nil), ls...)
		res := segmentpb.Sum(ls...)
		o.Out = e.list(res)
		g.done(&o.Mut)
		for i := range ls { // the slice of slices itself
			if len(ls[i]) != len(outer[i]) || (len(ls[i]) > 0 && &ls[i][0] != &outer[i][0]) {
				o.Mut = append(o.Mut, "segmentpb.Sum")
				break
			}
		}
	})
	o.Exact = e.ok
	out.Write(o)
}

func runMode(c Case, out *hx.Out) {
	o := ModeObs{K: "mode", N: c.N, M: *c.M, Ts: orEmptyI(c.Ts), Ds: orEmptyI(c.Ds), Act: []Act{}, Mag: []MagOk{},
		MaxAfter: []int{}, Cuts: []ModeCut{}, Sh: []Mode{}, Mut: []string{}}
	o.M.Segs = orEmpty(o.M.Segs)
	e := &ex{ok: true}
	o.Panic = hx.Catch(func() {
		m := concMode(*c.M)
		for _, T := range c.Ts {
			t := absTime(T)
			g := newGuard("modepb.ActiveAt")
			g.msg(m)
			g.segs(m.Segments)
			el, idx := modepb.ActiveAt(t, m)
			o.Act = append(o.Act, Act{El: e.ticks(el), Idx: idx})
			g.done(&o.Mut)
			g = newGuard("modepb.MagnitudeAt")
			g.msg(m)
			g.segs(m.Segments)
			mg, ok := modepb.MagnitudeAt(t, m)
			o.Mag = append(o.Mag, MagOk{M: e.mag(mg), Ok: ok})
			g.done(&o.Mut)
			g = newGuard("modepb.MaxSegmentAfter")
			g.msg(m)
			g.segs(m.Segments)
			o.MaxAfter = append(o.MaxAfter, modepb.MaxSegmentAfter(t, m))
			g.done(&o.Mut)
			g = newGuard("modepb.Cut")
			g.msg(m)
			g.segs(m.Segments)
			b, a, outside := modepb.Cut(t, m)
			o.Cuts = append(o.Cuts, ModeCut{B: e.mode(b), A: e.mode(a), Outside: outside})
			g.done(&o.Mut)
		}
		for _, d := range c.Ds {
			g := newGuard("modepb.Shift")
			g.msg(m)
			g.segs(m.Segments)
			res := modepb.Shift(time.Duration(d)*tick, m)
			o.Sh = append(o.Sh, e.mode(res))
			g.done(&o.Mut)
		}
	})
	o.Exact = e.ok
	out.Write(o)
}

func runMSum(c Case, out *hx.Out) {
	o := MSumObs{K: "msum", N: c.N, Ms: c.Ms, Out: Mode{Nil: true, Segs: []Seg{}}, Mut: []string{}}
	for i := range o.Ms {
		o.Ms[i].Segs = orEmpty(o.Ms[i].Segs)
	}
	e := &ex{ok: true}
	o.Panic = hx.Catch(func() {
		ms := make([]*traits.ElectricMode, len(c.Ms))
		g := newGuard("modepb.Sum")
		for i := range c.Ms {
			ms[i] = concMode(c.Ms[i])
			g.msg(ms[i])
			g.segs(ms[i].Segments)
		}
		res := modepb.Sum(ms...)
		o.Out = e.mode(res)
		g.done(&o.Mut)
	})
	o.Exact = e.ok
	out.Write(o)
}

func orEmpty(l []Seg) []Seg {
	if l == nil {
		return []Seg{}
	}
	return l
}

func orEmptyI(l []int) []int {
	if l == nil {
		return []int{}
	}
	return l
}

func main() {
	cases := hx.ReadCases[Case](hx.Arg("-cases", "cases.ndjson"))
	out := hx.NewOut(hx.Arg("-out", "obs.ndjson"))
	defer out.Close()
	for _, c := range cases {
		switch c.K {
		case "per":
			runPer(c, out)
		case "cmp":
			runCmp(c, out)
		case "list":
			hx.Current(c)
			runList(c, out)
		case "cut":
			hx.Current(c)
			runCut(c, out)
		case "sum":
			hx.Current(c)
			runSum(c, out)
		case "mode":
			hx.Current(c)
			runMode(c, out)
		case "msum":
			hx.Current(c)
			runMSum(c, out)
		default:
			hx.Fatal("unknown case kind %q", c.K)
		}
	}
	runCmp64(hx.ArgInt("-n64", 2000), out)
}
