// Package mini is the abstraction function between spec/Msg.tla messages and
// internal/testproto.TestAllTypes: Conc builds the concrete message for an
// abstract one, Abs projects a concrete message back (and reports anything
// populated outside the miniature schema), masks are translated segment by
// segment.
package mini

import (
	"encoding/json"
	"fmt"
	"sort"
	"strings"

	"google.golang.org/protobuf/proto"
	"google.golang.org/protobuf/reflect/protoreflect"
	"google.golang.org/protobuf/types/known/fieldmaskpb"

	"github.com/smart-core-os/sc-golang/internal/testproto"
)

type N struct {
	P  bool `json:"p"`
	A  int  `json:"a"`
	Cp bool `json:"cp"`
	Ci int  `json:"ci"`
}
type F struct {
	P bool `json:"p"`
	C int  `json:"c"`
	D int  `json:"d"`
}
type CD struct {
	C int `json:"c"`
	D int `json:"d"`
}
type M struct {
	K1 int `json:"k1"`
	K2 int `json:"k2"`
}
type U struct {
	K   int `json:"k"`
	Ui  int `json:"ui"`
	Una int `json:"una"`
}

// Msg mirrors the flat record of spec/Msg.tla.
type Msg struct {
	I  int   `json:"i"`
	S  int   `json:"s"`
	O  int   `json:"o"`
	N  N     `json:"n"`
	F  F     `json:"f"`
	R  []int `json:"r"`
	Rm []CD  `json:"rm"`
	M  M     `json:"m"`
	U  U     `json:"u"`
	// X lists populated fields outside the miniature schema (never produced by the spec).
	X []string `json:"x,omitempty"`
}

func Empty() Msg { return Msg{O: -1, R: []int{}, Rm: []CD{}, X: []string{}} }

// MarshalJSON never emits null for the sequence-valued fields (TLC would read
// null as a different type than an empty tuple).
func (m Msg) MarshalJSON() ([]byte, error) {
	type plain Msg
	p := plain(m)
	if p.R == nil {
		p.R = []int{}
	}
	if p.Rm == nil {
		p.Rm = []CD{}
	}
	if len(p.X) == 0 {
		p.X = nil // omitted: a message with foreign fields is then simply unequal to any spec message
	}
	return json.Marshal(p)
}

func (m Mask) MarshalJSON() ([]byte, error) {
	type plain Mask
	p := plain(m)
	if p.Paths == nil {
		p.Paths = [][]string{}
	}
	return json.Marshal(p)
}

func str(k int) string {
	if k == 0 {
		return ""
	}
	return fmt.Sprintf("s%d", k)
}
func unstr(s string) int {
	if s == "" {
		return 0
	}
	var k int
	if _, err := fmt.Sscanf(s, "s%d", &k); err != nil {
		return -99
	}
	return k
}

// Conc builds the TestAllTypes message an abstract message stands for.
func Conc(a Msg) *testproto.TestAllTypes {
	t := &testproto.TestAllTypes{}
	t.DefaultInt32 = int32(a.I)
	t.DefaultString = str(a.S)
	if a.O >= 0 {
		t.OptionalInt32 = proto.Int32(int32(a.O))
	}
	if a.N.P {
		t.DefaultNestedMessage = &testproto.TestAllTypes_NestedMessage{A: int32(a.N.A)}
		if a.N.Cp {
			t.DefaultNestedMessage.Corecursive = &testproto.TestAllTypes{DefaultInt32: int32(a.N.Ci)}
		}
	}
	if a.F.P {
		t.DefaultForeignMessage = &testproto.ForeignMessage{C: int32(a.F.C), D: int32(a.F.D)}
	}
	for _, v := range a.R {
		t.RepeatedInt32 = append(t.RepeatedInt32, int32(v))
	}
	for _, v := range a.Rm {
		t.RepeatedForeignMessage = append(t.RepeatedForeignMessage, &testproto.ForeignMessage{C: int32(v.C), D: int32(v.D)})
	}
	if a.M.K1 != 0 || a.M.K2 != 0 {
		t.MapStringString = map[string]string{}
		if a.M.K1 != 0 {
			t.MapStringString["k1"] = str(a.M.K1)
		}
		if a.M.K2 != 0 {
			t.MapStringString["k2"] = str(a.M.K2)
		}
	}
	switch a.U.K {
	case 1:
		t.OneofDefault = &testproto.TestAllTypes_OneofDefaultInt32{OneofDefaultInt32: int32(a.U.Ui)}
	case 2:
		t.OneofDefault = &testproto.TestAllTypes_OneofDefaultNestedMessage{
			OneofDefaultNestedMessage: &testproto.TestAllTypes_NestedMessage{A: int32(a.U.Una)}}
	}
	return t
}

// Abs projects a concrete message onto the miniature schema.
func Abs(pm proto.Message) Msg {
	a := Empty()
	if pm == nil {
		a.X = append(a.X, "<nil>")
		return a
	}
	t, ok := pm.(*testproto.TestAllTypes)
	if !ok {
		a.X = append(a.X, "<type:"+string(pm.ProtoReflect().Descriptor().FullName())+">")
		return a
	}
	if t == nil {
		a.X = append(a.X, "<typed-nil>")
		return a
	}
	known := map[string]bool{"default_int32": true, "default_string": true, "optional_int32": true,
		"default_nested_message": true, "default_foreign_message": true, "repeated_int32": true,
		"repeated_foreign_message": true, "map_string_string": true, "oneof_default_int32": true,
		"oneof_default_nested_message": true}
	t.ProtoReflect().Range(func(fd protoreflect.FieldDescriptor, v protoreflect.Value) bool {
		if !known[string(fd.Name())] {
			a.X = append(a.X, string(fd.Name()))
		}
		return true
	})
	if len(t.ProtoReflect().GetUnknown()) > 0 {
		a.X = append(a.X, "<unknown-fields>")
	}
	a.I = int(t.DefaultInt32)
	a.S = unstr(t.DefaultString)
	if t.OptionalInt32 != nil {
		a.O = int(*t.OptionalInt32)
	}
	absNested := func(n *testproto.TestAllTypes_NestedMessage, where string) (int, bool, int) {
		cp, ci := false, 0
		if n.Corecursive != nil {
			cp = true
			ci = int(n.Corecursive.DefaultInt32)
			inner := proto.Clone(n.Corecursive).(*testproto.TestAllTypes)
			inner.DefaultInt32 = 0
			if !proto.Equal(inner, &testproto.TestAllTypes{}) {
				a.X = append(a.X, where+".corecursive.*")
			}
		}
		return int(n.A), cp, ci
	}
	if n := t.DefaultNestedMessage; n != nil {
		a.N.P = true
		a.N.A, a.N.Cp, a.N.Ci = absNested(n, "default_nested_message")
	}
	if f := t.DefaultForeignMessage; f != nil {
		a.F = F{P: true, C: int(f.C), D: int(f.D)}
	}
	for _, v := range t.RepeatedInt32 {
		a.R = append(a.R, int(v))
	}
	for _, v := range t.RepeatedForeignMessage {
		if v == nil {
			a.Rm = append(a.Rm, CD{})
			continue
		}
		a.Rm = append(a.Rm, CD{C: int(v.C), D: int(v.D)})
	}
	for k, v := range t.MapStringString {
		switch k {
		case "k1":
			a.M.K1 = unstr(v)
			if v == "" {
				a.M.K1 = -98
			}
		case "k2":
			a.M.K2 = unstr(v)
			if v == "" {
				a.M.K2 = -98
			}
		default:
			a.X = append(a.X, "map_string_string["+k+"]")
		}
	}
	switch o := t.OneofDefault.(type) {
	case *testproto.TestAllTypes_OneofDefaultInt32:
		a.U = U{K: 1, Ui: int(o.OneofDefaultInt32)}
	case *testproto.TestAllTypes_OneofDefaultNestedMessage:
		a.U = U{K: 2}
		if o.OneofDefaultNestedMessage != nil {
			una, cp, _ := absNested(o.OneofDefaultNestedMessage, "oneof_default_nested_message")
			a.U.Una = una
			if cp {
				a.X = append(a.X, "oneof_default_nested_message.corecursive")
			}
		}
	}
	sort.Strings(a.X)
	return a
}

// Mask mirrors [nil |-> BOOLEAN, paths |-> Seq(Seq(STRING))].
type Mask struct {
	Nil   bool       `json:"nil"`
	Paths [][]string `json:"paths"`
}

var top = map[string]string{
	"i": "default_int32", "s": "default_string", "o": "optional_int32",
	"n": "default_nested_message", "f": "default_foreign_message",
	"r": "repeated_int32", "rm": "repeated_foreign_message", "m": "map_string_string",
	"ui": "oneof_default_int32", "un": "oneof_default_nested_message",
}

// ConcPath translates <<"n","c","i">> to "default_nested_message.corecursive.default_int32".
func ConcPath(p []string) string {
	out := make([]string, 0, len(p))
	for k, seg := range p {
		switch {
		case k == 0:
			if v, ok := top[seg]; ok {
				out = append(out, v)
			} else {
				out = append(out, seg)
			}
		case k == 1 && (p[0] == "n" || p[0] == "un") && seg == "c":
			out = append(out, "corecursive")
		case k == 2 && p[0] == "n" && p[1] == "c" && seg == "i":
			out = append(out, "default_int32")
		default:
			out = append(out, seg)
		}
	}
	return strings.Join(out, ".")
}

func ConcMask(m Mask) *fieldmaskpb.FieldMask {
	if m.Nil {
		return nil
	}
	fm := &fieldmaskpb.FieldMask{Paths: []string{}}
	for _, p := range m.Paths {
		fm.Paths = append(fm.Paths, ConcPath(p))
	}
	return fm
}
